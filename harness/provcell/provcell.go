// Package provcell runs ONE cell of the provider matrix of C08 / C14 against the REAL pandora providers,
// constructed through their public constructors, and returns what consumers and the caller of Provider.Run observe.
//
// A cell = (provider kind, preload, limit, passes, file of n tagged entries, chosencases, consumers, cancel cap).
// The ammo file lives in an in-memory afero filesystem wrapped by a counting layer: every Read/Seek on the ammo
// file is counted (this is the "steps" observable used for the no-spin part of C08) and the layer has a kill
// switch that makes a spinning provider fail with an I/O error after the watchdog has classified it, so that a
// runaway goroutine never outlives its cell.
package provcell

import (
	"context"
	"errors"
	"fmt"
	"io"
	"net/http"
	"os"
	"strconv"
	"strings"
	"sync"
	"sync/atomic"
	"time"

	"github.com/spf13/afero"
	grpcammo "github.com/yandex/pandora/components/providers/grpc"
	"github.com/yandex/pandora/components/providers/grpc/grpcjson"
	grpcscngun "github.com/yandex/pandora/components/guns/grpc/scenario"
	httpscngun "github.com/yandex/pandora/components/guns/http_scenario"
	httpprov "github.com/yandex/pandora/components/providers/http"
	httpconf "github.com/yandex/pandora/components/providers/http/config"
	"github.com/yandex/pandora/components/providers/http/decoders"
	"github.com/yandex/pandora/components/providers/scenario"
	scngrpc "github.com/yandex/pandora/components/providers/scenario/grpc"
	scnhttp "github.com/yandex/pandora/components/providers/scenario/http"
	"github.com/yandex/pandora/core"
	"github.com/yandex/pandora/core/aggregator/netsample"
	"github.com/yandex/pandora/core/datasource"
	coreprov "github.com/yandex/pandora/core/provider"
	"go.uber.org/zap"
)

// Kinds of provider cells.
const (
	KURI      = "uri"
	KURIPost  = "uripost"
	KRaw      = "raw"
	KJSONLine = "jsonl"   // http/json, one object per line
	KJSONArr  = "jsonarr" // http/json, one array
	KGRPCJSON = "grpcjson"
	KHTTPScn  = "httpscn"
	KGRPCScn  = "grpcscn"
	KGenJSON  = "genjson" // core/provider NewJSONProvider
)

// HTTPKinds are the kinds that have a preload switch and a chosencases filter (components/providers/http).
var HTTPKinds = []string{KURI, KURIPost, KRaw, KJSONLine, KJSONArr}

// OtherKinds have neither.
var OtherKinds = []string{KGRPCJSON, KHTTPScn, KGRPCScn, KGenJSON}

func IsHTTP(kind string) bool {
	for _, k := range HTTPKinds {
		if k == kind {
			return true
		}
	}
	return false
}

type Cell struct {
	Kind    string
	Preload bool
	Limit   int
	Passes  int
	Tags    []string // one per entry; entry i has identity i
	Chosen  []string // nil = no chosencases
	Cons    int
	Cap     int  // cancel the context when this many ammo have been acquired (0 = never)
	Junk    bool // add header / blank lines that are not entries where the format allows it
	Tick    time.Duration
}

type Obs struct {
	Construct string // "" or constructor error
	Seq       []int  // entry identities in acquisition order (only meaningful with one consumer), up to Cap
	SeqTags   []string
	Delivered int
	Cut       bool   // cap reached, context cancelled by the harness
	Run       string // nil|canceled|limit|passes|noammo|other:<..>|noreturn
	End       string // closed (every consumer saw ok=false) | blocked | spinning
	Ops       int64  // Read+Seek calls on the ammo file
	CancelOK  bool   // only for stuck cells: Run returned after cancel (before the kill switch)
}

// ---------------------------------------------------------------- counting filesystem

type cellIO struct {
	ops    atomic.Int64
	killed atomic.Bool
}

var errKilled = errors.New("verif: ammo file killed by watchdog")

type countFs struct {
	afero.Fs
	io *cellIO
}

func (c *countFs) Open(name string) (afero.File, error) {
	f, err := c.Fs.Open(name)
	if err != nil {
		return nil, err
	}
	return &countFile{File: f, io: c.io}, nil
}

func (c *countFs) OpenFile(name string, flag int, perm os.FileMode) (afero.File, error) {
	f, err := c.Fs.OpenFile(name, flag, perm)
	if err != nil {
		return nil, err
	}
	return &countFile{File: f, io: c.io}, nil
}

type countFile struct {
	afero.File
	io *cellIO
}

func (f *countFile) Read(p []byte) (int, error) {
	f.io.ops.Add(1)
	if f.io.killed.Load() {
		return 0, errKilled
	}
	return f.File.Read(p)
}

func (f *countFile) Seek(off int64, whence int) (int64, error) {
	f.io.ops.Add(1)
	if f.io.killed.Load() {
		return 0, errKilled
	}
	return f.File.Seek(off, whence)
}

// ---------------------------------------------------------------- ammo files

func entryPath(i int) string { return "/e" + strconv.Itoa(i) }

func identOfPath(p string) int {
	if strings.HasPrefix(p, "/e") {
		if i, err := strconv.Atoi(p[2:]); err == nil {
			return i
		}
	}
	return -1
}

// FileFor renders the ammo file of a cell (name, content).
func FileFor(c Cell) (string, string) {
	var b strings.Builder
	switch c.Kind {
	case KURI:
		if c.Junk {
			b.WriteString("[X-Common: yes]\n\n")
		}
		for i, t := range c.Tags {
			fmt.Fprintf(&b, "%s %s\n", entryPath(i), t)
			if c.Junk && i == 0 {
				b.WriteString("[X-Later: 1]\n")
			}
		}
		return "/ammo.uri", b.String()
	case KURIPost:
		if c.Junk {
			b.WriteString("[X-Common: yes]\n")
		}
		for i, t := range c.Tags {
			body := ""
			if i%2 == 0 {
				body = fmt.Sprintf("body-%d", i)
			}
			fmt.Fprintf(&b, "%d %s %s\n%s", len(body), entryPath(i), t, body)
			if body != "" || c.Junk {
				b.WriteString("\n")
			}
		}
		return "/ammo.uripost", b.String()
	case KRaw:
		for i, t := range c.Tags {
			req := fmt.Sprintf("GET %s HTTP/1.1\r\nHost: h.example\r\nX-I: %d\r\n\r\n", entryPath(i), i)
			fmt.Fprintf(&b, "%d %s\n%s", len(req), t, req)
			if c.Junk {
				b.WriteString("\n")
			}
		}
		return "/ammo.raw", b.String()
	case KJSONLine:
		for i, t := range c.Tags {
			fmt.Fprintf(&b, `{"host":"h.example","method":"GET","uri":"%s","tag":"%s","headers":{"X-I":"%d"}}`+"\n", entryPath(i), t, i)
			if c.Junk && i == 0 {
				b.WriteString("\n")
			}
		}
		return "/ammo.jsonl", b.String()
	case KJSONArr:
		b.WriteString("[")
		for i, t := range c.Tags {
			if i > 0 {
				b.WriteString(",")
			}
			if c.Junk {
				b.WriteString("\n  ")
			}
			fmt.Fprintf(&b, `{"host":"h.example","method":"GET","uri":"%s","tag":"%s"}`, entryPath(i), t)
		}
		b.WriteString("]")
		if c.Junk {
			b.WriteString("\n")
		}
		return "/ammo.json", b.String()
	case KGRPCJSON:
		for i, t := range c.Tags {
			fmt.Fprintf(&b, `{"tag":"%s","call":"pkg.Svc.M%d","payload":{"i":%d}}`+"\n", t, i, i)
		}
		return "/ammo.grpc.json", b.String()
	case KGenJSON:
		for i, t := range c.Tags {
			fmt.Fprintf(&b, `{"I":%d,"Tag":"%s"}`, i, t)
			if c.Junk {
				b.WriteString(" ")
			} else {
				b.WriteString("\n")
			}
		}
		return "/ammo.gen.json", b.String()
	case KHTTPScn:
		b.WriteString("requests:\n")
		b.WriteString("  - name: r\n    method: GET\n    uri: /r\n    tag: r\n")
		b.WriteString("scenarios:\n")
		for i := range c.Tags {
			fmt.Fprintf(&b, "  - name: e%d\n    weight: 1\n    min_waiting_time: 0\n    requests: [\"r\"]\n", i)
		}
		return "/ammo.http.yaml", b.String()
	case KGRPCScn:
		b.WriteString("calls:\n")
		b.WriteString("  - name: c\n    call: pkg.Svc.M\n    tag: c\n    payload: '{}'\n")
		b.WriteString("scenarios:\n")
		for i := range c.Tags {
			fmt.Fprintf(&b, "  - name: e%d\n    weight: 1\n    min_waiting_time: 0\n    requests: [\"c\"]\n", i)
		}
		return "/ammo.grpc.yaml", b.String()
	}
	return "/ammo", ""
}

// GenAmmo is the ammo type of the generic JSON provider cells.
type GenAmmo struct {
	I   int
	Tag string
}

// ---------------------------------------------------------------- construction through the public constructors

func construct(c Cell, fs afero.Fs, path string) (core.Provider, error) {
	switch c.Kind {
	case KURI, KURIPost, KRaw, KJSONLine, KJSONArr:
		conf := httpconf.Config{
			File:        path,
			Limit:       uint(c.Limit),
			Passes:      uint(c.Passes),
			Preload:     c.Preload,
			ChosenCases: c.Chosen,
		}
		switch c.Kind {
		case KURI:
			conf.Decoder = httpconf.DecoderURI
		case KURIPost:
			conf.Decoder = httpconf.DecoderURIPost
		case KRaw:
			conf.Decoder = httpconf.DecoderRaw
		default:
			conf.Decoder = httpconf.DecoderJSONLine
		}
		return httpprov.NewProvider(fs, conf)
	case KGRPCJSON:
		return grpcjson.NewProvider(fs, grpcjson.Config{File: path, Limit: c.Limit, Passes: c.Passes, ChosenCases: c.Chosen}), nil
	case KHTTPScn:
		return scnhttp.NewProvider(fs, scenario.ProviderConfig{File: path, Limit: uint(c.Limit), Passes: uint(c.Passes)})
	case KGRPCScn:
		return scngrpc.NewProvider(fs, scenario.ProviderConfig{File: path, Limit: uint(c.Limit), Passes: uint(c.Passes)})
	case KGenJSON:
		conf := coreprov.DefaultJSONProviderConfig()
		conf.Decode.Source = datasource.NewFile(fs, datasource.FileConfig{Path: path})
		conf.Decode.Limit = c.Limit
		conf.Decode.Passes = c.Passes
		return coreprov.NewJSONProvider(func() core.Ammo { return &GenAmmo{} }, conf), nil
	}
	return nil, fmt.Errorf("unknown kind %q", c.Kind)
}

type httpGunAmmo interface {
	Request() (*http.Request, *netsample.Sample)
}

// identify returns (entry identity, tag) of an acquired ammo.
func identify(kind string, a core.Ammo) (int, string) {
	switch v := a.(type) {
	case httpGunAmmo:
		req, sample := v.Request()
		tag := sample.Tags()
		if req == nil || req.URL == nil {
			return -1, tag
		}
		return identOfPath(req.URL.Path), tag
	case *grpcammo.Ammo:
		i := -1
		if strings.HasPrefix(v.Call, "pkg.Svc.M") {
			if n, err := strconv.Atoi(v.Call[len("pkg.Svc.M"):]); err == nil {
				i = n
			}
		}
		return i, v.Tag
	case *httpscngun.Scenario:
		return identOfPath("/" + v.Name), v.Name
	case *grpcscngun.Scenario:
		return identOfPath("/" + v.Name), v.Name
	case *GenAmmo:
		return v.I, v.Tag
	}
	return -2, fmt.Sprintf("%T", a)
}

func classifyErr(err error) string {
	switch {
	case err == nil:
		return "nil"
	case errors.Is(err, context.Canceled):
		return "canceled"
	case errors.Is(err, decoders.ErrAmmoLimit):
		return "limit"
	case errors.Is(err, decoders.ErrPassLimit):
		return "passes"
	case errors.Is(err, decoders.ErrNoAmmo):
		return "noammo"
	case errors.Is(err, errKilled):
		return "killed"
	}
	s := err.Error()
	s = strings.Map(func(r rune) rune {
		if r == ' ' || r == '\t' || r == '\n' || r == '=' {
			return '_'
		}
		return r
	}, s)
	if len(s) > 60 {
		s = s[:60]
	}
	return "other:" + s
}

// ---------------------------------------------------------------- one cell

// Run executes the cell; a cell that looks stuck is executed a second time and reported as stuck only if both
// executions were (the second observation is returned).
func Run(c Cell) Obs {
	o := runOnce(c)
	if o.End != "closed" || o.Run == "noreturn" {
		o = runOnce(c)
	}
	return o
}

func runOnce(c Cell) Obs {
	var obs Obs
	cio := &cellIO{}
	mem := afero.NewMemMapFs()
	path, content := FileFor(c)
	if err := afero.WriteFile(mem, path, []byte(content), 0o644); err != nil {
		obs.Construct = "harness:" + err.Error()
		return obs
	}
	fs := &countFs{Fs: mem, io: cio}
	p, err := construct(c, fs, path)
	if err != nil {
		obs.Construct = classifyErr(err)
		return obs
	}
	tick := c.Tick
	if tick == 0 {
		tick = 250 * time.Millisecond
	}
	ctx, cancel := context.WithCancel(context.Background())
	defer cancel()

	var events atomic.Int64 // deliveries + consumer exits + run return
	var mu sync.Mutex
	var acquired atomic.Int64

	runDone := make(chan error, 1)
	go func() {
		err := p.Run(ctx, core.ProviderDeps{Log: zap.NewNop(), PoolID: "c08"})
		events.Add(1)
		runDone <- err
	}()

	cons := c.Cons
	if cons <= 0 {
		cons = 1
	}
	var ended atomic.Int64
	consDone := make(chan struct{}, cons)
	const drainMax = 50000
	for w := 0; w < cons; w++ {
		go func() {
			defer func() { consDone <- struct{}{} }()
			drained := 0
			for {
				a, ok := p.Acquire()
				if !ok {
					ended.Add(1)
					events.Add(1)
					return
				}
				k := int(acquired.Add(1))
				if c.Cap == 0 || k <= c.Cap {
					id, tag := identify(c.Kind, a)
					mu.Lock()
					obs.Seq = append(obs.Seq, id)
					obs.SeqTags = append(obs.SeqTags, tag)
					obs.Delivered++
					mu.Unlock()
					events.Add(1)
					if c.Cap != 0 && k == c.Cap {
						mu.Lock()
						obs.Cut = true
						mu.Unlock()
						cancel()
					}
				} else {
					drained++
					if drained > drainMax {
						return // never ends: reported as not closed
					}
				}
				p.Release(a)
			}
		}()
	}

	// wait for Run and all consumers, watching progress
	var runErr error
	runReturned := false
	consLeft := cons
	lastEvents := events.Load()
	lastOps := cio.ops.Load()
	still := 0
	spinning := false
	t := time.NewTicker(tick)
	defer t.Stop()
	stuck := false
	for !(runReturned && consLeft == 0) && !stuck {
		select {
		case runErr = <-runDone:
			runReturned = true
		case <-consDone:
			consLeft--
		case <-t.C:
			ev, ops := events.Load(), cio.ops.Load()
			if ev == lastEvents {
				still++
				spinning = ops != lastOps
			} else {
				still = 0
			}
			lastEvents, lastOps = ev, ops
			if still >= 2 {
				stuck = true
			}
		}
	}
	obs.Ops = cio.ops.Load()
	if runReturned {
		obs.Run = classifyErr(runErr)
	} else {
		obs.Run = "noreturn"
	}
	if int(ended.Load()) == cons {
		obs.End = "closed"
	} else if spinning {
		obs.End = "spinning"
	} else {
		obs.End = "blocked"
	}
	if stuck {
		// does cancel help? then make sure nothing keeps running
		cancel()
		if !runReturned {
			select {
			case <-runDone:
				obs.CancelOK = true
				runReturned = true
			case <-time.After(tick):
			}
		}
		cio.killed.Store(true)
		if !runReturned {
			select {
			case <-runDone:
			case <-time.After(4 * tick):
			}
		}
	}
	mu.Lock()
	defer mu.Unlock()
	// copy under lock: leaked consumers of a never-closed sink may still hold references
	obs.Seq = append([]int(nil), obs.Seq...)
	obs.SeqTags = append([]string(nil), obs.SeqTags...)
	return obs
}

var _ = io.EOF
