// Package drv is the correspondence-driver framework: a driver runs the REAL pandora code (built from /repo's working tree,
// build tag verif) on corpus + generated cases of one property and writes
//
//	<out>/cases.tsv   caseid \t input \t implementation-observation
//	<out>/stats.json  measured coverage counters
//
// Each property lives in its own file cNN.go and registers a Prop in init().
// Inputs and observations are single-line strings without TABs; the compiled
// Lean driver (lean/Main.lean) reads the same lines, computes the model's
// observation from the input and evaluates the executable Spec on the
// implementation's observation.
package drv

import (
	"bufio"
	"encoding/json"
	"flag"
	"fmt"
	"math/rand"
	"os"
	"path/filepath"
	"runtime/debug"
	"sort"
	"strings"
	"sync"
	"time"
)

// Prop is one property's correspondence driver.
type Prop struct {
	ID string
	// Gen produces the generated inputs for a tier from one PRNG (replayable by seed).
	Gen func(r *rand.Rand, tier string) []string
	// Run executes the real implementation on one input and returns the canonical observation.
	Run func(input string) string
	// Class maps (input, obs) to a coverage class; "" = trivial. Distinct non-empty classes+inputs are counted.
	Class func(input, obs string) string
	// Workers: parallel Run calls (default 8). 1 for timing-sensitive drivers.
	Workers int
	// Timeout per case (default 20s). A timed-out case yields observation "HANG".
	Timeout time.Duration
	Rule    string
	// GaveUp (optional) tells an observation in which the DRIVER gave up on a case — its own time limit ran out, its
	// worker process died without a message of the Go runtime — from one that says what the code under test did. A
	// time limit is the driver's, not the property's: on a machine that runs twenty checks at once a case that needs
	// 4 s alone has been seen to need more than 25 s. Such a case is therefore run again ALONE (nothing else of this
	// driver in flight) under RunAlone's larger limit, and the observation of that run is the one that counts: a case
	// that really does not end (a deadlock, a loop without end) gives up again and is reported exactly as before.
	GaveUp func(obs string) bool
	// RunAlone (with GaveUp) executes one input with the larger time limit AloneTimeout (default 5 x Timeout).
	RunAlone     func(input string) string
	AloneTimeout time.Duration
}

// maxAlone bounds the second runs of one driver run: a change that makes hundreds of cases hang must not turn a quick
// check into hours. The first case that gives up again ends the second runs (it is the confirmed failing input); what has
// not been run again keeps its first observation and is reported with it.
const maxAlone = 8

// RepoDir is the pandora source tree the binary was built from (for drivers that read files or build main.go).
var RepoDir = "/repo"

// Tier is the tier of the current run ("quick" | "thorough").
var Tier = "quick"

// Main is the entry point of every cmd/cNN driver binary.
func Main(p *Prop) {
	fs := flag.NewFlagSet("drive", flag.ExitOnError)
	tier := fs.String("tier", "quick", "")
	seed := fs.Int64("seed", 1, "")
	out := fs.String("out", ".", "")
	in := fs.String("in", "", "run exactly the inputs listed in this file (replay)")
	corpus := fs.String("corpus", "", "corpus file, one input per line, run first")
	repo := fs.String("repo", "/repo", "")
	_ = fs.Parse(os.Args[1:])
	RepoDir = *repo
	Tier = *tier
	var inputs []string
	nCorpus := 0
	if *in != "" {
		inputs = readLines(*in)
	} else {
		if *corpus != "" {
			inputs = readLines(*corpus)
			nCorpus = len(inputs)
		}
		r := rand.New(rand.NewSource(*seed))
		inputs = append(inputs, p.Gen(r, *tier)...)
	}
	obs := make([]string, len(inputs))
	workers := p.Workers
	if workers <= 0 {
		workers = 8
	}
	timeout := p.Timeout
	if timeout == 0 {
		timeout = 20 * time.Second
	}
	var wg sync.WaitGroup
	ch := make(chan int)
	for w := 0; w < workers; w++ {
		wg.Add(1)
		go func() {
			defer wg.Done()
			for i := range ch {
				obs[i] = runGuarded(p, inputs[i], timeout)
			}
		}()
	}
	for i := range inputs {
		ch <- i
	}
	close(ch)
	wg.Wait()

	// second run, alone, of the cases on which the driver (not the code under test) gave up
	var again []any
	if p.GaveUp != nil && p.RunAlone != nil {
		alone := &Prop{Run: p.RunAlone}
		at := p.AloneTimeout
		if at == 0 {
			at = 5 * timeout
		}
		for i := range inputs {
			if len(again) >= maxAlone {
				break
			}
			if !p.GaveUp(obs[i]) {
				continue
			}
			first := obs[i]
			obs[i] = runGuarded(alone, inputs[i], at)
			again = append(again, map[string]string{"input": Trunc(inputs[i], 400), "first": Trunc(first, 200), "alone": Trunc(obs[i], 200)})
			if p.GaveUp(obs[i]) {
				break
			}
		}
	}

	_ = os.MkdirAll(*out, 0o755)
	f, err := os.Create(filepath.Join(*out, "cases.tsv"))
	if err != nil {
		panic(err)
	}
	w := bufio.NewWriter(f)
	classes := map[string]int{}
	distinct := map[string]bool{}
	for i := range inputs {
		fmt.Fprintf(w, "%d\t%s\t%s\n", i, Clean(inputs[i]), Clean(obs[i]))
		c := ""
		if p.Class != nil {
			c = p.Class(inputs[i], obs[i])
		} else {
			c = "case"
		}
		if c != "" {
			classes[c]++
			distinct[inputs[i]] = true
		}
	}
	_ = w.Flush()
	_ = f.Close()
	var samples []any
	step := len(inputs)/6 + 1
	for i := 0; i < len(inputs); i += step {
		samples = append(samples, map[string]string{"input": Trunc(inputs[i], 400), "impl": Trunc(obs[i], 400)})
	}
	keys := make([]string, 0, len(classes))
	for k := range classes {
		keys = append(keys, k)
	}
	sort.Strings(keys)
	stats := map[string]any{
		"evaluations":         len(inputs),
		"corpus_cases":        nCorpus,
		"distinct_nontrivial": len(distinct),
		"rule":                p.Rule,
		"samples":             samples,
		"distribution":        classes,
	}
	if len(again) > 0 {
		stats["run_again_alone"] = again
	}
	b, _ := json.MarshalIndent(stats, "", " ")
	_ = os.WriteFile(filepath.Join(*out, "stats.json"), b, 0o644)
}

func runGuarded(p *Prop, input string, timeout time.Duration) (obs string) {
	done := make(chan string, 1)
	go func() {
		defer func() {
			if r := recover(); r != nil {
				done <- "PANIC " + Clean(fmt.Sprint(r)) + " @ " + Clean(firstFrames(string(debug.Stack())))
			}
		}()
		done <- p.Run(input)
	}()
	select {
	case o := <-done:
		return o
	case <-time.After(timeout):
		return "HANG"
	}
}

func firstFrames(s string) string {
	lines := strings.Split(s, "\n")
	var keep []string
	for _, l := range lines {
		l = strings.TrimSpace(l)
		if strings.Contains(l, "/repo/") || strings.Contains(l, "yandex/pandora") {
			keep = append(keep, l)
			if len(keep) >= 3 {
				break
			}
		}
	}
	return strings.Join(keep, " | ")
}

func readLines(path string) []string {
	f, err := os.Open(path)
	if err != nil {
		return nil
	}
	defer f.Close()
	var out []string
	sc := bufio.NewScanner(f)
	sc.Buffer(make([]byte, 1<<20), 1<<28)
	for sc.Scan() {
		l := sc.Text()
		if strings.TrimSpace(l) == "" || strings.HasPrefix(l, "#") {
			continue
		}
		out = append(out, l)
	}
	return out
}

func Clean(s string) string {
	s = strings.ReplaceAll(s, "\t", " ")
	s = strings.ReplaceAll(s, "\n", " ")
	s = strings.ReplaceAll(s, "\r", " ")
	return s
}

func Trunc(s string, n int) string {
	if len(s) > n {
		return s[:n] + "…"
	}
	return s
}

// KV parses "k=v k2=v2" tokens.
func KV(input string) map[string]string {
	m := map[string]string{}
	for _, t := range strings.Fields(input) {
		if i := strings.IndexByte(t, '='); i >= 0 {
			m[t[:i]] = t[i+1:]
		}
	}
	return m
}
