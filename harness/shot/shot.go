// Package shot is the helper package shared by the C10 and C19 correspondence drivers:
// it runs the REAL pandora engine (core/engine, plugin factories registered by the repo's own import packages, config
// decoded by core/config) against scripted in-process targets and records every sample handed to Aggregator.Report.
package shot

import (
	"context"
	"fmt"
	"net"
	"net/url"
	"os"
	"regexp"
	"sort"
	"strconv"
	"strings"
	"sync"
	"sync/atomic"
	"syscall"
	"time"

	"github.com/spf13/afero"
	"github.com/yandex/pandora/cli"
	grpcimport "github.com/yandex/pandora/components/grpc/import"
	phttpimport "github.com/yandex/pandora/components/phttp/import"
	"github.com/yandex/pandora/core"
	"github.com/yandex/pandora/core/aggregator/netsample"
	"github.com/yandex/pandora/core/config"
	"github.com/yandex/pandora/core/engine"
	coreimport "github.com/yandex/pandora/core/import"
	"github.com/yandex/pandora/lib/monitoring"
	"go.uber.org/zap"
	"gopkg.in/yaml.v2"
)

var (
	// FS is the in-memory file system all registered plugins read ammo files from.
	FS      afero.Fs
	once    sync.Once
	metrics engine.Metrics
	seq     atomic.Int64
)

// Init registers the repo's plugins exactly once (the registry is process global).
func Init() {
	once.Do(func() {
		FS = afero.NewMemMapFs()
		coreimport.Import(FS)
		phttpimport.Import(FS)
		grpcimport.Import(FS)
		metrics = engine.Metrics{
			Request:        monitoring.NewCounter("verif_Requests"),
			Response:       monitoring.NewCounter("verif_Responses"),
			InstanceStart:  monitoring.NewCounter("verif_UsersStarted"),
			InstanceFinish: monitoring.NewCounter("verif_UsersFinished"),
		}
		zap.ReplaceGlobals(zap.NewNop())
	})
}

// TempFile writes content to a fresh file of the in-memory FS and returns its name.
func TempFile(ext, content string) string {
	Init()
	name := fmt.Sprintf("/verif/f%d%s", seq.Add(1), ext)
	if err := afero.WriteFile(FS, name, []byte(content), 0o644); err != nil {
		panic(err)
	}
	return name
}

// Snap is the snapshot of one sample taken inside Aggregator.Report.
type Snap struct {
	Tags  string
	ID    uint64
	Proto int
	Net   int
	Shape string // shape of the error chain stored on the sample ("nil" when none)
	Seq   int    // arrival order
}

// Rec is a recording core.Aggregator.
type Rec struct {
	mu      sync.Mutex
	Samples []Snap
	Foreign int // reported values that are not *netsample.Sample
}

func (r *Rec) Run(ctx context.Context, _ core.AggregatorDeps) error {
	<-ctx.Done()
	return nil
}

func (r *Rec) Report(s core.Sample) {
	r.mu.Lock()
	defer r.mu.Unlock()
	ns, ok := s.(*netsample.Sample)
	if !ok {
		r.Foreign++
		return
	}
	// phout line: ts \t tags#id \t rtt connect send latency receive interval reqbytes respbytes errno proto
	f := strings.Split(ns.String(), "\t")
	netc := -1
	if len(f) == 12 {
		netc, _ = strconv.Atoi(f[10])
	}
	r.Samples = append(r.Samples, Snap{Tags: ns.Tags(), ID: ns.ID(), Proto: ns.ProtoCode(), Net: netc,
		Shape: Shape(ns.Err()), Seq: len(r.Samples)})
}

func (r *Rec) Snapshot() []Snap {
	r.mu.Lock()
	defer r.mu.Unlock()
	return append([]Snap(nil), r.Samples...)
}

// Shape prints the structure of an error chain in the vocabulary of the Lean model
// (Pandora.Model.C10.Err): op(..) sys(..) url(..) und(..) cause(..) errnoN timeout tmo other nil.
// It inspects exactly the dynamic types netsample.getErrno distinguishes.
func Shape(err error) string {
	if err == nil {
		return "nil"
	}
	switch t := err.(type) {
	case *net.OpError:
		return "op(" + Shape(t.Err) + ")"
	case *os.SyscallError:
		return "sys(" + Shape(t.Err) + ")"
	case *url.Error:
		return "url(" + Shape(t.Err) + ")"
	case syscall.Errno:
		return "errno" + strconv.Itoa(int(t))
	}
	if u, ok := err.(interface{ Underlying() error }); ok {
		return "und(" + Shape(u.Underlying()) + ")"
	}
	if c, ok := err.(interface{ Cause() error }); ok {
		return "cause(" + Shape(c.Cause()) + ")"
	}
	if t, ok := err.(interface{ Timeout() bool }); ok && t.Timeout() {
		if _, isNet := err.(net.Error); isNet {
			return "timeout"
		}
		return "tmo"
	}
	return "other"
}

// Result of one engine run.
type Result struct {
	Class   string // ok | panic:<reason> | err:<reason> | hang | config:<reason>
	Samples []Snap
}

var reNum = regexp.MustCompile(`[0-9]+`)

func classify(err error) string {
	if err == nil {
		return "ok"
	}
	s := err.Error()
	if i := strings.Index(s, "shoot panic: "); i >= 0 {
		r := s[i+len("shoot panic: "):]
		switch {
		case strings.Contains(r, "slice bounds out of range"):
			return "panic:slice-bounds"
		case strings.Contains(r, "interface conversion"):
			return "panic:type-assertion"
		case strings.Contains(r, "Non HTTP/2 connection established"):
			return "panic:not-http2"
		case strings.Contains(r, "index out of range"):
			return "panic:index"
		case strings.Contains(r, "nil pointer"):
			return "panic:nil"
		}
		return "panic:other:" + clip(reNum.ReplaceAllString(r, "N"), 60)
	}
	return "err:" + clip(reNum.ReplaceAllString(s, "N"), 80)
}

func clip(s string, n int) string {
	s = strings.Join(strings.Fields(s), "_")
	if len(s) > n {
		s = s[:n]
	}
	return s
}

// RunEngine decodes a YAML config the way cli.readConfig does (core/config.DecodeAndValidate into cli.CliConfig),
// replaces the pool's aggregator by a recorder and runs core/engine to completion.
func RunEngine(yamlConf string, timeout time.Duration) Result {
	Init()
	mapCfg := map[string]any{}
	if err := yaml.Unmarshal([]byte(yamlConf), &mapCfg); err != nil {
		return Result{Class: "config:yaml:" + clip(err.Error(), 60)}
	}
	conf := cli.DefaultConfig()
	if err := config.DecodeAndValidate(mapCfg, conf); err != nil {
		return Result{Class: "config:" + clip(reNum.ReplaceAllString(err.Error(), "N"), 100)}
	}
	rec := &Rec{}
	for i := range conf.Engine.Pools {
		conf.Engine.Pools[i].Aggregator = rec
	}
	eng := engine.New(zap.NewNop(), metrics, conf.Engine)
	ctx, cancel := context.WithCancel(context.Background())
	defer cancel()
	done := make(chan error, 1)
	go func() { done <- eng.Run(ctx) }()
	var class string
	select {
	case err := <-done:
		class = classify(err)
	case <-time.After(timeout):
		class = "hang"
	}
	cancel()
	// let straggling goroutines finish; bounded (Engine.Wait can block for ever on some failures)
	w := make(chan struct{})
	go func() { eng.Wait(); close(w) }()
	select {
	case <-w:
	case <-time.After(2 * time.Second):
	}
	return Result{Class: class, Samples: rec.Snapshot()}
}

// SortByID orders samples by (id, arrival).
func SortByID(s []Snap) {
	sort.SliceStable(s, func(i, j int) bool { return s[i].ID < s[j].ID })
}
