package shot

import (
	"bufio"
	"bytes"
	"context"
	"crypto/tls"
	"encoding/hex"
	"fmt"
	"io"
	"log"
	"log/slog"
	"net"
	"net/http"
	"net/http/httptest"
	"net/textproto"
	"strconv"
	"strings"
	"sync"
	"sync/atomic"
	"syscall"
	"time"

	"github.com/yandex/pandora/examples/grpc/server"
	"google.golang.org/grpc"
	"google.golang.org/grpc/codes"
	"google.golang.org/grpc/metadata"
	"google.golang.org/grpc/reflection"
	"google.golang.org/grpc/status"
)

// Script is what the scripted target does with ONE request. It travels in the request header X-Script as
// dot separated fields, so the target is a pure function of the request:
//
//	s<code>      final status line (default 200)
//	i<code>      one interim 1xx response first
//	b<class>     body class: x<N> (N filler bytes) | json | badjson | html | badhtml | empty
//	c<N>         declare Content-Length N although the body is shorter/longer (truncation)
//	h<name>~<hexvalue>  extra response header
//	v<name>~<N>  extra response header whose value is N filler bytes
//	act<what>    close | reset | hang | garbage | badhdr | midreset | midclose | nolen (body until close, no length)
type Script struct {
	Status  int
	Interim int
	Body    []byte
	DeclLen int // -1: len(Body)
	Headers [][2]string
	Act     string
}

const (
	JSONBody    = `{"result":"ok","token":"abcdef","items":[1,2,3],"a":{"b":"c"}}`
	BadJSONBody = `{"result": "ok", "items": [1,2,`
	HTMLBody    = `<html><head><title>T</title></head><body><div class="data">v1</div><div class="data">v2</div><a href="/x">one</a></body></html>`
	BadHTMLBody = `<html><div class="data">unclosed <<<< <a href=</bod`
)

func ParseScript(s string) (Script, error) {
	sc := Script{Status: 200, DeclLen: -1}
	if s == "" {
		return sc, nil
	}
	for _, f := range strings.Split(s, ".") {
		switch {
		case f == "":
		case strings.HasPrefix(f, "act"):
			sc.Act = f[3:]
		case f[0] == 's':
			n, err := strconv.Atoi(f[1:])
			if err != nil {
				return sc, err
			}
			sc.Status = n
		case f[0] == 'i':
			n, err := strconv.Atoi(f[1:])
			if err != nil {
				return sc, err
			}
			sc.Interim = n
		case f[0] == 'c':
			n, err := strconv.Atoi(f[1:])
			if err != nil {
				return sc, err
			}
			sc.DeclLen = n
		case f[0] == 'v':
			kv := strings.SplitN(f[1:], "~", 2)
			if len(kv) != 2 {
				return sc, fmt.Errorf("bad header field %q", f)
			}
			n, err := strconv.Atoi(kv[1])
			if err != nil || n < 0 || n > 8<<20 {
				return sc, fmt.Errorf("bad header size %q", f)
			}
			sc.Headers = append(sc.Headers, [2]string{kv[0], strings.Repeat("v", n)})
		case f[0] == 'h':
			kv := strings.SplitN(f[1:], "~", 2)
			if len(kv) != 2 {
				return sc, fmt.Errorf("bad header field %q", f)
			}
			v, err := hex.DecodeString(kv[1])
			if err != nil {
				return sc, err
			}
			sc.Headers = append(sc.Headers, [2]string{kv[0], string(v)})
		case f[0] == 'b':
			switch c := f[1:]; {
			case c == "json":
				sc.Body = []byte(JSONBody)
			case c == "badjson":
				sc.Body = []byte(BadJSONBody)
			case c == "html":
				sc.Body = []byte(HTMLBody)
			case c == "badhtml":
				sc.Body = []byte(BadHTMLBody)
			case c == "empty":
				sc.Body = nil
			case strings.HasPrefix(c, "x"):
				n, err := strconv.Atoi(c[1:])
				if err != nil || n < 0 || n > 64<<20 {
					return sc, fmt.Errorf("bad body size %q", c)
				}
				sc.Body = bytes.Repeat([]byte("x"), n)
			default:
				return sc, fmt.Errorf("bad body class %q", c)
			}
		default:
			return sc, fmt.Errorf("bad script field %q", f)
		}
	}
	return sc, nil
}

// Truth is what the script delivers to an HTTP/1.1 client (ground truth handed to the Spec):
//
//	r<st>   a complete response with status st
//	rb<st>  the head of a response with status st, then the body breaks off
//	rbx<st> same, broken by a TCP reset (a client may also lose the head: then it is `f`)
//	f       no response
func (sc Script) Truth() string {
	switch sc.Act {
	case "close", "reset", "hang", "garbage", "badhdr":
		return "f"
	}
	st := sc.Status
	if st/100 == 1 && st != 101 {
		// to a client a "final" 1xx is an interim response; it then waits for the real one and meets EOF
		return "f"
	}
	r := fmt.Sprintf("r%d", st)
	if st/100 == 1 || st == 204 || st == 304 {
		return r
	}
	if sc.Act == "nolen" {
		return r
	}
	decl := len(sc.Body)
	if sc.DeclLen >= 0 {
		decl = sc.DeclLen
	}
	sent := len(sc.Body)
	if sc.Act == "midreset" || sc.Act == "midclose" {
		sent = len(sc.Body) / 2
	}
	if sent < decl {
		if sc.Act == "midreset" {
			return fmt.Sprintf("rbx%d", st)
		}
		return fmt.Sprintf("rb%d", st)
	}
	return r
}

// Target is a raw TCP HTTP/1.1 target: full control over status line, headers, truncation and resets.
type Target struct {
	l      net.Listener
	Addr   string
	Hits   atomic.Int64
	closed chan struct{}
	wg     sync.WaitGroup
}

func NewTarget() *Target {
	l, err := net.Listen("tcp", "127.0.0.1:0")
	if err != nil {
		panic(err)
	}
	t := &Target{l: l, Addr: l.Addr().String(), closed: make(chan struct{})}
	go t.serve()
	return t
}

func (t *Target) Close() {
	close(t.closed)
	_ = t.l.Close()
}

// DeadAddr is an address nobody listens on (connection refused). The port is BOUND by a socket of this process
// that never listens and is never closed, so no other process (other checks run concurrently on this machine) can
// take the port while the case runs: a connect to a bound, non-listening TCP socket is refused by the kernel.
func DeadAddr() string {
	deadOnce.Do(func() {
		fd, err := syscall.Socket(syscall.AF_INET, syscall.SOCK_STREAM, 0)
		if err != nil {
			panic(err)
		}
		if err := syscall.Bind(fd, &syscall.SockaddrInet4{Addr: [4]byte{127, 0, 0, 1}}); err != nil {
			panic(err)
		}
		sn, err := syscall.Getsockname(fd)
		if err != nil {
			panic(err)
		}
		deadAddr = fmt.Sprintf("127.0.0.1:%d", sn.(*syscall.SockaddrInet4).Port)
	})
	return deadAddr
}

var (
	deadOnce sync.Once
	deadAddr string
)

func (t *Target) serve() {
	for {
		c, err := t.l.Accept()
		if err != nil {
			return
		}
		go t.handle(c)
	}
}

// rawReq is the little the scripted target needs from a request. The request target is NOT validated (a gun may send
// `GET noslash/a HTTP/1.1`; a strict parser would drop the connection, which is not what the script says).
type rawReq struct {
	Method string
	Target string
	Header textproto.MIMEHeader
}

func readRequestLenient(br *bufio.Reader) (*rawReq, error) {
	tp := textproto.NewReader(br)
	line, err := tp.ReadLine()
	if err != nil {
		return nil, err
	}
	f := strings.SplitN(line, " ", 3)
	if len(f) < 2 {
		return nil, fmt.Errorf("bad request line")
	}
	h, err := tp.ReadMIMEHeader()
	if err != nil {
		return nil, err
	}
	if n, err := strconv.Atoi(h.Get("Content-Length")); err == nil && n > 0 {
		if _, err := io.CopyN(io.Discard, br, int64(n)); err != nil {
			return nil, err
		}
	}
	return &rawReq{Method: f[0], Target: f[1], Header: h}, nil
}

func rst(c net.Conn) {
	if tc, ok := c.(*net.TCPConn); ok {
		_ = tc.SetLinger(0)
	}
	_ = c.Close()
}

func (t *Target) handle(c net.Conn) {
	defer c.Close()
	br := bufio.NewReader(c)
	for {
		_ = c.SetReadDeadline(time.Now().Add(30 * time.Second))
		req, err := readRequestLenient(br)
		if err != nil {
			return
		}
		if req.Method == "CONNECT" {
			// the connect gun opens a tunnel first; the scripted exchange follows on the same connection
			_, _ = io.WriteString(c, "HTTP/1.1 200 Connection established\r\n\r\n")
			continue
		}
		t.Hits.Add(1)
		sc, err := ParseScript(req.Header.Get("X-Script"))
		if err != nil {
			_, _ = io.WriteString(c, "HTTP/1.1 500 Bad Script\r\nContent-Length: 0\r\nConnection: close\r\n\r\n")
			return
		}
		switch sc.Act {
		case "close":
			return
		case "reset":
			rst(c)
			return
		case "hang":
			select {
			case <-t.closed:
			case <-time.After(20 * time.Second):
			}
			return
		case "garbage":
			_, _ = io.WriteString(c, "\x00\x01\x02 this is not http at all\r\n\r\n")
			return
		case "badhdr":
			_, _ = io.WriteString(c, "HTTP/1.1 200 OK\r\nthis header line has no colon\r\n\r\n")
			return
		}
		var b bytes.Buffer
		if sc.Interim != 0 {
			fmt.Fprintf(&b, "HTTP/1.1 %d Interim\r\n\r\n", sc.Interim)
		}
		fmt.Fprintf(&b, "HTTP/1.1 %03d Scripted\r\n", sc.Status)
		for _, h := range sc.Headers {
			fmt.Fprintf(&b, "%s: %s\r\n", h[0], h[1])
		}
		noBody := sc.Status/100 == 1 || sc.Status == 204 || sc.Status == 304 || req.Method == "HEAD"
		decl := len(sc.Body)
		if sc.DeclLen >= 0 {
			decl = sc.DeclLen
		}
		if sc.Act != "nolen" && !noBody {
			fmt.Fprintf(&b, "Content-Length: %d\r\n", decl)
		}
		b.WriteString("Connection: close\r\n\r\n")
		if !noBody {
			body := sc.Body
			if sc.Act == "midreset" || sc.Act == "midclose" {
				body = body[:len(body)/2]
			}
			b.Write(body)
		}
		_, _ = c.Write(b.Bytes())
		if sc.Act == "midreset" {
			// give the client a moment to read the headers, then reset
			time.Sleep(150 * time.Millisecond)
			rst(c)
		}
		return // one exchange per connection ("Connection: close")
	}
}

// ---------------------------------------------------------------- TLS targets for the http2 gun

// handlerTarget interprets the status/body/header part of a script through net/http's own server (needed for HTTP/2).
func scriptHandler(w http.ResponseWriter, r *http.Request) {
	_, _ = io.Copy(io.Discard, r.Body)
	sc, err := ParseScript(r.Header.Get("X-Script"))
	if err != nil {
		w.WriteHeader(500)
		return
	}
	switch sc.Act {
	case "close", "reset":
		panic(http.ErrAbortHandler)
	case "hang":
		select {
		case <-r.Context().Done():
		case <-time.After(20 * time.Second):
		}
		panic(http.ErrAbortHandler)
	}
	for _, h := range sc.Headers {
		w.Header().Set(h[0], h[1])
	}
	if sc.DeclLen >= 0 {
		w.Header().Set("Content-Length", strconv.Itoa(sc.DeclLen))
	}
	w.WriteHeader(sc.Status)
	body := sc.Body
	if sc.Act == "midreset" || sc.Act == "midclose" {
		_, _ = w.Write(body[:len(body)/2])
		if f, ok := w.(http.Flusher); ok {
			f.Flush()
		}
		panic(http.ErrAbortHandler)
	}
	_, _ = w.Write(body)
}

// NewTLSTarget starts a TLS target; h2 tells whether it offers HTTP/2 through ALPN.
func NewTLSTarget(h2 bool) (addr string, stop func()) {
	srv := httptest.NewUnstartedServer(http.HandlerFunc(scriptHandler))
	srv.EnableHTTP2 = h2
	if !h2 {
		srv.TLS = &tls.Config{NextProtos: []string{"http/1.1"}}
	}
	srv.Config.ErrorLog = log.New(io.Discard, "", 0)
	srv.StartTLS()
	return srv.Listener.Addr().String(), srv.Close
}

// ---------------------------------------------------------------- gRPC target

// NewGrpcTarget serves the repo's examples/grpc/server service with reflection. A call carrying metadata
// "x-code: N" is answered with status code N (any uint32, also out of the defined range); "x-hang: 1" never answers.
func NewGrpcTarget() (addr string, stop func()) { return NewGrpcTargetStopAfter(0) }

// NewGrpcTargetStopAfter: as NewGrpcTarget, but the whole server goes away (listener and connections closed) while
// it handles its k-th scripted-service call (k > 0): early close followed by refusal.
func NewGrpcTargetStopAfter(k int) (addr string, stop func()) {
	var calls atomic.Int64
	var gs *grpc.Server
	scripted := func(ctx context.Context, method string) (bool, error) {
		if !strings.HasPrefix(method, "/target.") {
			return false, nil
		}
		if n := calls.Add(1); k > 0 && int(n) == k {
			go gs.Stop()
			<-ctx.Done()
			return true, status.Error(codes.Unavailable, "going away")
		}
		md, _ := metadata.FromIncomingContext(ctx)
		if v := md.Get("x-hang"); len(v) > 0 {
			select {
			case <-ctx.Done():
			case <-time.After(20 * time.Second):
			}
			return true, status.Error(codes.DeadlineExceeded, "hang")
		}
		if v := md.Get("x-code"); len(v) > 0 {
			n, err := strconv.ParseUint(v[0], 10, 32)
			if err == nil && n != 0 {
				return true, status.Error(codes.Code(n), "scripted")
			}
		}
		return false, nil
	}
	gs = grpc.NewServer(grpc.UnaryInterceptor(func(ctx context.Context, req any, info *grpc.UnaryServerInfo, h grpc.UnaryHandler) (any, error) {
		if done, err := scripted(ctx, info.FullMethod); done {
			return nil, err
		}
		return h(ctx, req)
	}))
	srv := server.NewServer(slog.New(slog.NewTextHandler(io.Discard, nil)), 1)
	server.RegisterTargetServiceServer(gs, srv)
	reflection.Register(gs)
	l, err := net.Listen("tcp", "127.0.0.1:0")
	if err != nil {
		panic(err)
	}
	go func() { _ = gs.Serve(l) }()
	return l.Addr().String(), gs.Stop
}
