package shot

import (
	"encoding/json"
	"fmt"
	"strings"
)

// HTTPReq is one line of a uri ammo file.
type HTTPReq struct {
	Tag    string
	URI    string
	Script string
}

// URIAmmo renders a `uri` ammo file: a header line carrying the script, then the uri (and tag).
func URIAmmo(reqs []HTTPReq) string {
	var b strings.Builder
	for _, r := range reqs {
		fmt.Fprintf(&b, "[X-Script: %s]\n", r.Script)
		if r.Tag != "" {
			fmt.Fprintf(&b, "%s %s\n", r.URI, r.Tag)
		} else {
			fmt.Fprintf(&b, "%s\n", r.URI)
		}
	}
	return b.String()
}

// HTTPGunConf are the options of the http/http2/connect/http-scenario guns the drivers vary.
type HTTPGunConf struct {
	Type      string // http | http2 | connect | http/scenario
	Target    string
	AutoTag   bool
	Elements  int
	NoTagOnly bool
	// ResponseHeaderTimeout in ms, 0 = none
	RHTimeoutMs int
	SSL         *bool
}

func (g HTTPGunConf) yaml() string {
	s := fmt.Sprintf(`{type: "%s", target: "%s", dial: {timeout: 2s}`, g.Type, g.Target)
	if g.AutoTag || g.Elements != 0 {
		el := g.Elements
		if el == 0 {
			el = 2
		}
		s += fmt.Sprintf(`, auto-tag: {enabled: %v, uri-elements: %d, no-tag-only: %v}`, g.AutoTag, el, g.NoTagOnly)
	}
	if g.RHTimeoutMs > 0 {
		s += fmt.Sprintf(`, response-header-timeout: %dms`, g.RHTimeoutMs)
	}
	if g.SSL != nil {
		s += fmt.Sprintf(`, ssl: %v`, *g.SSL)
	}
	return s + "}"
}

// PoolYAML renders a one-pool engine config. The run is bounded by the schedule (`once: shots`) and, when
// passes > 0, by the provider.
func PoolYAML(ammoType, ammoFile string, ammoExtra string, gun string, shots, instances int) string {
	return fmt.Sprintf(`
pools:
  - id: p
    ammo: {type: "%s", file: "%s"%s}
    result: {type: discard}
    gun: %s
    rps: [{type: once, times: %d}]
    startup: [{type: once, times: %d}]
`, ammoType, ammoFile, ammoExtra, gun, shots, instances)
}

func HTTPPool(g HTTPGunConf, reqs []HTTPReq, instances int) string {
	f := TempFile(".uri", URIAmmo(reqs))
	return PoolYAML("uri", f, ", passes: 1", g.yaml(), len(reqs), instances)
}

// ScnStep is one request of an http scenario.
type ScnStep struct {
	Name   string
	URI    string
	Script string
	// PP are complete HCL postprocessor blocks, e.g. `postprocessor "assert/response" { status_code = 200 }`
	PP []string
}

func hclString(s string) string {
	b, _ := json.Marshal(s)
	r := string(b)
	r = strings.ReplaceAll(r, "${", "$${")
	r = strings.ReplaceAll(r, "%{", "%%{")
	return r
}

// HCLString quotes a Go string as an HCL string literal.
func HCLString(s string) string { return hclString(s) }

func ScenarioHCL(scn string, steps []ScnStep) string {
	var b strings.Builder
	var names []string
	for _, s := range steps {
		fmt.Fprintf(&b, "request %s {\n  method = \"GET\"\n  uri = %s\n  headers = {\n    X-Script = %s\n  }\n", hclString(s.Name), hclString(s.URI), hclString(s.Script))
		for _, p := range s.PP {
			b.WriteString("  " + p + "\n")
		}
		b.WriteString("}\n")
		names = append(names, hclString(s.Name))
	}
	fmt.Fprintf(&b, "scenario %s {\n  requests = [%s]\n}\n", hclString(scn), strings.Join(names, ", "))
	return b.String()
}

func ScenarioPool(g HTTPGunConf, scn string, steps []ScnStep, shots, instances int) string {
	g.Type = "http/scenario"
	f := TempFile(".hcl", ScenarioHCL(scn, steps))
	return PoolYAML("http/scenario", f, "", g.yaml(), shots, instances)
}

// GrpcReq is one grpc/json ammo.
type GrpcReq struct {
	Tag      string
	Call     string
	Metadata map[string]string
	Payload  map[string]any
}

func GrpcAmmo(reqs []GrpcReq) string {
	var b strings.Builder
	for _, r := range reqs {
		m := map[string]any{"tag": r.Tag, "call": r.Call, "payload": r.Payload}
		if r.Metadata != nil {
			m["metadata"] = r.Metadata
		}
		j, _ := json.Marshal(m)
		b.Write(j)
		b.WriteByte('\n')
	}
	return b.String()
}

func GrpcPool(target string, timeoutMs int, reqs []GrpcReq, instances int) string {
	f := TempFile(".json", GrpcAmmo(reqs))
	gun := fmt.Sprintf(`{type: grpc, target: "%s"`, target)
	if timeoutMs > 0 {
		gun += fmt.Sprintf(", timeout: %dms", timeoutMs)
	}
	gun += "}"
	return PoolYAML("grpc/json", f, ", passes: 1", gun, len(reqs), instances)
}

// GrpcCall is one call of a gRPC scenario.
type GrpcCall struct {
	Name     string
	Tag      string
	Call     string
	Metadata map[string]string
	Payload  string
	PP       []string
}

func GrpcScenarioHCL(scn string, calls []GrpcCall) string {
	var b strings.Builder
	var names []string
	for _, c := range calls {
		fmt.Fprintf(&b, "call %s {\n  call = %s\n  tag = %s\n", hclString(c.Name), hclString(c.Call), hclString(c.Tag))
		if len(c.Metadata) > 0 {
			b.WriteString("  metadata = {\n")
			for k, v := range c.Metadata {
				fmt.Fprintf(&b, "    %s = %s\n", hclString(k), hclString(v))
			}
			b.WriteString("  }\n")
		}
		fmt.Fprintf(&b, "  payload = %s\n", hclString(c.Payload))
		for _, p := range c.PP {
			b.WriteString("  " + p + "\n")
		}
		b.WriteString("}\n")
		names = append(names, hclString(c.Name))
	}
	fmt.Fprintf(&b, "scenario %s {\n  requests = [%s]\n}\n", hclString(scn), strings.Join(names, ", "))
	return b.String()
}

func GrpcScenarioPool(target string, timeoutMs int, scn string, calls []GrpcCall, shots, instances int) string {
	f := TempFile(".hcl", GrpcScenarioHCL(scn, calls))
	gun := fmt.Sprintf(`{type: grpc/scenario, target: "%s"`, target)
	if timeoutMs > 0 {
		gun += fmt.Sprintf(", timeout: %dms", timeoutMs)
	}
	gun += "}"
	return PoolYAML("grpc/scenario", f, "", gun, shots, instances)
}
