module verifharness

go 1.21

require (
	github.com/c2h5oh/datasize v0.0.0-20220606134207-859f65c6625b
	github.com/golang/protobuf v1.5.4
	github.com/hashicorp/hcl/v2 v2.16.2
	github.com/jhump/protoreflect v1.15.6
	github.com/json-iterator/go v1.1.12
	github.com/pkg/errors v0.9.1
	github.com/spf13/afero v1.10.0
	github.com/yandex/pandora v0.0.0
	github.com/zclconf/go-cty v1.13.2
	go.uber.org/zap v1.27.0
	golang.org/x/net v0.22.0
	google.golang.org/grpc v1.62.0
	google.golang.org/protobuf v1.33.0
	gopkg.in/yaml.v2 v2.4.0
)

require (
	github.com/PaesslerAG/gval v1.2.1 // indirect
	github.com/PaesslerAG/jsonpath v0.1.1 // indirect
	github.com/agext/levenshtein v1.2.3 // indirect
	github.com/antchfx/htmlquery v1.2.4 // indirect
	github.com/antchfx/xpath v1.2.0 // indirect
	github.com/apparentlymart/go-textseg/v13 v13.0.0 // indirect
	github.com/asaskevich/govalidator v0.0.0-20230301143203-a9d515a09cc2 // indirect
	github.com/bufbuild/protocompile v0.9.0 // indirect
	github.com/davecgh/go-spew v1.1.1 // indirect
	github.com/facebookgo/stack v0.0.0-20160209184415-751773369052 // indirect
	github.com/fsnotify/fsnotify v1.7.0 // indirect
	github.com/go-playground/locales v0.14.1 // indirect
	github.com/go-playground/universal-translator v0.18.1 // indirect
	github.com/gofrs/uuid v4.2.0+incompatible // indirect
	github.com/golang/groupcache v0.0.0-20210331224755-41bb18bfe9da // indirect
	github.com/google/go-cmp v0.6.0 // indirect
	github.com/hashicorp/errwrap v1.1.0 // indirect
	github.com/hashicorp/go-multierror v1.1.1 // indirect
	github.com/hashicorp/hcl v1.0.0 // indirect
	github.com/magiconair/properties v1.8.7 // indirect
	github.com/mitchellh/go-wordwrap v1.0.1 // indirect
	github.com/mitchellh/mapstructure v1.5.1-0.20220423185008-bf980b35cac4 // indirect
	github.com/modern-go/concurrent v0.0.0-20180306012644-bacd9c7ef1dd // indirect
	github.com/modern-go/reflect2 v1.0.2 // indirect
	github.com/pelletier/go-toml/v2 v2.0.8 // indirect
	github.com/pmezard/go-difflib v1.0.0 // indirect
	github.com/shopspring/decimal v1.3.1 // indirect
	github.com/spf13/cast v1.5.1 // indirect
	github.com/spf13/jwalterweatherman v1.1.0 // indirect
	github.com/spf13/pflag v1.0.6-0.20201009195203-85dd5c8bc61c // indirect
	github.com/spf13/viper v1.16.0 // indirect
	github.com/stretchr/objx v0.5.2 // indirect
	github.com/stretchr/testify v1.9.0 // indirect
	github.com/subosito/gotenv v1.4.2 // indirect
	go.uber.org/atomic v1.11.0 // indirect
	go.uber.org/multierr v1.11.0 // indirect
	golang.org/x/exp v0.0.0-20240222234643-814bf88cf225 // indirect
	golang.org/x/sys v0.18.0 // indirect
	golang.org/x/text v0.14.0 // indirect
	golang.org/x/xerrors v0.0.0-20231012003039-104605ab7028 // indirect
	google.golang.org/genproto/googleapis/rpc v0.0.0-20240304212257-790db918fca8 // indirect
	gopkg.in/bluesuncorp/validator.v9 v9.10.0 // indirect
	gopkg.in/ini.v1 v1.67.0 // indirect
	gopkg.in/yaml.v3 v3.0.1 // indirect
)

replace github.com/yandex/pandora => /repo
