module verifharness

go 1.21

require github.com/yandex/pandora v0.0.0

require (
	go.uber.org/atomic v1.11.0 // indirect
	go.uber.org/multierr v1.11.0 // indirect
	go.uber.org/zap v1.27.0 // indirect
)

replace github.com/yandex/pandora => /repo
