// Package c08cell runs ONE cell of the provider matrix of C08 against the REAL pandora providers and returns what
// consumers, the caller of Provider.Run and (mode "engine") the caller of Engine.Run observe.
//
// A cell = (provider kind, preload, limit, passes, n entries, consumers, mode, ...).  Providers are constructed
// either directly through their public constructors (via=direct) or through the registered plugin factories by
// core/config.DecodeAndValidate of an `ammo:` section (via=cfg), exactly as a pandora config would.
//
// The ammo file lives in an in-memory afero filesystem wrapped by a counting layer: every Read/Seek on the ammo file
// is counted (the "steps" observable of the no-spin clause, and the clock of mode "ext": the context is cancelled
// from inside the k-th file operation, i.e. at a deterministic point of the provider's own progress).  The layer has
// a kill switch that makes a spinning provider fail with an I/O error after the watchdog has classified it, so that
// a runaway goroutine never outlives its cell.
//
// Modes
//
//	drain   consumers loop on Acquire until ok=false; the context is cancelled by the consumer that makes the
//	        Cap-th acquisition (Cap = 0: never); acquisitions after the Cap-th are drained but not counted.
//	stall   consumers issue exactly Cap Acquire calls in total and then stop (instances whose schedule is over);
//	        if Run has not returned by itself the context is then cancelled: Run must return, the sink must be
//	        closed, at most the channel capacity is left in it.
//	ext     consumers loop on Acquire; the context is cancelled from inside the At-th file operation (0 = before
//	        Run is called).
//	tcan    as ext, but the cancel comes from a timer At microseconds after Run was started (any point of the
//	        provider's code, not only file operations).
//	engine  the provider runs inside the real core/engine.Engine with Cons instances, a recording gun and a
//	        shared `once(Shots)` schedule (Shots = 0: unlimited): what Engine.Run returns, how many shots.
package c08cell

import (
	"bytes"
	"context"
	"errors"
	"fmt"
	"io"
	"net/http"
	"os"
	"runtime"
	"strconv"
	"strings"
	"sync"
	"sync/atomic"
	"time"

	"github.com/spf13/afero"
	grpcimport "github.com/yandex/pandora/components/grpc/import"
	grpcscngun "github.com/yandex/pandora/components/guns/grpc/scenario"
	httpscngun "github.com/yandex/pandora/components/guns/http_scenario"
	phttpimport "github.com/yandex/pandora/components/phttp/import"
	grpcammo "github.com/yandex/pandora/components/providers/grpc"
	"github.com/yandex/pandora/components/providers/grpc/grpcjson"
	httpprov "github.com/yandex/pandora/components/providers/http"
	httpconf "github.com/yandex/pandora/components/providers/http/config"
	"github.com/yandex/pandora/components/providers/http/decoders"
	httpprovider "github.com/yandex/pandora/components/providers/http/provider"
	"github.com/yandex/pandora/components/providers/scenario"
	scngrpc "github.com/yandex/pandora/components/providers/scenario/grpc"
	scnhttp "github.com/yandex/pandora/components/providers/scenario/http"
	"github.com/yandex/pandora/core"
	"github.com/yandex/pandora/core/aggregator/netsample"
	"github.com/yandex/pandora/core/config"
	"github.com/yandex/pandora/core/datasource"
	"github.com/yandex/pandora/core/engine"
	coreimport "github.com/yandex/pandora/core/import"
	coreprov "github.com/yandex/pandora/core/provider"
	"github.com/yandex/pandora/core/schedule"
	"github.com/yandex/pandora/lib/monitoring"
	"go.uber.org/zap"
)

// Kinds of provider cells.
const (
	KURI      = "uri"
	KURIs     = "uris" // uri decoder over the inline `uris:` list (no file)
	KURIPost  = "uripost"
	KRaw      = "raw"
	KJSONLine = "jsonl"   // http/json, one object per line
	KJSONArr  = "jsonarr" // http/json, one array
	KGRPCJSON = "grpcjson"
	KHTTPScn  = "httpscn"
	KGRPCScn  = "grpcscn"
	KGenJSON  = "genjson" // core/provider NewJSONProvider
)

// HTTPKinds are the kinds that have a preload switch (components/providers/http).
var HTTPKinds = []string{KURI, KURIs, KURIPost, KRaw, KJSONLine, KJSONArr}

// OtherKinds have none.
var OtherKinds = []string{KGRPCJSON, KHTTPScn, KGRPCScn, KGenJSON}

func IsHTTP(kind string) bool {
	for _, k := range HTTPKinds {
		if k == kind {
			return true
		}
	}
	return false
}

// ChanCap is the capacity of the provider's ammo channel as the constructors create it (the Lean side has the same
// table regenerated from the source; here it only bounds how long the harness drains).
func ChanCap(kind string) int {
	switch kind {
	case KGRPCJSON:
		return 128
	case KHTTPScn, KGRPCScn:
		return 100
	case KGenJSON:
		return coreprov.DefaultAmmoQueueSize
	}
	return 0
}

type Cell struct {
	Kind    string
	Preload bool
	Limit   uint64 // any value of the uint options (round 4: also huge ones, "practically unbounded")
	Passes  uint64
	N       int // entries; entry i has identity i and tag "t<i>"
	// round 4
	Pick []int  // chosencases (http kinds, grpc/json): the ids of the entries whose tag is listed, ascending; nil = no chosencases option
	Wts  []int  // scenario kinds: the `weight` of each of the N scenarios (nil: every weight 1); a pass delivers scenario i weight_i / gcd times
	Src  string // generic JSON provider: the data source — "" | file, inline (datasource.NewInline / `type: inline`), rs (NewReader over a
	// ReadSeeker), rsc (NewReader over a ReadSeekCloser), rc (NewReader over a ReadCloser without Seek), pipe (NewReader over a plain io.Reader: cannot be rewound), buf (NewBuffer: cannot be rewound)
	Cons  int
	Cap   int    // drain: cancel at this many acquisitions (0 = never); stall: total number of Acquire calls
	Junk  bool   // add header / blank lines that are not entries where the format allows it
	Pad   int    // pad every entry with this many bytes (files larger than one bufio buffer)
	Mode  string // drain | stall | ext | engine
	At    int    // ext: cancel from inside this file operation (0 = before Run); tcan: cancel after this many microseconds
	Jit   int    // != 0: consumers yield / sleep pseudo-randomly (seed) between their Acquire calls
	Via   string // direct | cfg
	Shots int    // engine: shared once(Shots) schedule; 0 = unlimited
	Eol   int    // shape of the line ends of the ammo file: 0 = "\n" after every line, 1 = the last line has no newline, 2 = "\r\n" where the format has lines, 3 = blank lines before the first and after the last entry
	Idle  bool   // engine: the shared schedule has no token at all (a run that shoots nothing): instances finish at once
	Gate  int    // != 0: the Gate-th file operation waits until the context given to Provider.Run is cancelled (at most 2 s)
	// fault plan (round 3); any combination, also together with a cancel (Cap, At):
	CFail   int  // 1: closing the ammo file fails (kind uris: the exported Provider.Close field returns an error); 2: the exported Provider.Close field is nil (http kinds built directly)
	RFail   int  // != 0: the RFail-th operation on the ammo file (Read / Seek) fails with an I/O error
	RSticky bool // … and so does every later one (a device that is gone); otherwise only that one (a transient error)
	OFail   bool // opening the ammo file fails (kinds that open it in Run: grpc/json, generic JSON; the others fail in their constructor)
	// round 6: the size of an entry and the option that bounds it
	Big   int // entry BigAt-1 of the file is padded with this many bytes more (an ammo of 64 KiB and more: beyond bufio.MaxScanTokenSize)
	BigAt int // 1-based index of the big entry (0: none)
	Mas   int // the `maxammosize` option (http kinds, grpc/json); 0 = not set
	Tick  time.Duration
}

// HasFault: the cell injects a fault.
func (c Cell) HasFault() bool { return c.CFail != 0 || c.RFail != 0 || c.OFail }

type Obs struct {
	Construct string // "" or constructor error
	Delivered int
	Cut       bool   // the harness cancelled the context
	Run       string // nil|canceled|limit|passes|noammo|other:<..>|noreturn
	End       string // closed (every consumer saw ok=false / drain ended with ok=false) | blocked | spinning | open
	Seq       string // ok | bad@k | badmulti | na | tail (read-fault cells: all but the item sent last are the cyclic file)
	Ops       int64  // Read+Seek calls on the ammo file
	Ret       bool   // stall: Run returned (by itself or within two ticks of the cancel)
	Left      int    // stall: ammo drained from the sink after Run returned
	Fired     bool   // ext: the cancel hook fired
	Shots     int    // engine
	EngErr    string // engine: nil | hang | other:<..>
	Wait      bool   // engine: Engine.Wait returned
	Gated     bool   // Gate != 0: the gate operation happened inside Provider.Run and was released by the cancel of Run's context
	RHit      bool   // the injected read / seek error was returned to the provider
	CHit      bool   // the injected close error was returned to the provider (CFail = 2: always false)
	OHit      bool   // the injected open error was returned to the provider
}

// ---------------------------------------------------------------- counting filesystem (one global instance:
// the registered plugin factories capture the filesystem given to Import)

type cellIO struct {
	ops      atomic.Int64
	killed   atomic.Bool
	cancelAt int64
	cancel   func()
	fired    atomic.Bool
	gateAt   int64
	gated    atomic.Bool                     // the gate operation happened inside Provider.Run and saw the cancel
	runCtx   atomic.Pointer[context.Context] // the context Provider.Run was called with
	rfailAt  int64
	rsticky  bool
	cfail    bool
	ofail    bool
	rhit     atomic.Bool
	chit     atomic.Bool
	ohit     atomic.Bool
}

// fails: does the n-th file operation return the injected I/O error?
func (c *cellIO) fails(n int64) bool {
	if c.rfailAt > 0 && (n == c.rfailAt || c.rsticky && n > c.rfailAt) {
		c.rhit.Store(true)
		return true
	}
	return false
}

// op counts one file operation: killed = the watchdog's kill switch, fail = the injected I/O error
func (c *cellIO) op() (killed, fail bool) {
	n := c.ops.Add(1)
	if c.cancelAt > 0 && n == c.cancelAt && c.cancel != nil {
		c.fired.Store(true)
		c.cancel()
	}
	if c.gateAt > 0 && n == c.gateAt {
		if ctx := c.runCtx.Load(); ctx != nil {
			select {
			case <-(*ctx).Done():
				c.gated.Store(true)
			case <-time.After(2 * time.Second):
			}
		}
	}
	return c.killed.Load(), c.fails(n)
}

var errKilled = errors.New("verif: ammo file killed by watchdog")

// the injected faults; classifyErr recognises them by their text (the providers wrap them in several ways, also
// with formats that errors.Is does not see through)
const faultMark = "verif: injected"

var (
	errInjRead  = errors.New(faultMark + " I/O error")
	errInjClose = errors.New(faultMark + " close error")
	errInjOpen  = errors.New(faultMark + " open error")
)

type countFs struct {
	afero.Fs
	mu  sync.Mutex
	ios map[string]*cellIO
}

func (c *countFs) register(path string, io *cellIO) {
	c.mu.Lock()
	c.ios[path] = io
	c.mu.Unlock()
}

func (c *countFs) unregister(path string) {
	c.mu.Lock()
	delete(c.ios, path)
	c.mu.Unlock()
	_ = c.Fs.Remove(path)
}

func (c *countFs) wrap(name string, f afero.File) afero.File {
	c.mu.Lock()
	io := c.ios[name]
	c.mu.Unlock()
	if io == nil {
		return f
	}
	return &countFile{File: f, io: io}
}

func (c *countFs) ioOf(name string) *cellIO {
	c.mu.Lock()
	defer c.mu.Unlock()
	return c.ios[name]
}

func (c *countFs) Open(name string) (afero.File, error) {
	if io := c.ioOf(name); io != nil && io.ofail {
		io.ohit.Store(true)
		return nil, &os.PathError{Op: "open", Path: name, Err: errInjOpen}
	}
	f, err := c.Fs.Open(name)
	if err != nil {
		return nil, err
	}
	return c.wrap(name, f), nil
}

func (c *countFs) OpenFile(name string, flag int, perm os.FileMode) (afero.File, error) {
	if io := c.ioOf(name); io != nil && io.ofail {
		io.ohit.Store(true)
		return nil, &os.PathError{Op: "open", Path: name, Err: errInjOpen}
	}
	f, err := c.Fs.OpenFile(name, flag, perm)
	if err != nil {
		return nil, err
	}
	return c.wrap(name, f), nil
}

// countFile counts the operations on the ammo file and gives it the semantics of a real *os.File where the in-memory
// file is more forgiving: after Close every Read / Seek fails, and a second Close fails with os.ErrClosed.
type countFile struct {
	afero.File
	io     *cellIO
	closed atomic.Bool
}

func (f *countFile) Read(p []byte) (int, error) {
	killed, fail := f.io.op()
	if killed {
		return 0, errKilled
	}
	if f.closed.Load() {
		return 0, os.ErrClosed
	}
	if fail {
		return 0, errInjRead
	}
	return f.File.Read(p)
}

func (f *countFile) Seek(off int64, whence int) (int64, error) {
	killed, fail := f.io.op()
	if killed {
		return 0, errKilled
	}
	if f.closed.Load() {
		return 0, os.ErrClosed
	}
	if fail {
		return 0, errInjRead
	}
	return f.File.Seek(off, whence)
}

// Close: like (*os.File).Close a failing close still releases the file (a second Close reports os.ErrClosed)
func (f *countFile) Close() error {
	if f.closed.Swap(true) {
		return os.ErrClosed
	}
	err := f.File.Close()
	if f.io.cfail {
		f.io.chit.Store(true)
		return errInjClose
	}
	return err
}

// FS is the filesystem every cell's ammo file lives in.
var FS = &countFs{Fs: afero.NewMemMapFs(), ios: map[string]*cellIO{}}

var (
	importOnce sync.Once
	fileSeq    atomic.Int64
)

// canary (round 6): a goroutine that sleeps 1 ms, plays one ping-pong with a second goroutine and counts.  On a machine that is heavily overcommitted
// (other checks share the cores: load averages above 200 on 16 cores were seen) a runnable goroutine of this process
// may not get the CPU for hundreds of milliseconds, and "nothing happened for two ticks" then says nothing about the
// provider.  A watchdog tick counts only when the canary was scheduled at least canaryNeed times during it (then
// every runnable goroutine of the process had its turn several times); a timed wait is prolonged (patient) while it
// was not.  A cell that meets more than maxStarved such ticks is reported as `starved` (inconclusive), never as
// blocked.
var canary atomic.Int64

const (
	canaryNeed = 25
	maxStarved = 40
)

// patient waits d, and again (at most 8 times) while the process was starved during the wait
func patient(d time.Duration) <-chan struct{} {
	ch := make(chan struct{})
	go func() {
		for i := 0; i < 8; i++ {
			c0 := canary.Load()
			time.Sleep(d)
			if canary.Load()-c0 >= canaryNeed {
				break
			}
		}
		close(ch)
	}()
	return ch
}

func setup() {
	importOnce.Do(func() {
		// one beat = a 1 ms sleep and a ping-pong over two unbuffered channels with a second goroutine: what a provider
		// and its consumer do for every ammo (two hand-overs between runnable goroutines, not only a timer wake-up)
		ping, pong := make(chan struct{}), make(chan struct{})
		go func() {
			for range ping {
				pong <- struct{}{}
			}
		}()
		go func() {
			for {
				time.Sleep(time.Millisecond)
				ping <- struct{}{}
				<-pong
				canary.Add(1)
			}
		}()
		coreimport.Import(FS)
		phttpimport.Import(FS)
		grpcimport.Import(FS)
	})
}

// ---------------------------------------------------------------- ammo files

func entryPath(i int) string { return "/e" + strconv.Itoa(i) }

func identOfPath(p string) int {
	if strings.HasPrefix(p, "/e") {
		if i, err := strconv.Atoi(p[2:]); err == nil {
			return i
		}
	}
	return -1
}

func tagOf(i int) string { return "t" + strconv.Itoa(i) }

// FileFor renders the ammo file of a cell (extension, content).  Eol varies what is NOT an entry: how lines end
// and what surrounds the entries (see Cell.Eol); every variant is a well-formed file of the format with the same
// N entries.
func FileFor(c Cell) (string, string) {
	ext, body := fileBody(c)
	switch c.Eol {
	case 1:
		if c.Kind != KRaw { // a raw file ends with the bytes of its last request
			body = strings.TrimRight(body, "\r\n")
		}
	case 3:
		if c.Kind != KGRPCJSON { // grpc/json: every line is an ammo
			body = "\n\n" + body + "\n \n\n"
		}
	}
	return ext, body
}

// padOf: the padding of entry i (round 6: one entry of the file may be much larger than the others)
func (c Cell) padOf(i int) string {
	n := c.Pad
	if c.BigAt != 0 && i == c.BigAt-1 {
		n += c.Big
	}
	return strings.Repeat("p", n)
}

// HasSize: the cell has the size dimension of round 6
func (c Cell) HasSize() bool { return c.BigAt != 0 || c.Mas != 0 }

func fileBody(c Cell) (string, string) {
	var b strings.Builder
	nl := "\n"
	if c.Eol == 2 {
		nl = "\r\n"
	}
	switch c.Kind {
	case KURI:
		if c.Junk {
			b.WriteString("[X-Common: yes]" + nl + nl)
		}
		for i := 0; i < c.N; i++ {
			fmt.Fprintf(&b, "%s %s%s", entryPath(i), tagOf(i), nl)
			if c.Junk && i == 0 {
				b.WriteString("[X-Later: 1]" + nl)
			}
			if pad := c.padOf(i); pad != "" {
				fmt.Fprintf(&b, "[X-Pad: %s]%s", pad, nl)
			}
		}
		return ".uri", b.String()
	case KURIPost:
		if c.Junk {
			b.WriteString("[X-Common: yes]" + nl)
		}
		for i := 0; i < c.N; i++ {
			body := ""
			if pad := c.padOf(i); i%2 == 0 || pad != "" {
				body = fmt.Sprintf("body-%d%s", i, pad)
			}
			fmt.Fprintf(&b, "%d %s %s%s%s", len(body), entryPath(i), tagOf(i), nl, body)
			if body != "" || c.Junk {
				b.WriteString(nl)
			}
		}
		return ".uripost", b.String()
	case KRaw:
		for i := 0; i < c.N; i++ {
			req := fmt.Sprintf("GET %s HTTP/1.1\r\nHost: h.example\r\nX-I: %d\r\n", entryPath(i), i)
			if pad := c.padOf(i); pad != "" {
				req += "X-Pad: " + pad + "\r\n"
			}
			req += "\r\n"
			fmt.Fprintf(&b, "%d %s%s%s", len(req), tagOf(i), nl, req)
			if c.Junk && !(c.Eol == 1 && i == c.N-1) {
				b.WriteString(nl)
			}
		}
		return ".raw", b.String()
	case KJSONLine:
		for i := 0; i < c.N; i++ {
			fmt.Fprintf(&b, `{"host":"h.example","method":"GET","uri":"%s","tag":"%s","headers":{"X-I":"%d","X-Pad":"%s"}}`+nl, entryPath(i), tagOf(i), i, c.padOf(i))
			if c.Junk && i == 0 {
				b.WriteString(nl)
			}
		}
		return ".jsonl", b.String()
	case KJSONArr:
		b.WriteString("[")
		for i := 0; i < c.N; i++ {
			if i > 0 {
				b.WriteString(",")
			}
			if c.Junk {
				b.WriteString(nl + "  ")
			}
			fmt.Fprintf(&b, `{"host":"h.example","method":"GET","uri":"%s","tag":"%s","headers":{"X-Pad":"%s"}}`, entryPath(i), tagOf(i), c.padOf(i))
		}
		b.WriteString("]")
		if c.Junk {
			b.WriteString(nl)
		}
		return ".json", b.String()
	case KGRPCJSON:
		for i := 0; i < c.N; i++ {
			fmt.Fprintf(&b, `{"tag":"%s","call":"pkg.Svc.M%d","payload":{"i":%d,"pad":"%s"}}`+nl, tagOf(i), i, i, c.padOf(i))
		}
		return ".grpc.json", b.String()
	case KGenJSON:
		for i := 0; i < c.N; i++ {
			fmt.Fprintf(&b, `{"I":%d,"Tag":"%s","Pad":"%s"}`, i, tagOf(i), c.padOf(i))
			if c.Junk {
				b.WriteString(" ")
			} else {
				b.WriteString(nl)
			}
		}
		return ".gen.json", b.String()
	case KHTTPScn:
		b.WriteString("requests:\n")
		b.WriteString("  - name: r\n    method: GET\n    uri: /r\n    tag: r\n")
		b.WriteString("scenarios:\n")
		for i := 0; i < c.N; i++ {
			fmt.Fprintf(&b, "  - name: e%d\n    weight: %d\n    min_waiting_time: 0\n    requests: [\"r\"]\n", i, c.weight(i))
		}
		return ".http.yaml", strings.ReplaceAll(b.String(), "\n", nl)
	case KGRPCScn:
		b.WriteString("calls:\n")
		b.WriteString("  - name: c\n    call: pkg.Svc.M\n    tag: c\n    payload: '{}'\n")
		b.WriteString("scenarios:\n")
		for i := 0; i < c.N; i++ {
			fmt.Fprintf(&b, "  - name: e%d\n    weight: %d\n    min_waiting_time: 0\n    requests: [\"c\"]\n", i, c.weight(i))
		}
		return ".grpc.yaml", strings.ReplaceAll(b.String(), "\n", nl)
	}
	return "", ""
}

func inlineURIs(c Cell) []string {
	out := make([]string, c.N)
	for i := range out {
		out[i] = entryPath(i) + " " + tagOf(i)
	}
	return out
}

// GenAmmo is the ammo type of the generic JSON provider cells built directly.
type GenAmmo struct {
	I   int
	Tag string
}

// ---------------------------------------------------------------- construction

var cfgType = map[string]string{
	KURI: "uri", KURIs: "uri", KURIPost: "uripost", KRaw: "raw", KJSONLine: "http/json", KJSONArr: "http/json",
	KGRPCJSON: "grpc/json", KHTTPScn: "http/scenario", KGRPCScn: "grpc/scenario", KGenJSON: "json",
}

// constructCfg decodes an `ammo:` section the way a pandora config is decoded (registered plugin factories).
func constructCfg(c Cell, path string) (core.Provider, error) {
	m := map[string]any{"type": cfgType[c.Kind]}
	switch c.Kind {
	case KGenJSON:
		switch c.Src {
		case "", "file":
			m["source"] = map[string]any{"type": "file", "path": path}
		case "inline":
			_, content := FileFor(c)
			m["source"] = map[string]any{"type": "inline", "data": content}
		default:
			return nil, fmt.Errorf("harness: source %q cannot be written in a config", c.Src)
		}
	case KURIs:
		uris := inlineURIs(c)
		l := make([]any, len(uris))
		for i, u := range uris {
			l[i] = u
		}
		m["uris"] = l
	default:
		m["file"] = path
	}
	if c.Limit != 0 {
		m["limit"] = cfgNum(c.Limit)
	}
	if c.Passes != 0 {
		m["passes"] = cfgNum(c.Passes)
	}
	if c.Preload {
		m["preload"] = true
	}
	if c.Mas != 0 {
		m["maxammosize"] = c.Mas
	}
	if c.Pick != nil {
		l := []any{}
		for _, t := range c.chosenTags() {
			l = append(l, t)
		}
		m["chosencases"] = l
	}
	var pool struct {
		Provider core.Provider `config:"ammo"`
	}
	if err := config.DecodeAndValidate(map[string]any{"ammo": m}, &pool); err != nil {
		return nil, err
	}
	if pool.Provider == nil {
		return nil, errors.New("nil provider")
	}
	return pool.Provider, nil
}

// cfgNum: a number as a YAML / JSON front-end hands it to the config decoder (int when it fits, else uint64)
func cfgNum(x uint64) any {
	if x <= 1<<62 {
		return int(x)
	}
	return x
}

// intBound: a bound of a kind whose option is an `int`
func intBound(x uint64) (int, error) {
	if x > 1<<63-1 {
		return 0, fmt.Errorf("harness: %d does not fit the int option of this kind", x)
	}
	return int(x), nil
}

func construct(c Cell, path string, cio *cellIO) (core.Provider, error) {
	if c.Pick != nil && !(IsHTTP(c.Kind) || c.Kind == KGRPCJSON) {
		return nil, fmt.Errorf("harness: kind %s has no chosencases option", c.Kind)
	}
	if c.HasSize() && !(IsHTTP(c.Kind) && c.Kind != KURIs || c.Kind == KGRPCJSON || c.Kind == KGenJSON) {
		return nil, fmt.Errorf("harness: kind %s has no sized entries", c.Kind)
	}
	if c.Mas != 0 && c.Kind == KGenJSON {
		return nil, fmt.Errorf("harness: the generic JSON provider has no maxammosize option")
	}
	if c.BigAt > c.N {
		return nil, fmt.Errorf("harness: bigat beyond the last entry")
	}
	if c.Wts != nil && (!(c.Kind == KHTTPScn || c.Kind == KGRPCScn) || len(c.Wts) != c.N) {
		return nil, fmt.Errorf("harness: weights need a scenario kind and one weight per scenario")
	}
	if c.Via == "cfg" {
		return constructCfg(c, path)
	}
	switch c.Kind {
	case KURI, KURIs, KURIPost, KRaw, KJSONLine, KJSONArr:
		conf := httpconf.Config{
			File:    path,
			Limit:   uint(c.Limit),
			Passes:  uint(c.Passes),
			Preload: c.Preload,

			MaxAmmoSize: c.Mas,
		}
		if c.Pick != nil {
			conf.ChosenCases = c.chosenTags()
		}
		switch c.Kind {
		case KURI:
			conf.Decoder = httpconf.DecoderURI
		case KURIs:
			conf.Decoder = httpconf.DecoderURI
			conf.File = ""
			conf.Uris = inlineURIs(c)
		case KURIPost:
			conf.Decoder = httpconf.DecoderURIPost
		case KRaw:
			conf.Decoder = httpconf.DecoderRaw
		default:
			conf.Decoder = httpconf.DecoderJSONLine
		}
		return httpprov.NewProvider(FS, conf)
	case KGRPCJSON:
		l, err := intBound(c.Limit)
		if err != nil {
			return nil, err
		}
		ps, err := intBound(c.Passes)
		if err != nil {
			return nil, err
		}
		gc := grpcjson.Config{File: path, Limit: l, Passes: ps, MaxAmmoSize: c.Mas}
		if c.Pick != nil {
			gc.ChosenCases = c.chosenTags()
		}
		return grpcjson.NewProvider(FS, gc), nil
	case KHTTPScn:
		return scnhttp.NewProvider(FS, scenario.ProviderConfig{File: path, Limit: uint(c.Limit), Passes: uint(c.Passes)})
	case KGRPCScn:
		return scngrpc.NewProvider(FS, scenario.ProviderConfig{File: path, Limit: uint(c.Limit), Passes: uint(c.Passes)})
	case KGenJSON:
		conf := coreprov.DefaultJSONProviderConfig()
		l, err := intBound(c.Limit)
		if err != nil {
			return nil, err
		}
		ps, err := intBound(c.Passes)
		if err != nil {
			return nil, err
		}
		src, err := genSource(c, path, cio)
		if err != nil {
			return nil, err
		}
		conf.Decode.Source = src
		conf.Decode.Limit = l
		conf.Decode.Passes = ps
		return coreprov.NewJSONProvider(func() core.Ammo { return &GenAmmo{} }, conf), nil
	}
	return nil, fmt.Errorf("unknown kind %q", c.Kind)
}

// ---------------------------------------------------------------- data sources of the generic JSON provider (round 4)

// Seekable: can the data source of the cell be read more than once?  (file, inline data and readers that can Seek; a
// plain io.Reader and a bytes.Buffer cannot be rewound: ioutil2.NewMultiPassReader then reads them once.)
func Seekable(src string) bool { return src != "pipe" && src != "buf" && src != "rc" }

// InMemory: the source of the cell is not a file of the counting filesystem
func InMemory(c Cell) bool { return c.Kind == KGenJSON && c.Src != "" && c.Src != "file" }

// memReader reads the cell's data from memory through the cell's counting / fault hooks (what the counting file does
// for the file sources).
type memReader struct {
	r  *bytes.Reader
	io *cellIO
}

func (m *memReader) Read(p []byte) (int, error) {
	killed, fail := m.io.op()
	if killed {
		return 0, errKilled
	}
	if fail {
		return 0, errInjRead
	}
	return m.r.Read(p)
}

// memSeeker: an io.ReadSeeker that is no io.Closer
type memSeeker struct{ *memReader }

func (m memSeeker) Seek(off int64, whence int) (int64, error) {
	killed, fail := m.io.op()
	if killed {
		return 0, errKilled
	}
	if fail {
		return 0, errInjRead
	}
	return m.r.Seek(off, whence)
}

// memSeekCloser: io.ReadSeeker + io.Closer
type memSeekCloser struct{ memSeeker }

func (m memSeekCloser) Close() error {
	if m.io.cfail {
		m.io.chit.Store(true)
		return errInjClose
	}
	return nil
}

// memCloser: an io.ReadCloser that cannot Seek (a pipe, a response body)
type memCloser struct{ *memReader }

func (m memCloser) Close() error {
	if m.io.cfail {
		m.io.chit.Store(true)
		return errInjClose
	}
	return nil
}

func genSource(c Cell, path string, cio *cellIO) (core.DataSource, error) {
	_, content := FileFor(c)
	mr := &memReader{r: bytes.NewReader([]byte(content)), io: cio}
	switch c.Src {
	case "", "file":
		return datasource.NewFile(FS, datasource.FileConfig{Path: path}), nil
	case "inline":
		return datasource.NewInline(datasource.InlineConfig{Data: content}), nil
	case "rs":
		return datasource.NewReader(memSeeker{mr}), nil
	case "rsc":
		return datasource.NewReader(memSeekCloser{memSeeker{mr}}), nil
	case "rc":
		return datasource.NewReader(memCloser{mr}), nil
	case "pipe":
		return datasource.NewReader(io.Reader(mr)), nil
	case "buf":
		return datasource.NewBuffer(bytes.NewBufferString(content)), nil
	}
	return nil, fmt.Errorf("harness: unknown source %q", c.Src)
}

type httpGunAmmo interface {
	Request() (*http.Request, *netsample.Sample)
}

// identify returns the entry identity of an acquired ammo.
func identify(a core.Ammo) int {
	switch v := a.(type) {
	case httpGunAmmo:
		req, _ := v.Request()
		if req == nil || req.URL == nil {
			return -1
		}
		return identOfPath(req.URL.Path)
	case *grpcammo.Ammo:
		if strings.HasPrefix(v.Call, "pkg.Svc.M") {
			if n, err := strconv.Atoi(v.Call[len("pkg.Svc.M"):]); err == nil {
				return n
			}
		}
		return -1
	case *httpscngun.Scenario:
		return identOfPath("/" + v.Name)
	case *grpcscngun.Scenario:
		return identOfPath("/" + v.Name)
	case *GenAmmo:
		return v.I
	case *map[string]interface{}:
		if v == nil {
			return -1
		}
		return identify(*v)
	case map[string]interface{}:
		switch x := v["I"].(type) {
		case float64:
			return int(x)
		case int:
			return x
		}
		return -1
	}
	return -2
}

func classifyErr(err error) string {
	switch {
	case err == nil:
		return "nil"
	case strings.Contains(err.Error(), faultMark):
		return "fault" // an injected fault is reported (alone or merged with the run's own error)
	case errors.Is(err, context.Canceled):
		return "canceled"
	case errors.Is(err, decoders.ErrAmmoLimit):
		return "limit"
	case errors.Is(err, decoders.ErrPassLimit):
		return "passes"
	case errors.Is(err, decoders.ErrNoAmmo):
		return "noammo"
	case errors.Is(err, errKilled):
		return "killed"
	}
	return "other:" + squash(err.Error())
}

func squash(s string) string {
	s = strings.Map(func(r rune) rune {
		if r == ' ' || r == '\t' || r == '\n' || r == '=' {
			return '_'
		}
		return r
	}, s)
	if len(s) > 60 {
		s = s[:60]
	}
	return s
}

// seqVerdict checks the acquired identities against the cyclic file 0,1,…,n-1,0,1,…: exact order for one
// consumer, as a multiset for several (their recording order is not the channel order).
func seqVerdict(seq []int, n, cons int, complete bool) string {
	if n <= 0 {
		return "na"
	}
	if cons <= 1 {
		for k, id := range seq {
			if id != k%n {
				return "bad@" + strconv.Itoa(k)
			}
		}
		return "ok"
	}
	if !complete {
		return "na"
	}
	cnt := make([]int, n)
	for _, id := range seq {
		if id < 0 || id >= n {
			return "badmulti"
		}
		cnt[id]++
	}
	d := len(seq)
	for i := 0; i < n; i++ {
		want := d / n
		if i < d%n {
			want++
		}
		if cnt[i] != want {
			return "badmulti"
		}
	}
	return "ok"
}

// tailVerdict: for a cell with an injected read fault whose acquisitions are not the cyclic file: are they the cyclic
// file but for ONE item, the last one sent?  (bufio.Scanner hands out the partial last line before it reports the read
// error, and a truncated uri line is still a uri: the decoder delivers it, then fails.)  One consumer: the first d-1 in
// order, the last one anything; several: as a multiset, one item anything.
func tailVerdict(seq []int, n, cons int, complete bool) bool {
	d := len(seq)
	if n <= 0 || d == 0 {
		return false
	}
	if cons <= 1 {
		for k, id := range seq[:d-1] {
			if id != k%n {
				return false
			}
		}
		return true
	}
	if !complete {
		return false
	}
	cnt := make([]int, n)
	odd := 0
	for _, id := range seq {
		if id < 0 || id >= n {
			odd++
			continue
		}
		cnt[id]++
	}
	for i := 0; i < n; i++ {
		want := (d - 1) / n
		if i < (d-1)%n {
			want++
		}
		switch cnt[i] {
		case want:
		case want + 1:
			odd++
		default:
			return false
		}
	}
	return odd == 1
}

// Huge is what Expected saturates at: a bound above it is "practically unbounded" for everything the harness does with
// the number (how long to wait, where to cut).
const Huge = 1 << 40

// Expected is min+(limit, passes*n), saturated at Huge; ok=false for an unbounded cell.  Only used to choose how long to
// wait (the Lean side computes the exact number).
func Expected(limit, passes uint64, n int) (int, bool) {
	sat := func(x uint64) int {
		if x > Huge {
			return Huge
		}
		return int(x)
	}
	pn := uint64(Huge)
	if n > 0 && passes <= Huge/uint64(n) {
		pn = passes * uint64(n)
	}
	switch {
	case limit == 0 && passes == 0:
		return 0, false
	case passes == 0:
		return sat(limit), true
	case limit == 0:
		return sat(pn), true
	}
	if limit < pn {
		return sat(limit), true
	}
	return sat(pn), true
}

// Eff is the number of entries of one pass: the chosen ones when the cell has a chosencases option.
func (c Cell) Eff() int {
	if c.Pick != nil {
		return len(c.Pick)
	}
	if c.Wts != nil {
		return len(c.Order())
	}
	return c.N
}

// weight of scenario i as written into the file (1 when the cell has no weights)
func (c Cell) weight(i int) int {
	if c.Wts != nil && i < len(c.Wts) {
		return c.Wts[i]
	}
	return 1
}

// Spread is what the property's "entries" are for a scenario file with weights: scenario i, in file order, weight_i / g
// times in a row, g = the greatest common divisor of all weights, a weight 0 counting as 1 (derived from the documented
// meaning of `weight`, not from the code).
func Spread(wts []int) []int {
	g := 0
	w := make([]int, len(wts))
	for i, x := range wts {
		if x == 0 {
			x = 1
		}
		w[i] = x
		a, b := g, x
		for b != 0 {
			a, b = b, a%b
		}
		g = a
	}
	var o []int
	for i, x := range w {
		for k := 0; k < x/g; k++ {
			o = append(o, i)
		}
	}
	return o
}

// Order lists the identities of the entries of one pass in the order they have to be delivered.
func (c Cell) Order() []int {
	if c.Pick != nil {
		return c.Pick
	}
	if c.Wts != nil {
		return Spread(c.Wts)
	}
	o := make([]int, c.N)
	for i := range o {
		o[i] = i
	}
	return o
}

// toIndex maps acquired identities to their position in one pass (-1: not an entry of a pass)
func toIndex(seq []int, order []int) []int {
	if repeats(order) {
		return toIndexRep(seq, order)
	}
	pos := map[int]int{}
	for i, id := range order {
		pos[id] = i
	}
	out := make([]int, len(seq))
	for k, id := range seq {
		if i, ok := pos[id]; ok {
			out[k] = i
		} else {
			out[k] = -1
		}
	}
	return out
}

func repeats(order []int) bool {
	seen := map[int]bool{}
	for _, id := range order {
		if seen[id] {
			return true
		}
		seen[id] = true
	}
	return false
}

// toIndexRep: a pass in which identities repeat (scenario weights).  The k-th acquisition with identity id is given the
// position of the (k mod c_id)-th occurrence of id in a pass — for one consumer (recorded in channel order) that is exactly
// its position when the sequence is the cyclic pass, and any deviation shows as a wrong position; for several consumers
// (multiset check) the positions of one identity are filled in turn, which is what the cyclic pass does.
func toIndexRep(seq []int, order []int) []int {
	occ := map[int][]int{}
	for i, id := range order {
		occ[id] = append(occ[id], i)
	}
	seen := map[int]int{}
	out := make([]int, len(seq))
	for k, id := range seq {
		ps := occ[id]
		if len(ps) == 0 {
			out[k] = -1
			continue
		}
		out[k] = ps[seen[id]%len(ps)]
		seen[id]++
	}
	return out
}

func (c Cell) chosenTags() []string {
	t := make([]string, len(c.Pick))
	for i, id := range c.Pick {
		t[i] = tagOf(id)
	}
	return t
}

// ---------------------------------------------------------------- one cell

// Run executes the cell; a cell that looks wrong for a timing-dependent reason (stuck, lingering) is executed a
// second time with a longer tick and the second observation is returned.
func Run(c Cell) Obs {
	setup()
	if c.Mode == "" {
		c.Mode = "drain"
	}
	if c.Cons <= 0 {
		c.Cons = 1
	}
	if c.Tick == 0 {
		c.Tick = 250 * time.Millisecond
	}
	o := runOnce(c)
	if suspicious(c, o) {
		// the second look is there to keep a loaded machine from raising a false alarm; on a tree where cells block by
		// the hundred (a sink that stays open) the verdict is settled long before, and every second look costs 3 ticks:
		// after retryBudget confirmed-suspicious cells the first observation stands
		if confirmed.Load() >= retryBudget {
			return o
		}
		c.Tick *= 3
		o = runOnce(c)
		if suspicious(c, o) {
			confirmed.Add(1)
		}
	}
	return o
}

// retryBudget: number of cells that looked wrong twice after which a cell that looks wrong is no longer run a second time
const retryBudget = 40

var confirmed atomic.Int64

func suspicious(c Cell, o Obs) bool {
	if o.Construct != "" {
		return false
	}
	switch c.Mode {
	case "engine":
		return o.EngErr == "hang" || !o.Wait
	case "stall":
		return !o.Ret || o.End != "closed" || (o.Cut && selfEnding(c))
	}
	return o.End != "closed" || o.Run == "noreturn"
}

// selfEnding: in stall mode the provider can finish without being cancelled (everything it has to deliver fits
// into what consumers take plus the channel buffer).
func selfEnding(c Cell) bool {
	m, ok := Expected(c.Limit, c.Passes, c.Eff())
	return ok && m <= c.Cap+ChanCap(c.Kind)
}

type env struct {
	c      Cell
	io     *cellIO
	path   string
	p      core.Provider
	ctx    context.Context
	cancel context.CancelFunc
}

func prepare(c Cell) (*env, string) {
	e := &env{c: c, io: &cellIO{}}
	ext, content := FileFor(c)
	if c.Kind != KURIs && !InMemory(c) {
		e.path = fmt.Sprintf("/c08/%d/ammo%s", fileSeq.Add(1), ext)
		if err := afero.WriteFile(FS.Fs, e.path, []byte(content), 0o644); err != nil {
			return nil, "harness:" + err.Error()
		}
		FS.register(e.path, e.io)
	}
	e.ctx, e.cancel = context.WithCancel(context.Background())
	if c.Mode == "ext" {
		e.io.cancelAt = int64(c.At)
		e.io.cancel = e.cancel
	}
	e.io.gateAt = int64(c.Gate)
	e.io.rfailAt, e.io.rsticky, e.io.cfail, e.io.ofail = int64(c.RFail), c.RSticky, c.CFail == 1, c.OFail
	p, err := construct(c, e.path, e.io)
	if err != nil {
		e.close()
		return e, classifyErr(err)
	}
	// faults of the exported Close field of the http provider (what Run's deferred cleanup calls)
	if hp, ok := p.(*httpprovider.Provider); ok {
		switch {
		case c.CFail == 2:
			hp.Close = nil
		case c.CFail == 1 && c.Kind == KURIs: // no file behind it: the field itself fails
			io := e.io
			hp.Close = func() error { io.chit.Store(true); return errInjClose }
		}
	}
	e.p = safeProv{p, e.io}
	return e, ""
}

// safeProv turns a panic of Provider.Run (it runs in a goroutine of its own, also inside the engine) into an error
// result, so that a crashing provider is an observation of its cell instead of the end of the whole driver.
type safeProv struct {
	core.Provider
	io *cellIO
}

func (s safeProv) Run(ctx context.Context, deps core.ProviderDeps) (err error) {
	s.io.runCtx.Store(&ctx)
	defer func() {
		if r := recover(); r != nil {
			err = fmt.Errorf("PANIC %v", r)
		}
	}()
	return s.Provider.Run(ctx, deps)
}

func (e *env) close() {
	e.cancel()
	if e.path != "" {
		FS.unregister(e.path)
	}
}

func runOnce(c Cell) Obs {
	e, cerr := prepare(c)
	if e == nil {
		return Obs{Construct: cerr}
	}
	var o Obs
	if e.p == nil {
		o = Obs{Construct: cerr}
	} else {
		defer e.close()
		switch c.Mode {
		case "stall":
			o = runStall(e)
		case "engine":
			o = runEngine(e)
		default:
			o = runDrain(e)
		}
	}
	o.RHit, o.CHit, o.OHit = e.io.rhit.Load(), e.io.chit.Load(), e.io.ohit.Load()
	return o
}

// runDrain: modes drain and ext.
func runDrain(e *env) Obs {
	c := e.c
	var obs Obs
	tick := c.Tick
	var events atomic.Int64 // deliveries + consumer exits + run return
	var mu sync.Mutex
	var seq []int
	var acquired atomic.Int64
	var cut atomic.Bool

	if c.Mode == "ext" && c.At == 0 {
		e.io.fired.Store(true)
		e.cancel()
	}
	runDone := make(chan error, 1)
	var runOver atomic.Bool
	go func() {
		err := e.p.Run(e.ctx, core.ProviderDeps{Log: zap.NewNop(), PoolID: "c08"})
		runOver.Store(true)
		events.Add(1)
		runDone <- err
	}()
	if c.Mode == "tcan" {
		tm := time.AfterFunc(time.Duration(c.At)*time.Microsecond, func() {
			if !runOver.Load() {
				e.io.fired.Store(true)
			}
			e.cancel()
		})
		defer tm.Stop()
	}

	cons := c.Cons
	var ended atomic.Int64
	consDone := make(chan struct{}, cons)
	const drainMax = 50000
	capN := c.Cap // ext cells are cut there too (an `at` that is never reached must not leave an unbounded cell running)
	for w := 0; w < cons; w++ {
		jit := newJitter(c.Jit, w)
		go func() {
			defer func() { consDone <- struct{}{} }()
			drained := 0
			for {
				if drained == 0 {
					jit.pause() // no perturbation while only emptying the channel after the cut
				}
				a, ok := e.p.Acquire()
				if !ok {
					ended.Add(1)
					events.Add(1)
					return
				}
				k := int(acquired.Add(1))
				if capN == 0 || k <= capN {
					id := identify(a)
					mu.Lock()
					seq = append(seq, id)
					mu.Unlock()
					events.Add(1)
					if capN != 0 && k == capN {
						cut.Store(true)
						e.cancel()
					}
				} else {
					drained++
					events.Add(1) // emptying the channel is progress for the watchdog
					if drained > drainMax {
						return // never ends: reported as not closed
					}
				}
				e.p.Release(a)
			}
		}()
	}

	var runErr error
	runReturned := false
	consLeft := cons
	lastEvents := events.Load()
	lastOps := e.io.ops.Load()
	still := 0
	spinning := false
	t := time.NewTicker(tick)
	defer t.Stop()
	stuck := false
	lastCanary, starved := canary.Load(), 0
	for !(runReturned && consLeft == 0) && !stuck {
		select {
		case runErr = <-runDone:
			runReturned = true
		case <-consDone:
			consLeft--
		case <-t.C:
			if cn := canary.Load(); cn-lastCanary < canaryNeed && starved < maxStarved {
				lastCanary = cn
				starved++
				continue // the process did not get the CPU during this tick: it does not count
			} else {
				lastCanary = cn
			}
			ev, ops := events.Load(), e.io.ops.Load()
			if ev == lastEvents {
				still++
				spinning = ops != lastOps
			} else {
				still = 0
			}
			lastEvents, lastOps = ev, ops
			if still >= 2 {
				stuck = true
			}
		}
	}
	obs.Ops = e.io.ops.Load()
	if runReturned {
		obs.Run = classifyErr(runErr)
	} else {
		obs.Run = "noreturn"
	}
	if int(ended.Load()) == cons {
		obs.End = "closed"
	} else if starved >= maxStarved {
		obs.End = "starved"
	} else if spinning {
		obs.End = "spinning"
	} else {
		obs.End = "blocked"
	}
	if stuck {
		e.cancel()
		if !runReturned {
			select {
			case <-runDone:
				runReturned = true
			case <-patient(tick):
			}
		}
		e.io.killed.Store(true)
		if !runReturned {
			select {
			case <-runDone:
			case <-patient(4 * tick):
			}
		}
	}
	mu.Lock()
	defer mu.Unlock()
	obs.Delivered = len(seq)
	obs.Cut = cut.Load()
	obs.Fired = e.io.fired.Load()
	complete := !obs.Cut && obs.End == "closed"
	obs.Seq = seqVerdict(toIndex(seq, c.Order()), c.Eff(), cons, complete)
	if c.RFail != 0 && strings.HasPrefix(obs.Seq, "bad") && tailVerdict(toIndex(seq, c.Order()), c.Eff(), cons, complete) {
		obs.Seq = "tail"
	}
	return obs
}

// jitter perturbs the scheduling of a consumer: pseudo-random yields and short sleeps (own PRNG, seeded per cell)
type jitter struct{ x uint64 }

func newJitter(seed, w int) *jitter {
	if seed == 0 {
		return nil
	}
	return &jitter{x: uint64(seed)*0x9E3779B97F4A7C15 + uint64(w+1)*0xBF58476D1CE4E5B9}
}

func (j *jitter) pause() {
	if j == nil {
		return
	}
	j.x ^= j.x << 13
	j.x ^= j.x >> 7
	j.x ^= j.x << 17
	switch j.x % 8 {
	case 0, 1:
		runtime.Gosched()
	case 2:
		time.Sleep(time.Duration(j.x>>8%40) * time.Microsecond)
	}
}

// runStall: consumers make exactly Cap Acquire calls in total, then nobody receives any more.
func runStall(e *env) Obs {
	c := e.c
	var obs Obs
	tick := c.Tick
	var mu sync.Mutex
	var seq []int
	var tickets atomic.Int64

	runDone := make(chan error, 1)
	go func() {
		runDone <- e.p.Run(e.ctx, core.ProviderDeps{Log: zap.NewNop(), PoolID: "c08"})
	}()
	cons := c.Cons
	consDone := make(chan struct{}, cons)
	for w := 0; w < cons; w++ {
		jit := newJitter(c.Jit, w)
		go func() {
			defer func() { consDone <- struct{}{} }()
			for {
				jit.pause()
				if int(tickets.Add(1)) > c.Cap {
					return
				}
				a, ok := e.p.Acquire()
				if !ok {
					return
				}
				id := identify(a)
				mu.Lock()
				seq = append(seq, id)
				mu.Unlock()
				e.p.Release(a)
			}
		}()
	}
	// consumers finish: they got their Cap ammo, or saw the end of ammo (blocked = no Acquire completes for two ticks)
	consBlocked := false
	tk := time.NewTicker(tick)
	defer tk.Stop()
	lastT, still := tickets.Load(), 0
	lastCanary, starved := canary.Load(), 0
	for left := cons; left > 0 && !consBlocked; {
		select {
		case <-consDone:
			left--
			still = 0
		case <-tk.C:
			if cn := canary.Load(); cn-lastCanary < canaryNeed && starved < maxStarved {
				lastCanary = cn
				starved++
				continue
			} else {
				lastCanary = cn
			}
			if t := tickets.Load(); t == lastT {
				still++
			} else {
				lastT, still = t, 0
			}
			if still >= 3 {
				consBlocked = true
			}
		}
	}
	var runErr error
	runReturned := false
	if !consBlocked {
		wait := 20 * time.Millisecond
		if selfEnding(c) {
			wait = 4 * tick
		}
		select {
		case runErr = <-runDone:
			runReturned = true
		case <-patient(wait):
		}
	}
	if !runReturned {
		obs.Cut = true
		e.cancel()
		select {
		case runErr = <-runDone:
			runReturned = true
		case <-patient(4 * tick):
		}
	}
	obs.Ret = runReturned
	if runReturned {
		obs.Run = classifyErr(runErr)
	} else {
		obs.Run = "noreturn"
	}
	// what is left in the sink, and is it closed?
	obs.End = "open"
	if consBlocked {
		obs.End = "blocked"
		if starved >= maxStarved {
			obs.End = "starved"
		}
	}
	if runReturned && !consBlocked {
		type dr struct {
			left   int
			closed bool
		}
		ch := make(chan dr, 1)
		max := ChanCap(c.Kind) + 16
		go func() {
			n := 0
			for n <= max {
				a, ok := e.p.Acquire()
				if !ok {
					ch <- dr{n, true}
					return
				}
				n++
				e.p.Release(a)
			}
			ch <- dr{n, false}
		}()
		select {
		case r := <-ch:
			obs.Left = r.left
			if r.closed {
				obs.End = "closed"
			}
		case <-patient(8 * tick):
		}
	}
	e.io.killed.Store(true)
	mu.Lock()
	defer mu.Unlock()
	obs.Delivered = len(seq)
	obs.Ops = e.io.ops.Load()
	obs.Seq = seqVerdict(toIndex(seq, c.Order()), c.Eff(), cons, false)
	if cons > 1 {
		// several consumers: the acquired set is still the first Delivered entries of the cyclic file
		obs.Seq = seqVerdict(toIndex(seq, c.Order()), c.Eff(), cons, true)
	}
	return obs
}

// ---------------------------------------------------------------- the real engine

type recGun struct {
	rec *recorder
}

type recorder struct {
	mu  sync.Mutex
	seq []int
}

func (g *recGun) Bind(core.Aggregator, core.GunDeps) error { return nil }
func (g *recGun) Shoot(a core.Ammo) {
	id := identify(a)
	g.rec.mu.Lock()
	g.rec.seq = append(g.rec.seq, id)
	g.rec.mu.Unlock()
}

type nopAggregator struct{}

func (nopAggregator) Run(ctx context.Context, _ core.AggregatorDeps) error {
	<-ctx.Done()
	return nil
}
func (nopAggregator) Report(core.Sample) {}

func runEngine(e *env) Obs {
	c := e.c
	var obs Obs
	rec := &recorder{}
	conf := engine.Config{Pools: []engine.InstancePoolConfig{{
		ID:         "c08",
		Provider:   e.p,
		Aggregator: nopAggregator{},
		NewGun:     func() (core.Gun, error) { return &recGun{rec: rec}, nil },
		NewRPSSchedule: func() (core.Schedule, error) {
			if c.Idle {
				return schedule.NewOnce(0), nil
			}
			if c.Shots > 0 {
				return schedule.NewOnce(int64(c.Shots)), nil
			}
			return schedule.NewUnlimited(time.Hour), nil
		},
		StartupSchedule: schedule.NewOnce(int64(c.Cons)),
	}}}
	m := engine.Metrics{
		Request: &monitoring.Counter{}, Response: &monitoring.Counter{},
		InstanceStart: &monitoring.Counter{}, InstanceFinish: &monitoring.Counter{},
	}
	eng := engine.New(zap.NewNop(), m, conf)
	res := make(chan error, 1)
	go func() { res <- eng.Run(e.ctx) }()
	hung := false
	select {
	case err := <-res:
		if err == nil {
			obs.EngErr = "nil"
		} else {
			obs.EngErr = "other:" + squash(err.Error())
		}
	case <-patient(20 * c.Tick):
		hung = true
		obs.EngErr = "hang"
	}
	if hung {
		e.cancel()
	}
	waited := make(chan struct{})
	go func() { eng.Wait(); close(waited) }()
	select {
	case <-waited:
		obs.Wait = true
	case <-patient(8 * c.Tick):
		e.cancel()
		e.io.killed.Store(true)
	}
	rec.mu.Lock()
	defer rec.mu.Unlock()
	obs.Shots = len(rec.seq)
	obs.Gated = e.io.gated.Load()
	obs.Ops = e.io.ops.Load()
	m2, bounded := Expected(c.Limit, c.Passes, c.Eff())
	complete := bounded && !c.Idle && (c.Shots == 0 || m2 <= c.Shots)
	obs.Seq = seqVerdict(toIndex(rec.seq, c.Order()), c.Eff(), c.Cons, complete)
	return obs
}
