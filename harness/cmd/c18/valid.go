package main

// Validation of the decoded configuration.  On the hook / engine path the fillConf of a creation is
// config.DecodeAndValidate: it decodes the user's settings over the (default) configuration and then VALIDATES the
// result.  The instrumented config type has a validation rule, registered with the config package the way plugins do
// (config.RegisterCustom): `Conf.C >= vmin`, vmin a parameter of the case (vmin=0 or absent: every configuration is
// valid).  A default or zero configuration may therefore be invalid without user settings (`gun: {type: http}` without
// a target), the user's settings may repair it or break it.  A config that fails validation is a config error: it must
// reach the caller as the error result, no component may be built from it — also when the settings consist of the
// `type` key only.

import (
	"strings"
	"sync/atomic"

	"github.com/yandex/pandora/core/config"
)

// the rule of the case that is running (hook / engine cases are serialised by hookMu)
var curVmin atomic.Int64

func installRule() {
	config.RegisterCustom(func(h config.ValidateHandle) {
		if c, ok := h.Value().(Conf); ok && int64(c.C) < curVmin.Load() {
			h.ReportError("C", "min")
		}
	}, Conf{})
}

// setRule installs the rule of a case; the returned func removes it
func setRule(vmin int) func() {
	curVmin.Store(int64(vmin))
	return func() { curVmin.Store(0) }
}

// isValidationErr: an error of config.Validate (recognised by the wording of the validator package)
func isValidationErr(err error) bool {
	if err == nil {
		return false
	}
	if _, ours := asTErr(err); ours {
		return false
	}
	return strings.Contains(err.Error(), "Field validation for")
}
