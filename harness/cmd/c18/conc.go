package main

// conc=1: the registry is documented thread safe once registration is over ("New is thread safe, if there is no concurrent
// Register calls"; the pools of one engine create their guns concurrently).  ONE registry, g registrations — each with its
// own instrumented user code, registered one after the other — and then g goroutines that run their creation (New /
// NewFactory + k calls) on the shared registry AT THE SAME TIME.  A registration's user code runs in one goroutine only,
// so every goroutine's observation is deterministic: it must be what the registration does alone (C18_isolation: an
// operation on one registration changes no other; the registry keeps no state after Register).
//
// input : conc=1 cases=<plain case with `+` for the blanks>@@<plain case>@@…
// obs   : conc <observation of case 0> ## <observation of case 1> ## …

import (
	"fmt"
	"reflect"
	"regexp"
	"runtime"
	"strconv"
	"strings"
	"sync"
	"sync/atomic"

	"verifharness/drv"

	"github.com/yandex/pandora/core/plugin"
	"github.com/yandex/pandora/core/plugin/pluginconfig"
)

func worldOf(kv map[string]string) *world {
	w := &world{sh: parseShape(kv["sh"]), ids: map[*Conf]int{}, ff: parseSet(kv["ff"]), cf: parseSet(kv["cf"]), rf: parseSet(kv["rf"]),
		plugT: ifaceT, bad: kv["bad"] == "1" || kv["bad"] == "2", badKey: kv["bad"] == "2"}
	w.vmin, _ = strconv.Atoi(kv["vmin"])
	w.rich = kv["impl"] == "x"
	for i, t := range strings.Split(kv["d"], "/") {
		if i < 3 {
			w.d[i], _ = strconv.Atoi(t)
		}
	}
	w.u = parseU(kv["u"])
	w.ext = parseExtDef(kv)
	w.ux = parseUx(kv)
	return w
}

func c18Conc(kv map[string]string) string {
	if raceEnabled {
		// one concurrent case at a time, so that a report of the race runtime belongs to this case
		raceMu.Lock()
		defer raceMu.Unlock()
		before := raceLogSize()
		obs := c18ConcRun(kv)
		if raceLogSize() > before {
			return "RACE " + raceSince(before)
		}
		return obs
	}
	return c18ConcRun(kv)
}

// spinStart: all goroutines of a concurrent case leave the barrier at (nearly) the same instant
type spinStart struct {
	ready, go_ atomic.Int32
}

func (b *spinStart) wait() {
	b.ready.Add(1)
	for i := 0; b.go_.Load() == 0; i++ {
		if i > 2000 {
			runtime.Gosched() // fewer processors than goroutines
		}
	}
}

func (b *spinStart) release(n int) {
	for i := 0; int(b.ready.Load()) < n && i < 50_000_000; i++ {
		if i%1000 == 999 {
			runtime.Gosched()
		}
	}
	b.go_.Store(1)
}

func c18ConcRun(kv map[string]string) string {
	reg := plugin.NewRegistry()
	// round 4: sub-cases with via=hook run through pluginconfig.Hook / FactoryHook and the REAL config decoder — several
	// config.Decode calls at the same time, each with its own settings and its own configuration object (what the pools
	// and instances of an engine do).  The registry is the default registry for the whole case, the validation rule
	// (one per process) is the one of the first such sub-case; the generator gives all of them the same.
	subs := strings.Split(kv["cases"], "@@")
	for _, s := range subs {
		if skv := drv.KV(strings.ReplaceAll(s, "+", " ")); skv["via"] == "hook" {
			hookMu.Lock()
			defer hookMu.Unlock()
			old := plugin.DefaultRegistry()
			plugin.SetDefaultRegistry(reg)
			defer plugin.SetDefaultRegistry(old)
			defer setRule(atoi(skv["vmin"]))()
			break
		}
	}
	type job struct {
		w    *world
		kv   map[string]string
		name string
		ok   bool
	}
	var jobs []job
	for i, s := range subs {
		skv := drv.KV(strings.ReplaceAll(s, "+", " "))
		j := job{w: worldOf(skv), kv: skv, name: "n" + strconv.Itoa(i)}
		j.w.yield = true
		j.ok = func() (ok bool) {
			defer func() {
				if r := recover(); r != nil {
					ok = false
				}
			}()
			reg.Register(ifaceT, j.name, j.w.constructor(), j.w.defaultFn()...)
			return true
		}()
		jobs = append(jobs, j)
	}
	outs := make([]string, len(jobs))
	var start spinStart
	running := 0
	var wg sync.WaitGroup
	for i, j := range jobs {
		if !j.ok {
			outs[i] = "regpanic"
			continue
		}
		wg.Add(1)
		running++
		go func(i int, j job) {
			defer wg.Done()
			defer func() {
				if r := recover(); r != nil {
					outs[i] = "PANIC " + drv.Clean(fmt.Sprint(r))
				}
			}()
			start.wait()
			var fillOpt []func(interface{}) error
			if j.kv["fill"] == "1" {
				fillOpt = append(fillOpt, j.w.fillWith(j.w.u))
			}
			k, _ := strconv.Atoi(j.kv["k"])
			if j.kv["via"] == "hook" {
				data := func() interface{} {
					m := map[string]interface{}{"type": j.name}
					j.w.userKeysOf(j.w.u, m)
					return m
				}
				j.w.drive(j.kv["form"], k,
					func() (interface{}, error) { return pluginconfig.Hook(reflect.TypeOf(data()), ifaceT, data()) },
					func(t reflect.Type) (interface{}, error) {
						return pluginconfig.FactoryHook(reflect.TypeOf(data()), t, data())
					})
			} else {
				j.w.drive(j.kv["form"], k,
					func() (interface{}, error) { return reg.New(ifaceT, j.name, fillOpt...) },
					func(t reflect.Type) (interface{}, error) { return reg.NewFactory(t, j.name, fillOpt...) })
			}
			var views []string
			for _, p := range j.w.products {
				if p.cfg != nil {
					views = append(views, fmt.Sprintf("%d:%d", p.serial, p.cfg.Mark))
				}
			}
			outs[i] = "steps=" + strings.Join(j.w.steps, ";") + " views=" + strings.Join(views, ",")
		}(i, j)
	}
	start.release(running)
	wg.Wait()
	return "conc " + strings.Join(outs, " ## ")
}

// yieldNow: in a concurrent case every invocation of user code gives the other goroutines a chance to run
func (w *world) yieldNow() {
	if w.yield {
		runtime.Gosched()
	}
}

// concGen: n cases, each 2..6 plain cases of this run (with few calls) side by side
func concGen(r interface{ Intn(int) int }, plain []string, n int) []string {
	var out []string
	if len(plain) == 0 {
		return nil
	}
	for i := 0; i < n; i++ {
		g := 2 + r.Intn(5)
		var cs []string
		for j := 0; j < g; j++ {
			cs = append(cs, strings.ReplaceAll(plain[r.Intn(len(plain))], " ", "+"))
		}
		out = append(out, "conc=1 cases="+strings.Join(cs, "@@"))
	}
	return out
}

var concVminPat = regexp.MustCompile(`vmin=[0-9]+`)

// concHookGen (round 4): n cases of 3..8 creations THROUGH THE HOOKS side by side (one rule for the case: the rule is a
// property of the config type), each sub-case with its own registration, settings and structured options
func concHookGen(r interface{ Intn(int) int }, hooked []string, n int) []string {
	var out []string
	if len(hooked) == 0 {
		return nil
	}
	for i := 0; i < n; i++ {
		g := 3 + r.Intn(6)
		vmin := "vmin=" + strconv.Itoa([]int{0, 0, 0, 1, 30}[r.Intn(5)])
		var cs []string
		for j := 0; j < g; j++ {
			c := concVminPat.ReplaceAllString(hooked[r.Intn(len(hooked))], vmin)
			cs = append(cs, strings.ReplaceAll(c, " ", "+"))
		}
		out = append(out, "conc=1 cases="+strings.Join(cs, "@@"))
	}
	return out
}
