package main

// Round 6: the glue around the registry core.
//
//   via=facty ft=<type> nm=x|y|e      the REQUESTED form: Registry.NewFactory / LookupFactory / plugin.FactoryPluginType /
//                                     Registry.New on an enumeration of requested types (the two supported factory forms
//                                     and their neighbours: arity, result kinds, an error result that is not `error` itself
//                                     but implements it, arguments, non-funcs).  One registration (Iface, "x").
//                                     obs: nf=expect|noentry|made.ok|made.callpanic|panic:… lf=0|1 fpt=0|1 nw=expect|noentry|ok
//   fillopt=two / dopt=two            two fillConf functions / two default-config functions: an expectation panic, no user code
//   fillopt=nil (with fill=0) / dopt=nil (with an absent default): an explicit nil is the same as nothing
//
// The model side: Proofs/C18R6 (`requestedOk`, proved equal to the regenerated isFactoryType for every Go type) and the
// regenerated tables getFillConfTable / getNewDefaultConfigTable.

import (
	"fmt"
	"reflect"
	"strings"

	"verifharness/drv"

	"github.com/yandex/pandora/core/plugin"
)

func isExpectPanic(r interface{}) bool {
	s, ok := r.(string)
	return ok && strings.HasPrefix(s, "expectation failed")
}

func c18FacTy(kv map[string]string) string {
	ft := parseTy(kv["ft"])
	name := map[string]string{"x": "x", "y": "y", "e": ""}[kv["nm"]]
	reg := plugin.NewRegistry()
	calls := 0
	reg.Register(ifaceT, "x", func() Iface { calls++; return &comp{serial: 7} })
	guard := func(f func() string) (res string) {
		defer func() {
			if r := recover(); r != nil {
				if isExpectPanic(r) {
					res = "expect"
				} else {
					res = "panic:" + drv.Clean(fmt.Sprint(r))
				}
			}
		}()
		return f()
	}
	nf := guard(func() string {
		fac, err := reg.NewFactory(ft, name)
		if err != nil {
			if isLookupErr(err) {
				return "noentry"
			}
			return "err:" + drv.Clean(err.Error())
		}
		if fac == nil || reflect.TypeOf(fac) != ft {
			return fmt.Sprintf("made.wrongtype:%T", fac)
		}
		called := func() (res string) {
			defer func() {
				if r := recover(); r != nil {
					res = "made.callpanic"
				}
			}()
			out := reflect.ValueOf(fac).Call(nil)
			if c, ok := out[0].Interface().(*comp); !ok || c == nil || c.serial != 7 {
				return "made.badproduct"
			}
			if len(out) == 2 && !out[1].IsNil() {
				return "made.err"
			}
			return "made.ok"
		}()
		return called
	})
	lf := guard(func() string { return okc(reg.LookupFactory(ft)) })
	fpt := guard(func() string {
		old := plugin.DefaultRegistry()
		_ = old
		pt, ok := plugin.FactoryPluginType(ft)
		if ok && pt != ft.Out(0) {
			return "wrongplugin"
		}
		if !ok && pt != nil {
			return "nonnil"
		}
		return okc(ok)
	})
	nw := guard(func() string {
		p, err := reg.New(ft, name)
		if err != nil {
			if isLookupErr(err) {
				return "noentry"
			}
			return "err:" + drv.Clean(err.Error())
		}
		if c, ok := p.(*comp); !ok || c == nil {
			return "badproduct"
		}
		return "ok"
	})
	return fmt.Sprintf("nf=%s lf=%s fpt=%s nw=%s", nf, lf, fpt, nw)
}

// c18Opt: more than one optional argument.  Nothing may run and nothing may be registered / created.
func c18Opt(kv map[string]string, w *world) string {
	reg := plugin.NewRegistry()
	guard := func(f func() string) (res string) {
		defer func() {
			if r := recover(); r != nil {
				if isExpectPanic(r) {
					res = "optpanic"
				} else {
					res = "panic:" + drv.Clean(fmt.Sprint(r))
				}
			}
		}()
		return f()
	}
	var res string
	if kv["dopt"] == "two" {
		d := w.defaultFn()
		if len(d) == 0 {
			return "driver:dopt=two needs a shape with a default-config function"
		}
		res = guard(func() string {
			reg.Register(ifaceT, "x", w.constructor(), d[0], d[0])
			return "accepted"
		})
		if reg.Lookup(ifaceT) {
			if _, err := reg.New(ifaceT, "x"); err == nil {
				res += "+registered"
			}
		}
	} else {
		func() {
			defer func() {
				if r := recover(); r != nil {
					res = "regpanic"
				}
			}()
			reg.Register(ifaceT, "x", w.constructor(), w.defaultFn()...)
		}()
		if res != "" {
			return res
		}
		f := w.fillWith(w.u)
		res = guard(func() string {
			var err error
			switch kv["form"] {
			case "c":
				_, err = reg.New(ifaceT, "x", f, f)
			case "f1":
				_, err = reg.NewFactory(reflect.TypeOf((func() Iface)(nil)), "x", f, f)
			default:
				_, err = reg.NewFactory(reflect.TypeOf((func() (Iface, error))(nil)), "x", f, f)
			}
			if err != nil {
				return "err"
			}
			return "accepted"
		})
	}
	w.mu.Lock()
	n := len(w.evs)
	w.mu.Unlock()
	return fmt.Sprintf("%s evs=%d", res, n)
}

var r6FacTypes = []string{
	"F(;I)", "F(;I,E)", // the two supported forms, registered plugin type
	"F(;J)", "F(;J,E)", "F(;E)", "F(;E,E)", // supported forms of a plugin type nobody registered
	"F(;M)", "F(;M,E)", "F(;S)", "F(;*I)", "F(;i)", "F(;F(;I))", // the product is not an interface
	"F(;I,I)", "F(;I,R)", "F(;I,J)", "F(;I,*E)", "F(;I,i)", // the second result is not `error` (R implements it)
	"F(;I,E,E)", "F(;)", "F(S;I)", "F(*S;I,E)", "F(I;I)", // arity
	"I", "E", "J", "S", "*S", "i", "M", "*I", "*F(;I)", // not a func
}

func r6Gen(r interface{ Intn(int) int }, tier string, shapes []string) []string {
	var out []string
	for _, ft := range r6FacTypes {
		for _, nm := range []string{"x", "y", "e"} {
			if tier != "thorough" && nm != "x" && r.Intn(3) != 0 {
				continue
			}
			out = append(out, fmt.Sprintf("via=facty ft=%s nm=%s", ft, nm))
		}
	}
	n := 40
	if tier == "thorough" {
		n = 600
	}
	for i := 0; i < n && len(shapes) > 0; i++ {
		sh := shapes[r.Intn(len(shapes))]
		form := []string{"c", "f1", "f2"}[r.Intn(3)]
		base := fmt.Sprintf("sh=%s form=%s d=%d/%d/%d u=%d/_/_ ff= cf= rf=", sh, form, 1+r.Intn(90), 1+r.Intn(90), 1+r.Intn(90), 1+r.Intn(90))
		switch r.Intn(4) {
		case 0:
			out = append(out, base+" fill=1 k=1 fillopt=two")
		case 1:
			if sh[5] != 'a' {
				out = append(out, base+" fill=1 k=1 dopt=two")
			} else {
				out = append(out, base+fmt.Sprintf(" fill=%d k=%d dopt=nil", r.Intn(2), 1+r.Intn(4)))
			}
		case 2:
			out = append(out, base+fmt.Sprintf(" fill=0 k=%d fillopt=nil", 1+r.Intn(4)))
		default:
			if sh[5] == 'a' {
				out = append(out, base+fmt.Sprintf(" fill=0 k=%d fillopt=nil dopt=nil", 1+r.Intn(4)))
			} else {
				out = append(out, base+" fill=1 k=2 fillopt=two")
			}
		}
	}
	return out
}
