package main

// via=nest: a plugin whose configuration contains ANOTHER plugin (`ammo: {type: …, source: {type: file, …}}`, the nested
// schedules of the composite schedule).  The decoder creates the nested component through the hooks WHILE it fills the
// outer configuration: pluginconfig.Hook -> plugin.New -> fillConf -> config.Decode -> pluginconfig.Hook -> plugin.New.
// The registry and the hooks are re-entered; every fillConf invocation of the outer creation creates its own nested
// component, a failing nested creation (constructor error, invalid nested configuration) is the outer fillConf's error.
//
// Two registrations in one registry, both under the NAME "x": the outer one for Iface, the nested one for Iface2, each
// with its own instrumented user code (world), defaults, settings and fault plan.
//
// input : via=nest sh=<outer shape, config struct or pointer> form=c|f1|f2 d=A/B/C u=A/B/C k=N cf= rf=
//                  ish=<nested shape> id=A/B/C iu=A/B/C icf= irf= [vmin=N]
// obs   : nest steps=<outer steps, as via=hook> isteps=<nested user-code events during outer step 0>;<… step 1>;…
//              subs=<outer product serial>:<nested product serial>:<A/B/C the nested product was built from>,…
//              views=<outer views> iviews=<nested views>         | regpanic | HANG

import (
	"fmt"
	"reflect"
	"strconv"
	"strings"
	"sync/atomic"
	"time"

	"github.com/yandex/pandora/core/plugin"
	"github.com/yandex/pandora/core/plugin/pluginconfig"
)

var nestHangs atomic.Int64

func c18Nest(kv map[string]string, w *world) string {
	hookMu.Lock()
	defer hookMu.Unlock()
	reg := plugin.NewRegistry()
	old := plugin.DefaultRegistry()
	plugin.SetDefaultRegistry(reg)
	defer plugin.SetDefaultRegistry(old)
	defer setRule(w.vmin)()
	w.foreignFill = true
	wi := &world{sh: parseShape(kv["ish"]), ids: map[*Conf]int{}, ff: map[int]bool{}, cf: parseSet(kv["icf"]), rf: parseSet(kv["irf"]),
		plugT: sessTypes[1], foreignFill: true}
	for i, t := range strings.Split(kv["id"], "/") {
		wi.d[i], _ = strconv.Atoi(t)
	}
	wi.u = parseU(kv["iu"])
	registered := func() (ok bool) {
		defer func() {
			if r := recover(); r != nil {
				ok = false
			}
		}()
		reg.Register(ifaceT, "x", w.constructor(), w.defaultFn()...)
		reg.Register(sessTypes[1], "x", wi.constructor(), wi.defaultFn()...)
		return true
	}()
	if !registered {
		return "regpanic"
	}
	var isteps []string
	w.onEndStep = func() {
		wi.mu.Lock()
		isteps = append(isteps, strings.Join(wi.evs, "|"))
		wi.evs = nil
		wi.mu.Unlock()
	}
	data := func() interface{} { // parseConf takes the `type` key out of a copy; still: fresh data per creation
		sub := map[string]interface{}{"type": "x"}
		wi.userKeysOf(wi.u, sub)
		m := map[string]interface{}{"type": "x", "sub": sub}
		w.userKeysOf(w.u, m)
		return m
	}
	k, _ := strconv.Atoi(kv["k"])
	done := make(chan string, 1)
	go func() {
		defer func() {
			if r := recover(); r != nil {
				done <- "PANIC " + fmt.Sprint(r)
			}
		}()
		w.drive(kv["form"], k,
			func() (interface{}, error) { return pluginconfig.Hook(reflect.TypeOf(data()), ifaceT, data()) },
			func(t reflect.Type) (interface{}, error) { return pluginconfig.FactoryHook(reflect.TypeOf(data()), t, data()) })
		done <- ""
	}()
	wait := 8 * time.Second
	if nestHangs.Load() >= 2 {
		wait = 300 * time.Millisecond // a tree on which nested creations never return: do not spend 8 s on every case
	}
	select {
	case r := <-done:
		if r != "" {
			return r
		}
	case <-time.After(wait):
		nestHangs.Add(1)
		return "HANG"
	}
	var subs, views, iviews []string
	for _, p := range w.products {
		if p.cfg != nil {
			views = append(views, fmt.Sprintf("%d:%d", p.serial, p.cfg.Mark))
		}
		c, _ := p.seen.Sub.(*comp)
		if c == nil {
			subs = append(subs, fmt.Sprintf("%d:-", p.serial))
			continue
		}
		subs = append(subs, fmt.Sprintf("%d:%d:%d/%d/%d", p.serial, c.serial, c.seen.A, c.seen.B, c.seen.C))
	}
	for _, p := range wi.products {
		if p.cfg != nil {
			iviews = append(iviews, fmt.Sprintf("%d:%d", p.serial, p.cfg.Mark))
		}
	}
	return "nest steps=" + strings.Join(w.steps, ";") + " isteps=" + strings.Join(isteps, ";") + " subs=" + strings.Join(subs, ",") +
		" views=" + strings.Join(views, ",") + " iviews=" + strings.Join(iviews, ",")
}

// nestGen: one case for an outer shape (config struct or pointer): a random valid nested shape, random form, number of
// calls, settings and sparse fault plans on both sides, now and then a validation rule.
func nestGen(r interface{ Intn(int) int }, sh string) string {
	val := func() string { return strconv.Itoa(1 + r.Intn(90)) }
	user := func(cfg byte) string {
		u := make([]string, 3)
		for i := range u {
			u[i] = "_"
			if cfg != 'n' && r.Intn(2) == 0 {
				u[i] = val()
			}
		}
		return strings.Join(u, "/")
	}
	sparse := func(n int) string {
		var out []string
		p := []int{0, 0, 15, 40}[r.Intn(4)]
		for i := 0; i < n; i++ {
			if r.Intn(100) < p {
				out = append(out, strconv.Itoa(i))
			}
		}
		return strings.Join(out, ",")
	}
	fa := "PF"[r.Intn(2)]
	cfg := "nsp"[r.Intn(3)]
	fe := byte('-')
	if fa == 'F' {
		fe = "E-"[r.Intn(2)]
	}
	var df byte
	switch cfg {
	case 'n':
		df = 'a'
	case 's':
		df = "af"[r.Intn(2)]
	default:
		df = "afns"[r.Intn(4)]
	}
	ish := fmt.Sprintf("%c%c%c%c%c%c", fa, cfg, "E-"[r.Intn(2)], fe, "IM"[r.Intn(2)], df)
	k := r.Intn(7)
	return fmt.Sprintf("via=nest sh=%s form=%s d=%s/%s/%s u=%s k=%d cf=%s rf=%s ish=%s id=%s/%s/%s iu=%s icf=%s irf=%s vmin=%d",
		sh, []string{"c", "f1", "f2"}[r.Intn(3)], val(), val(), val(), user(sh[1]), k, sparse(k+2), sparse(k+2),
		ish, val(), val(), val(), user(cfg), sparse(k+2), sparse(k+2), []int{0, 0, 0, 0, 1, 30, 60}[r.Intn(7)])
}
