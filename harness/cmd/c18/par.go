package main

// via=par (round 4): ONE registration, creations through the config hooks from SEVERAL goroutines at the same time —
// what the engine does with the gun of a pool (every instance calls the gun factory in its own goroutine) and what
// several pools do with one gun type, each with its own settings.
//
//   mode=new : every goroutine j calls pluginconfig.Hook (plugin.New) m times with ITS settings u_j
//   mode=fac : every goroutine j makes its own factory (FactoryHook, settings u_j) and calls it m times
//   mode=one : ONE factory (settings u_0) made beforehand, called m times by each of the g goroutines
//
// Fault-free user code; the real config decoder + validation (rule Conf.C >= vmin) is the fillConf.  The observation is
// independent of the schedule: per goroutine the sequence of results WITHOUT serial numbers and identities (run-length
// encoded), and for the whole case the number of products, of distinct configuration objects held by products, of
// products that still read their own serial number through their configuration at the end, and the number of
// default-config / constructor / registered-factory invocations.
//
// input : via=par mode=new|fac|one sh=<shape> form=c|f1|f2 d=A/B/C [ext=1 dm= dl= dr= dp=] vmin=N g=G m=M
//                 us=<A/B/C^um^ul^ur^up>|…   (one per goroutine)
// obs   : par res=<tok>[*n],…;<goroutine 1>;… prods=N cells=N own=N d=N c=N r=N

import (
	"fmt"
	"os"
	"reflect"
	"strconv"
	"strings"
	"sync"

	"verifharness/drv"

	"github.com/yandex/pandora/core/plugin"
	"github.com/yandex/pandora/core/plugin/pluginconfig"
)

type parSet struct {
	u  [3]*int
	ux [4]string
}

func parseParSets(s string) []parSet {
	var out []parSet
	for _, t := range strings.Split(s, "|") {
		f := strings.Split(t, "^")
		ps := parSet{u: parseU(f[0])}
		for i := 0; i < 4; i++ {
			ps.ux[i] = "_"
			if i+1 < len(f) {
				ps.ux[i] = f[i+1]
			}
		}
		out = append(out, ps)
	}
	return out
}

func rle(toks []string) string {
	var out []string
	for i := 0; i < len(toks); {
		j := i
		for j < len(toks) && toks[j] == toks[i] {
			j++
		}
		if j-i > 1 {
			out = append(out, toks[i]+"*"+strconv.Itoa(j-i))
		} else {
			out = append(out, toks[i])
		}
		i = j
	}
	return strings.Join(out, ",")
}

func c18Par(kv map[string]string) string {
	if raceEnabled {
		raceMu.Lock()
		defer raceMu.Unlock()
		before := raceLogSize()
		obs := c18ParRepeat(kv)
		if raceLogSize() > before {
			return "RACE " + raceSince(before)
		}
		return obs
	}
	return c18ParRepeat(kv)
}

// c18ParRepeat: whether two goroutines collide inside the code under test depends on the schedule.  A REPLAY (`-in`: one
// case, an idle machine) runs the case up to 60 times and hands back the first observation in which a goroutine got
// DIFFERENT results for its identical operations (on a correct tree that never happens: every observation is the same,
// and a generated run executes every case once).
func c18ParRepeat(kv map[string]string) string {
	n := 1
	for _, a := range os.Args[1:] {
		if a == "-in" || a == "--in" || strings.HasPrefix(a, "-in=") || strings.HasPrefix(a, "--in=") {
			n = 60
		}
	}
	obs := ""
	for i := 0; i < n; i++ {
		obs = c18ParRun(kv)
		if parSuspicious(obs) {
			break
		}
	}
	return obs
}

func parSuspicious(obs string) bool {
	if !strings.HasPrefix(obs, "par res=") || strings.Contains(obs, " shared=") {
		return true
	}
	res := strings.SplitN(strings.TrimPrefix(obs, "par res="), " ", 2)[0]
	for _, g := range strings.Split(res, ";") {
		distinct := map[string]bool{}
		for _, t := range strings.Split(g, ",") {
			if i := strings.LastIndex(t, "*"); i >= 0 {
				t = t[:i]
			}
			if t != "made" && t != "" {
				distinct[t] = true
			}
		}
		if len(distinct) > 1 {
			return true
		}
	}
	return false
}

func c18ParRun(kv map[string]string) string {
	w := worldOf(kv)
	w.yield = kv["yield"] == "1"
	hookMu.Lock()
	defer hookMu.Unlock()
	reg := plugin.NewRegistry()
	old := plugin.DefaultRegistry()
	plugin.SetDefaultRegistry(reg)
	defer plugin.SetDefaultRegistry(old)
	defer setRule(w.vmin)()
	registered := func() (ok bool) {
		defer func() {
			if r := recover(); r != nil {
				ok = false
			}
		}()
		reg.Register(ifaceT, "x", w.constructor(), w.defaultFn()...)
		return true
	}()
	if !registered {
		return "regpanic"
	}
	sets := parseParSets(kv["us"])
	g, m := atoi(kv["g"]), atoi(kv["m"])
	if g < 1 || len(sets) < g {
		return "par bad-input"
	}
	data := func(j int) interface{} {
		dm := map[string]interface{}{"type": "x"}
		for i, key := range []string{"a", "b", "c"} {
			switch {
			case sets[j].u[i] == nullInt:
				dm[key] = nil
			case sets[j].u[i] != nil:
				dm[key] = *sets[j].u[i]
			}
		}
		if w.ext.on {
			extUserKeys(dm, sets[j].ux)
		}
		return dm
	}
	facT := reflect.TypeOf((func() (Iface, error))(nil))
	if kv["form"] == "f1" {
		facT = reflect.TypeOf((func() Iface)(nil))
	}
	// one result without serial numbers / identities
	tok := func(p interface{}, err error) string {
		if err != nil {
			if te, ok := asTErr(err); ok {
				return "err." + te.kind
			}
			if isValidationErr(err) || strings.Contains(err.Error(), "error(s) decoding") {
				return "err.fill"
			}
			return "err.other:" + drv.Clean(err.Error())
		}
		c, ok := asComp(p)
		switch {
		case p == nil || (ok && c == nil):
			return "nil"
		case !ok:
			return fmt.Sprintf("badproduct:%T", p)
		}
		return "ok." + w.seenText(c)
	}
	guard := func(f func() string) (res string) {
		defer func() {
			if r := recover(); r != nil {
				if te, ok := asTErr(r); ok {
					res = "panic." + te.kind
				} else if e, ok := r.(error); ok && (isValidationErr(e) || strings.Contains(e.Error(), "error(s) decoding")) {
					res = "panic.fill"
				} else {
					res = "panic.other:" + drv.Clean(fmt.Sprint(r))
				}
			}
		}()
		return f()
	}
	call := func(fac interface{}) string {
		return guard(func() string {
			if f, ok := fac.(func() Iface); ok {
				return tok(f(), nil)
			}
			return tok(fac.(func() (Iface, error))())
		})
	}
	results := make([][]string, g)
	var shared interface{}
	if kv["mode"] == "one" {
		fac, err := pluginconfig.FactoryHook(reflect.TypeOf(data(0)), facT, data(0))
		if err != nil {
			results[0] = append(results[0], tok(nil, err))
			g = 0 // nothing to call
		} else {
			results[0] = append(results[0], "made")
			shared = fac
		}
	}
	var start spinStart
	var wg sync.WaitGroup
	for j := 0; j < g; j++ {
		wg.Add(1)
		go func(j int) {
			defer wg.Done()
			defer func() {
				if r := recover(); r != nil {
					results[j] = append(results[j], "PANIC "+drv.Clean(fmt.Sprint(r)))
				}
			}()
			start.wait()
			switch kv["mode"] {
			case "new":
				for i := 0; i < m; i++ {
					results[j] = append(results[j], guard(func() string {
						return tok(pluginconfig.Hook(reflect.TypeOf(data(j)), ifaceT, data(j)))
					}))
				}
			case "fac":
				fac, err := pluginconfig.FactoryHook(reflect.TypeOf(data(j)), facT, data(j))
				if err != nil {
					results[j] = append(results[j], tok(nil, err))
					return
				}
				results[j] = append(results[j], "made")
				for i := 0; i < m; i++ {
					results[j] = append(results[j], call(fac))
				}
			default:
				for i := 0; i < m; i++ {
					results[j] = append(results[j], call(shared))
				}
			}
		}(j)
	}
	start.release(g)
	wg.Wait()
	w.mu.Lock()
	defer w.mu.Unlock()
	cells := map[*Conf]bool{}
	own := 0
	for _, p := range w.products {
		if p.cfg != nil {
			cells[p.cfg] = true
			if p.cfg.Mark == p.serial {
				own++
			}
		}
	}
	cnt := map[byte]int{}
	for _, e := range w.evs {
		cnt[e[0]]++
	}
	var rs []string
	for _, r := range results {
		rs = append(rs, rle(r))
	}
	return fmt.Sprintf("par res=%s prods=%d cells=%d own=%d d=%d c=%d r=%d", strings.Join(rs, ";"), len(w.products), len(cells), own,
		cnt['D'], cnt['C'], cnt['R']) + w.sharedText()
}

// parGen: n cases over the valid shapes
func parGen(r interface{ Intn(int) int }, shapes []string, n int) []string {
	val := func() string { return strconv.Itoa(1 + r.Intn(90)) }
	var out []string
	for i := 0; i < n; i++ {
		sh := shapes[r.Intn(len(shapes))]
		mode := []string{"new", "fac", "one"}[r.Intn(3)]
		form := "c"
		if mode != "new" {
			form = []string{"f1", "f2"}[r.Intn(2)]
		}
		g := 2 + r.Intn(7)
		m := 1 + r.Intn(30)
		ext := sh[1] != 'n' && r.Intn(2) == 0
		var us []string
		for j := 0; j < g; j++ {
			u := make([]string, 3)
			for k := range u {
				u[k] = "_"
				if sh[1] != 'n' {
					switch r.Intn(6) {
					case 0, 1:
						u[k] = val()
					case 2:
						u[k] = []string{"0", val()}[r.Intn(2)]
					case 3:
						if ext {
							u[k] = "~"
						}
					}
				}
			}
			s := strings.Join(u, "/")
			if ext {
				ux := extGenUser(r)
				s += "^" + strings.Join(ux[:], "^")
			}
			us = append(us, s)
		}
		c := fmt.Sprintf("via=par mode=%s sh=%s form=%s d=%s/%s/%s vmin=%d g=%d m=%d us=%s", mode, sh, form, val(), val(), val(),
			[]int{0, 0, 0, 1, 30, 60}[r.Intn(6)], g, m, strings.Join(us, "|"))
		if ext {
			c += " " + extGenDefaults(r)
		}
		out = append(out, c)
	}
	return out
}
