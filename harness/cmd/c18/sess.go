package main

// sess=1: ONE plugin.Registry, SEVERAL registrations (plugin types x names x shapes, each with its own instrumented
// user code), driven by an arbitrary interleaving of Register / New / NewFactory / calls of any factory handed out
// so far / Lookup.  What the harness decides itself is only WHERE the fillConf of a creation logs: in the world of the
// registration the caller meant (registered by the harness under exactly this type and name), or in `stray` when the
// caller asks for something that was never registered.
//
// input : sess=1 ops=<op>|<op>|…
//           R:<t>:<name>:<shape>:<d>:<ff>:<cf>:<rf>   Register for plugin type t (0 Iface, 1 Iface2, 2 c18aux.Iface)
//           N:<t>:<name>:<fill>:<u>                   New
//           F:<t>:<name>:<e>:<fill>:<u>               NewFactory of func() T (e=0) / func() (T, error) (e=1)
//           C:<h>                                     call the h-th factory handed out
//           L:<t>                                     Lookup
// obs   : sess outs=<o>;<o>;… views=<v>,<v>,…         (one per op)
//           acc | ref | noentry | nohandle | found.0 | found.1 | <slot>~<ev>|<ev>…><res>

import (
	"fmt"
	"math/rand"
	"reflect"
	"strconv"
	"strings"

	"verifharness/c18aux"
	"verifharness/drv"

	"github.com/yandex/pandora/core/plugin"
)

type Iface2 interface{ Serial() int }

var sessTypes = []reflect.Type{
	ifaceT,
	reflect.TypeOf((*Iface2)(nil)).Elem(),
	reflect.TypeOf((*c18aux.Iface)(nil)).Elem(),
}

type sessKey struct {
	t    int
	name string
}

type sessHandle struct {
	fac reflect.Value
}

func parseU(s string) (u [3]*int) {
	for i, t := range strings.Split(s, "/") {
		switch {
		case i >= 3 || t == "_":
		case t == "~":
			u[i] = nullInt // an explicit null (round 4)
		default:
			v, _ := strconv.Atoi(t)
			u[i] = &v
		}
	}
	return
}

func c18Sess(kv map[string]string) string {
	reg := plugin.NewRegistry()
	var worlds []*world          // slot order: accepted registrations
	meant := map[sessKey]*world{} // what the harness registered under which (type, name)
	var handles []sessHandle
	var stray []string
	var outs, views []string
	var prodOf []*comp // per op: the product handed out (nil: none)

	slotOf := func(w *world) int {
		for i, x := range worlds {
			if x == w {
				return i
			}
		}
		return -1
	}
	// the fillConf of one creation
	fillFor := func(k sessKey, fill string, u [3]*int) []func(interface{}) error {
		if fill != "1" {
			return nil
		}
		return []func(interface{}) error{func(conf interface{}) error {
			if w := meant[k]; w != nil {
				return w.fillU(u, conf)
			}
			stray = append(stray, "F?")
			return nil
		}}
	}
	// after an operation on some registration: which world logged, what came out
	finish := func(p interface{}, err error, made bool, pan interface{}) {
		var res string
		var prod *comp
		switch {
		case pan != nil:
			if te, ok := asTErr(pan); ok {
				res = "panic." + te.Error()
			} else {
				res = "panic.other:" + drv.Clean(fmt.Sprint(pan))
			}
		case err != nil:
			if te, ok := asTErr(err); ok {
				res = "err." + te.Error()
			} else if isLookupErr(err) {
				res = "noentry"
			} else {
				res = "err.other:" + drv.Clean(err.Error())
			}
		case made:
			res = "made"
		default:
			c, ok := asComp(p)
			switch {
			case p == nil || (ok && c == nil):
				res = "nil"
			case !ok:
				res = fmt.Sprintf("badproduct:%T", p)
			default:
				prod = c
				cell := "-"
				if c.cfg != nil {
					cell = c.w.id(c.cfg)
				}
				res = fmt.Sprintf("ok.%d.%s.%d/%d/%d/%d", c.serial, cell, c.seen.Mark, c.seen.A, c.seen.B, c.seen.C)
			}
		}
		slot := "-"
		var evs []string
		for i, w := range worlds {
			if len(w.evs) > 0 || (prod != nil && prod.w == w) {
				if slot != "-" && slot != strconv.Itoa(i) {
					slot = "x"
				} else if slot == "-" {
					slot = strconv.Itoa(i)
				}
				evs = append(evs, w.evs...)
				w.evs = nil
			}
		}
		if len(stray) > 0 {
			slot = "x"
			evs = append(evs, stray...)
			stray = nil
		}
		prodOf = append(prodOf, prod)
		if res == "noentry" && len(evs) == 0 {
			outs = append(outs, "noentry")
			return
		}
		outs = append(outs, slot+"~"+strings.Join(evs, "|")+">"+res)
	}
	guard := func(f func() (interface{}, error, bool)) {
		var p interface{}
		var err error
		var made bool
		var pan interface{}
		func() {
			defer func() { pan = recover() }()
			p, err, made = f()
		}()
		finish(p, err, made, pan)
	}

	for _, op := range strings.Split(kv["ops"], "|") {
		f := strings.Split(op, ":")
		switch f[0] {
		case "R":
			t, _ := strconv.Atoi(f[1])
			w := &world{sh: parseShape(f[3]), ids: map[*Conf]int{}, ff: parseSet(f[5]), cf: parseSet(f[6]), rf: parseSet(f[7]),
				plugT: sessTypes[t]}
			for i, s := range strings.Split(f[4], "/") {
				w.d[i], _ = strconv.Atoi(s)
			}
			ok := func() (ok bool) {
				defer func() {
					if r := recover(); r != nil {
						ok = false
					}
				}()
				reg.Register(sessTypes[t], f[2], w.constructor(), w.defaultFn()...)
				return true
			}()
			prodOf = append(prodOf, nil)
			if ok {
				worlds = append(worlds, w)
				if meant[sessKey{t, f[2]}] == nil {
					meant[sessKey{t, f[2]}] = w
				}
				outs = append(outs, "acc")
			} else {
				outs = append(outs, "ref")
			}
		case "N":
			t, _ := strconv.Atoi(f[1])
			fill := fillFor(sessKey{t, f[2]}, f[3], parseU(f[4]))
			guard(func() (interface{}, error, bool) {
				p, err := reg.New(sessTypes[t], f[2], fill...)
				return p, err, false
			})
		case "F":
			t, _ := strconv.Atoi(f[1])
			fill := fillFor(sessKey{t, f[2]}, f[4], parseU(f[5]))
			out := []reflect.Type{sessTypes[t]}
			if f[3] == "1" {
				out = append(out, errT)
			}
			guard(func() (interface{}, error, bool) {
				fac, err := reg.NewFactory(reflect.FuncOf(nil, out, false), f[2], fill...)
				if err != nil {
					return nil, err, false
				}
				handles = append(handles, sessHandle{reflect.ValueOf(fac)})
				return nil, nil, true
			})
		case "C":
			h, _ := strconv.Atoi(f[1])
			if h >= len(handles) {
				prodOf = append(prodOf, nil)
				outs = append(outs, "nohandle")
				break
			}
			guard(func() (interface{}, error, bool) {
				res := handles[h].fac.Call(nil)
				var err error
				if len(res) == 2 && !res[1].IsNil() {
					err = res[1].Interface().(error)
				}
				return res[0].Interface(), err, false
			})
		case "L":
			t, _ := strconv.Atoi(f[1])
			prodOf = append(prodOf, nil)
			if reg.Lookup(sessTypes[t]) {
				outs = append(outs, "found.1")
			} else {
				outs = append(outs, "found.0")
			}
		default:
			panic("session op " + op)
		}
	}
	_ = slotOf
	for _, p := range prodOf {
		if p != nil && p.cfg != nil {
			views = append(views, strconv.Itoa(p.cfg.Mark))
		} else {
			views = append(views, "-")
		}
	}
	return "sess outs=" + strings.Join(outs, ";") + " views=" + strings.Join(views, ",")
}

func sessClass(input, obs string) string {
	c := "sess"
	if strings.Contains(obs, "noentry") {
		c += "-noentry"
	}
	if strings.Contains(obs, "ref") {
		c += "-refused"
	}
	switch {
	case strings.Contains(obs, "panic."):
		c += "-panic"
	case strings.Contains(obs, "err."):
		c += "-err"
	}
	// interleaved: a factory is called after a later creation
	ops := strings.Split(drv.KV(input)["ops"], "|")
	made := 0
	for _, op := range ops {
		switch op[0] {
		case 'F', 'N':
			made++
		case 'C':
			if h, _ := strconv.Atoi(op[2:]); h+1 < made {
				return c + "-interleaved"
			}
		}
	}
	return c
}

var sessNames = []string{"x", "y", "X", "xy"}

// sessGen: n sessions.  Registrations over 3 plugin types x 4 names (so that the same name lives under several
// types and names differ by case only), shapes mostly valid, sometimes a duplicate / an empty name / a default-config
// function that does not fit; then creations by (type, name) picked from the same pool (a good part of them was never
// registered), calls of ANY factory handed out so far (also one past the end), lookups, and now and then a late Register.
func sessGen(r *rand.Rand, n int) []string {
	var out []string
	val := func() string { return strconv.Itoa(r.Intn(90) + 1) }
	user := func(cfg byte) string {
		u := make([]string, 3)
		for i := range u {
			u[i] = "_"
			if cfg != 'n' && r.Intn(2) == 0 {
				u[i] = val()
			}
		}
		return strings.Join(u, "/")
	}
	for s := 0; s < n; s++ {
		faulty := r.Intn(2) == 0
		type key struct {
			t    int
			name string
		}
		cfgOf := map[key]byte{}
		var ops []string
		register := func() {
			t := r.Intn(3)
			name := sessNames[r.Intn(len(sessNames))]
			if r.Intn(25) == 0 {
				name = ""
			}
			fa := "PF"[r.Intn(2)]
			cfg := "nsp"[r.Intn(3)]
			if r.Intn(3) == 0 {
				cfg = 'p' // configuration identity matters most there
			}
			ce := "E-"[r.Intn(2)]
			fe := byte('-')
			if fa == 'F' {
				fe = "E-"[r.Intn(2)]
			}
			ifc := "IM"[r.Intn(2)]
			var df byte
			switch cfg {
			case 'n':
				df = 'a'
			case 's':
				df = "af"[r.Intn(2)]
			default:
				df = "afns"[r.Intn(4)]
			}
			if r.Intn(12) == 0 {
				df = "afns"[r.Intn(4)] // may not fit
			}
			k := key{t, name}
			if _, dup := cfgOf[k]; !dup && name != "" {
				cfgOf[k] = cfg
			}
			plan := func() string {
				if !faulty {
					return ""
				}
				return subset(r, 8)
			}
			ops = append(ops, fmt.Sprintf("R:%d:%s:%c%c%c%c%c%c:%s/%s/%s:%s:%s:%s", t, name, fa, cfg, ce, fe, ifc, df, val(), val(), val(),
				plan(), plan(), plan()))
		}
		nreg := 1 + r.Intn(4)
		for i := 0; i < nreg; i++ {
			register()
		}
		pick := func() key {
			if len(cfgOf) > 0 && r.Intn(4) != 0 {
				// mostly something that was registered (map order is random: pick deterministically)
				var ks []key
				for t := 0; t < 3; t++ {
					for _, nm := range sessNames {
						if _, ok := cfgOf[key{t, nm}]; ok {
							ks = append(ks, key{t, nm})
						}
					}
				}
				return ks[r.Intn(len(ks))]
			}
			return key{r.Intn(3), sessNames[r.Intn(len(sessNames))]}
		}
		nops := 4 + r.Intn(12)
		made := 0
		for i := 0; i < nops; i++ {
			switch x := r.Intn(20); {
			case x < 4:
				k := pick()
				cfg, ok := cfgOf[k]
				if !ok {
					cfg = 'n'
				}
				ops = append(ops, fmt.Sprintf("N:%d:%s:%d:%s", k.t, k.name, r.Intn(2), user(cfg)))
			case x < 9:
				k := pick()
				cfg, ok := cfgOf[k]
				if !ok {
					cfg = 'n'
				}
				ops = append(ops, fmt.Sprintf("F:%d:%s:%d:%d:%s", k.t, k.name, r.Intn(2), r.Intn(2), user(cfg)))
				if ok {
					made++ // (an estimate: the creation may still fail)
				}
			case x < 18:
				h := r.Intn(made + 1) // sometimes one past the end
				if made > 0 && r.Intn(8) != 0 {
					h = r.Intn(made)
				}
				ops = append(ops, fmt.Sprintf("C:%d", h))
			case x < 19:
				ops = append(ops, fmt.Sprintf("L:%d", r.Intn(3)))
			default:
				register()
			}
		}
		out = append(out, "sess=1 ops="+strings.Join(ops, "|"))
	}
	return out
}

// isLookupErr: the error result of Registry.get (recognised by its wording, not by its exact text)
func isLookupErr(err error) bool {
	if err == nil {
		return false
	}
	if _, ours := asTErr(err); ours {
		return false
	}
	m := strings.ToLower(err.Error())
	return strings.Contains(m, "no plugin") || strings.Contains(m, "registered")
}
