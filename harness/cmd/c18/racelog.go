package main

// The driver built with -race (props/C18.json race: true) runs ONLY the concurrent cases (conc=1): the point of that
// run is to find data races between creations that run concurrently on one registry, which the registry documents as
// safe.  So that a race becomes a FAILING INPUT (and not only a crashed run) the race runtime is told to log into a file
// and to keep going (GORACE=log_path=… exitcode=0; the variable is read at process start, hence the re-exec); the
// concurrent cases run one after the other and a case during which the log grew is reported as `RACE …`.

import (
	"os"
	"regexp"
	"strconv"
	"strings"
	"sync"
	"syscall"
)

var (
	raceMu      sync.Mutex
	raceLogPath string
)

func raceSetup() {
	if !raceEnabled {
		return
	}
	if p := os.Getenv("C18_RACE_LOG"); p != "" {
		raceLogPath = p + "." + strconv.Itoa(os.Getpid())
		return
	}
	exe, err := os.Executable()
	if err != nil {
		return
	}
	prefix := os.TempDir() + "/c18-race-" + strconv.Itoa(os.Getpid())
	// no place for the log: keep the race runtime's defaults (a race then fails the whole run with exit code 66)
	if err := os.WriteFile(prefix+".probe", nil, 0o600); err != nil {
		return
	}
	os.Remove(prefix + ".probe")
	os.Setenv("C18_RACE_LOG", prefix)
	os.Setenv("GORACE", "log_path="+prefix+" exitcode=0 halt_on_error=0")
	_ = syscall.Exec(exe, os.Args, os.Environ())
}

func raceCleanup() {
	if raceLogPath != "" {
		os.Remove(raceLogPath)
	}
}

func raceLogSize() int64 {
	if raceLogPath == "" {
		return 0
	}
	st, err := os.Stat(raceLogPath)
	if err != nil {
		return 0
	}
	return st.Size()
}

var raceFuncPat = regexp.MustCompile(`github\.com/yandex/pandora/[A-Za-z0-9_/.()*]+`)

// raceSince: the pandora functions named in what the race runtime logged after offset
func raceSince(offset int64) string {
	b, err := os.ReadFile(raceLogPath)
	if err != nil || int64(len(b)) <= offset {
		return ""
	}
	seen := map[string]bool{}
	var fns []string
	for _, m := range raceFuncPat.FindAllString(string(b[offset:]), -1) {
		m = strings.TrimPrefix(m, "github.com/yandex/pandora/")
		if !seen[m] && len(fns) < 3 {
			seen[m] = true
			fns = append(fns, m)
		}
	}
	return strings.Join(fns, ",")
}
