package main

// Round 4 — STRUCTURED OPTIONS.  "Components configured with the registered defaults overlaid by the user's settings" is
// a statement about every kind of option a config type can have, not only about scalars: a MAP-typed option whose
// registered default has entries and of which the user sets one key, a LIST (slice) and an ARRAY option, a POINTER to
// a nested struct of which the user sets one field — and an option the user writes down as an explicit NULL (`opt:` /
// `opt: ~` in YAML), which is "not set".  The instrumented config type has one option of each kind; on the hook path
// (the real config decoder is the fillConf) a case may give them non-empty registered defaults (dm= dl= dr= dp=) and
// partial user settings (um= ul= ur= up=, `~` for null in u=).
//
// The model sees a configuration as a finite map field -> integer (Model/C18 `Cfg`), so the structured options are
// FLATTENED: map key k<i> is field 4+i, array element i field 8+i, the pointer fields 11 (1 = not nil) 12 13, the list
// length field 14 and its elements 15.. ; the user's settings name exactly the fields they determine (Model/C18Over
// `flatSet`; C18_overlay proves that this is what the decoder model does with ZeroFields = false).
//
//   dm= -|k0:1,k2:5      um= _|~|e|k1:9,k3:4        (- nil, _ absent, ~ null, e empty)
//   dl= -|1,2,3          ul= _|~|e|7,~,3            (an element may be null)
//   dr= 1,2,3            ur= _|~|e|7,~              (at most 3 elements)
//   dp= -|3:4            up= _|~|e|x:5|y:6|x:5,y:6
// obs: the product's config is printed Mark/A/B/C followed by the 15 flattened fields.

import (
	"fmt"
	"reflect"
	"strconv"
	"strings"
)

type Inner struct{ X, Y int }

// u[i] == nullInt: the option is given as an explicit null
var nullInt = new(int)

type extDef struct {
	on bool
	m  map[string]int
	l  []int
	r  [3]int
	p  *Inner
}

const extMapKeys, extListShown = 4, 4

func atoi(s string) int { v, _ := strconv.Atoi(s); return v }

func parseExtDef(kv map[string]string) (e extDef) {
	if kv["ext"] != "1" {
		return
	}
	e.on = true
	if s := kv["dm"]; s != "-" && s != "" {
		e.m = map[string]int{}
		for _, t := range strings.Split(s, ",") {
			f := strings.SplitN(t, ":", 2)
			e.m[f[0]] = atoi(f[1])
		}
	}
	if s := kv["dl"]; s != "-" && s != "" {
		e.l = []int{}
		for _, t := range strings.Split(s, ",") {
			e.l = append(e.l, atoi(t))
		}
	}
	for i, t := range strings.Split(kv["dr"], ",") {
		if i < 3 {
			e.r[i] = atoi(t)
		}
	}
	if s := kv["dp"]; s != "-" && s != "" {
		f := strings.SplitN(s, ":", 2)
		e.p = &Inner{X: atoi(f[0]), Y: atoi(f[1])}
	}
	return
}

// apply: the structured options of a NEW default configuration (nothing is shared with other configurations)
func (e extDef) apply(c *Conf) {
	if !e.on {
		return
	}
	if e.m != nil {
		c.M = map[string]int{}
		for k, v := range e.m {
			c.M[k] = v
		}
	}
	if e.l != nil {
		c.L = append([]int{}, e.l...)
	}
	c.R = e.r
	if e.p != nil {
		p := *e.p
		c.P = &p
	}
}

// deepConf: a copy of the configuration that shares nothing with it (what a component has seen when it was built)
func deepConf(c Conf) Conf {
	out := c
	if c.M != nil {
		out.M = map[string]int{}
		for k, v := range c.M {
			out.M[k] = v
		}
	}
	if c.L != nil {
		out.L = append([]int{}, c.L...)
	}
	if c.P != nil {
		p := *c.P
		out.P = &p
	}
	return out
}

// flatConf: the 15 flattened fields of the structured options
func flatConf(c Conf) string {
	var f []string
	for i := 0; i < extMapKeys; i++ {
		f = append(f, strconv.Itoa(c.M["k"+strconv.Itoa(i)]))
	}
	for _, v := range c.R {
		f = append(f, strconv.Itoa(v))
	}
	if c.P == nil {
		f = append(f, "0", "0", "0")
	} else {
		f = append(f, "1", strconv.Itoa(c.P.X), strconv.Itoa(c.P.Y))
	}
	f = append(f, strconv.Itoa(len(c.L)))
	for i := 0; i < extListShown; i++ {
		if i < len(c.L) {
			f = append(f, strconv.Itoa(c.L[i]))
		} else {
			f = append(f, "0")
		}
	}
	// a key the cases never use / elements past the shown ones would go unnoticed otherwise
	extra := 0
	for k := range c.M {
		if len(k) != 2 || k[0] != 'k' || k[1] < '0' || k[1] >= '0'+extMapKeys {
			extra++
		}
	}
	if len(c.L) > extListShown {
		extra += len(c.L) - extListShown
	}
	if extra > 0 {
		f = append(f, "x"+strconv.Itoa(extra))
	}
	return strings.Join(f, "/")
}

func listData(s string) []interface{} {
	out := []interface{}{}
	if s == "e" {
		return out
	}
	for _, t := range strings.Split(s, ",") {
		if t == "~" {
			out = append(out, nil)
		} else {
			out = append(out, atoi(t))
		}
	}
	return out
}

// extUserKeys puts the user's settings of the structured options into a plugin config map, the way a YAML / JSON
// reader hands them over (map[string]interface{}, []interface{}, nil for null)
func extUserKeys(m map[string]interface{}, ux [4]string) {
	for i, key := range []string{"m", "l", "r", "p"} {
		s := ux[i]
		switch {
		case s == "_" || s == "":
		case s == "~":
			m[key] = nil
		case key == "l" || key == "r":
			m[key] = listData(s)
		default:
			mm := map[string]interface{}{}
			if s != "e" {
				for _, t := range strings.Split(s, ",") {
					f := strings.SplitN(t, ":", 2)
					mm[f[0]] = atoi(f[1])
				}
			}
			m[key] = mm
		}
	}
}

func parseUx(kv map[string]string) [4]string {
	return [4]string{kv["um"], kv["ul"], kv["ur"], kv["up"]}
}

// seenText: what a product has seen, `A/B/C` (+ the flattened structured options of an ext case)
func (w *world) seenText(c *comp) string {
	s := fmt.Sprintf("%d/%d/%d", c.seen.A, c.seen.B, c.seen.C)
	if w.ext.on {
		s += "/" + flatConf(c.seen)
	}
	return s
}

// ---- generator

func extGenDefaults(r interface{ Intn(int) int }) string {
	val := func() string { return strconv.Itoa(1 + r.Intn(90)) }
	dm := "-"
	if r.Intn(5) != 0 {
		var es []string
		for i := 0; i < extMapKeys; i++ {
			if r.Intn(2) == 0 {
				es = append(es, "k"+strconv.Itoa(i)+":"+val())
			}
		}
		if len(es) > 0 {
			dm = strings.Join(es, ",")
		}
	}
	dl := "-"
	if r.Intn(4) != 0 {
		var es []string
		for i, n := 0, 1+r.Intn(extListShown); i < n; i++ {
			es = append(es, val())
		}
		dl = strings.Join(es, ",")
	}
	dr := "0,0,0"
	if r.Intn(4) != 0 {
		dr = val() + "," + val() + "," + val()
	}
	dp := "-"
	if r.Intn(4) != 0 {
		dp = val() + ":" + val()
	}
	return fmt.Sprintf("ext=1 dm=%s dl=%s dr=%s dp=%s", dm, dl, dr, dp)
}

// extGenUser: partial settings — one key added / one key changed, a shorter / longer list with null elements, one field
// of the nested struct, explicit nulls
func extGenUser(r interface{ Intn(int) int }) [4]string {
	val := func() string { // now and then an explicit zero
		if r.Intn(8) == 0 {
			return "0"
		}
		return strconv.Itoa(1 + r.Intn(90))
	}
	elems := func(max int) string {
		switch r.Intn(8) {
		case 0:
			return "_"
		case 1:
			return "~"
		case 2:
			return "e"
		}
		var es []string
		for i, n := 0, 1+r.Intn(max); i < n; i++ {
			if r.Intn(4) == 0 {
				es = append(es, "~")
			} else {
				es = append(es, val())
			}
		}
		return strings.Join(es, ",")
	}
	um := "_"
	switch r.Intn(8) {
	case 0:
	case 1:
		um = "~"
	case 2:
		um = "e"
	default:
		var es []string
		for i := 0; i < extMapKeys; i++ {
			if r.Intn(3) == 0 {
				es = append(es, "k"+strconv.Itoa(i)+":"+val())
			}
		}
		if len(es) == 0 {
			es = append(es, "k"+strconv.Itoa(r.Intn(extMapKeys))+":"+val())
		}
		um = strings.Join(es, ",")
	}
	up := []string{"_", "~", "e", "x:" + val(), "y:" + val(), "x:" + val() + ",y:" + val(), "x:" + val(), "y:" + val()}[r.Intn(8)]
	return [4]string{um, elems(extListShown), elems(3), up}
}

func uxText(ux [4]string) string {
	return fmt.Sprintf("um=%s ul=%s ur=%s up=%s", ux[0], ux[1], ux[2], ux[3])
}

// confRefs: where the reference-typed options of a configuration keep their data (0: nil / empty).  Two products that
// were configured separately ("a freshly created and freshly decoded configuration") never have one in common, whether
// the constructor takes the configuration by value or by pointer.
func confRefs(c Conf) (r [3]uintptr) {
	if c.M != nil {
		r[0] = reflect.ValueOf(c.M).Pointer()
	}
	if cap(c.L) > 0 {
		r[1] = reflect.ValueOf(c.L).Pointer()
	}
	if c.P != nil {
		r[2] = reflect.ValueOf(c.P).Pointer()
	}
	return
}

// sharedCount: the number of products of a COMPONENT constructor (configured per product; the default-config function
// of an ext case builds new structured options on every call) that hold a map / list / nested struct an earlier product
// holds too
func (w *world) sharedCount() int {
	if !w.ext.on || w.sh.factory || w.sh.dflt == 's' {
		return 0
	}
	n := 0
	var seen [3]map[uintptr]bool
	for i := range seen {
		seen[i] = map[uintptr]bool{}
	}
	for _, p := range w.products {
		dup := false
		for i, r := range p.refs {
			if r == 0 {
				continue
			}
			if seen[i][r] {
				dup = true
			}
			seen[i][r] = true
		}
		if dup {
			n++
		}
	}
	return n
}

// sharedText is appended to an observation only when something is shared (the model never predicts it)
func (w *world) sharedText() string {
	if n := w.sharedCount(); n > 0 {
		return " shared=" + strconv.Itoa(n)
	}
	return ""
}
