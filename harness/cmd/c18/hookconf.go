package main

// via=hookconf: the glue of core/plugin/pluginconfig (Hook / FactoryHook / parseConf / toStringKeyMap) on well- and
// ill-formed plugin config data: which key names the plugin (`type`, in any letter case), what happens with none,
// several, a non-string one, data that is no map, a map with non-string keys; everything else is the user's settings.
//
// input : via=hookconf sh=<shape> form=c|f2 d=A/B/C dk=s|i|x pt=<t> [vmin=<n>] conf=<key>~<s|n>~<value>,…
// obs   : hc res=<pass | err.parse | noentry | err.decode | err.valid | err.other:… | ok.A/B/C> ev=<number of user-code invocations>

import (
	"fmt"
	"reflect"
	"strconv"
	"strings"

	"verifharness/drv"

	"github.com/yandex/pandora/core/plugin"
	"github.com/yandex/pandora/core/plugin/pluginconfig"
)

func c18HookConf(kv map[string]string, w *world) string {
	hookMu.Lock()
	defer hookMu.Unlock()
	reg := plugin.NewRegistry()
	old := plugin.DefaultRegistry()
	plugin.SetDefaultRegistry(reg)
	defer plugin.SetDefaultRegistry(old)
	defer setRule(w.vmin)()
	registered := func() (ok bool) {
		defer func() {
			if r := recover(); r != nil {
				ok = false
			}
		}()
		reg.Register(ifaceT, "x", w.constructor(), w.defaultFn()...)
		return true
	}()
	if !registered {
		return "regpanic"
	}
	pt, _ := strconv.Atoi(kv["pt"])
	plugT := sessTypes[pt]
	mk := func() interface{} { // parseConf consumes the map
		sm := map[string]interface{}{}
		im := map[interface{}]interface{}{}
		for _, e := range strings.Split(kv["conf"], ",") {
			if e == "" {
				continue
			}
			f := strings.SplitN(e, "~", 3)
			var v interface{} = f[2]
			if f[1] == "n" {
				n, _ := strconv.Atoi(f[2])
				v = n
			}
			sm[f[0]] = v
			if strings.HasPrefix(f[0], "#") { // a key that is no string
				n, _ := strconv.Atoi(f[0][1:])
				im[n] = v
			} else {
				im[f[0]] = v
			}
		}
		switch kv["dk"] {
		case "i":
			return im
		case "x":
			return "just-a-string"
		}
		return sm
	}
	classify := func(p interface{}, err error, data interface{}) string {
		switch {
		case err != nil:
			if te, ok := asTErr(err); ok {
				return "err." + te.Error()
			}
			msg := err.Error()
			switch {
			case isLookupErr(err):
				return "noentry"
			case strings.Contains(msg, "plugin type expected"), strings.Contains(msg, "too many type keys"),
				strings.Contains(msg, "has non-string value"), strings.Contains(msg, "unexpected config type"),
				strings.Contains(msg, "unexpected key type"), strings.Contains(msg, "should not be empty"):
				return "err.parse"
			case strings.Contains(msg, "error(s) decoding"):
				return "err.decode" // the decoder (fillConf) refused the user's settings
			case isValidationErr(err):
				return "err.valid" // the decoded configuration fails validation (fillConf = decode AND validate)
			}
			return "err.other:" + drv.Clean(msg)
		case p == nil:
			return "nil"
		}
		if c, ok := asComp(p); ok {
			if c == nil {
				return "nil"
			}
			return fmt.Sprintf("ok.%d/%d/%d", c.seen.A, c.seen.B, c.seen.C)
		}
		if reflect.TypeOf(p) == reflect.TypeOf(data) {
			switch reflect.TypeOf(p).Kind() {
			case reflect.Map:
				if reflect.ValueOf(p).Pointer() == reflect.ValueOf(data).Pointer() {
					return "pass"
				}
			case reflect.String:
				return "pass"
			}
		}
		return fmt.Sprintf("other:%T", p)
	}
	res := w.guarded(func() string {
		data := mk()
		if kv["form"] == "c" {
			p, err := pluginconfig.Hook(reflect.TypeOf(data), plugT, data)
			return classify(p, err, data)
		}
		ft := reflect.FuncOf(nil, []reflect.Type{plugT, errT}, false)
		fac, err := pluginconfig.FactoryHook(reflect.TypeOf(data), ft, data)
		if err != nil {
			return classify(nil, err, data)
		}
		if reflect.TypeOf(fac) == reflect.TypeOf(data) {
			return classify(fac, nil, data)
		}
		out := reflect.ValueOf(fac).Call(nil)
		var e2 error
		if !out[1].IsNil() {
			e2 = out[1].Interface().(error)
		}
		return classify(out[0].Interface(), e2, data)
	})
	w.mu.Lock()
	defer w.mu.Unlock()
	if strings.HasPrefix(res, "panic.other:expectation failed: empty name") {
		res = "panic.emptyname"
	}
	return fmt.Sprintf("hc res=%s ev=%d", res, len(w.evs))
}

var hookConfTypeKeys = []string{"type", "Type", "TYPE", "tYpE", "typ", "types", "ty_pe", "kind"}

// hookConfGen: per call one case: 0..3 keys that may name the plugin (right and near-miss spellings, string and
// non-string values, the registered name, its case variant, an unknown name), the user's settings, the three kinds of
// config data, now and then a plugin type nothing is registered for.
func hookConfGen(r interface{ Intn(int) int }, sh string, cfg byte) string {
	var conf []string
	seen := map[string]bool{}
	nType := []int{0, 1, 1, 1, 1, 1, 2, 3}[r.Intn(8)]
	for i := 0; i < nType; i++ {
		k := hookConfTypeKeys[r.Intn(len(hookConfTypeKeys))]
		if r.Intn(2) == 0 {
			k = hookConfTypeKeys[r.Intn(4)] // mostly real spellings
		}
		if seen[k] {
			continue
		}
		seen[k] = true
		switch r.Intn(10) {
		case 0:
			conf = append(conf, k+"~n~"+strconv.Itoa(r.Intn(9)))
		case 1:
			conf = append(conf, k+"~s~"+[]string{"y", "X", ""}[r.Intn(3)])
		default:
			conf = append(conf, k+"~s~x")
		}
	}
	if cfg != 'n' && r.Intn(4) != 0 { // every fourth: nothing but the plugin name
		for _, k := range []string{"a", "b", "c"} {
			if r.Intn(2) == 0 {
				conf = append(conf, k+"~n~"+strconv.Itoa(1+r.Intn(90)))
			}
		}
	}
	dk := []string{"s", "s", "s", "i", "i", "x"}[r.Intn(6)]
	if dk == "i" && r.Intn(4) == 0 {
		conf = append(conf, "#"+strconv.Itoa(r.Intn(9))+"~n~1") // a non-string key
	}
	pt := 0
	if r.Intn(8) == 0 {
		pt = 1 + r.Intn(2)
	}
	return fmt.Sprintf("via=hookconf sh=%s form=%s d=%d/%d/%d dk=%s pt=%d vmin=%d conf=%s", sh, []string{"c", "f2"}[r.Intn(2)],
		1+r.Intn(90), 1+r.Intn(90), 1+r.Intn(90), dk, pt, []int{0, 0, 0, 1, 1, 30, 60, 95}[r.Intn(8)], strings.Join(conf, ","))
}
