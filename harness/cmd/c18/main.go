package main

// C18: correspondence driver for core/plugin (Registry.Register / New / NewFactory, constructor.go).
//
// For every case a FRESH plugin.Registry gets one instrumented constructor of the given shape
// (built with reflect.FuncOf/MakeFunc so that the full cross product of shapes exists as real Go func
// types), then the requested form is created by name and driven k times.  Every invocation of user code
// (default-config function, fillConf, constructor, registered factory) is logged with its invocation
// index and the identity of the configuration object it received; results, errors and panics are
// logged per call; at the end every component that holds a *Conf reads Conf.Mark through it.
//
// With via=hook the same is driven through the glue the config decoder uses: the registry is installed as the
// default registry, creation goes through pluginconfig.Hook / FactoryHook with a {"type": "x", "a": …} map and
// the REAL config decoder is the fillConf (its invocations are not logged: no F events on that path).
//
// input : [via=hook] sh=<P|F><n|s|p><E|-><E|-><I|M><a|f|n|s> form=c|f1|f2 fill=0|1 d=A/B/C u=A/B/C(_ = not set) k=N ff=i,j cf=i rf=i
// obs   : steps=<ev>|<ev>…><res>;…  views=serial:mark,…      | regpanic

import (
	"context"
	"errors"
	"fmt"
	"math/rand"
	"reflect"
	"regexp"
	"sort"
	"strconv"
	"strings"
	"sync"
	"sync/atomic"
	"time"

	"verifharness/drv"

	"github.com/yandex/pandora/core"
	"github.com/yandex/pandora/core/config"
	"github.com/yandex/pandora/core/engine"
	"github.com/yandex/pandora/core/plugin"
	"github.com/yandex/pandora/core/plugin/pluginconfig"
	"github.com/yandex/pandora/core/register"
	"github.com/yandex/pandora/core/schedule"
	"github.com/yandex/pandora/lib/monitoring"
	"go.uber.org/zap"
)

// the default registry and the config package's hook table are process-global
var hookMu sync.Mutex

// Conf: the instrumented configuration.  Sub is a NESTED plugin (as `source` in a provider's config or the nested
// schedules of the composite schedule): the decoder creates it through the hooks while it fills the outer config.
type Conf struct {
	Mark, A, B, C int
	Sub           Iface2
	// round 4 (over.go): one option of every structured kind
	M map[string]int
	L []int
	R [3]int
	P *Inner
}

type Iface interface{ Serial() int }

type comp struct {
	serial int
	cfg    *Conf
	seen   Conf
	held   Conf       // the configuration as given (shallow): keeps its map / list / nested struct alive, so addresses are never reused
	refs   [3]uintptr // round 4: the map / list / nested-struct storage of the configuration the component was given (0: none)
	w      *world
	binds  int
}

func (c *comp) Serial() int { return c.serial }

// core.Gun (engine path): Bind counts how many instances this gun was given to
func (c *comp) Bind(core.Aggregator, core.GunDeps) error {
	if c == nil { // a factory handed out a typed nil gun together with a nil error
		if w := engWorld; w != nil {
			w.mu.Lock()
			w.nilGuns++
			w.bound++
			if w.bound == w.inst && w.allBound != nil {
				close(w.allBound)
			}
			w.mu.Unlock()
		}
		return nil
	}
	c.w.mu.Lock()
	defer c.w.mu.Unlock()
	c.binds++
	c.w.bound++
	if c.w.bound == c.w.inst && c.w.allBound != nil {
		close(c.w.allBound)
	}
	return nil
}
func (c *comp) Shoot(core.Ammo) {}

// compX (round 6, `impl=x`): an implementation type that ALSO implements other interfaces — error, fmt.Stringer,
// io.Closer — next to the plugin interface (Serial, and Bind / Shoot of core.Gun, promoted from the embedded *comp).
// Whatever the registry does with a constructor's results, it must not mistake the COMPONENT for the error result.
type compX struct{ *comp }

func (c *compX) Error() string  { return "component-not-an-error" }
func (c *compX) String() string { return "compX" }
func (c *compX) Close() error   { return nil }

// asComp: the instrumented component behind a product (nil inside = a typed nil product)
func asComp(p interface{}) (*comp, bool) {
	switch v := p.(type) {
	case *comp:
		return v, true
	case *compX:
		if v == nil {
			return nil, true
		}
		return v.comp, true
	}
	return nil, false
}

// Other is a struct that is no config of anything and implements nothing
type Other struct{ X int }

type tErr struct {
	kind string
	idx  int
}

func (e *tErr) Error() string { return e.kind + strconv.Itoa(e.idx) }

// asTErr: is v (an error result or a recovered panic value) one of the instrumented errors, possibly wrapped so that
// errors.As still finds it (`fmt.Errorf("…: %w", err)`, pkg/errors.WithMessage)?  An error that only carries the TEXT of
// ours (`%v`) is not: the caller can no longer match it.
func asTErr(v interface{}) (*tErr, bool) {
	err, ok := v.(error)
	if !ok || err == nil {
		return nil, false
	}
	var te *tErr
	if errors.As(err, &te) {
		return te, true
	}
	return nil, false
}

var (
	confT  = reflect.TypeOf(Conf{})
	pconfT = reflect.TypeOf(&Conf{})
	ifaceT = reflect.TypeOf((*Iface)(nil)).Elem()
	gunT   = reflect.TypeOf((*core.Gun)(nil)).Elem()
	implT  = reflect.TypeOf(&comp{})
	implXT = reflect.TypeOf(&compX{})
	errT   = reflect.TypeOf((*error)(nil)).Elem()
)

type shape struct {
	factory, ctorErr, factErr, iface bool
	cfg, dflt                        byte
}

func parseShape(s string) shape {
	if len(s) != 6 {
		panic("bad shape " + s)
	}
	return shape{factory: s[0] == 'F', cfg: s[1], ctorErr: s[2] == 'E', factErr: s[3] == 'E', iface: s[4] == 'I', dflt: s[5]}
}

type world struct {
	sh                  shape
	d                   [3]int
	u                   [3]*int
	ff, cf, rf          map[int]bool
	fills, ctors, facts int
	ids                 map[*Conf]int // keeps every seen config alive: addresses are never reused
	evs                 []string
	steps               []string
	products            []*comp
	plugT               reflect.Type // the plugin interface: Iface, or core.Gun on the engine path
	bad                 bool         // hook / engine path: the user's settings do not decode
	badKey              bool         // … because of a key the config type does not have (bad=2), not a wrongly typed value
	vmin                int          // hook / engine path: the config type's validation rule is Conf.C >= vmin
	yield               bool         // conc path: user code yields the processor
	ext                 extDef       // round 4: registered defaults of the structured options (over.go)
	ux                  [4]string    // round 4: the user's settings of the structured options
	rich                bool         // round 6 (impl=x): the implementation type also implements error / Stringer / Closer
	foreignFill         bool         // nest path: an error that is none of this world's is the decoder's (a nested creation failed)
	onEndStep           func()
	decodeFails         int
	// engine path (constructors are called from several goroutines there: everything above is guarded by mu)
	mu       sync.Mutex
	inst     int
	bound    int
	scheds   int
	nilGuns  int
	timedOut bool
	allBound chan struct{}
	release  chan struct{}
}

func (w *world) id(p *Conf) string {
	if v, ok := w.ids[p]; ok {
		return strconv.Itoa(v)
	}
	v := len(w.ids)
	w.ids[p] = v
	return strconv.Itoa(v)
}

func okc(b bool) string {
	if b {
		return "+"
	}
	return "!"
}

// fillWith: a fillConf that writes the given user settings (those of ONE creation)
func (w *world) fillWith(u [3]*int) func(interface{}) error {
	return func(conf interface{}) error { return w.fillU(u, conf) }
}

func (w *world) fill(conf interface{}) error { return w.fillU(w.u, conf) }

func (w *world) fillU(u [3]*int, conf interface{}) error {
	w.yieldNow()
	w.mu.Lock()
	defer w.mu.Unlock()
	i := w.fills
	w.fills++
	addr := "?"
	var c *Conf
	switch t := conf.(type) {
	case *Conf:
		c = t
		addr = w.id(t)
	case *struct{}:
		addr = "e"
	}
	fail := w.ff[i]
	w.evs = append(w.evs, fmt.Sprintf("F%d@%s%s", i, addr, okc(!fail)))
	if fail {
		return &tErr{"fill", i}
	}
	if c != nil {
		if u[0] != nil && u[0] != nullInt {
			c.A = *u[0]
		}
		if u[1] != nil && u[1] != nullInt {
			c.B = *u[1]
		}
		if u[2] != nil && u[2] != nullInt {
			c.C = *u[2]
		}
	}
	return nil
}

// build makes a component from the constructor's (or the closure's captured) argument.
func (w *world) build(serial int, arg []reflect.Value) *comp {
	c := &comp{serial: serial, w: w}
	if len(arg) == 1 {
		switch v := arg[0].Interface().(type) {
		case Conf:
			c.seen = deepConf(v)
			c.held, c.refs = v, confRefs(v)
		case *Conf:
			c.seen = deepConf(*v)
			c.held, c.refs = *v, confRefs(*v)
			c.cfg = v
			v.Mark = serial
		}
	}
	w.products = append(w.products, c)
	return c
}

func (w *world) confName(arg []reflect.Value) string {
	if len(arg) == 0 {
		return "n"
	}
	if p, ok := arg[0].Interface().(*Conf); ok {
		return w.id(p)
	}
	return "v"
}

func errVal(e error) reflect.Value {
	if e == nil {
		return reflect.Zero(errT)
	}
	return reflect.ValueOf(&e).Elem()
}

// constructor builds the registered constructor of shape sh as a real Go func value.
func (w *world) constructor() interface{} {
	sh := w.sh
	var in []reflect.Type
	switch sh.cfg {
	case 's':
		in = []reflect.Type{confT}
	case 'p':
		in = []reflect.Type{pconfT}
	}
	prodT := implT
	if w.rich {
		prodT = implXT
	}
	if sh.iface {
		prodT = w.plugT
	}
	prodOut := func(c *comp) reflect.Value {
		if c == nil {
			return reflect.Zero(prodT)
		}
		if w.rich {
			return reflect.ValueOf(&compX{c}).Convert(prodT)
		}
		return reflect.ValueOf(c).Convert(prodT)
	}
	if !sh.factory {
		out := []reflect.Type{prodT}
		if sh.ctorErr {
			out = append(out, errT)
		}
		return reflect.MakeFunc(reflect.FuncOf(in, out, false), func(arg []reflect.Value) []reflect.Value {
			w.yieldNow()
			w.mu.Lock()
			defer w.mu.Unlock()
			i := w.ctors
			w.ctors++
			fail := sh.ctorErr && w.cf[i]
			w.evs = append(w.evs, fmt.Sprintf("C%d@%s%s", i, w.confName(arg), okc(!fail)))
			if fail {
				return []reflect.Value{prodOut(nil), errVal(&tErr{"ctor", i})}
			}
			res := []reflect.Value{prodOut(w.build(i, arg))}
			if sh.ctorErr {
				res = append(res, errVal(nil))
			}
			return res
		}).Interface()
	}
	facOut := []reflect.Type{prodT}
	if sh.factErr {
		facOut = append(facOut, errT)
	}
	facT := reflect.FuncOf(nil, facOut, false)
	out := []reflect.Type{facT}
	if sh.ctorErr {
		out = append(out, errT)
	}
	return reflect.MakeFunc(reflect.FuncOf(in, out, false), func(arg []reflect.Value) []reflect.Value {
		w.mu.Lock()
		defer w.mu.Unlock()
		i := w.ctors
		w.ctors++
		fail := sh.ctorErr && w.cf[i]
		w.evs = append(w.evs, fmt.Sprintf("C%d@%s%s", i, w.confName(arg), okc(!fail)))
		if fail {
			return []reflect.Value{reflect.Zero(facT), errVal(&tErr{"ctor", i})}
		}
		captured := append([]reflect.Value(nil), arg...)
		fac := reflect.MakeFunc(facT, func([]reflect.Value) []reflect.Value {
			w.mu.Lock()
			defer w.mu.Unlock()
			j := w.facts
			w.facts++
			ffail := sh.factErr && w.rf[j]
			w.evs = append(w.evs, fmt.Sprintf("R%d%s", j, okc(!ffail)))
			if ffail {
				return []reflect.Value{prodOut(nil), errVal(&tErr{"fact", j})}
			}
			res := []reflect.Value{prodOut(w.build(j, captured))}
			if sh.factErr {
				res = append(res, errVal(nil))
			}
			return res
		})
		res := []reflect.Value{fac}
		if sh.ctorErr {
			res = append(res, errVal(nil))
		}
		return res
	}).Interface()
}

func (w *world) logD() {
	w.mu.Lock()
	w.evs = append(w.evs, "D")
	w.mu.Unlock()
}

func (w *world) defaultFn() []interface{} {
	d := w.d
	mk := func() *Conf { // a NEW default configuration: nothing of it is shared with an earlier one
		c := &Conf{A: d[0], B: d[1], C: d[2]}
		w.ext.apply(c)
		return c
	}
	switch w.sh.dflt {
	case 'f':
		if w.sh.cfg == 's' {
			return []interface{}{func() Conf { w.logD(); return *mk() }}
		}
		return []interface{}{func() *Conf { w.logD(); return mk() }}
	case 'n':
		return []interface{}{func() *Conf { w.logD(); return nil }}
	case 's':
		sp := mk()
		w.id(sp) // identity 0, owned by the default-config function from registration on
		return []interface{}{func() *Conf { w.logD(); return sp }}
	}
	return nil
}

func (w *world) resOf(p interface{}, err error) string {
	if err != nil {
		if te, ok := asTErr(err); ok {
			return "err." + te.Error()
		}
		if w.bad || w.foreignFill || isValidationErr(err) {
			// the real decoder refused the user's settings / the decoded config fails validation: the i-th such
			// failure is printed as the i-th failing fillConf invocation
			w.decodeFails++
			return "err.fill" + strconv.Itoa(w.decodeFails-1)
		}
		return "err.other:" + drv.Clean(err.Error())
	}
	c, ok := asComp(p)
	if p == nil || (ok && c == nil) {
		return "nil" // neither a component nor an error
	}
	if !ok {
		return fmt.Sprintf("badproduct:%T", p)
	}
	cell := "-"
	if c.cfg != nil {
		cell = w.id(c.cfg)
	}
	return fmt.Sprintf("ok.%d.%s.%d/%s", c.serial, cell, c.seen.Mark, w.seenText(c))
}

func (w *world) endStep(res string) {
	w.steps = append(w.steps, strings.Join(w.evs, "|")+">"+res)
	w.evs = nil
	if w.onEndStep != nil {
		w.onEndStep()
	}
}

// guarded runs one factory call; a panic carrying one of our errors is `panic.<err>`.
func (w *world) guarded(f func() string) (res string) {
	defer func() {
		if r := recover(); r != nil {
			if te, ok := asTErr(r); ok {
				res = "panic." + te.Error()
			} else if e, ok := r.(error); ok && (w.bad || w.foreignFill || isValidationErr(e)) {
				w.decodeFails++
				res = "panic.fill" + strconv.Itoa(w.decodeFails-1)
			} else if e, ok := r.(error); ok {
				res = "panic.other:" + drv.Clean(e.Error())
			} else {
				res = "panic.other:" + drv.Clean(fmt.Sprint(r))
			}
		}
	}()
	return f()
}

func parseSet(s string) map[int]bool {
	m := map[int]bool{}
	for _, t := range strings.Split(s, ",") {
		if t == "" {
			continue
		}
		v, err := strconv.Atoi(t)
		if err != nil {
			panic(err)
		}
		m[v] = true
	}
	return m
}

func c18Run(input string) string {
	kv := drv.KV(input)
	if raceEnabled && kv["conc"] != "1" && kv["via"] != "par" {
		return "RACE-SKIP" // the -race driver is about the concurrent cases only
	}
	if kv["via"] == "reg" {
		return c18Reg(kv)
	}
	if kv["via"] == "facty" {
		return c18FacTy(kv)
	}
	if kv["sess"] == "1" {
		return c18Sess(kv)
	}
	if kv["conc"] == "1" {
		return c18Conc(kv)
	}
	if kv["via"] == "par" {
		return c18Par(kv)
	}
	w := worldOf(kv)
	if kv["via"] == "engine" {
		return c18Engine(kv, w)
	}
	if kv["via"] == "hookconf" {
		return c18HookConf(kv, w)
	}
	if kv["via"] == "nest" {
		return c18Nest(kv, w)
	}
	if kv["fillopt"] == "two" || kv["dopt"] == "two" {
		return c18Opt(kv, w)
	}
	k, _ := strconv.Atoi(kv["k"])
	reg := plugin.NewRegistry()
	registered := func() (ok bool) {
		defer func() {
			if r := recover(); r != nil {
				ok = false
			}
		}()
		dflt := w.defaultFn()
		if kv["dopt"] == "nil" && len(dflt) == 0 {
			dflt = []interface{}{nil} // an explicit nil default-config function is no default-config function
		}
		reg.Register(ifaceT, "x", w.constructor(), dflt...)
		return true
	}()
	if !registered {
		return "regpanic"
	}
	hook := kv["via"] == "hook"
	if hook {
		hookMu.Lock()
		defer hookMu.Unlock()
		old := plugin.DefaultRegistry()
		plugin.SetDefaultRegistry(reg)
		defer plugin.SetDefaultRegistry(old)
		defer setRule(w.vmin)()
	}
	// creators for one creation with the user's settings as they are NOW in w.u
	creators := func(fill bool) (func() (interface{}, error), func(reflect.Type) (interface{}, error)) {
		if hook {
			u := w.u
			data := func() interface{} { // parseConf consumes the map
				m := map[string]interface{}{"type": "x"}
				w.userKeysOf(u, m)
				return m
			}
			return func() (interface{}, error) { return pluginconfig.Hook(reflect.TypeOf(data()), ifaceT, data()) },
				func(t reflect.Type) (interface{}, error) {
					return pluginconfig.FactoryHook(reflect.TypeOf(data()), t, data())
				}
		}
		var fillOpt []func(interface{}) error
		if fill {
			fillOpt = append(fillOpt, w.fillWith(w.u))
		} else if kv["fillopt"] == "nil" {
			fillOpt = append(fillOpt, nil) // an explicit nil fillConf is no fillConf
		}
		return func() (interface{}, error) { return reg.New(ifaceT, "x", fillOpt...) },
			func(t reflect.Type) (interface{}, error) { return reg.NewFactory(t, "x", fillOpt...) }
	}
	viewsOf := func(ps []*comp) string {
		var views []string
		for _, p := range ps {
			if p.cfg != nil {
				views = append(views, fmt.Sprintf("%d:%d", p.serial, p.cfg.Mark))
			}
		}
		return strings.Join(views, ",")
	}
	if kv["nm"] != "" || kv["pt"] != "" {
		return w.miss(kv, reg, hook, k)
	}
	if kv["hist"] == "1" {
		// several creations on the one registration, each with its own user settings
		var phSteps, phViews []string
		for _, ph := range strings.Split(kv["ph"], "|") {
			f := strings.Split(ph, ":")
			if len(f) != 4 {
				panic("phase " + ph)
			}
			w.u = parseU(f[2])
			pk, _ := strconv.Atoi(f[3])
			s0, p0 := len(w.steps), len(w.products)
			newPlugin, newFactory := creators(f[1] == "1")
			w.drive(f[0], pk, newPlugin, newFactory)
			phSteps = append(phSteps, strings.Join(w.steps[s0:], ";"))
			phViews = append(phViews, viewsOf(w.products[p0:]))
		}
		return "hist steps=" + strings.Join(phSteps, "#") + " pv=" + strings.Join(phViews, "#") + " views=" + viewsOf(w.products)
	}
	newPlugin, newFactory := creators(kv["fill"] == "1")
	w.drive(kv["form"], k, newPlugin, newFactory)
	return "steps=" + strings.Join(w.steps, ";") + " views=" + viewsOf(w.products) + w.sharedText()
}

// drive: one creation of the requested form followed by k calls
func (w *world) drive(form string, k int, newPlugin func() (interface{}, error), newFactory func(reflect.Type) (interface{}, error)) {
	switch form {
	case "c":
		for i := 0; i < k; i++ {
			res := w.guarded(func() string { return w.resOf(newPlugin()) })
			w.endStep(res)
		}
	case "f1":
		fac, err := newFactory(reflect.TypeOf((func() Iface)(nil)))
		if err != nil {
			w.endStep(w.resOf(nil, err))
			break
		}
		w.endStep("made")
		f := fac.(func() Iface)
		for i := 0; i < k; i++ {
			res := w.guarded(func() string { return w.resOf(f(), nil) })
			w.endStep(res)
		}
	case "f2":
		fac, err := newFactory(reflect.TypeOf((func() (Iface, error))(nil)))
		if err != nil {
			w.endStep(w.resOf(nil, err))
			break
		}
		w.endStep("made")
		f := fac.(func() (Iface, error))
		for i := 0; i < k; i++ {
			res := w.guarded(func() string { return w.resOf(f()) })
			w.endStep(res)
		}
	default:
		panic("form")
	}
}

// miss: the registration is (Iface, "x"); the caller asks for another name (nm=) and / or another plugin type (pt=),
// directly or through the config hooks.  Nothing may run; the result is the lookup error — or, through the hooks, the
// untouched config data when no plugin at all is registered for the type (the hooks see every interface-typed field).
func (w *world) miss(kv map[string]string, reg *plugin.Registry, hook bool, k int) string {
	name := "x"
	if kv["nm"] != "" {
		name = kv["nm"]
	}
	pt, _ := strconv.Atoi(kv["pt"])
	plugT := sessTypes[pt]
	var fillOpt []func(interface{}) error
	if kv["fill"] == "1" {
		fillOpt = append(fillOpt, w.fillWith(w.u))
	}
	one := func(factory reflect.Type) string {
		var p interface{}
		var err error
		data := map[string]interface{}{"type": name}
		switch {
		case hook && factory == nil:
			p, err = pluginconfig.Hook(reflect.TypeOf(data), plugT, data)
		case hook:
			p, err = pluginconfig.FactoryHook(reflect.TypeOf(data), factory, data)
		case factory == nil:
			p, err = reg.New(plugT, name, fillOpt...)
		default:
			p, err = reg.NewFactory(factory, name, fillOpt...)
		}
		res := ""
		switch {
		case err != nil && isLookupErr(err):
			res = "noentry"
		case err != nil:
			res = "err.other:" + drv.Clean(err.Error())
		default:
			if m, ok := p.(map[string]interface{}); ok && reflect.ValueOf(m).Pointer() == reflect.ValueOf(data).Pointer() {
				res = "pass"
			} else {
				res = fmt.Sprintf("created:%T", p)
			}
		}
		w.mu.Lock()
		evs := strings.Join(w.evs, "|")
		w.evs = nil
		w.mu.Unlock()
		return evs + ">" + res
	}
	var steps []string
	switch kv["form"] {
	case "c":
		for i := 0; i < k; i++ {
			steps = append(steps, w.guarded(func() string { return one(nil) }))
		}
	case "f1":
		steps = append(steps, w.guarded(func() string { return one(reflect.FuncOf(nil, []reflect.Type{plugT}, false)) }))
	default:
		steps = append(steps, w.guarded(func() string { return one(reflect.FuncOf(nil, []reflect.Type{plugT, errT}, false)) }))
	}
	return "steps=" + strings.Join(steps, ";") + " views="
}

// userKeys puts the user's settings into a plugin config map; bad: a value the decoder must refuse
func (w *world) userKeys(m map[string]interface{}) { w.userKeysOf(w.u, m) }

func (w *world) userKeysOf(u [3]*int, m map[string]interface{}) {
	for i, key := range []string{"a", "b", "c"} {
		switch {
		case u[i] == nullInt:
			m[key] = nil // `a:` / `a: ~`
		case u[i] != nil:
			m[key] = *u[i]
		}
	}
	if w.ext.on {
		extUserKeys(m, w.ux)
	}
	if w.bad && w.badKey {
		m["zz"] = 1 // an option the config type does not have (a misspelt key)
	} else if w.bad {
		m["a"] = "not-a-number"
	}
}

// ---------------------------------------------------------------- via=reg: which types Register accepts

type tyParser struct {
	s   string
	pos int
}

func (p *tyParser) ty() reflect.Type {
	if p.pos >= len(p.s) {
		panic("type description ends early")
	}
	c := p.s[p.pos]
	p.pos++
	switch c {
	case 'I':
		return ifaceT
	case 'E':
		return errT
	case 'J':
		return reflect.TypeOf((*fmt.Stringer)(nil)).Elem()
	case 'S':
		return confT
	case 'T':
		return reflect.TypeOf(Other{})
	case 'i':
		return reflect.TypeOf(0)
	case 'M':
		return implT
	case 'R':
		return reflect.TypeOf((*tErr)(nil)) // implements `error` but is not the type `error`
	case '*':
		return reflect.PtrTo(p.ty())
	case 'F':
		if p.s[p.pos] != '(' {
			panic("F(")
		}
		p.pos++
		ins := p.tys()
		if p.s[p.pos] != ';' {
			panic("; expected")
		}
		p.pos++
		outs := p.tys()
		if p.s[p.pos] != ')' {
			panic(") expected")
		}
		p.pos++
		return reflect.FuncOf(ins, outs, false)
	}
	panic("type description " + p.s)
}

func (p *tyParser) tys() []reflect.Type {
	var out []reflect.Type
	for p.s[p.pos] != ';' && p.s[p.pos] != ')' {
		out = append(out, p.ty())
		if p.s[p.pos] == ',' {
			p.pos++
		}
	}
	return out
}

func parseTy(s string) reflect.Type {
	p := &tyParser{s: s}
	t := p.ty()
	if p.pos != len(s) {
		panic("trailing type description " + s)
	}
	return t
}

// a value of the type (Register looks at types only)
func valueOf(t reflect.Type) interface{} { return reflect.Zero(t).Interface() }

func c18Reg(kv map[string]string) string {
	pt := ifaceT
	if kv["pt"] != "" {
		pt = parseTy(kv["pt"])
	}
	name := "x"
	if kv["nm"] == "e" {
		name = ""
	}
	ctor := valueOf(parseTy(kv["ty"]))
	var dflt []interface{}
	if kv["dt"] != "" && kv["dt"] != "-" {
		dflt = append(dflt, valueOf(parseTy(kv["dt"])))
	}
	reg := plugin.NewRegistry()
	if kv["dup"] == "1" {
		reg.Register(pt, name, func() Iface { return nil })
	}
	ok := func() (ok bool) {
		defer func() {
			if r := recover(); r != nil {
				ok = false
			}
		}()
		reg.Register(pt, name, ctor, dflt...)
		return true
	}()
	if !ok {
		return "regpanic"
	}
	return "accepted"
}

// ---------------------------------------------------------------- via=engine: a pool of the real engine

type onceConf struct {
	N int64 `config:"n"`
}

type engProv struct{ w *world }

func (p engProv) Run(ctx context.Context, _ core.ProviderDeps) error { <-ctx.Done(); return nil }
func (p engProv) Acquire() (core.Ammo, bool) {
	// no ammo — but only after every instance has been created, so that "out of ammo" cannot stop the start
	// loop early (which would make the number of started instances a race)
	wait := 8 * time.Second
	if acquireTimeouts.Load() >= 3 {
		wait = 100 * time.Millisecond // a tree on which the instances never all start: do not spend 8 s on every case
	}
	select {
	case <-p.w.allBound:
	case <-p.w.release:
	case <-time.After(wait):
		// inconclusive: "out of ammo" now may stop the start loop early
		acquireTimeouts.Add(1)
		p.w.mu.Lock()
		p.w.timedOut = true
		p.w.mu.Unlock()
	}
	return nil, false
}
func (p engProv) Release(core.Ammo) {}

type engAggr struct{}

func (engAggr) Run(ctx context.Context, _ core.AggregatorDeps) error { <-ctx.Done(); return nil }
func (engAggr) Report(core.Sample)                                   {}

// the world of the engine case that is running (engine cases are serialised by hookMu)
var engWorld *world

var acquireTimeouts atomic.Int64

var errPat = regexp.MustCompile(`\b(fill|ctor|fact)[0-9]+\b`)

func c18Engine(kv map[string]string, w *world) string {
	hookMu.Lock()
	defer hookMu.Unlock()
	w.plugT = gunT
	engWorld = w
	defer func() { engWorld = nil }()
	w.inst, _ = strconv.Atoi(kv["inst"])
	per := kv["per"] == "1"
	w.allBound = make(chan struct{})
	w.release = make(chan struct{})
	if w.inst == 0 {
		close(w.allBound)
	}
	reg := plugin.NewRegistry()
	old := plugin.DefaultRegistry()
	plugin.SetDefaultRegistry(reg)
	defer plugin.SetDefaultRegistry(old)
	defer setRule(w.vmin)()
	registered := func() (ok bool) {
		defer func() {
			if r := recover(); r != nil {
				ok = false
			}
		}()
		// through core/register, as every real plugin does
		register.Gun("c18gun", w.constructor(), w.defaultFn()...)
		register.Provider("c18prov", func() core.Provider { return engProv{w} })
		register.Aggregator("c18aggr", func() (core.Aggregator, error) { return engAggr{}, nil })
		register.Limiter("c18rps", func(c onceConf) core.Schedule {
			w.mu.Lock()
			w.scheds++
			w.mu.Unlock()
			return schedule.NewOnce(c.N)
		}, func() onceConf { return onceConf{N: 1} })
		register.Limiter("c18start", func(c *onceConf) (core.Schedule, error) { return schedule.NewOnce(c.N), nil })
		return true
	}()
	if !registered {
		return "regpanic"
	}
	gun := map[string]interface{}{"type": "c18gun"}
	w.userKeys(gun)
	conf := map[string]interface{}{"pools": []interface{}{map[string]interface{}{
		"id": "p", "gun": gun,
		"ammo":             map[string]interface{}{"type": "c18prov"},
		"result":           map[string]interface{}{"type": "c18aggr"},
		"rps-per-instance": per,
		"rps":              map[string]interface{}{"type": "c18rps"},
		"startup":          map[string]interface{}{"type": "c18start", "n": w.inst},
	}}}
	var ec engine.Config
	res := ""
	if err := config.DecodeAndValidate(conf, &ec); err != nil {
		// mapstructure flattens errors into strings: find ours by name
		if m := errPat.FindString(err.Error()); m != "" {
			res = "decode." + m
		} else if w.bad || isValidationErr(err) {
			res = "decode.fill0"
		} else {
			res = "decode.other:" + drv.Clean(err.Error())
		}
	} else {
		m := engine.Metrics{Request: &monitoring.Counter{}, Response: &monitoring.Counter{},
			InstanceStart: &monitoring.Counter{}, InstanceFinish: &monitoring.Counter{}}
		e := engine.New(zap.NewNop(), m, ec)
		ctx, cancel := context.WithCancel(context.Background())
		done := make(chan error, 1)
		go func() { done <- e.Run(ctx) }()
		var err error
		select {
		case err = <-done:
		case <-time.After(15 * time.Second):
			close(w.release)
			cancel()
			return "eng skip=run-timeout"
		}
		close(w.release)
		cancel()
		waited := make(chan struct{})
		go func() { e.Wait(); close(waited) }()
		select {
		case <-waited:
		case <-time.After(10 * time.Second):
			return "eng skip=wait-timeout"
		}
		var te *tErr
		switch {
		case err == nil:
			res = "ok"
		case errors.As(err, &te):
			res = "err." + te.Error()
		case w.bad || isValidationErr(err):
			res = "err.fill0"
		default:
			res = "err.other:" + drv.Clean(err.Error())
		}
	}
	w.mu.Lock()
	defer w.mu.Unlock()
	if w.timedOut {
		return "eng skip=not-all-instances-started-in-time"
	}
	prods := append([]*comp(nil), w.products...)
	sort.Slice(prods, func(i, j int) bool { return prods[i].serial < prods[j].serial })
	cells := map[*Conf]bool{}
	seenSet := map[string]bool{}
	own := 0
	var binds []string
	for _, p := range prods {
		if p.cfg != nil {
			cells[p.cfg] = true
			if p.cfg.Mark == p.serial {
				own++
			}
		}
		seenSet[fmt.Sprintf("%d/%d/%d", p.seen.A, p.seen.B, p.seen.C)] = true
		binds = append(binds, strconv.Itoa(p.binds))
	}
	var seen []string
	for k := range seenSet {
		seen = append(seen, k)
	}
	sort.Strings(seen)
	cnt := map[byte]int{}
	for _, e := range w.evs {
		cnt[e[0]]++
	}
	if w.nilGuns > 0 && res == "ok" {
		res = "nilgun" // neither a gun nor an error came out of the factory
	}
	return fmt.Sprintf("eng res=%s guns=%d cells=%d d=%d c=%d r=%d seen=%s own=%d binds=%s sched=%d",
		res, len(prods), len(cells), cnt['D'], cnt['C'], cnt['R'], strings.Join(seen, ","), own, strings.Join(binds, ","), w.scheds)
}

func main() {
	raceSetup()
	defer raceCleanup()
	installRule()
	pluginconfig.AddHooks() // once, before any case runs: the engine path decodes a whole engine.Config
	// the config package compiles its decode hooks lazily at the first Decode (not synchronised: a real run decodes its
	// config file before anything runs concurrently); do that before the first concurrent case
	_ = config.Decode(map[string]interface{}{}, &struct{}{})
	drv.Main(&drv.Prop{ID: "C18", Gen: c18Gen, Run: c18Run, Class: c18Class, Workers: 8,
		Rule: "every constructor shape (component|factory x config none|struct|*struct x ctor error x factory error x impl|interface product x default-config absent|fresh|nil|shared) x requested form (New, factory without/with error) x fillConf given or not, each run with a fault-free and a random fault plan and a random number k<=20 of calls (thorough: some k up to 120, plus EVERY fault plan over invocation indices 0..2 for k=2 and, for pointer configs, 0..3 for k=3; registrations Register must refuse: one case per shape and round); per valid shape x form one run through pluginconfig.Hook/FactoryHook with the real config decoder as fillConf and one with settings the decoder refuses; per valid shape one pool of the real engine (constructor registered with core/register.Gun, engine.Config decoded with the plugin hooks, 0..6 instances, shared or per-instance rps schedule, faults at warm-up / first instance); per valid shape two histories (direct and through the hooks): 2..4 creations on ONE registration, each of a random form with its own user settings and 0..4 calls, one fault plan over the running invocation indices; Register driven over constructor and default-config TYPES (supported forms and their neighbours: arity, result kinds, config kinds, implements, default-config function type, plugin type, name, duplicate); SESSIONS (1500 quick / 60000 thorough): ONE registry with 1..5 registrations over 3 plugin interfaces (two of them with the same type NAME in different packages) x 4 names (same name under several types, names that differ by letter case only, now and then an empty name, a duplicate, a default-config function that does not fit, a late Register), each registration with its own instrumented user code and fault plan, then 4..15 operations: New / NewFactory by (type, name) of which about a third was never registered, calls of ANY factory handed out so far in any interleaving with later creations (also one past the end), Lookup; per valid shape one creation for another name / another plugin type than the registered one, directly or through the hooks (nm=, pt=); per valid shape two runs of pluginconfig.Hook / FactoryHook on well- and ill-formed plugin config data (via=hookconf: the `type` key in any letter case and near-miss spellings, none / several / non-string / empty / unknown names, the three kinds of data a decoder hands over incl. non-string keys, a type without plugins); round 3: on every hook / engine / hookconf case a VALIDATION RULE of the config type (config.RegisterCustom: Conf.C >= vmin, vmin one of 0 0 0 1 1 30 60 95) with the real config.DecodeAndValidate as fillConf, every fourth case with settings that consist of the `type` key only (so the default / zero configuration decides), histories through the hooks with valid and invalid creations mixed; per valid shape with a config one NESTED creation (via=nest: the outer configuration contains a plugin field, the decoder creates the nested component of a second registration through the hooks while it fills the outer config; own shapes, settings, fault plans and the rule on both sides); 150 (thorough 4000) CONCURRENT cases (conc=1: 2..6 plain creations side by side on one registry, one goroutine each; the driver built with -race runs exactly these and reports a case during which the race runtime logged a data race); round 6: a third of the direct / hook / history / hookconf cases with an implementation type that ALSO implements error, fmt.Stringer and io.Closer (impl=x, class suffix +x); NewFactory / LookupFactory / FactoryPluginType / New over 31 REQUESTED types (via=facty: the two supported factory forms, plugin types nobody registered, non-interface products, second results that are not error incl. one that implements it, arity, non-funcs) x registered / unknown / empty name; two resp. an explicit nil optional fillConf / default-config argument (fillopt=, dopt=); non-trivial = at least one call, a refused registration, a type case, a session, a lookup failure"})
}

// c18Class: the coverage class; round 6: `+x` marks a case whose implementation type also implements error / Stringer /
// Closer, so that the distribution in stats.json shows the dimension
func c18Class(input, obs string) string {
	c := c18ClassBase(input, obs)
	if c != "" && strings.Contains(input, " impl=x") {
		return c + "+x"
	}
	return c
}

func c18ClassBase(input, obs string) string {
	kv := drv.KV(input)
	if kv["via"] == "reg" {
		return "reg-" + obs
	}
	if kv["via"] == "facty" {
		o := drv.KV(obs)
		return "facty-" + strings.SplitN(o["nf"], ":", 2)[0] + "-" + o["lf"] + o["fpt"] + "-" + strings.SplitN(o["nw"], ":", 2)[0]
	}
	if kv["fillopt"] != "" || kv["dopt"] != "" {
		return "opt-" + kv["fillopt"] + "-" + kv["dopt"] + "-" + kv["form"] + "-" + strings.Fields(obs + " x")[0][:3]
	}
	if kv["sess"] == "1" {
		return sessClass(input, obs)
	}
	if kv["conc"] == "1" {
		c := fmt.Sprintf("conc-%d", strings.Count(kv["cases"], "@@")+1)
		switch {
		case strings.Contains(obs, "PANIC"):
			return c + "-crash"
		case strings.Contains(obs, "panic."):
			return c + "-panic"
		case strings.Contains(obs, "err."):
			return c + "-err"
		}
		return c + "-ok"
	}
	if kv["via"] == "nest" {
		c := "nest-" + kv["sh"][:2] + "-" + kv["ish"][:2]
		switch {
		case obs == "regpanic" || obs == "HANG" || strings.HasPrefix(obs, "PANIC"):
			return c + "-" + strings.ToLower(strings.Fields(obs)[0])
		case strings.Contains(obs, "panic."):
			return c + "-panic"
		case strings.Contains(obs, "err."):
			return c + "-err"
		}
		return c + "-ok"
	}
	if kv["via"] == "hookconf" {
		res := drv.KV(obs)["res"]
		if i := strings.IndexAny(res, ".:"); i > 0 && !strings.HasPrefix(res, "err.parse") {
			res = res[:i]
		}
		return "hookconf-" + kv["dk"] + "-" + res
	}
	if kv["hist"] == "1" {
		c := "hist-" + kv["sh"][:2]
		if kv["via"] == "hook" {
			c = "hook" + c
		}
		switch {
		case obs == "regpanic":
			return c + "-regpanic"
		case strings.Contains(obs, "panic."):
			return c + "-panic"
		case strings.Contains(obs, "err."):
			return c + "-err"
		}
		return c + "-ok"
	}
	if kv["via"] == "engine" {
		res := drv.KV(obs)["res"]
		if i := strings.IndexAny(res, "0123456789"); i > 0 {
			res = res[:i]
		}
		return "engine-" + kv["sh"][:2] + "-" + res
	}
	c := kv["sh"][:2] + "-" + kv["form"]
	if kv["nm"] != "" || kv["pt"] != "" {
		c = "miss-" + kv["form"]
		if kv["via"] == "hook" {
			c = "hook" + c
		}
		switch {
		case strings.Contains(obs, ">pass"):
			return c + "-pass"
		case strings.Contains(obs, ">noentry"):
			return c + "-noentry"
		}
		return c + "-other"
	}
	if kv["via"] == "hook" {
		c = "hook-" + c
		if kv["bad"] == "1" || kv["bad"] == "2" {
			c = "hookbad-" + c
		}
	}
	switch {
	case obs == "regpanic":
		return c + "-regpanic"
	case strings.Contains(obs, "panic."):
		return c + "-panic"
	case strings.Contains(obs, "err."):
		return c + "-err"
	case kv["k"] == "0":
		return ""
	}
	return c + "-ok"
}

// vminGen: the validation rule `Conf.C >= vmin` of a hook / engine case (values of C are 0 = unset or 1..90)
func vminGen(r *rand.Rand) int { return []int{0, 0, 0, 1, 1, 30, 60, 95}[r.Intn(8)] }

func subset(r *rand.Rand, n int) string {
	var out []string
	p := []float64{0.1, 0.3, 0.6}[r.Intn(3)]
	for i := 0; i < n; i++ {
		if r.Float64() < p {
			out = append(out, strconv.Itoa(i))
		}
	}
	return strings.Join(out, ",")
}

func c18Gen(r *rand.Rand, tier string) []string {
	rounds := 5
	if tier == "thorough" {
		rounds = 700
	}
	if raceEnabled {
		// the -race driver: the concurrent cases only (made from the plain cases of a few rounds)
		if rounds > 40 {
			rounds = 40
		}
		var conc []string
		for _, c := range c18GenRounds(r, tier, rounds) {
			if strings.HasPrefix(c, "conc=1") || strings.HasPrefix(c, "via=par") {
				conc = append(conc, c)
			}
		}
		return conc
	}
	return c18GenRounds(r, tier, rounds)
}

func c18GenRounds(r *rand.Rand, tier string, rounds int) []string {
	var out []string
	val := func() string { return strconv.Itoa(r.Intn(90) + 1) }
	// a user's setting: now and then an explicit ZERO (a value like any other: it replaces a non-zero default)
	uval := func() string {
		if r.Intn(6) == 0 {
			return "0"
		}
		return val()
	}
	for round := 0; round < rounds; round++ {
		for _, fa := range "PF" {
			for _, cfg := range "nsp" {
				for _, ce := range "E-" {
					for _, fe := range "E-" {
						if fa == 'P' && fe == 'E' {
							continue
						}
						for _, ifc := range "IM" {
							for _, df := range "afns" {
								// a registration Register must refuse: one case per shape and round is enough
								refused := (cfg == 'n' && df != 'a') || (cfg == 's' && (df == 'n' || df == 's'))
								pick := r.Intn(12)
								for fi, form := range []string{"c", "f1", "f2"} {
									for fill := 0; fill < 2; fill++ {
										for faults := 0; faults < 2; faults++ {
											if refused && pick != fi*4+fill*2+faults {
												continue
											}
											k := r.Intn(21)
											if r.Intn(8) == 0 {
												k = r.Intn(3)
											} else if tier == "thorough" && r.Intn(16) == 0 {
												k = 21 + r.Intn(100) // long histories
											}
											u := make([]string, 3)
											for i := range u {
												u[i] = "_"
												if r.Intn(2) == 0 {
													u[i] = uval()
												}
											}
											s := fmt.Sprintf("sh=%c%c%c%c%c%c form=%s fill=%d d=%s/%s/%s u=%s k=%d",
												fa, cfg, ce, fe, ifc, df, form, fill, val(), val(), val(), strings.Join(u, "/"), k)
											if faults == 1 {
												s += fmt.Sprintf(" ff=%s cf=%s rf=%s", subset(r, k+2), subset(r, k+2), subset(r, k+2))
											} else {
												s += " ff= cf= rf="
											}
											out = append(out, s)
										}
									}
									if !refused {
										// the same through pluginconfig.Hook / FactoryHook and the real decoder
										k := r.Intn(21)
										u := make([]string, 3)
										for i := range u {
											u[i] = "_"
											if cfg != 'n' && r.Intn(2) == 0 { // the decoder refuses unknown keys
												u[i] = uval()
											}
										}
										if r.Intn(4) == 0 {
											u = []string{"_", "_", "_"} // the settings are the `type` key only
										}
										// round 4: structured options (map / list / array / pointer to a nested struct) with registered
										// defaults and partial settings, scalar options given as an explicit null
										ext := cfg != 'n' && r.Intn(3) == 0
										if ext {
											for i := range u {
												if r.Intn(4) == 0 {
													u[i] = "~"
												}
											}
										}
										s := fmt.Sprintf("via=hook sh=%c%c%c%c%c%c form=%s fill=1 d=%s/%s/%s u=%s k=%d vmin=%d ff=",
											fa, cfg, ce, fe, ifc, df, form, val(), val(), val(), strings.Join(u, "/"), k, vminGen(r))
										if r.Intn(2) == 0 {
											s += fmt.Sprintf(" cf=%s rf=%s", subset(r, k+2), subset(r, k+2))
										} else {
											s += " cf= rf="
										}
										if ext {
											s += " " + extGenDefaults(r) + " " + uxText(extGenUser(r))
										}
										out = append(out, s)
									}
								}
								if !refused && cfg != 'n' && df != 's' {
									// a nested plugin in this shape's configuration (not for one shared default pointer: there the
									// decoder decodes every new nested component INTO the one the shared config already holds)
									out = append(out, nestGen(r, fmt.Sprintf("%c%c%c%c%c%c", fa, cfg, ce, fe, ifc, df)))
								}
								if !refused {
									for i := 0; i < 2; i++ {
										out = append(out, hookConfGen(r, fmt.Sprintf("%c%c%c%c%c%c", fa, cfg, ce, fe, ifc, df), byte(cfg)))
									}
								}
								if !refused {
									// creation for a name / a plugin type nobody registered, directly and through the hooks
									nm, pt := []string{"x", "y", "X", "xx"}[r.Intn(4)], r.Intn(3)
									if nm == "x" && pt == 0 {
										nm = "y"
									}
									ms := fmt.Sprintf("sh=%c%c%c%c%c%c form=%s fill=1 d=%s/%s/%s u=_/_/_ k=%d ff= cf= rf= nm=%s pt=%d",
										fa, cfg, ce, fe, ifc, df, []string{"c", "f1", "f2"}[r.Intn(3)], val(), val(), val(), 1+r.Intn(3), nm, pt)
									if r.Intn(2) == 0 {
										ms = "via=hook " + ms
									}
									out = append(out, ms)
								}
								if !refused {
									forms := []string{"c", "f1", "f2"}
									// the user's settings do not decode: every fillConf (the real decoder) fails
									out = append(out, fmt.Sprintf("via=hook sh=%c%c%c%c%c%c form=%s fill=1 bad=%d d=%s/%s/%s u=_/_/_ k=%d ff= cf= rf=",
										fa, cfg, ce, fe, ifc, df, forms[r.Intn(3)], 1+r.Intn(2), val(), val(), val(), r.Intn(6)))
									// the same constructor registered as a gun (core/register) of a pool of the real engine
									u := make([]string, 3)
									for i := range u {
										u[i] = "_"
										if cfg != 'n' && r.Intn(2) == 0 {
											u[i] = uval()
										}
									}
									few := func() string { // faults only where the engine is still sequential: warm-up and first instance
										return []string{"", "", "", "0", "1", "0,1"}[r.Intn(6)]
									}
									if r.Intn(4) == 0 {
										u = []string{"_", "_", "_"} // gun: {type: c18gun}
									}
									s := fmt.Sprintf("via=engine sh=%c%c%c%c%c%c fill=1 d=%s/%s/%s u=%s inst=%d per=%d cf=%s rf=%s vmin=%d",
										fa, cfg, ce, fe, ifc, df, val(), val(), val(), strings.Join(u, "/"), r.Intn(7), r.Intn(2), few(), few(), vminGen(r))
									if r.Intn(10) == 0 {
										s += " bad=1"
									}
									out = append(out, s)
									// histories: several creations on the one registration, each with its own settings
									for _, via := range []string{"", "via=hook "} {
										n := 2 + r.Intn(3)
										var phs []string
										total := 0
										for i := 0; i < n; i++ {
											pu := make([]string, 3)
											for j := range pu {
												pu[j] = "_"
												if cfg != 'n' && r.Intn(2) == 0 {
													pu[j] = uval()
												}
											}
											fill := r.Intn(2)
											if via != "" {
												fill = 1
											}
											pk := r.Intn(5)
											total += pk + 1
											phs = append(phs, fmt.Sprintf("%s:%d:%s:%d", forms[r.Intn(3)], fill, strings.Join(pu, "/"), pk))
										}
										hs := fmt.Sprintf("%shist=1 sh=%c%c%c%c%c%c d=%s/%s/%s ph=%s", via, fa, cfg, ce, fe, ifc, df, val(), val(), val(), strings.Join(phs, "|"))
										if via != "" && df != 's' {
											// the validation rule of the config type: some creations of the history are refused, others not
											hs += fmt.Sprintf(" vmin=%d", vminGen(r))
										}
										if r.Intn(2) == 0 {
											ffs := subset(r, total)
											if via != "" {
												ffs = ""
											}
											hs += fmt.Sprintf(" ff=%s cf=%s rf=%s", ffs, subset(r, total), subset(r, total))
										} else {
											hs += " ff= cf= rf="
										}
										out = append(out, hs)
									}
								}
							}
						}
					}
				}
			}
		}
	}
	// round 6: a third of the direct / hook / history / hookconf cases with an implementation type that ALSO implements
	// error, fmt.Stringer and io.Closer (`impl=x`): the observation must be the same
	for i, c := range out {
		if (strings.HasPrefix(c, "sh=") || strings.HasPrefix(c, "via=hook ") || strings.HasPrefix(c, "hist=1") ||
			strings.HasPrefix(c, "via=hookconf ")) && r.Intn(3) == 0 {
			out[i] = c + " impl=x"
		}
	}
	// the same creations side by side on ONE registry, concurrently
	var plain, hooked, parShapes []string
	seenShape := map[string]bool{}
	for _, c := range out {
		if strings.HasPrefix(c, "sh=") && !strings.Contains(c, " nm=") && len(plain) < 4000 {
			plain = append(plain, c)
		}
		// through the hooks: no shared default pointer (several decoders would write one object: the plugin author's sharing)
		if strings.HasPrefix(c, "via=hook sh=") && !strings.Contains(c, " nm=") && !strings.Contains(c, " bad=") && c[17] != 's' &&
			len(hooked) < 4000 {
			hooked = append(hooked, c)
			if sh := c[12:18]; !seenShape[sh] {
				seenShape[sh] = true
				parShapes = append(parShapes, sh)
			}
		}
	}
	if tier == "thorough" {
		out = append(out, concGen(r, plain, 4000)...)
		out = append(out, concHookGen(r, hooked, 3000)...)
		out = append(out, parGen(r, parShapes, 3000)...)
	} else {
		out = append(out, concGen(r, plain, 150)...)
		out = append(out, concHookGen(r, hooked, 150)...)
		out = append(out, parGen(r, parShapes, 200)...)
	}
	out = append(out, regCases(r, tier)...)
	{
		var valid []string
		seen := map[string]bool{}
		for _, c := range plain {
			sh := c[3:9]
			cfg, df := sh[1], sh[5]
			if seen[sh] || (cfg == 'n' && df != 'a') || (cfg == 's' && (df == 'n' || df == 's')) {
				continue
			}
			seen[sh] = true
			valid = append(valid, sh)
		}
		out = append(out, r6Gen(r, tier, valid)...)
	}
	if tier == "thorough" {
		out = append(out, sessGen(r, 60000)...)
	} else {
		out = append(out, sessGen(r, 1500)...)
	}
	if tier == "thorough" {
		out = append(out, exhaustiveSmall(2, false)...)
		out = append(out, exhaustiveSmall(3, true)...)
	}
	return out
}

// regCases: constructor / default-config TYPES for Register: the supported ones and their neighbours.
// thorough: the full enumeration; quick: a sample of it (the corpus holds one witness per expectation).
func regCases(r *rand.Rand, tier string) []string {
	cfgs := []string{"S", "*S", "T", "*T", "i", "*i", "**S", "M"}
	ins := []string{""}
	ins = append(ins, cfgs...)
	for _, a := range cfgs {
		ins = append(ins, a+","+[]string{"S", "*S", "E"}[len(a)%3])
	}
	prods := []string{"M", "I", "J", "E", "*S", "i", "*M", "F(;M)", "F(;I,E)", "F(;M,E)", "F(S;M)", "F(;M,E,E)", "F(;*S)", "F(;)", "F(;J,E)", "F(;M,i)", "F(;F(;M))"}
	outs := []string{""}
	for _, p := range prods {
		outs = append(outs, p)
		for _, e := range []string{"E", "i", "J", "M", "*S"} {
			outs = append(outs, p+","+e)
		}
		outs = append(outs, p+",E,E", p+",E,i")
	}
	var all []string
	for _, i := range ins {
		in0 := strings.Split(i, ",")[0]
		dts := []string{"-", "F(;S)", "F(;*S)", "S", "F(S;S)", "F(;S,E)", "F(;T)"}
		if in0 != "" && in0 != "S" && in0 != "*S" {
			dts = append(dts, "F(;"+in0+")")
		}
		for _, o := range outs {
			for _, d := range dts {
				all = append(all, fmt.Sprintf("via=reg ty=F(%s;%s) dt=%s", i, o, d))
			}
		}
	}
	// not even a func; Register's own expectations
	for _, t := range []string{"i", "S", "*S", "M", "*F(;M)"} {
		all = append(all, "via=reg ty="+t+" dt=-", "via=reg ty="+t+" dt=F(;S)")
	}
	for _, extra := range []string{"pt=S", "pt=*S", "pt=J", "pt=E", "nm=e", "dup=1", "pt=F(;I)"} {
		for _, t := range []string{"F(;I)", "F(;M)", "F(;J)", "F(*S;M,E)", "F(;F(;I,E))", "F(;E)"} {
			all = append(all, "via=reg ty="+t+" dt=- "+extra)
		}
	}
	if tier == "thorough" {
		return all
	}
	var out []string
	for i := 0; i < 400; i++ {
		out = append(out, all[r.Intn(len(all))])
	}
	return out
}

// exhaustiveSmall: every valid shape x form x fillConf given or not, k calls, EVERY fault plan over the invocation
// indices 0..k of every kind of user code that can fail for the shape (ptrOnly: only the shapes with a pointer config
// and a fresh or shared default, where configuration identity matters most).
func exhaustiveSmall(k int, ptrOnly bool) []string {
	var out []string
	subsets := func(on bool) []string {
		if !on {
			return []string{""}
		}
		var ss []string
		for m := 0; m < 1<<(k+1); m++ {
			var idx []string
			for i := 0; i <= k; i++ {
				if m&(1<<i) != 0 {
					idx = append(idx, strconv.Itoa(i))
				}
			}
			ss = append(ss, strings.Join(idx, ","))
		}
		return ss
	}
	for _, fa := range "PF" {
		for _, cfg := range "nsp" {
			for _, ce := range "E-" {
				for _, fe := range "E-" {
					if fa == 'P' && fe == 'E' {
						continue
					}
					for _, ifc := range "IM" {
						for _, df := range "afns" {
							if (cfg == 'n' && df != 'a') || (cfg == 's' && (df == 'n' || df == 's')) {
								continue
							}
							if ptrOnly && (cfg != 'p' || (df != 'f' && df != 's')) {
								continue
							}
							for _, form := range []string{"c", "f1", "f2"} {
								for fill := 0; fill < 2; fill++ {
									for _, ff := range subsets(fill == 1) {
										for _, cf := range subsets(ce == 'E') {
											for _, rf := range subsets(fa == 'F' && fe == 'E') {
												out = append(out, fmt.Sprintf("sh=%c%c%c%c%c%c form=%s fill=%d d=5/6/7 u=_/9/_ k=%d ff=%s cf=%s rf=%s",
													fa, cfg, ce, fe, ifc, df, form, fill, k, ff, cf, rf))
											}
										}
									}
								}
							}
						}
					}
				}
			}
		}
	}
	return out
}
