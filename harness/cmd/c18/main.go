package main

// C18: correspondence driver for core/plugin (Registry.Register / New / NewFactory, constructor.go).
//
// For every case a FRESH plugin.Registry gets one instrumented constructor of the given shape
// (built with reflect.FuncOf/MakeFunc so that the full cross product of shapes exists as real Go func
// types), then the requested form is created by name and driven k times.  Every invocation of user code
// (default-config function, fillConf, constructor, registered factory) is logged with its invocation
// index and the identity of the configuration object it received; results, errors and panics are
// logged per call; at the end every component that holds a *Conf reads Conf.Mark through it.
//
// With via=hook the same is driven through the glue the config decoder uses: the registry is installed as the
// default registry, creation goes through pluginconfig.Hook / FactoryHook with a {"type": "x", "a": …} map and
// the REAL config decoder is the fillConf (its invocations are not logged: no F events on that path).
//
// input : [via=hook] sh=<P|F><n|s|p><E|-><E|-><I|M><a|f|n|s> form=c|f1|f2 fill=0|1 d=A/B/C u=A/B/C(_ = not set) k=N ff=i,j cf=i rf=i
// obs   : steps=<ev>|<ev>…><res>;…  views=serial:mark,…      | regpanic

import (
	"context"
	"errors"
	"fmt"
	"math/rand"
	"reflect"
	"regexp"
	"sort"
	"strconv"
	"strings"
	"sync"
	"time"

	"verifharness/drv"

	"github.com/yandex/pandora/core"
	"github.com/yandex/pandora/core/config"
	"github.com/yandex/pandora/core/engine"
	"github.com/yandex/pandora/core/plugin"
	"github.com/yandex/pandora/core/plugin/pluginconfig"
	"github.com/yandex/pandora/core/register"
	"github.com/yandex/pandora/core/schedule"
	"github.com/yandex/pandora/lib/monitoring"
	"go.uber.org/zap"
)

// the default registry and the config package's hook table are process-global
var hookMu sync.Mutex

type Conf struct{ Mark, A, B, C int }

type Iface interface{ Serial() int }

type comp struct {
	serial int
	cfg    *Conf
	seen   Conf
	w      *world
	binds  int
}

func (c *comp) Serial() int { return c.serial }

// core.Gun (engine path): Bind counts how many instances this gun was given to
func (c *comp) Bind(core.Aggregator, core.GunDeps) error {
	c.w.mu.Lock()
	defer c.w.mu.Unlock()
	c.binds++
	c.w.bound++
	if c.w.bound == c.w.inst && c.w.allBound != nil {
		close(c.w.allBound)
	}
	return nil
}
func (c *comp) Shoot(core.Ammo) {}

// Other is a struct that is no config of anything and implements nothing
type Other struct{ X int }

type tErr struct {
	kind string
	idx  int
}

func (e *tErr) Error() string { return e.kind + strconv.Itoa(e.idx) }

var (
	confT  = reflect.TypeOf(Conf{})
	pconfT = reflect.TypeOf(&Conf{})
	ifaceT = reflect.TypeOf((*Iface)(nil)).Elem()
	gunT   = reflect.TypeOf((*core.Gun)(nil)).Elem()
	implT  = reflect.TypeOf(&comp{})
	errT   = reflect.TypeOf((*error)(nil)).Elem()
)

type shape struct {
	factory, ctorErr, factErr, iface bool
	cfg, dflt                        byte
}

func parseShape(s string) shape {
	if len(s) != 6 {
		panic("bad shape " + s)
	}
	return shape{factory: s[0] == 'F', cfg: s[1], ctorErr: s[2] == 'E', factErr: s[3] == 'E', iface: s[4] == 'I', dflt: s[5]}
}

type world struct {
	sh                  shape
	d                   [3]int
	u                   [3]*int
	ff, cf, rf          map[int]bool
	fills, ctors, facts int
	ids                 map[*Conf]int // keeps every seen config alive: addresses are never reused
	evs                 []string
	steps               []string
	products            []*comp
	plugT               reflect.Type // the plugin interface: Iface, or core.Gun on the engine path
	bad                 bool         // hook / engine path: the user's settings do not decode
	decodeFails         int
	// engine path (constructors are called from several goroutines there: everything above is guarded by mu)
	mu       sync.Mutex
	inst     int
	bound    int
	scheds   int
	allBound chan struct{}
	release  chan struct{}
}

func (w *world) id(p *Conf) string {
	if v, ok := w.ids[p]; ok {
		return strconv.Itoa(v)
	}
	v := len(w.ids)
	w.ids[p] = v
	return strconv.Itoa(v)
}

func okc(b bool) string {
	if b {
		return "+"
	}
	return "!"
}

func (w *world) fill(conf interface{}) error {
	w.mu.Lock()
	defer w.mu.Unlock()
	i := w.fills
	w.fills++
	addr := "?"
	var c *Conf
	switch t := conf.(type) {
	case *Conf:
		c = t
		addr = w.id(t)
	case *struct{}:
		addr = "e"
	}
	fail := w.ff[i]
	w.evs = append(w.evs, fmt.Sprintf("F%d@%s%s", i, addr, okc(!fail)))
	if fail {
		return &tErr{"fill", i}
	}
	if c != nil {
		if w.u[0] != nil {
			c.A = *w.u[0]
		}
		if w.u[1] != nil {
			c.B = *w.u[1]
		}
		if w.u[2] != nil {
			c.C = *w.u[2]
		}
	}
	return nil
}

// build makes a component from the constructor's (or the closure's captured) argument.
func (w *world) build(serial int, arg []reflect.Value) *comp {
	c := &comp{serial: serial, w: w}
	if len(arg) == 1 {
		switch v := arg[0].Interface().(type) {
		case Conf:
			c.seen = v
		case *Conf:
			c.seen = *v
			c.cfg = v
			v.Mark = serial
		}
	}
	w.products = append(w.products, c)
	return c
}

func (w *world) confName(arg []reflect.Value) string {
	if len(arg) == 0 {
		return "n"
	}
	if p, ok := arg[0].Interface().(*Conf); ok {
		return w.id(p)
	}
	return "v"
}

func errVal(e error) reflect.Value {
	if e == nil {
		return reflect.Zero(errT)
	}
	return reflect.ValueOf(&e).Elem()
}

// constructor builds the registered constructor of shape sh as a real Go func value.
func (w *world) constructor() interface{} {
	sh := w.sh
	var in []reflect.Type
	switch sh.cfg {
	case 's':
		in = []reflect.Type{confT}
	case 'p':
		in = []reflect.Type{pconfT}
	}
	prodT := implT
	if sh.iface {
		prodT = w.plugT
	}
	prodOut := func(c *comp) reflect.Value {
		if c == nil {
			return reflect.Zero(prodT)
		}
		return reflect.ValueOf(c).Convert(prodT)
	}
	if !sh.factory {
		out := []reflect.Type{prodT}
		if sh.ctorErr {
			out = append(out, errT)
		}
		return reflect.MakeFunc(reflect.FuncOf(in, out, false), func(arg []reflect.Value) []reflect.Value {
			w.mu.Lock()
			defer w.mu.Unlock()
			i := w.ctors
			w.ctors++
			fail := sh.ctorErr && w.cf[i]
			w.evs = append(w.evs, fmt.Sprintf("C%d@%s%s", i, w.confName(arg), okc(!fail)))
			if fail {
				return []reflect.Value{prodOut(nil), errVal(&tErr{"ctor", i})}
			}
			res := []reflect.Value{prodOut(w.build(i, arg))}
			if sh.ctorErr {
				res = append(res, errVal(nil))
			}
			return res
		}).Interface()
	}
	facOut := []reflect.Type{prodT}
	if sh.factErr {
		facOut = append(facOut, errT)
	}
	facT := reflect.FuncOf(nil, facOut, false)
	out := []reflect.Type{facT}
	if sh.ctorErr {
		out = append(out, errT)
	}
	return reflect.MakeFunc(reflect.FuncOf(in, out, false), func(arg []reflect.Value) []reflect.Value {
		w.mu.Lock()
		defer w.mu.Unlock()
		i := w.ctors
		w.ctors++
		fail := sh.ctorErr && w.cf[i]
		w.evs = append(w.evs, fmt.Sprintf("C%d@%s%s", i, w.confName(arg), okc(!fail)))
		if fail {
			return []reflect.Value{reflect.Zero(facT), errVal(&tErr{"ctor", i})}
		}
		captured := append([]reflect.Value(nil), arg...)
		fac := reflect.MakeFunc(facT, func([]reflect.Value) []reflect.Value {
			w.mu.Lock()
			defer w.mu.Unlock()
			j := w.facts
			w.facts++
			ffail := sh.factErr && w.rf[j]
			w.evs = append(w.evs, fmt.Sprintf("R%d%s", j, okc(!ffail)))
			if ffail {
				return []reflect.Value{prodOut(nil), errVal(&tErr{"fact", j})}
			}
			res := []reflect.Value{prodOut(w.build(j, captured))}
			if sh.factErr {
				res = append(res, errVal(nil))
			}
			return res
		})
		res := []reflect.Value{fac}
		if sh.ctorErr {
			res = append(res, errVal(nil))
		}
		return res
	}).Interface()
}

func (w *world) logD() {
	w.mu.Lock()
	w.evs = append(w.evs, "D")
	w.mu.Unlock()
}

func (w *world) defaultFn() []interface{} {
	d := w.d
	switch w.sh.dflt {
	case 'f':
		if w.sh.cfg == 's' {
			return []interface{}{func() Conf { w.logD(); return Conf{A: d[0], B: d[1], C: d[2]} }}
		}
		return []interface{}{func() *Conf { w.logD(); return &Conf{A: d[0], B: d[1], C: d[2]} }}
	case 'n':
		return []interface{}{func() *Conf { w.logD(); return nil }}
	case 's':
		sp := &Conf{A: d[0], B: d[1], C: d[2]}
		w.id(sp) // identity 0, owned by the default-config function from registration on
		return []interface{}{func() *Conf { w.logD(); return sp }}
	}
	return nil
}

func (w *world) resOf(p interface{}, err error) string {
	if err != nil {
		if te, ok := err.(*tErr); ok {
			return "err." + te.Error()
		}
		if w.bad {
			// the real decoder refused the user's settings: the i-th such failure is the i-th fillConf invocation
			w.decodeFails++
			return "err.fill" + strconv.Itoa(w.decodeFails-1)
		}
		return "err.other:" + drv.Clean(err.Error())
	}
	c, ok := p.(*comp)
	if p == nil || (ok && c == nil) {
		return "nil" // neither a component nor an error
	}
	if !ok {
		return fmt.Sprintf("badproduct:%T", p)
	}
	cell := "-"
	if c.cfg != nil {
		cell = w.id(c.cfg)
	}
	return fmt.Sprintf("ok.%d.%s.%d/%d/%d/%d", c.serial, cell, c.seen.Mark, c.seen.A, c.seen.B, c.seen.C)
}

func (w *world) endStep(res string) {
	w.steps = append(w.steps, strings.Join(w.evs, "|")+">"+res)
	w.evs = nil
}

// guarded runs one factory call; a panic carrying one of our errors is `panic.<err>`.
func guarded(f func() string) (res string) {
	defer func() {
		if r := recover(); r != nil {
			if te, ok := r.(*tErr); ok {
				res = "panic." + te.Error()
			} else if e, ok := r.(error); ok {
				res = "panic.other:" + drv.Clean(e.Error())
			} else {
				res = "panic.other:" + drv.Clean(fmt.Sprint(r))
			}
		}
	}()
	return f()
}

func parseSet(s string) map[int]bool {
	m := map[int]bool{}
	for _, t := range strings.Split(s, ",") {
		if t == "" {
			continue
		}
		v, err := strconv.Atoi(t)
		if err != nil {
			panic(err)
		}
		m[v] = true
	}
	return m
}

func c18Run(input string) string {
	kv := drv.KV(input)
	w := &world{sh: parseShape(kv["sh"]), ids: map[*Conf]int{}, ff: parseSet(kv["ff"]), cf: parseSet(kv["cf"]), rf: parseSet(kv["rf"])}
	for i, t := range strings.Split(kv["d"], "/") {
		w.d[i], _ = strconv.Atoi(t)
	}
	for i, t := range strings.Split(kv["u"], "/") {
		if t != "_" {
			v, _ := strconv.Atoi(t)
			w.u[i] = &v
		}
	}
	k, _ := strconv.Atoi(kv["k"])
	reg := plugin.NewRegistry()
	registered := func() (ok bool) {
		defer func() {
			if r := recover(); r != nil {
				ok = false
			}
		}()
		reg.Register(ifaceT, "x", w.constructor(), w.defaultFn()...)
		return true
	}()
	if !registered {
		return "regpanic"
	}
	var fillOpt []func(interface{}) error
	if kv["fill"] == "1" {
		fillOpt = append(fillOpt, w.fill)
	}
	newPlugin := func() (interface{}, error) { return reg.New(ifaceT, "x", fillOpt...) }
	newFactory := func(t reflect.Type) (interface{}, error) { return reg.NewFactory(t, "x", fillOpt...) }
	if kv["via"] == "hook" {
		hookMu.Lock()
		defer hookMu.Unlock()
		old := plugin.DefaultRegistry()
		plugin.SetDefaultRegistry(reg)
		defer plugin.SetDefaultRegistry(old)
		data := func() interface{} { // parseConf consumes the map
			m := map[string]interface{}{"type": "x"}
			for i, key := range []string{"a", "b", "c"} {
				if w.u[i] != nil {
					m[key] = *w.u[i]
				}
			}
			return m
		}
		newPlugin = func() (interface{}, error) { return pluginconfig.Hook(reflect.TypeOf(data()), ifaceT, data()) }
		newFactory = func(t reflect.Type) (interface{}, error) {
			return pluginconfig.FactoryHook(reflect.TypeOf(data()), t, data())
		}
	}
	switch kv["form"] {
	case "c":
		for i := 0; i < k; i++ {
			res := guarded(func() string { return w.resOf(newPlugin()) })
			w.endStep(res)
		}
	case "f1":
		fac, err := newFactory(reflect.TypeOf((func() Iface)(nil)))
		if err != nil {
			w.endStep(w.resOf(nil, err))
			break
		}
		w.endStep("made")
		f := fac.(func() Iface)
		for i := 0; i < k; i++ {
			res := guarded(func() string { return w.resOf(f(), nil) })
			w.endStep(res)
		}
	case "f2":
		fac, err := newFactory(reflect.TypeOf((func() (Iface, error))(nil)))
		if err != nil {
			w.endStep(w.resOf(nil, err))
			break
		}
		w.endStep("made")
		f := fac.(func() (Iface, error))
		for i := 0; i < k; i++ {
			res := guarded(func() string { return w.resOf(f()) })
			w.endStep(res)
		}
	default:
		panic("form")
	}
	var views []string
	for _, p := range w.products {
		if p.cfg != nil {
			views = append(views, fmt.Sprintf("%d:%d", p.serial, p.cfg.Mark))
		}
	}
	return "steps=" + strings.Join(w.steps, ";") + " views=" + strings.Join(views, ",")
}

func main() {
	drv.Main(&drv.Prop{ID: "C18", Gen: c18Gen, Run: c18Run, Class: c18Class, Workers: 8,
		Rule: "every constructor shape (component|factory x config none|struct|*struct x ctor error x factory error x impl|interface product x default-config absent|fresh|nil|shared) x requested form (New, factory without/with error) x fillConf given or not, each run with a fault-free and a random fault plan and a random number k<=20 of calls (registrations Register must refuse: one case per shape and round), plus for every valid shape x form one run through pluginconfig.Hook/FactoryHook with the real config decoder as fillConf; non-trivial = at least one call, or a refused registration"})
}

func c18Class(input, obs string) string {
	kv := drv.KV(input)
	c := kv["sh"][:2] + "-" + kv["form"]
	if kv["via"] == "hook" {
		c = "hook-" + c
	}
	switch {
	case obs == "regpanic":
		return c + "-regpanic"
	case strings.Contains(obs, "panic."):
		return c + "-panic"
	case strings.Contains(obs, "err."):
		return c + "-err"
	case kv["k"] == "0":
		return ""
	}
	return c + "-ok"
}

func subset(r *rand.Rand, n int) string {
	var out []string
	p := []float64{0.1, 0.3, 0.6}[r.Intn(3)]
	for i := 0; i < n; i++ {
		if r.Float64() < p {
			out = append(out, strconv.Itoa(i))
		}
	}
	return strings.Join(out, ",")
}

func c18Gen(r *rand.Rand, tier string) []string {
	rounds := 2
	if tier == "thorough" {
		rounds = 40
	}
	var out []string
	val := func() string { return strconv.Itoa(r.Intn(90) + 1) }
	for round := 0; round < rounds; round++ {
		for _, fa := range "PF" {
			for _, cfg := range "nsp" {
				for _, ce := range "E-" {
					for _, fe := range "E-" {
						if fa == 'P' && fe == 'E' {
							continue
						}
						for _, ifc := range "IM" {
							for _, df := range "afns" {
								// a registration Register must refuse: one case per shape and round is enough
								refused := (cfg == 'n' && df != 'a') || (cfg == 's' && (df == 'n' || df == 's'))
								pick := r.Intn(12)
								for fi, form := range []string{"c", "f1", "f2"} {
									for fill := 0; fill < 2; fill++ {
										for faults := 0; faults < 2; faults++ {
											if refused && pick != fi*4+fill*2+faults {
												continue
											}
											k := r.Intn(21)
											if r.Intn(8) == 0 {
												k = r.Intn(3)
											}
											u := make([]string, 3)
											for i := range u {
												u[i] = "_"
												if r.Intn(2) == 0 {
													u[i] = val()
												}
											}
											s := fmt.Sprintf("sh=%c%c%c%c%c%c form=%s fill=%d d=%s/%s/%s u=%s k=%d",
												fa, cfg, ce, fe, ifc, df, form, fill, val(), val(), val(), strings.Join(u, "/"), k)
											if faults == 1 {
												s += fmt.Sprintf(" ff=%s cf=%s rf=%s", subset(r, k+2), subset(r, k+2), subset(r, k+2))
											} else {
												s += " ff= cf= rf="
											}
											out = append(out, s)
										}
									}
									if !refused {
										// the same through pluginconfig.Hook / FactoryHook and the real decoder
										k := r.Intn(21)
										u := make([]string, 3)
										for i := range u {
											u[i] = "_"
											if cfg != 'n' && r.Intn(2) == 0 { // the decoder refuses unknown keys
												u[i] = val()
											}
										}
										s := fmt.Sprintf("via=hook sh=%c%c%c%c%c%c form=%s fill=1 d=%s/%s/%s u=%s k=%d ff=",
											fa, cfg, ce, fe, ifc, df, form, val(), val(), val(), strings.Join(u, "/"), k)
										if r.Intn(2) == 0 {
											s += fmt.Sprintf(" cf=%s rf=%s", subset(r, k+2), subset(r, k+2))
										} else {
											s += " cf= rf="
										}
										out = append(out, s)
									}
								}
							}
						}
					}
				}
			}
		}
	}
	return out
}
