package main

// Scheduling points INSIDE the leaves (mode=lconc / mode=lnconc).
//
// composite.go has scheduling points of its own (verifhook.At before the two rwMu.Lock calls); the leaves
// (do_at.go, unlilmited.go) have none: a race of two callers inside doAtSchedule.Next — between a load and an
// increment of the token index, between a test of the started flag and setting it — happens in a free run only when
// the Go scheduler produces the overlap. So the harness builds a second binary of ITSELF from the same source tree
// with `go build -overlay`: in every method named Next or Left of core/schedule/*.go that takes no lock, a call
// `verifhook.At("<recv type>.<method>#<k>|<accesses>")` is inserted before each statement that touches the receiver's
// shared state (the idea of harness/cmd/c03/instr.go). <accesses>: a call of a method on a field of the receiver
// that is an atomic operation or a `Do` of a once (`i.Inc`, `i.Load`, `finish.Load`, `startOnce.Do` …), a call of a
// method of the receiver itself (`IsStarted()`, `MarkStarted()`), a plain write of a field. Function literals are
// not entered (the function passed to `Do` runs inside the once). Nothing else of the source is changed. The
// instrumented binary runs as a worker process (`-worker`): one input line in, one observation line out.

import (
	"bufio"
	"crypto/sha1"
	"encoding/json"
	"fmt"
	"go/ast"
	"go/parser"
	"go/token"
	"go/types"
	"io"
	"os"
	"os/exec"
	"path/filepath"
	"runtime"
	"sort"
	"strings"
	"sync"
	"time"

	"verifharness/drv"
)

// instrAccesses: the shared-state operations of ONE statement (nested blocks and function literals excluded).
func instrAccesses(recv string, fields map[string]string, st ast.Stmt) []string {
	var out []string
	var own []ast.Node
	switch s := st.(type) {
	case *ast.IfStmt:
		own = []ast.Node{s.Init, s.Cond}
	case *ast.ForStmt:
		own = []ast.Node{s.Init, s.Cond, s.Post}
	case *ast.RangeStmt:
		own = []ast.Node{s.X}
	case *ast.SwitchStmt:
		own = []ast.Node{s.Init, s.Tag}
	case *ast.TypeSwitchStmt:
		own = []ast.Node{s.Init, s.Assign}
	case *ast.SelectStmt, *ast.BlockStmt, *ast.LabeledStmt:
		own = nil
	default:
		own = []ast.Node{st}
	}
	isRecv := func(e ast.Expr) bool {
		id, ok := e.(*ast.Ident)
		return ok && id.Name == recv
	}
	recvField := func(e ast.Expr) (string, bool) {
		se, ok := e.(*ast.SelectorExpr)
		if !ok || !isRecv(se.X) {
			return "", false
		}
		return se.Sel.Name, true
	}
	for _, n := range own {
		if n == nil {
			continue
		}
		ast.Inspect(n, func(x ast.Node) bool {
			switch v := x.(type) {
			case *ast.FuncLit, *ast.BlockStmt:
				return false
			case *ast.CallExpr:
				if se, ok := v.Fun.(*ast.SelectorExpr); ok {
					if f, ok := recvField(se.X); ok && instrSyncType(fields[f]) {
						out = append(out, f+"."+se.Sel.Name)
						// the arguments (a function literal passed to Do) are not entered
						return false
					}
					if _, isField := fields[se.Sel.Name]; isRecv(se.X) && !isField {
						out = append(out, se.Sel.Name+"()")
					}
				}
			case *ast.AssignStmt:
				for _, l := range v.Lhs {
					if f, ok := recvField(l); ok {
						out = append(out, f+".write")
					}
				}
			case *ast.IncDecStmt:
				if f, ok := recvField(v.X); ok {
					out = append(out, f+".write")
				}
			}
			return true
		})
	}
	return out
}

// instrBodyLeaves: an `if` without else whose body ends in return or panic and touches no shared state: what follows
// it is reached only by falling past the condition.
func instrBodyLeaves(s *ast.IfStmt) bool {
	if s.Else != nil || len(s.Body.List) == 0 {
		return false
	}
	switch last := s.Body.List[len(s.Body.List)-1].(type) {
	case *ast.ReturnStmt:
		return true
	case *ast.ExprStmt:
		if c, ok := last.X.(*ast.CallExpr); ok {
			if id, ok := c.Fun.(*ast.Ident); ok && id.Name == "panic" {
				return true
			}
		}
	}
	return false
}

// ---------------------------------------------------------------- methods that take locks (composite.go)
//
// A method that takes a lock of the receiver touches the receiver's state inside its locked sections; whatever it
// touches with NO lock held (an atomic flag, a retry `return s.Next()`, and — if somebody moves a read out of the
// section — a plain field) is an action of its own that other callers can run in between. The lock state is tracked
// statement by statement (`x.Lock()/RLock()` … `x.Unlock()/RUnlock()` on a field of the receiver, `defer x.Unlock()`
// holds to the end; a branch that ends in return / panic does not flow on; where two branches that flow on disagree
// the state is "not held") and a scheduling point `verifhook.At("<type>.<method>#<k>|<accesses>")` is put in front of
// every statement that touches the receiver (field read / write, atomic operation, receiver method call) with no lock
// held. On the unchanged composite.go that is: `started.Store` at the top of Next, `started.Load` in Left, the three
// retries — and no plain field.

func instrIsLockType(ty string) bool {
	ty = strings.TrimPrefix(ty, "*")
	return ty == "sync.RWMutex" || ty == "sync.Mutex"
}

// instrLockCall: st is `recv.<lock field>.<Lock|RLock|Unlock|RUnlock>()` → the method name
func instrLockCall(recv string, fields map[string]string, e ast.Expr) string {
	c, ok := e.(*ast.CallExpr)
	if !ok {
		return ""
	}
	se, ok := c.Fun.(*ast.SelectorExpr)
	if !ok {
		return ""
	}
	switch se.Sel.Name {
	case "Lock", "RLock", "Unlock", "RUnlock":
	default:
		return ""
	}
	in, ok := se.X.(*ast.SelectorExpr)
	if !ok {
		return ""
	}
	if id, ok := in.X.(*ast.Ident); !ok || id.Name != recv || !instrIsLockType(fields[in.Sel.Name]) {
		return ""
	}
	return se.Sel.Name
}

// instrRecvTouches: what the nodes touch of the receiver (nested blocks and function literals excluded)
func instrRecvTouches(recv string, fields map[string]string, nodes []ast.Node) []string {
	var out []string
	seen := map[string]bool{}
	add := func(a string) {
		if !seen[a] {
			seen[a] = true
			out = append(out, a)
		}
	}
	for _, n := range nodes {
		if n == nil {
			continue
		}
		ast.Inspect(n, func(x ast.Node) bool {
			switch v := x.(type) {
			case *ast.FuncLit, *ast.BlockStmt:
				return false
			case *ast.CallExpr:
				if se, ok := v.Fun.(*ast.SelectorExpr); ok {
					if id, ok := se.X.(*ast.Ident); ok && id.Name == recv {
						if _, isField := fields[se.Sel.Name]; !isField {
							add(se.Sel.Name + "()")
							for _, a := range v.Args {
								out = append(out, instrRecvTouches(recv, fields, []ast.Node{a})...)
							}
							return false
						}
					}
					if in, ok := se.X.(*ast.SelectorExpr); ok {
						if id, ok := in.X.(*ast.Ident); ok && id.Name == recv && instrSyncType(fields[in.Sel.Name]) {
							add(in.Sel.Name + "." + se.Sel.Name)
							return false
						}
					}
				}
			case *ast.SelectorExpr:
				if id, ok := v.X.(*ast.Ident); ok && id.Name == recv {
					if !instrIsLockType(fields[v.Sel.Name]) {
						add(v.Sel.Name)
					}
					return false
				}
			}
			return true
		})
	}
	return out
}

func instrTerminates(st ast.Stmt) bool {
	switch s := st.(type) {
	case *ast.ReturnStmt:
		return true
	case *ast.ExprStmt:
		if c, ok := s.X.(*ast.CallExpr); ok {
			if id, ok := c.Fun.(*ast.Ident); ok && id.Name == "panic" {
				return true
			}
		}
	}
	return false
}

func instrLockedMethod(fset *token.FileSet, recv, rt string, fields map[string]string, fd *ast.FuncDecl, ins *[]instrIns, points map[string]int) {
	k := 0
	deferred := false
	point := func(st ast.Stmt, acc []string) {
		label := fmt.Sprintf("%s.%s#%d|%s", rt, fd.Name.Name, k, strings.Join(acc, ","))
		*ins = append(*ins, instrIns{fset.Position(st.Pos()).Offset, fmt.Sprintf("verifhook.At(%q); ", label)})
		points[rt+"."+fd.Name.Name]++
	}
	// ifOwn: the conditions of an if / else-if chain (a point cannot be put in front of an `else if`)
	var ifOwn func(s *ast.IfStmt) []ast.Node
	ifOwn = func(s *ast.IfStmt) []ast.Node {
		var o []ast.Node
		if s.Init != nil {
			o = append(o, s.Init)
		}
		o = append(o, s.Cond)
		if e, ok := s.Else.(*ast.IfStmt); ok {
			o = append(o, ifOwn(e)...)
		}
		return o
	}
	var walk func(list []ast.Stmt, held bool) (bool, bool) // → held afterwards, terminated
	var ifWalk func(s *ast.IfStmt, held bool) (bool, bool)
	ifWalk = func(s *ast.IfStmt, held bool) (bool, bool) {
		h1, t1 := walk(s.Body.List, held)
		h2, t2 := held, false
		switch e := s.Else.(type) {
		case *ast.BlockStmt:
			h2, t2 = walk(e.List, held)
		case *ast.IfStmt:
			h2, t2 = ifWalk(e, held)
		}
		switch {
		case t1 && t2:
			return held, true
		case t1:
			return h2, false
		case t2:
			return h1, false
		}
		return h1 && h2, false
	}
	walk = func(list []ast.Stmt, held bool) (bool, bool) {
		for _, st := range list {
			if _, isDecl := st.(*ast.DeclStmt); isDecl {
				continue
			}
			k++
			if es, ok := st.(*ast.ExprStmt); ok {
				switch instrLockCall(recv, fields, es.X) {
				case "Lock", "RLock":
					held = true
					continue
				case "Unlock", "RUnlock":
					if !deferred {
						held = false
					}
					continue
				}
			}
			if ds, ok := st.(*ast.DeferStmt); ok {
				if m := instrLockCall(recv, fields, ds.Call); m == "Unlock" || m == "RUnlock" {
					deferred = true
					continue
				}
			}
			var own []ast.Node
			switch s := st.(type) {
			case *ast.IfStmt:
				own = ifOwn(s)
			case *ast.ForStmt:
				own = []ast.Node{s.Init, s.Cond, s.Post}
			case *ast.RangeStmt:
				own = []ast.Node{s.X}
			case *ast.SwitchStmt:
				own = []ast.Node{s.Init, s.Tag}
			case *ast.TypeSwitchStmt:
				own = []ast.Node{s.Init, s.Assign}
			case *ast.SelectStmt, *ast.BlockStmt, *ast.LabeledStmt:
			default:
				own = []ast.Node{st}
			}
			if !held {
				if acc := instrRecvTouches(recv, fields, own); len(acc) > 0 {
					point(st, acc)
				}
			}
			if instrTerminates(st) {
				return held, true
			}
			bodies := func(bs [][]ast.Stmt) {
				all := held
				for _, b := range bs {
					h, t := walk(b, held)
					if !t {
						all = all && h
					}
				}
				held = all
			}
			switch s := st.(type) {
			case *ast.BlockStmt:
				h, t := walk(s.List, held)
				if t {
					return h, true
				}
				held = h
			case *ast.IfStmt:
				h, t := ifWalk(s, held)
				if t {
					return h, true
				}
				held = h
			case *ast.ForStmt:
				bodies([][]ast.Stmt{s.Body.List})
			case *ast.RangeStmt:
				bodies([][]ast.Stmt{s.Body.List})
			case *ast.SwitchStmt:
				var bs [][]ast.Stmt
				for _, c := range s.Body.List {
					bs = append(bs, c.(*ast.CaseClause).Body)
				}
				bodies(bs)
			case *ast.TypeSwitchStmt:
				var bs [][]ast.Stmt
				for _, c := range s.Body.List {
					bs = append(bs, c.(*ast.CaseClause).Body)
				}
				bodies(bs)
			case *ast.SelectStmt:
				var bs [][]ast.Stmt
				for _, c := range s.Body.List {
					bs = append(bs, c.(*ast.CommClause).Body)
				}
				bodies(bs)
			}
		}
		return held, false
	}
	walk(fd.Body.List, false)
}

type instrIns struct {
	off  int
	text string
}

func instrHasLock(body *ast.BlockStmt) bool {
	found := false
	ast.Inspect(body, func(x ast.Node) bool {
		if c, ok := x.(*ast.CallExpr); ok {
			if se, ok := c.Fun.(*ast.SelectorExpr); ok {
				switch se.Sel.Name {
				case "Lock", "RLock", "Unlock", "RUnlock":
					found = true
				}
			}
		}
		return !found
	})
	return found
}

// instrNamedFields: per struct type of the package directory its fields with their declared types as written in the
// source, the fields of embedded structs of the same package included (a call `s.f(…)` of a func-typed field is not a
// method call; `s.start.Add(…)` on a time.Time field is not an atomic operation).
func instrNamedFields(dir string) map[string]map[string]string {
	raw := map[string]map[string]string{}
	emb := map[string][]string{}
	files, _ := filepath.Glob(filepath.Join(dir, "*.go"))
	for _, p := range files {
		if strings.HasSuffix(p, "_test.go") {
			continue
		}
		fset := token.NewFileSet()
		f, err := parser.ParseFile(fset, p, nil, 0)
		if err != nil {
			continue
		}
		ast.Inspect(f, func(x ast.Node) bool {
			ts, ok := x.(*ast.TypeSpec)
			if !ok {
				return true
			}
			st, ok := ts.Type.(*ast.StructType)
			if !ok {
				return true
			}
			m := map[string]string{}
			for _, fl := range st.Fields.List {
				ty := types.ExprString(fl.Type)
				if len(fl.Names) == 0 {
					emb[ts.Name.Name] = append(emb[ts.Name.Name], strings.TrimPrefix(ty, "*"))
				}
				for _, n := range fl.Names {
					m[n.Name] = ty
				}
			}
			raw[ts.Name.Name] = m
			return true
		})
	}
	out := map[string]map[string]string{}
	var flat func(name string, into map[string]string, depth int)
	flat = func(name string, into map[string]string, depth int) {
		if depth > 4 {
			return
		}
		for k, v := range raw[name] {
			if _, ok := into[k]; !ok {
				into[k] = v
			}
		}
		for _, e := range emb[name] {
			flat(e, into, depth+1)
		}
	}
	for name := range raw {
		m := map[string]string{}
		flat(name, m, 0)
		out[name] = m
	}
	return out
}

func instrSyncType(ty string) bool {
	ty = strings.TrimPrefix(ty, "*")
	return strings.HasPrefix(ty, "atomic.") || ty == "sync.Once"
}

// instrumentFile returns the instrumented text of one Go file ("" = nothing to instrument in it) and the number of
// scheduling points per method.
func instrumentFile(path string, points map[string]int) (string, error) {
	named := instrNamedFields(filepath.Dir(path))
	src, err := os.ReadFile(path)
	if err != nil {
		return "", err
	}
	fset := token.NewFileSet()
	f, err := parser.ParseFile(fset, path, src, parser.ParseComments)
	if err != nil {
		return "", err
	}
	var ins []instrIns
	for _, d := range f.Decls {
		fd, ok := d.(*ast.FuncDecl)
		if !ok || fd.Recv == nil || fd.Body == nil || len(fd.Recv.List) != 1 || len(fd.Recv.List[0].Names) != 1 {
			continue
		}
		if fd.Name.Name != "Next" && fd.Name.Name != "Left" && !instrHasLock(fd.Body) {
			continue
		}
		recv := fd.Recv.List[0].Names[0].Name
		rt := "?"
		switch t := fd.Recv.List[0].Type.(type) {
		case *ast.StarExpr:
			if id, ok := t.X.(*ast.Ident); ok {
				rt = id.Name
			}
		case *ast.Ident:
			rt = t.Name
		}
		if instrHasLock(fd.Body) {
			instrLockedMethod(fset, recv, rt, named[rt], fd, &ins, points)
			continue
		}
		k := 0
		// Consecutive statements that only READ distinct locations of the shared state (`x.Load`, `IsStarted()`) form one
		// group with one scheduling point in front of it (splitting a condition into two statements does not change what
		// can be observed; two loads of the SAME location, a write, the once or a compound statement start a new group).
		readOnly := func(acc []string) (map[string]bool, bool) {
			fs := map[string]bool{}
			for _, a := range acc {
				switch {
				case strings.HasSuffix(a, ".Load"):
					fs[strings.TrimSuffix(a, ".Load")] = true
				case a == "IsStarted()":
					fs["started"] = true
				default:
					return nil, false
				}
			}
			return fs, true
		}
		var walk func(list []ast.Stmt)
		var nested func(st ast.Stmt) bool
		walk = func(list []ast.Stmt) {
			var group map[string]bool // locations read by the current read-only group; nil = no open group
			for _, st := range list {
				if _, isDecl := st.(*ast.DeclStmt); !isDecl {
					acc := instrAccesses(recv, named[rt], st)
					// FINE points inside the function passed to a once: in front of every statement of it but the first that
					// touches the receiver (the stores of a starting leaf one by one)
					ast.Inspect(st, func(x ast.Node) bool {
						c, ok := x.(*ast.CallExpr)
						if !ok {
							return true
						}
						se, ok := c.Fun.(*ast.SelectorExpr)
						if !ok || se.Sel.Name != "Do" || len(c.Args) != 1 {
							return true
						}
						fl, ok := c.Args[0].(*ast.FuncLit)
						if !ok {
							return true
						}
						seen := 0
						for j, inner := range fl.Body.List {
							if a := instrAccesses(recv, named[rt], inner); len(a) > 0 {
								if seen > 0 {
									label := fmt.Sprintf("fine:%s.%s.once#%d|%s", rt, fd.Name.Name, j, strings.Join(a, ","))
									ins = append(ins, instrIns{fset.Position(inner.Pos()).Offset, fmt.Sprintf("verifhook.At(%q); ", label)})
								}
								seen++
							}
						}
						return false
					})
					if len(acc) > 0 {
						fs, ro := readOnly(acc)
						join := ro && group != nil
						if join {
							for f := range fs {
								if group[f] {
									join = false
								}
							}
						}
						if join {
							for f := range fs {
								group[f] = true
							}
							// a FINE point (ignored unless a case asks for `pts=fine`): between two loads of one read-only group
							label := fmt.Sprintf("fine:%s.%s#%d|%s", rt, fd.Name.Name, k, strings.Join(acc, ","))
							ins = append(ins, instrIns{fset.Position(st.Pos()).Offset, fmt.Sprintf("verifhook.At(%q); ", label)})
						} else {
							label := fmt.Sprintf("%s.%s#%d|%s", rt, fd.Name.Name, k, strings.Join(acc, ","))
							ins = append(ins, instrIns{fset.Position(st.Pos()).Offset, fmt.Sprintf("verifhook.At(%q); ", label)})
							points[rt+"."+fd.Name.Name]++
							group = nil
							if ro {
								group = fs
							}
						}
					}
					k++
				}
				if nested(st) {
					// a compound statement: what follows it may be reached along several paths
					if _, isIf := st.(*ast.IfStmt); !isIf || !instrBodyLeaves(st.(*ast.IfStmt)) {
						group = nil
					}
				}
			}
		}
		nested = func(st ast.Stmt) bool {
			switch s := st.(type) {
			case *ast.BlockStmt:
				walk(s.List)
			case *ast.IfStmt:
				walk(s.Body.List)
				if s.Else != nil {
					nested(s.Else)
				}
			case *ast.ForStmt:
				walk(s.Body.List)
			case *ast.RangeStmt:
				walk(s.Body.List)
			case *ast.SwitchStmt:
				for _, c := range s.Body.List {
					walk(c.(*ast.CaseClause).Body)
				}
			case *ast.TypeSwitchStmt:
				for _, c := range s.Body.List {
					walk(c.(*ast.CaseClause).Body)
				}
			case *ast.SelectStmt:
				for _, c := range s.Body.List {
					walk(c.(*ast.CommClause).Body)
				}
			case *ast.LabeledStmt:
				return nested(s.Stmt)
			default:
				return false
			}
			return true
		}
		walk(fd.Body.List)
	}
	if len(ins) == 0 {
		return "", nil
	}
	const hookPath = "github.com/yandex/pandora/lib/verifhook"
	imported := false
	for _, im := range f.Imports {
		if strings.Trim(im.Path.Value, `"`) == hookPath {
			imported = true
		}
	}
	if !imported {
		ins = append(ins, instrIns{fset.Position(f.Name.End()).Offset, "; import \"" + hookPath + "\""})
	}
	sort.SliceStable(ins, func(a, b int) bool { return ins[a].off > ins[b].off })
	out := string(src)
	for _, i := range ins {
		out = out[:i.off] + i.text + out[i.off:]
	}
	return out, nil
}

var (
	instrOnce sync.Once
	instrBin  string
	instrErr  string
)

func writeIfChanged(path, content string) error {
	if b, err := os.ReadFile(path); err == nil && string(b) == content {
		return nil
	}
	tmp := fmt.Sprintf("%s.%d.tmp", path, os.Getpid())
	if err := os.WriteFile(tmp, []byte(content), 0o644); err != nil {
		return err
	}
	return os.Rename(tmp, path)
}

// instrumentedWorker builds (once per process) the binary with scheduling points inside the leaves and returns its
// path, or "" and the reason.
func instrumentedWorker() (string, string) {
	instrOnce.Do(func() {
		_, self, _, ok := runtime.Caller(0)
		if !ok {
			instrErr = "no-source-path"
			return
		}
		hdir := filepath.Dir(filepath.Dir(filepath.Dir(self))) // …/harness
		if _, err := os.Stat(filepath.Join(hdir, "go.mod")); err != nil {
			instrErr = "no-harness-module"
			return
		}
		repo, err := filepath.Abs(drv.RepoDir)
		if err != nil {
			instrErr = "repo-path"
			return
		}
		base := "/verif/.build"
		if wd, err := os.Getwd(); err == nil {
			if _, err := os.Stat(filepath.Join(wd, ".build")); err == nil {
				base = filepath.Join(wd, ".build")
			}
		}
		h := sha1.Sum([]byte(repo))
		dir := filepath.Join(base, fmt.Sprintf("c02-inst-%x", h[:4]))
		if err := os.MkdirAll(dir, 0o755); err != nil {
			instrErr = "mkdir"
			return
		}
		if old, _ := filepath.Glob(filepath.Join(dir, "worker-*")); old != nil {
			for _, o := range old {
				if st, err := os.Stat(o); err == nil && time.Since(st.ModTime()) > 2*time.Hour {
					_ = os.Remove(o)
				}
			}
		}
		files, _ := filepath.Glob(filepath.Join(repo, "core", "schedule", "*.go"))
		sort.Strings(files)
		overlay := map[string]string{}
		points := map[string]int{}
		for _, f := range files {
			if strings.HasSuffix(f, "_test.go") {
				continue
			}
			txt, err := instrumentFile(f, points)
			if err != nil {
				instrErr = "parse:" + filepath.Base(f)
				return
			}
			if txt == "" {
				continue
			}
			out := filepath.Join(dir, fmt.Sprintf("%d-%s", os.Getpid(), filepath.Base(f)))
			if err := writeIfChanged(out, txt); err != nil {
				instrErr = "write"
				return
			}
			overlay[f] = out
		}
		if len(overlay) == 0 {
			instrErr = "nothing-to-instrument"
			return
		}
		ob, _ := json.Marshal(map[string]any{"Replace": overlay})
		ovl := filepath.Join(dir, fmt.Sprintf("%d-overlay.json", os.Getpid()))
		if err := writeIfChanged(ovl, string(ob)); err != nil {
			instrErr = "write"
			return
		}
		defer func() {
			_ = os.Remove(ovl)
			for _, o := range overlay {
				_ = os.Remove(o)
			}
		}()
		// a private go.mod that names THIS source tree (the shared one may be rewritten by a concurrent check)
		gm, err := os.ReadFile(filepath.Join(hdir, "go.mod"))
		if err != nil {
			instrErr = "go.mod"
			return
		}
		var lines []string
		for _, l := range strings.Split(string(gm), "\n") {
			if strings.HasPrefix(strings.TrimSpace(l), "replace github.com/yandex/pandora ") {
				l = "replace github.com/yandex/pandora => " + repo
			}
			lines = append(lines, l)
		}
		gmPath := filepath.Join(dir, fmt.Sprintf("%d-go.mod", os.Getpid()))
		if err := writeIfChanged(gmPath, strings.Join(lines, "\n")); err != nil {
			instrErr = "write"
			return
		}
		gsPath := strings.TrimSuffix(gmPath, ".mod") + ".sum"
		if gs, err := os.ReadFile(filepath.Join(repo, "go.sum")); err == nil {
			_ = writeIfChanged(gsPath, string(gs))
		}
		defer func() { _ = os.Remove(gmPath); _ = os.Remove(gsPath) }()
		bin := filepath.Join(dir, fmt.Sprintf("worker-%d", os.Getpid()))
		cmd := exec.Command("go", "build", "-tags", "verif", "-overlay", ovl, "-modfile", gmPath, "-o", bin, "./cmd/c02")
		cmd.Dir = hdir
		cmd.Env = append(os.Environ(), "GOFLAGS=-mod=mod", "GOPROXY=off", "GOSUMDB=off", "GOTOOLCHAIN=local", "CGO_ENABLED=0")
		t0 := time.Now()
		if b, err := cmd.CombinedOutput(); err != nil {
			instrErr = "build:" + strings.ReplaceAll(drv.Trunc(drv.Clean(string(b)), 300), " ", "_")
			fmt.Fprintf(os.Stderr, "c02: instrumented worker not built: %s\n", instrErr)
			return
		}
		var ps []string
		for k, v := range points {
			ps = append(ps, fmt.Sprintf("%s:%d", k, v))
		}
		sort.Strings(ps)
		fmt.Fprintf(os.Stderr, "c02: instrumented worker built in %.1fs (%d files; scheduling points %s)\n", time.Since(t0).Seconds(), len(overlay), strings.Join(ps, " "))
		instrBin = bin
	})
	return instrBin, instrErr
}

func removeInstrumentedWorker() {
	lwMu.Lock()
	if lw != nil {
		lw.kill()
		lw = nil
	}
	lwMu.Unlock()
	if instrBin != "" {
		_ = os.Remove(instrBin)
	}
}

// ---------------------------------------------------------------- the worker process

type lworker struct {
	cmd *exec.Cmd
	in  io.WriteCloser
	out *bufio.Reader
}

func (w *lworker) kill() {
	_ = w.in.Close()
	_ = w.cmd.Process.Kill()
	_, _ = w.cmd.Process.Wait()
}

// a leaf-level case takes milliseconds (composites ≈ 60 ms); the controllers give up after 12 s + 3 s at most
const workerCaseTimeout = 40 * time.Second

var (
	lwMu sync.Mutex // controlled runs are serial anyway (one goroutine runs at a time)
	lw   *lworker
)

// runInWorker runs one input in the instrumented worker process.
func runInWorker(input string) string {
	bin, why := instrumentedWorker()
	if bin == "" {
		return "NOINSTR:" + why
	}
	lwMu.Lock()
	defer lwMu.Unlock()
	if lw == nil {
		cmd := exec.Command(bin, "-worker")
		in, err := cmd.StdinPipe()
		if err != nil {
			return "NOINSTR:pipe"
		}
		out, err := cmd.StdoutPipe()
		if err != nil {
			return "NOINSTR:pipe"
		}
		cmd.Stderr = io.Discard
		if err := cmd.Start(); err != nil {
			return "NOINSTR:start"
		}
		lw = &lworker{cmd: cmd, in: in, out: bufio.NewReaderSize(out, 1<<20)}
	}
	w := lw
	if _, err := io.WriteString(w.in, input+"\n"); err != nil {
		w.kill()
		lw = nil
		return "CRASH"
	}
	type res struct {
		line string
		err  error
	}
	ch := make(chan res, 1)
	go func() {
		l, err := w.out.ReadString('\n')
		ch <- res{l, err}
	}()
	select {
	case r := <-ch:
		if r.err != nil {
			w.kill()
			lw = nil
			return "CRASH"
		}
		return strings.TrimRight(r.line, "\n")
	case <-time.After(workerCaseTimeout):
		// the worker did not answer: slowness of a loaded machine cannot be told from a deadlock here (a deadlock inside a
		// case is reported by the controllers themselves: `i:HANG`, HANG): inconclusive
		w.kill()
		lw = nil
		return "TIMEOUT"
	}
}

// workerMain: the loop of the worker process.
func workerMain() {
	in := bufio.NewReaderSize(os.Stdin, 1<<20)
	out := bufio.NewWriter(os.Stdout)
	for {
		l, err := in.ReadString('\n')
		if l = strings.TrimRight(l, "\n"); l != "" {
			obs := func() (obs string) {
				defer func() {
					if r := recover(); r != nil {
						obs = "PANIC " + drv.Clean(fmt.Sprint(r))
					}
				}()
				return runLocal(l)
			}()
			_, _ = out.WriteString(drv.Clean(obs) + "\n")
			_ = out.Flush()
		}
		if err != nil {
			return
		}
	}
}
