package main

// mode=fac: the schedule as a pool gets it — through the REAL config route (coreimport.Import: limiter plugins, the
// slice -> composite hook, plugin config hooks; config.DecodeAndValidate) into an option of FACTORY type,
// `func() (core.Schedule, error)` (what engine.InstancePoolConfig.NewRPSSchedule is; with rps-per-instance every
// instance calls it) or `func() core.Schedule`, or a plain `core.Schedule` option (one schedule). The factory is called
// k times; the k schedules are used in an interleaved order given by the case (`j.S`, `j.N`, `j.L`: the op goes to
// the schedule of the j-th factory call) and EVERY produced schedule is judged on its own against the model / the flat
// spec of the configured tree: a schedule is an object of its own, whatever was produced before or is used beside it.
//
//	enc=l  composites are written as lists (`rps: [ {..}, [ {..}, {..} ] ]`), the usual notation
//	enc=c  composites are written `{type: composite, nested: [...]}`
//	enc=m  lists at even nesting depth, `type: composite` at odd depth
//	fty=fe func() (core.Schedule, error)   fty=f func() core.Schedule   fty=p core.Schedule (k = 1)
//	when=a all factory calls first, then the ops;  when=l a schedule is produced when its first op comes

import (
	"fmt"
	"math/rand"
	"strconv"
	"strings"
	"sync"
	"time"

	"verifharness/drv"

	"github.com/spf13/afero"
	"github.com/yandex/pandora/core"
	"github.com/yandex/pandora/core/config"
	coreimport "github.com/yandex/pandora/core/import"
)

var facImportOnce sync.Once

// facConf turns a tree into the settings a config file gives for it. ok=false: the tree has a part a config cannot
// express (once(0): OnceConfig asks for times >= 1; a duration below 1ms).
func facConf(n *node, enc string, depth int) (interface{}, bool) {
	dur := func(d int64) string { return time.Duration(d).String() }
	switch n.kind {
	case "F":
		p := strings.Split(n.ctor, ":")
		atoi := func(s string) int64 { v, _ := strconv.ParseInt(s, 10, 64); return v }
		atof := func(s string) float64 { v, _ := strconv.ParseFloat(s, 64); return v }
		switch p[0] {
		case "once":
			if atoi(p[1]) < 1 {
				return nil, false
			}
			return map[string]interface{}{"type": "once", "times": atoi(p[1])}, true
		case "const":
			if atoi(p[2]) < 1e6 {
				return nil, false
			}
			return map[string]interface{}{"type": "const", "ops": atof(p[1]), "duration": dur(atoi(p[2]))}, true
		case "line":
			if atoi(p[3]) < 1e6 {
				return nil, false
			}
			return map[string]interface{}{"type": "line", "from": atof(p[1]), "to": atof(p[2]), "duration": dur(atoi(p[3]))}, true
		}
		return nil, false
	case "U":
		if n.dur < 1e6 {
			return nil, false
		}
		return map[string]interface{}{"type": "unlimited", "duration": dur(n.dur)}, true
	case "I":
		return map[string]interface{}{"type": "instance_step", "from": n.is[0], "to": n.is[1], "step": n.is[2], "stepduration": dur(n.is[3])}, true
	}
	if strings.HasPrefix(n.ctor, "step:") {
		p := strings.Split(n.ctor, ":")
		f, _ := strconv.ParseFloat(p[1], 64)
		t, _ := strconv.ParseFloat(p[2], 64)
		st, _ := strconv.ParseInt(p[3], 10, 64)
		d, _ := strconv.ParseInt(p[4], 10, 64)
		return map[string]interface{}{"type": "step", "from": f, "to": t, "step": st, "duration": dur(d)}, true
	}
	kids := []interface{}{}
	for _, k := range n.kids {
		c, ok := facConf(k, enc, depth+1)
		if !ok {
			return nil, false
		}
		kids = append(kids, c)
	}
	if enc == "c" || (enc == "m" && depth%2 == 1) {
		return map[string]interface{}{"type": "composite", "nested": kids}, true
	}
	return kids, true
}

// facFactory decodes the settings into an option of the wanted type and gives back the factory.
func facFactory(rps interface{}, fty string) (func() (core.Schedule, error), error) {
	facImportOnce.Do(func() { coreimport.Import(afero.NewMemMapFs()) })
	root := map[string]interface{}{"rps": rps}
	switch fty {
	case "f":
		var conf struct {
			RPS func() core.Schedule `config:"rps" validate:"required"`
		}
		if err := config.DecodeAndValidate(root, &conf); err != nil {
			return nil, err
		}
		return func() (core.Schedule, error) { return conf.RPS(), nil }, nil
	case "p":
		var conf struct {
			RPS core.Schedule `config:"rps" validate:"required"`
		}
		if err := config.DecodeAndValidate(root, &conf); err != nil {
			return nil, err
		}
		used := false
		return func() (core.Schedule, error) {
			if used {
				return nil, fmt.Errorf("a plain schedule option is one schedule")
			}
			used = true
			return conf.RPS, nil
		}, nil
	default:
		var conf struct {
			RPS func() (core.Schedule, error) `config:"rps" validate:"required"`
		}
		if err := config.DecodeAndValidate(root, &conf); err != nil {
			return nil, err
		}
		return conf.RPS, nil
	}
}

func runFac(m map[string]string) (obs string) {
	var res []string
	defer func() {
		if r := recover(); r != nil {
			res = append(res, "P:"+drv.Clean(fmt.Sprint(r)))
			obs = strings.Join(res, ";")
		}
	}()
	tree, _ := parseTree(m["tree"])
	rps, ok := facConf(tree, m["enc"], 0)
	if !ok {
		return "NOCONF"
	}
	k, _ := strconv.Atoi(m["k"])
	newSched, err := facFactory(rps, m["fty"])
	if err != nil {
		return "REJECT:" + drv.Clean(err.Error())
	}
	scheds := make([]core.Schedule, k)
	get := func(j int) core.Schedule {
		if scheds[j] == nil {
			s, err := newSched()
			if err != nil || s == nil {
				panic(fmt.Sprintf("factory call %d failed: %v", j, err))
			}
			scheds[j] = s
		}
		return scheds[j]
	}
	if m["when"] != "l" {
		for j := 0; j < k; j++ {
			get(j)
		}
	}
	t0 := time.Now().Add(-time.Duration(tenHours))
	for _, op := range strings.Split(m["ops"], ",") {
		i := strings.IndexByte(op, '.')
		if i < 0 {
			continue
		}
		j, _ := strconv.Atoi(op[:i])
		if j < 0 || j >= k {
			continue
		}
		s := get(j)
		switch op[i+1:] {
		case "S":
			s.Start(t0)
			res = append(res, fmt.Sprintf("%d.S", j))
		case "N":
			tx, ok := s.Next()
			b := 0
			if ok {
				b = 1
			}
			res = append(res, fmt.Sprintf("%d.N:%s:%d", j, fmtT(t0, tx), b))
		case "L":
			res = append(res, fmt.Sprintf("%d.L:%d", j, s.Left()))
		}
	}
	return strings.Join(res, ";")
}

// facLeaf: leaves a config can express (no once(0): a token-less part is const 0)
func facLeaf(r *rand.Rand, unstarted bool) *node {
	switch r.Intn(10) {
	case 0, 1:
		return mkFin(fmt.Sprintf("once:%d", 1+r.Intn(3)))
	case 2:
		return mkFin(fmt.Sprintf("const:0:%d", []int64{1e9, 5e8}[r.Intn(2)]))
	case 3, 4:
		return mkFin(fmt.Sprintf("const:%d:%d", 1+r.Intn(4), []int64{1e9, 5e8, 2e9}[r.Intn(3)]))
	case 5:
		return mkFin(fmt.Sprintf("line:%d:%d:%d", r.Intn(3), 1+r.Intn(4), []int64{1e9, 2e9}[r.Intn(2)]))
	case 6:
		f := float64(r.Intn(3))
		return mkStep(f, f+float64(r.Intn(4)), int64(1+r.Intn(2)), []int64{1e9, 5e8}[r.Intn(2)])
	case 7:
		f := int64(r.Intn(3))
		return &node{kind: "I", is: [4]int64{f, f + int64(r.Intn(5)), int64(1 + r.Intn(2)), 1e9}}
	case 8:
		d := twentyHours
		if !unstarted && r.Intn(2) == 0 {
			d = []int64{1e6, 1e9, 60e9}[r.Intn(3)]
		}
		return &node{kind: "U", dur: d}
	default:
		return mkFin(fmt.Sprintf("once:%d", 1+r.Intn(2)))
	}
}

func facTree(r *rand.Rand, depth int, unstarted bool) *node {
	if depth == 0 || r.Intn(4) == 0 {
		return facLeaf(r, unstarted)
	}
	n := &node{kind: "C"}
	k := 2 + r.Intn(3)
	if r.Intn(12) == 0 {
		k = r.Intn(2)
	}
	for i := 0; i < k; i++ {
		n.kids = append(n.kids, facTree(r, depth-1, unstarted))
	}
	return n
}

func genFac(r *rand.Rand, tier string) []string {
	n := 400
	if tier == "thorough" {
		n = 8000
	}
	var out []string
	for i := 0; i < n; i++ {
		unstarted := r.Intn(3) == 0
		t := facTree(r, 1+r.Intn(2), unstarted)
		k := 2 + r.Intn(3)
		fty := []string{"fe", "fe", "fe", "f", "p"}[r.Intn(5)]
		if fty == "p" {
			k = 1
		}
		// per schedule its own program; the programs are merged in a random order
		progs := make([][]string, k)
		for j := range progs {
			nops := t.tokens() + 1 + r.Intn(4)
			if nops > 24 {
				nops = 24
			}
			if r.Intn(5) == 0 {
				nops = r.Intn(3) // a schedule that is produced and hardly used
			}
			body := randOps(r, nops, r.Intn(3))
			if unstarted {
				if r.Intn(2) == 0 {
					body = append([]string{"L"}, body...)
				}
			} else {
				body = append([]string{"S"}, body...)
				if r.Intn(8) == 0 {
					body = append([]string{"L"}, body...)
				}
			}
			progs[j] = body
		}
		var ops []string
		sequential := r.Intn(4) == 0 // one schedule after the other (a finished instance is followed by a new one)
		for {
			var live []int
			for j := range progs {
				if len(progs[j]) > 0 {
					live = append(live, j)
				}
			}
			if len(live) == 0 {
				break
			}
			j := live[r.Intn(len(live))]
			if sequential {
				j = live[0]
			}
			ops = append(ops, fmt.Sprintf("%d.%s", j, progs[j][0]))
			progs[j] = progs[j][1:]
		}
		out = append(out, fmt.Sprintf("mode=fac now=%d k=%d fty=%s enc=%s when=%s tree=%s ops=%s", tenHours, k, fty,
			[]string{"l", "l", "c", "m"}[r.Intn(4)], []string{"a", "l"}[r.Intn(2)], t.String(), strings.Join(ops, ",")))
	}
	return out
}
