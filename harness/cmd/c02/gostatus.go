package main

// Observing (not timing) whether released goroutines are blocked: one dump of all goroutine stacks gives the wait
// status of each worker. Used by mode=cbconc and mode=nconc.

import (
	"bytes"
	"runtime"
	"strconv"
	"strings"
	"time"
)

const (
	gEvent   = 'E' // blocked in a channel send: it has parked / returned and its event waits for the controller
	gBlocked = 'B' // waits on a sync primitive (mutex, Once, RWMutex …) with frames of the package under test on its stack
	gBusy    = 'R' // running, runnable, or a momentary wait somewhere else (fmt, allocator, harness)
)

// goStates classifies the given goroutines from ONE stack dump.
func goStates(gids []int64, within string) []byte {
	buf := make([]byte, 1<<17)
	for {
		n := runtime.Stack(buf, true)
		if n < len(buf) {
			buf = buf[:n]
			break
		}
		buf = make([]byte, 2*len(buf))
	}
	out := make([]byte, len(gids))
	for k, gid := range gids {
		out[k] = gBusy
		key := []byte("goroutine " + strconv.FormatInt(gid, 10) + " [")
		for off := 0; off < len(buf); {
			i := bytes.Index(buf[off:], key)
			if i < 0 {
				break
			}
			i += off
			if i == 0 || buf[i-1] == '\n' {
				rest := buf[i+len(key):]
				j := bytes.IndexAny(rest, ",]")
				if j < 0 {
					break
				}
				st := string(rest[:j])
				end := bytes.Index(rest, []byte("\n\n"))
				if end < 0 {
					end = len(rest)
				}
				switch {
				case st == "chan send":
					out[k] = gEvent
				case (strings.HasPrefix(st, "sync.") || strings.HasPrefix(st, "semacquire")) && calledFrom(rest[:end], within):
					out[k] = gBlocked
				}
				break
			}
			off = i + len(key)
		}
	}
	return out
}

// calledFrom: the sync primitive the goroutine waits on was called DIRECTLY by code of the package `within` — the first
// frame below the runtime / sync frames belongs to it (so a momentary wait inside sync.Map, fmt or the harness, with the
// package under test further down the stack, does not count).
func calledFrom(stack []byte, within string) bool {
	lines := bytes.Split(stack, []byte("\n"))
	for _, l := range lines[1:] { // lines[0] is the rest of the header
		if len(l) == 0 || l[0] == '\t' {
			continue // file:line
		}
		f := string(l)
		if strings.HasPrefix(f, "runtime.") || strings.HasPrefix(f, "sync.") || strings.HasPrefix(f, "internal/") {
			continue
		}
		return strings.Contains(f, within)
	}
	return false
}

// settleGoroutines waits until every given goroutine has an event pending or is blocked; a claim of "blocked" is
// confirmed by a second look 0.3 ms later (nobody is running then, so nobody can release what it waits for).
// Returns the final states, or nil when the goroutines did not come to rest within the deadline.
func settleGoroutines(gids []int64, within string, max time.Duration) []byte {
	deadline := time.Now().Add(max)
	last := time.Now()
	for {
		// a look that comes late (the whole process was held up) does not count against the goroutines
		if d := time.Since(last); d > 300*time.Millisecond {
			deadline = deadline.Add(d)
		}
		last = time.Now()
		st := goStates(gids, within)
		rest, anyB := true, false
		for _, s := range st {
			if s == gBusy {
				rest = false
			}
			if s == gBlocked {
				anyB = true
			}
		}
		if rest && anyB {
			time.Sleep(300 * time.Microsecond)
			st2 := goStates(gids, within)
			if string(st2) == string(st) {
				return st
			}
			continue
		}
		if rest {
			return st
		}
		if time.Now().After(deadline) {
			return nil
		}
		time.Sleep(100 * time.Microsecond)
	}
}
