package main

// mode=cbconc: coreutil.NewCallbackOnFinishSchedule under CONTROLLED overlap of its callers.
//
// The wrapper is given (a) a wrapped schedule and (b) a callback, and both belong to the harness: the wrapped
// schedule is the REAL schedule for the tree behind a recorder that parks the calling goroutine when the real call
// has returned (event G: "got the inner result"), and the callback parks the goroutine that runs it (event C: "inside
// onFinish"). So a case decides how long the callback takes and who reaches the wrapper meanwhile. Exactly one worker
// is released at a time, in the order `sched`, then round-robin until every program is finished.
//
// A caller that reaches the wrapper's once-primitive while the callback is running must be BLOCKED there (that is
// what "calls back once, just before the first callee could know that the schedule is finished" needs). Blocking is
// observed, not timed: the controller waits until the released goroutine either parks/returns (an event arrives) or
// the Go runtime reports it waiting on a sync primitive (goroutine status from runtime.Stack; event W). A W worker
// is not resumed again, it is only polled: once the callback has returned it comes back with its result.
//
// Observation: the event log `i:G ; i:C ; i:W ; i:N:<t>:<ok> ; i:L:<n>` + `#CB:<number of callback runs>`.

import (
	"fmt"
	"math/rand"
	"strconv"
	"strings"
	"sync/atomic"
	"time"

	"verifharness/drv"

	"github.com/yandex/pandora/core"
	"github.com/yandex/pandora/core/coreutil"
)

type cbWorker struct {
	resume chan struct{}
	parked chan string
	gid    int64
	left   int  // ops not yet returned
	mid    bool // released and not parked again: blocked inside the wrapper
}

// cbCase: the workers of one case by goroutine id; filled before the first worker is released, read-only afterwards
// (no lock: a lookup must never make a worker wait on a sync primitive of the harness).
type cbCase struct{ byGid map[int64]*cbWorker }

func (c *cbCase) park(ev string) {
	if cw, ok := c.byGid[goid()]; ok {
		cw.parked <- ev
		<-cw.resume
	}
}

// cbInner is the wrapped schedule: the real one, plus a scheduling point after each call.
type cbInner struct {
	core.Schedule
	c *cbCase
}

func (c *cbInner) Next() (time.Time, bool) {
	tx, ok := c.Schedule.Next()
	c.c.park("G")
	return tx, ok
}

func (c *cbInner) Left() int {
	l := c.Schedule.Left()
	c.c.park("G")
	return l
}

func runCbConc(m map[string]string) string {
	t0 := time.Now().Add(-time.Duration(tenHours))
	tree, _ := parseTree(m["tree"])
	var cbCalls atomic.Int64
	cs := &cbCase{byGid: map[int64]*cbWorker{}}
	inner := &cbInner{buildReal(tree, false), cs}
	s := coreutil.NewCallbackOnFinishSchedule(inner, func() {
		cbCalls.Add(1)
		cs.park("C")
	})
	if m["start"] != "0" {
		s.Start(t0)
	}
	progs := strings.Split(m["prog"], "|")
	ws := make([]*cbWorker, len(progs))
	for i, p := range progs {
		w := &cbWorker{resume: make(chan struct{}), parked: make(chan string), left: len(p)}
		ws[i] = w
		prog := p
		ready := make(chan struct{})
		go func() {
			w.gid = goid()
			close(ready)
			for _, op := range prog {
				<-w.resume
				res := func() (res string) {
					defer func() {
						if r := recover(); r != nil {
							res = "P:" + drv.Clean(fmt.Sprint(r))
						}
					}()
					if op == 'N' {
						tx, ok := s.Next()
						b := 0
						if ok {
							b = 1
						}
						return fmt.Sprintf("N:%s:%d", fmtT(t0, tx), b)
					}
					return fmt.Sprintf("L:%d", s.Left())
				}()
				w.parked <- res
				if strings.HasPrefix(res, "P:") {
					return
				}
			}
		}()
		<-ready
		cs.byGid[w.gid] = w
	}
	{
		var gids []int64
		for _, w := range ws {
			gids = append(gids, w.gid)
		}
		nRegisterGids(gids, nil, true)
		defer nRegisterGids(gids, nil, false)
	}
	var log []string
	bad := false
	// next event of worker i: released if it is not in the middle of a call, then looked at only when ALL workers in
	// the middle of a call have come to rest (event pending, or blocked): a caller that was blocked may still be
	// held up by another one that has just been let through and has not got to its return yet
	step := func(i int) string {
		w := ws[i]
		ev := ""
		if !w.mid {
			w.resume <- struct{}{}
			w.mid = true
			t := time.NewTimer(300 * time.Microsecond)
			select {
			case ev = <-w.parked:
			case <-t.C:
			}
			t.Stop()
		}
		if ev == "" {
			var gids []int64
			for _, x := range ws {
				if x.mid {
					gids = append(gids, x.gid)
				}
			}
			if settleGoroutines(gids, "/core/coreutil.", 4*time.Second) == nil {
				ev = "HANG"
			} else {
				select {
				case ev = <-w.parked:
				default:
					ev = "W"
				}
			}
		}
		log = append(log, fmt.Sprintf("%d:%s", i, ev))
		switch {
		case ev == "W":
		case ev == "HANG":
			bad = true
		case ev == "G" || ev == "C":
			w.mid = false
		case strings.HasPrefix(ev, "P:"):
			w.mid = false
			w.left = 0
		default:
			w.mid = false
			w.left--
		}
		return ev
	}
	if m["sched"] != "" {
		for _, t := range strings.Split(m["sched"], ",") {
			i, _ := strconv.Atoi(t)
			if i < 0 || i >= len(ws) || ws[i].left == 0 {
				continue
			}
			step(i)
			if bad {
				break
			}
		}
	}
	for round := 0; !bad && round < 400; round++ {
		any, progress := false, false
		for i, w := range ws {
			if w.left == 0 || bad {
				continue
			}
			any = true
			if step(i) != "W" {
				progress = true
			}
		}
		if !any {
			break
		}
		if !progress {
			log = append(log, "DEADLOCK")
			bad = true
		}
	}
	if bad {
		// do not leak the parked workers of a failed run (those blocked for good stay)
		for _, w := range ws {
			if w.left > 0 {
				go func(w *cbWorker) {
					for k := 0; k < 64; k++ {
						select {
						case w.resume <- struct{}{}:
						case <-w.parked:
						case <-time.After(100 * time.Millisecond):
							return
						}
					}
				}(w)
			}
		}
	}
	return strings.Join(log, ";") + fmt.Sprintf("#CB:%d", cbCalls.Load())
}

// small trees that are exhausted after a few draws, so that several callers learn about the finish close together
func cbTree(r *rand.Rand, unstarted bool) *node {
	t := &node{kind: "C"}
	for j, k := 0, 2+r.Intn(3); j < k; j++ {
		switch r.Intn(7) {
		case 0, 1:
			t.kids = append(t.kids, mkFin("once:0"))
		case 2, 3:
			t.kids = append(t.kids, mkFin(fmt.Sprintf("once:%d", 1+r.Intn(2))))
		case 4:
			t.kids = append(t.kids, mkFin("const:0:1000000000"))
		case 5:
			n := &node{kind: "C"}
			for x, y := 0, r.Intn(3); x < y; x++ {
				n.kids = append(n.kids, mkFin(fmt.Sprintf("once:%d", r.Intn(2))))
			}
			t.kids = append(t.kids, n)
		default:
			if unstarted {
				t.kids = append(t.kids, mkFin("once:1"))
			} else {
				t.kids = append(t.kids, &node{kind: "U", dur: 1e6})
			}
		}
	}
	return t
}

func genCbConc(r *rand.Rand, tier string) []string {
	n := 500
	if tier == "thorough" {
		n = 12000
	}
	var out []string
	for i := 0; i < n; i++ {
		unstarted := r.Intn(3) == 0
		t := cbTree(r, unstarted)
		if r.Intn(8) == 0 {
			t.kids = append(t.kids, &node{kind: "U", dur: twentyHours}) // never finishes: the callback must not run
		}
		nt := 2 + r.Intn(3)
		var progs []string
		total := 0
		for j := 0; j < nt; j++ {
			l := 1 + r.Intn(3)
			if j == 0 {
				l += t.tokens() / nt
			}
			var sb strings.Builder
			for x := 0; x < l; x++ {
				if r.Intn(3) == 0 {
					sb.WriteByte('L')
				} else {
					sb.WriteByte('N')
				}
			}
			progs = append(progs, sb.String())
			total += l
		}
		var sched []string
		for x := 0; x < total*3; x++ {
			sched = append(sched, strconv.Itoa(r.Intn(nt)))
		}
		st := 1
		if unstarted {
			st = 0
		}
		out = append(out, fmt.Sprintf("mode=cbconc now=%d start=%d tree=%s prog=%s sched=%s", tenHours, st, t.String(), strings.Join(progs, "|"), strings.Join(sched, ",")))
	}
	if tier == "thorough" {
		// every order of two callers (words over {0,1} of length 10) and of three callers (length 7)
		for _, f := range [][]string{{"once:1", "once:0"}, {"once:0", "once:0"}, {"once:2", "C()"}} {
			t := &node{kind: "C"}
			for _, c := range f {
				t.kids = append(t.kids, famNode(c))
			}
			for _, p := range []string{"NN|NN", "NL|LN", "L|NNN", "LL|N"} {
				for w := 0; w < 1024; w++ {
					var sched []string
					for b := 0; b < 10; b++ {
						sched = append(sched, strconv.Itoa((w>>b)&1))
					}
					out = append(out, fmt.Sprintf("mode=cbconc now=%d start=%d tree=%s prog=%s sched=%s", tenHours, w%2, t.String(), p, strings.Join(sched, ",")))
				}
			}
			for _, p := range []string{"N|N|NN", "L|N|L"} {
				for w := 0; w < 2187; w++ {
					var sched []string
					x := w
					for b := 0; b < 7; b++ {
						sched = append(sched, strconv.Itoa(x%3))
						x /= 3
					}
					out = append(out, fmt.Sprintf("mode=cbconc now=%d start=1 tree=%s prog=%s sched=%s", tenHours, t.String(), p, strings.Join(sched, ",")))
				}
			}
		}
	}
	return out
}
