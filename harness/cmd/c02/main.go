package main

// C02: correspondence driver for the schedule token contract.
//
// mode=seq    one caller: random trees (nested composites, zero-token parts, unlimited parts in any position,
//             instance_step nodes, 0/1-child composites) x random Start/Next/Left sequences on the REAL schedules,
//             optionally through coreutil.NewCallbackOnFinishSchedule (cb=1). Started cases: the root is started at
//             T0 = (real now - 10h), so every time is a deterministic offset from T0 and an unlimited part is finished /
//             live / not begun with a margin of minutes to hours. Unstarted cases (no S op: the engine's case) start
//             at the first Next; all their times lie within a minute after T0+10h and print as NOW. Timed cases
//             (op A<ns>) let an unlimited part finish DURING the case: phase 1 must end within 150 ms (else the
//             observation is INCONCLUSIVE = skipped), then the driver sleeps past the part's end.
// mode=conc   see conc.go (controlled interleavings through the verif yield points; children may be nested composites,
//             taken as atomic objects: yields inside them are suppressed).
// mode=stress see stress.go (free-running goroutines on nested trees; every result is checked against the flat spec).

import (
	"fmt"
	"math/rand"
	"os"
	"regexp"
	"strconv"
	"strings"
	"sync/atomic"
	"time"

	"verifharness/drv"

	"github.com/yandex/pandora/core"
	"github.com/yandex/pandora/core/coreutil"
	"github.com/yandex/pandora/core/schedule"
)

const tenHours = int64(10 * time.Hour)
const twentyHours = int64(20 * time.Hour)

type node struct {
	kind string // F U C I
	ctor string
	dur  int64
	offs []int64
	kids []*node
	is   [4]int64 // instance_step: from, to, step, stepDuration
	runs []hrun   // huge leaves: run-length encoded offsets (huge.go)
	huge int64    // != 0: this node holds a huge number of tokens (never enumerated, never drained)
	g    string   // != "": a const leaf that is described by its rate (exact rational) instead of enumerated (big.go)
	cnt  int64    // described leaf: how many tokens the real leaf says it holds
}

func (n *node) String() string {
	switch n.kind {
	case "F":
		if n.g != "" {
			return fmt.Sprintf("G%d:%s{%s}", n.dur, n.g, n.ctor)
		}
		if n.runs != nil {
			return fmt.Sprintf("F%d[%s]{%s}", n.dur, n.runsString(), n.ctor)
		}
		var sb strings.Builder
		for i, o := range n.offs {
			if i > 0 {
				sb.WriteByte(',')
			}
			sb.WriteString(strconv.FormatInt(o, 10))
		}
		return fmt.Sprintf("F%d[%s]{%s}", n.dur, sb.String(), n.ctor)
	case "U":
		return fmt.Sprintf("U%d", n.dur)
	case "I":
		return fmt.Sprintf("I%d:%d:%d:%d", n.is[0], n.is[1], n.is[2], n.is[3])
	default:
		var parts []string
		for _, k := range n.kids {
			parts = append(parts, k.String())
		}
		if n.ctor != "" {
			return "C(" + strings.Join(parts, ";") + "){" + n.ctor + "}"
		}
		return "C(" + strings.Join(parts, ";") + ")"
	}
}

func (n *node) tokens() int {
	if n.huge != 0 && n.kind != "C" {
		return 8
	}
	switch n.kind {
	case "F":
		return len(n.offs)
	case "U":
		return 3
	case "I":
		t := int(n.is[0])
		for i := n.is[0] + n.is[2]; i <= n.is[1]; i += n.is[2] {
			t += int(n.is[2])
		}
		return t
	}
	t := 0
	for _, k := range n.kids {
		t += k.tokens()
	}
	return t
}

// ctorLeaf builds a leaf through the registered config constructors (New…Conf) wherever the config accepts the
// values, directly otherwise (once:0 is below OnceConfig's min=1).
func ctorLeaf(ctor string) (core.Schedule, int64) {
	p := strings.Split(ctor, ":")
	atoi := func(s string) int64 { v, _ := strconv.ParseInt(s, 10, 64); return v }
	atof := func(s string) float64 { v, _ := strconv.ParseFloat(s, 64); return v }
	switch p[0] {
	case "once":
		if n := atoi(p[1]); n >= 1 {
			return schedule.NewOnceConf(schedule.OnceConfig{Times: n}), 0
		}
		return schedule.NewOnce(atoi(p[1])), 0
	case "const":
		return schedule.NewConstConf(schedule.ConstConfig{Ops: atof(p[1]), Duration: time.Duration(atoi(p[2]))}), atoi(p[2])
	case "line":
		return schedule.NewLineConf(schedule.LineConfig{From: atof(p[1]), To: atof(p[2]), Duration: time.Duration(atoi(p[3]))}), atoi(p[3])
	}
	panic("ctor " + ctor)
}

// mkFin enumerates the offsets of a real leaf constructor (the model is told what the leaf hands out; what a leaf
// hands out is C01's subject, how it is handed out is C02's).
func mkFin(ctor string) *node {
	n := &node{kind: "F", ctor: ctor}
	s, dur := ctorLeaf(ctor)
	n.dur = dur
	t0 := time.Unix(1_000_000, 0)
	// a leaf that panics while it is enumerated (a fault of the leaf arithmetic) must not take the generator down:
	// the case is generated with the offsets seen so far, the real leaf panics again when the case runs, and the
	// verdict is `fail:panic` with that case as the failing input
	func() {
		defer func() { _ = recover() }()
		s.Start(t0)
		for len(n.offs) < 1<<20 {
			tx, ok := s.Next()
			if !ok {
				break
			}
			n.offs = append(n.offs, int64(tx.Sub(t0)))
		}
	}()
	return n
}

// mkStep: what NewStep(from, to, step, d) is: a composite of const parts (or one const part when from == to)
func mkStep(from, to float64, step int64, d int64) *node {
	if from == to {
		return mkFin(fmt.Sprintf("const:%g:%d", from, d))
	}
	n := &node{kind: "C", ctor: fmt.Sprintf("step:%g:%g:%d:%d", from, to, step, d)}
	for i := from; i <= to; i += float64(step) {
		n.kids = append(n.kids, mkFin(fmt.Sprintf("const:%g:%d", i, d)))
	}
	return n
}

type genOpt struct {
	unstarted bool // no far-future leaves, unlimited parts only of 20h
	noUnl     bool
}

func genLeaf(r *rand.Rand, o genOpt) *node {
	switch r.Intn(10) {
	case 0:
		return mkFin("once:0")
	case 1, 2:
		return mkFin(fmt.Sprintf("once:%d", 1+r.Intn(4)))
	case 3:
		return mkFin(fmt.Sprintf("const:0:%d", []int64{1e9, 5e8, 2e9}[r.Intn(3)]))
	case 4, 5:
		if r.Intn(4) == 0 {
			// fractional rates, below and above one operation per second
			return mkFin(fmt.Sprintf("const:%s:%d", []string{"0.5", "0.25", "0.75", "1.5", "2.5", "3.3"}[r.Intn(6)], []int64{2e9, 4e9, 5e9}[r.Intn(3)]))
		}
		return mkFin(fmt.Sprintf("const:%d:%d", []int{1, 2, 3, 4, 5}[r.Intn(5)], []int64{1e9, 5e8, 2e9}[r.Intn(3)]))
	case 6:
		return mkFin(fmt.Sprintf("line:%d:%d:%d", r.Intn(4), 1+r.Intn(5), []int64{1e9, 2e9}[r.Intn(2)]))
	case 7:
		if r.Intn(3) == 0 {
			f := float64(r.Intn(4))
			return mkStep(f, f+float64(r.Intn(7)-1), int64(1+r.Intn(3)), []int64{1e9, 5e8}[r.Intn(2)])
		}
		if r.Intn(2) == 0 {
			f := int64(r.Intn(3))
			st := int64(1 + r.Intn(3))
			return &node{kind: "I", is: [4]int64{f, f + int64(r.Intn(7)), st, []int64{1e9, 5e8}[r.Intn(2)]}}
		}
		if !o.unstarted && r.Intn(3) == 0 {
			// tokens far after the clock reading (offsets k*10000s up to 20h; the clock reads 10h)
			return mkFin("const:0.0001:72000000000000")
		}
		return mkFin(fmt.Sprintf("once:%d", 1+r.Intn(2)))
	default:
		if o.noUnl {
			return mkFin(fmt.Sprintf("once:%d", r.Intn(3)))
		}
		d := twentyHours
		if !o.unstarted && r.Intn(2) == 0 {
			d = []int64{1e6, 1e9, 60e9}[r.Intn(3)]
		}
		return &node{kind: "U", dur: d}
	}
}

func genTree(r *rand.Rand, depth int, o genOpt) *node {
	if depth == 0 || r.Intn(3) == 0 {
		return genLeaf(r, o)
	}
	n := &node{kind: "C"}
	k := r.Intn(5)
	if r.Intn(12) == 0 {
		k = r.Intn(2) // 0 or 1 children: NewComposite's shortcuts
	} else {
		k += 2
	}
	for i := 0; i < k; i++ {
		n.kids = append(n.kids, genTree(r, depth-1, o))
	}
	return n
}

func randOps(r *rand.Rand, n int, pl int) []string {
	var ops []string
	for j := 0; j < n; j++ {
		if r.Intn(4) < pl {
			ops = append(ops, "L")
		} else {
			ops = append(ops, "N")
		}
	}
	return ops
}

func gen(r *rand.Rand, tier string) []string {
	n := 1800
	if tier == "thorough" {
		n = 100000
	}
	var out []string
	for i := 0; i < n; i++ {
		o := genOpt{unstarted: r.Intn(4) == 0}
		t := genTree(r, 1+r.Intn(3), o)
		if t.kind != "C" && r.Intn(4) != 0 {
			t = &node{kind: "C", kids: []*node{t, genTree(r, 1, o)}}
		}
		nops := t.tokens() + 2 + r.Intn(6)
		if nops > 60 {
			nops = 60
		}
		body := randOps(r, nops, r.Intn(4))
		var ops []string
		switch {
		case o.unstarted:
			// Left before anything, then the first Next starts the schedule
			if r.Intn(2) == 0 {
				ops = append(ops, "L")
			}
			ops = append(ops, body...)
			if r.Intn(6) == 0 {
				ops = append(ops, "S") // Start after Next: panics
			}
		case r.Intn(12) == 0:
			ops = append([]string{"S", "S"}, body...) // double start
		case r.Intn(12) == 0:
			ops = append([]string{"L", "S"}, body...)
		default:
			ops = append([]string{"S"}, body...)
		}
		if r.Intn(10) == 0 {
			ops = append(ops, "L", "N", "L")
		}
		line := fmt.Sprintf("mode=seq now=%d tree=%s ops=%s", tenHours, t.String(), strings.Join(ops, ","))
		if r.Intn(4) == 0 {
			line += " cb=1"
		}
		out = append(out, line)
	}
	out = append(out, genTimed(r, tier)...)
	out = append(out, genConc(r, tier)...)
	out = append(out, genStress(r, tier)...)
	out = append(out, genCbConc(r, tier)...)
	out = append(out, genNConc(r, tier)...)
	out = append(out, genHuge(r, tier)...)
	out = append(out, genLeafConc(r, tier)...)
	out = append(out, genFac(r, tier)...)
	out = append(out, genBig(r, tier)...)
	return out
}

// genTimed: an unlimited part that is live in phase 1 and finished in phase 2 (it ends 300 ms after the clock
// reading of the first op; phase 2 begins at least 600 ms after it, the model's clock then reads +1 s).
func genTimed(r *rand.Rand, tier string) []string {
	n := 64
	if tier == "thorough" {
		n = 1200
	}
	var out []string
	for i := 0; i < n; i++ {
		t := &node{kind: "C"}
		pre := 0
		if r.Intn(2) == 0 {
			k := mkFin(fmt.Sprintf("once:%d", r.Intn(3)))
			pre = len(k.offs)
			t.kids = append(t.kids, k)
		}
		// started: the root is started 10 h ago and the part ends 300 ms from now; unstarted: the first Next starts
		// the schedule now and the part (only zero-duration parts before it) lasts 300 ms
		unstarted := r.Intn(3) == 0
		live := &node{kind: "U", dur: tenHours + int64(300*time.Millisecond)}
		if unstarted {
			live.dur = int64(300 * time.Millisecond)
		}
		if r.Intn(3) == 0 {
			t.kids = append(t.kids, &node{kind: "C", kids: []*node{mkFin("once:0"), live}})
		} else {
			t.kids = append(t.kids, live)
		}
		for j, m := 0, 1+r.Intn(3); j < m; j++ {
			switch r.Intn(5) {
			case 0:
				t.kids = append(t.kids, &node{kind: "U", dur: 1e6})
			case 1:
				t.kids = append(t.kids, &node{kind: "C", kids: []*node{mkFin(fmt.Sprintf("once:%d", r.Intn(3))), mkFin("once:1")}})
			case 2:
				if j == m-1 {
					t.kids = append(t.kids, &node{kind: "U", dur: twentyHours})
					break
				}
				fallthrough
			default:
				t.kids = append(t.kids, mkFin(fmt.Sprintf("once:%d", r.Intn(4))))
			}
		}
		ops := []string{"S"}
		if unstarted {
			ops = []string{"N"}
		}
		ops = append(ops, randOps(r, pre+1+r.Intn(4), 1+r.Intn(2))...)
		ops = append(ops, "A1000000000")
		ops = append(ops, randOps(r, 3+r.Intn(8), 1+r.Intn(2))...)
		line := fmt.Sprintf("mode=seq now=%d tree=%s ops=%s", tenHours, t.String(), strings.Join(ops, ","))
		if r.Intn(3) == 0 {
			line += " cb=1"
		}
		out = append(out, line)
	}
	return out
}

// parse the tree syntax back (also used for replay / corpus lines)
func parseTree(s string) (*node, string) {
	switch {
	case strings.HasPrefix(s, "F"):
		i := strings.IndexByte(s, '[')
		j := strings.IndexByte(s, ']')
		n := &node{kind: "F"}
		n.dur, _ = strconv.ParseInt(s[1:i], 10, 64)
		rest := s[j+1:]
		if strings.HasPrefix(rest, "{") {
			k := strings.IndexByte(rest, '}')
			n.ctor = rest[1:k]
			rest = rest[k+1:]
		}
		return n, rest
	case strings.HasPrefix(s, "G"):
		i := strings.IndexByte(s, ':')
		j := strings.IndexByte(s, '{')
		k := strings.IndexByte(s, '}')
		n := &node{kind: "F", g: s[i+1 : j], ctor: s[j+1 : k]}
		n.dur, _ = strconv.ParseInt(s[1:i], 10, 64)
		return n, s[k+1:]
	case strings.HasPrefix(s, "U"):
		i := 1
		for i < len(s) && (s[i] >= '0' && s[i] <= '9') {
			i++
		}
		n := &node{kind: "U"}
		n.dur, _ = strconv.ParseInt(s[1:i], 10, 64)
		return n, s[i:]
	case strings.HasPrefix(s, "I"):
		i := 1
		for i < len(s) && ((s[i] >= '0' && s[i] <= '9') || s[i] == ':') {
			i++
		}
		n := &node{kind: "I"}
		for k, p := range strings.Split(s[1:i], ":") {
			if k < 4 {
				n.is[k], _ = strconv.ParseInt(p, 10, 64)
			}
		}
		return n, s[i:]
	case strings.HasPrefix(s, "C("):
		n := &node{kind: "C"}
		rest := s[2:]
		for {
			if strings.HasPrefix(rest, ")") {
				rest = rest[1:]
				if strings.HasPrefix(rest, "{") {
					k := strings.IndexByte(rest, '}')
					n.ctor = rest[1:k]
					rest = rest[k+1:]
				}
				return n, rest
			}
			if strings.HasPrefix(rest, ";") {
				rest = rest[1:]
				continue
			}
			var k *node
			k, rest = parseTree(rest)
			n.kids = append(n.kids, k)
		}
	}
	panic("tree syntax: " + s)
}

// buildReal builds the REAL schedule for a tree. With atomicKids the children of the root are wrapped so that
// scheduling points inside them are suppressed (mode=conc: children are atomic objects).
func buildReal(n *node, atomicKids bool) core.Schedule {
	switch n.kind {
	case "F":
		s, _ := ctorLeaf(n.ctor)
		return s
	case "U":
		return schedule.NewUnlimitedConf(schedule.UnlimitedConfig{Duration: time.Duration(n.dur)})
	case "I":
		return schedule.NewInstanceStepConf(schedule.InstanceStepConfig{From: n.is[0], To: n.is[1], Step: n.is[2], StepDuration: time.Duration(n.is[3])})
	}
	if strings.HasPrefix(n.ctor, "step:") {
		p := strings.Split(n.ctor, ":")
		f, _ := strconv.ParseFloat(p[1], 64)
		t, _ := strconv.ParseFloat(p[2], 64)
		st, _ := strconv.ParseInt(p[3], 10, 64)
		d, _ := strconv.ParseInt(p[4], 10, 64)
		return schedule.NewStepConf(schedule.StepConfig{From: f, To: t, Step: st, Duration: time.Duration(d)})
	}
	var kids []core.Schedule
	for _, k := range n.kids {
		c := buildReal(k, false)
		if atomicKids && (k.kind == "C" || k.kind == "I") {
			c = &noYield{c}
		}
		kids = append(kids, c)
	}
	return schedule.NewCompositeConf(schedule.CompositeConf{Nested: kids})
}

func fmtT(t0 time.Time, tx time.Time) string {
	off := int64(tx.Sub(t0))
	d := off - tenHours
	if d >= 0 && d < int64(time.Hour) {
		return "NOW"
	}
	return strconv.FormatInt(off, 10)
}

func runSeq(m map[string]string) (obs string) {
	var res []string
	var cbCalls atomic.Int64
	cb := m["cb"] == "1"
	finish := func() string {
		if cb {
			res = append(res, fmt.Sprintf("CB:%d", cbCalls.Load()))
		}
		return strings.Join(res, ";")
	}
	defer func() {
		if r := recover(); r != nil {
			res = append(res, "P:"+drv.Clean(fmt.Sprint(r)))
			obs = finish()
		}
	}()
	tstart := time.Now()
	t0 := tstart.Add(-time.Duration(tenHours))
	tree, _ := parseTree(m["tree"])
	s := buildReal(tree, false)
	if cb {
		s = coreutil.NewCallbackOnFinishSchedule(s, func() { cbCalls.Add(1) })
	}
	var dg bigDigest
	for _, op := range strings.Split(m["ops"], ",") {
		switch {
		case op == "S":
			s.Start(t0)
			res = append(res, "S")
		case op == "N":
			tx, ok := s.Next()
			b := 0
			if ok {
				b = 1
			}
			dg.note(tx)
			res = append(res, fmt.Sprintf("N:%s:%d", fmtT(t0, tx), b))
		case strings.HasPrefix(op, "D"):
			k, _ := strconv.ParseInt(op[1:], 10, 64)
			res = append(res, dg.batch(s, t0, k))
		case op == "L":
			res = append(res, fmt.Sprintf("L:%d", s.Left()))
		case strings.HasPrefix(op, "A"):
			// end of phase 1: it must have fitted into the first half of the live part's last 300 ms
			if time.Since(tstart) > 150*time.Millisecond {
				return "INCONCLUSIVE"
			}
			time.Sleep(time.Until(tstart.Add(600 * time.Millisecond)))
			res = append(res, "A")
		}
	}
	return finish()
}

// hangs counts cases that did not come back (a lock that is never released, a lost wake-up). After a dozen of them
// the remaining cases are not run any more: each would cost its full timeout, and the verdict is already clear.
var hangs atomic.Int64

const caseTimeout = 5 * time.Second // a case takes milliseconds (timed ones 0.6 s)

// isWorker: this process is the instrumented worker (scheduling points inside the leaves, instr.go)
var isWorker bool

// runLocal runs a case of the leaf-level modes in THIS process (the worker).
func runLocal(input string) string {
	m := drv.KV(input)
	switch m["mode"] {
	case "lconc":
		return runConc(m)
	case "lnconc":
		return runNConc(m)
	}
	return "NOINSTR:mode"
}

func runMode(input string) string {
	m := drv.KV(input)
	switch m["mode"] {
	case "conc":
		return runConc(m)
	case "stress":
		return runStress(m)
	case "cbconc":
		return runCbConc(m)
	case "nconc":
		return runNConc(m)
	case "fac":
		return runFac(m)
	default:
		return runSeq(m)
	}
}

func run(input string) string {
	if hangs.Load() >= 12 {
		return "HANG"
	}
	mode := drv.KV(input)["mode"]
	if mode == "lconc" || mode == "lnconc" {
		// runs in the instrumented worker process, one case at a time; the time limit starts when its turn has come
		o := runInWorker(input)
		if o == "HANG" || o == "CRASH" || strings.HasSuffix(o, ":HANG") {
			hangs.Add(1)
		}
		return o
	}
	limit := caseTimeout
	if mode == "nconc" {
		limit = workerCaseTimeout
	}
	// When the limit expires the harness LOOKS whether the case is deadlocked (hangwatch.go): goroutines of the case that
	// wait for a lock / a once of the code under test, none of them running, the same picture for three seconds: HANG.
	// A case that is merely slow (a loaded machine) is waited for; a minute without a decision is TIMEOUT = inconclusive.
	done := make(chan string, 1)
	gidc := make(chan int64, 1)
	go func() {
		gidc <- goid()
		defer func() {
			if r := recover(); r != nil {
				done <- "PANIC " + drv.Clean(fmt.Sprint(r))
			}
		}()
		done <- runMode(input)
	}()
	root := <-gidc
	o, why := hwAwait(done, limit, func() []int64 { return []int64{root} })
	if why == "" {
		return o
	}
	if why == "HANG" {
		hangs.Add(1)
	}
	return why
}

var (
	leftOverlap = regexp.MustCompile(`L:-?\d+@(\d+)-(\d+)`)
	exhausted   = regexp.MustCompile(`N:[^:;,|]*:0`)
)

func main() {
	installNHook()
	if len(os.Args) > 1 && os.Args[1] == "-worker" {
		isWorker = true
		workerMain()
		return
	}
	if len(os.Args) > 2 && os.Args[1] == "-instr-dump" {
		// debugging aid: print the instrumented text of one source file
		txt, err := instrumentFile(os.Args[2], map[string]int{})
		if err != nil {
			fmt.Fprintln(os.Stderr, err)
			os.Exit(2)
		}
		fmt.Print(txt)
		return
	}
	defer removeInstrumentedWorker()
	drv.Main(&drv.Prop{
		ID:      "C02",
		Gen:     gen,
		Run:     run,
		Timeout: 180 * time.Second, // every case has its own limit (caseTimeout); the first leaf-level case also builds the instrumented worker
		Class: func(in, obs string) string {
			m := drv.KV(in)
			c := m["mode"]
			if m["start"] == "0" || (m["mode"] == "seq" && !strings.Contains(m["ops"], "S")) {
				c += "/unstarted"
			}
			if strings.Contains(m["tree"], "U") {
				c += "/unlimited"
			}
			if strings.Count(m["tree"], "C(") > 1 {
				c += "/nested"
			}
			if strings.Contains(m["tree"], "{step:") {
				c += "/step"
			}
			if strings.Contains(m["tree"], "I") {
				c += "/instance_step"
			}
			if strings.Contains(m["ops"], "A") {
				c += "/timed"
			}
			if m["huge"] == "1" {
				c += "/huge-token-counts"
			}
			if m["big"] == "1" {
				c += "/described-const-parts-drained"
			}
			if m["mode"] == "fac" {
				c += "/" + m["fty"] + "/k" + m["k"]
				if strings.HasPrefix(m["tree"], "C(") && !strings.HasSuffix(m["tree"], "}") {
					c += "/composite-root"
				}
			}
			if m["cb"] == "1" {
				c += "/callback"
			}
			if (m["mode"] == "nconc" || m["mode"] == "lnconc") && strings.Contains(obs, "#W:") {
				c += "/caller-waits-for-a-lock-of-an-outer-level"
			}
			if m["mode"] == "cbconc" {
				if strings.Contains(obs, ":C") {
					c += "/fired"
				}
				if strings.Contains(obs, ":W") {
					c += "/caller-blocked-while-callback-runs"
				}
			}
			if strings.Contains(obs, "P:") {
				c += "/panic"
			}
			if m["pts"] == "comp" {
				c += "/composite-points-only"
			}
			if m["mode"] == "lnconc" || m["mode"] == "nconc" || m["mode"] == "stress" {
				// a Left during which some Next began or returned (`L:<v>@<done before>-<begun after>` with different counts)
				if leftOverlap.MatchString(obs) {
					for _, mm := range leftOverlap.FindAllStringSubmatch(obs, -1) {
						if mm[1] != mm[2] {
							c += "/left-overlaps-next"
							break
						}
					}
				}
			}
			if exhausted.MatchString(obs) {
				c += "/exhausted"
			}
			return c
		},
		Rule: "seq: random schedule trees (depth<=3, <=6 children, once/const/line leaves incl. zero-token parts and far-future tokens, unlimited parts finished/live/not-begun by minutes to hours of margin, instance_step nodes, 0- and 1-child composites) x random Start/Next/Left sequences (started, unstarted = started by the first Next, double start, Start after Next), a quarter through the onFinish callback wrapper; timed: an unlimited part finishes between two phases of the case; conc: 2-3 goroutines released one atomic section at a time in PRNG-chosen (quick) or exhaustively enumerated (thorough) orders through the verif yield points, children may be nested composites, started and unstarted; stress: 2-8 free-running goroutines on nested trees, every Next/Left result checked for linearizability against the flat spec; cbconc: 2-4 goroutines on the onFinish wrapper over small trees, released one action at a time (wrapped call returned / callback entered / callback returned), the callback is held open by the harness while other callers reach the wrapper, a caller blocked in the once-primitive is observed through its goroutine status; seq huge=1: trees whose parts hold 2^31 … 2^62 tokens (once(1<<32), a million operations per second for an hour, instance_step with steps of 2^31), offsets run-length encoded, only Left and a handful of Next are called; lconc: 2-4 goroutines on ONE leaf (once/const/line/unlimited) in a second build of the driver with scheduling points in front of every access of the leaf's Next/Left to shared state (go build -overlay), released one access at a time, compared step by step with the concurrent leaf model and replayed against the atomic flat spec; lnconc: the same build on composites — round 6: the overlay also puts a point in front of every access of a lock-taking method (compositeSchedule Next/Left/Start) to the receiver made with NO lock held (started.Store, started.Load, the retries; any plain field read moved out of its section) — points of the composites and of the leaves all active (or, pts=comp, of the composites only), incl. a family of flat composites of small finite parts with one caller that keeps asking Left while others draw, schedules in bursts; judged like a free run; nconc: 2-3 goroutines on nested composites with the scheduling points of every level active, released one at a time, callers that wait for a lock of an outer level observed through their goroutine status, results judged like a free run; fac: the tree written as config settings (lists / type: composite / mixed) and decoded by the real config route (core/import hooks, plugin registry, config.DecodeAndValidate) into a FACTORY option (func() (core.Schedule, error), func() core.Schedule) or a plain schedule option, the factory called 2-4 times (all at once or lazily), the ops of the produced schedules interleaved or one schedule after the other, every produced schedule judged on its own against the flat spec of the configured tree; seq big=1: const parts at 40 000-120 000 ops/s and at rates whose period is not a whole number of ns (6000, 7000, 15000, 33333, 70000, fractional rates), 1-60 s, 10^4-2.6*10^5 tokens, drained completely (alone, in lists, step profiles, nested, beside small parts), offsets computed on the Lean side from rate and duration in exact float64 arithmetic, batches of Next calls compared by digest and checked for results earlier than the one before. distinct = distinct input line; all are non-trivial",
	})
}
