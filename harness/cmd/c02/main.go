package main

// C02: correspondence driver for the schedule token contract.
// mode=seq : one caller, random trees (nested composites, zero-token parts, unlimited parts in any
//            position) x random Start/Next/Left sequences on the REAL schedules. The root is started at
//            T0 = (real now - 10h), so every time is a deterministic offset from T0 and an unlimited part
//            is "finished" or "unfinished" with a margin of hours (durations are <= minutes or = 20h).
// mode=conc: see conc.go (controlled interleavings through the verif yield points).

import (
	"fmt"
	"math/rand"
	"strconv"
	"strings"
	"time"

	"verifharness/drv"

	"github.com/yandex/pandora/core"
	"github.com/yandex/pandora/core/schedule"
)

const tenHours = int64(10 * time.Hour)

type node struct {
	kind string // F U C
	ctor string
	dur  int64
	offs []int64
	kids []*node
}

func (n *node) String() string {
	switch n.kind {
	case "F":
		var sb strings.Builder
		for i, o := range n.offs {
			if i > 0 {
				sb.WriteByte(',')
			}
			sb.WriteString(strconv.FormatInt(o, 10))
		}
		return fmt.Sprintf("F%d[%s]{%s}", n.dur, sb.String(), n.ctor)
	case "U":
		return fmt.Sprintf("U%d", n.dur)
	default:
		var parts []string
		for _, k := range n.kids {
			parts = append(parts, k.String())
		}
		return "C(" + strings.Join(parts, ";") + ")"
	}
}

func (n *node) tokens() int {
	switch n.kind {
	case "F":
		return len(n.offs)
	case "U":
		return 3
	}
	t := 0
	for _, k := range n.kids {
		t += k.tokens()
	}
	return t
}

func ctorLeaf(ctor string) (core.Schedule, int64) {
	p := strings.Split(ctor, ":")
	atoi := func(s string) int64 { v, _ := strconv.ParseInt(s, 10, 64); return v }
	atof := func(s string) float64 { v, _ := strconv.ParseFloat(s, 64); return v }
	switch p[0] {
	case "once":
		return schedule.NewOnce(atoi(p[1])), 0
	case "const":
		return schedule.NewConst(atof(p[1]), time.Duration(atoi(p[2]))), atoi(p[2])
	case "line":
		return schedule.NewLine(atof(p[1]), atof(p[2]), time.Duration(atoi(p[3]))), atoi(p[3])
	}
	panic("ctor " + ctor)
}

func genLeaf(r *rand.Rand) *node {
	var ctor string
	switch r.Intn(8) {
	case 0:
		ctor = "once:0"
	case 1, 2:
		ctor = fmt.Sprintf("once:%d", 1+r.Intn(4))
	case 3:
		ctor = fmt.Sprintf("const:0:%d", []int64{1e9, 5e8, 2e9}[r.Intn(3)])
	case 4, 5:
		ctor = fmt.Sprintf("const:%d:%d", []int{1, 2, 3, 4, 5}[r.Intn(5)], []int64{1e9, 5e8, 2e9}[r.Intn(3)])
	case 6:
		ctor = fmt.Sprintf("line:%d:%d:%d", r.Intn(4), 1+r.Intn(5), []int64{1e9, 2e9}[r.Intn(2)])
	default:
		d := int64(20 * time.Hour)
		if r.Intn(2) == 0 {
			d = []int64{1e6, 1e9, 60e9}[r.Intn(3)]
		}
		return &node{kind: "U", dur: d}
	}
	n := &node{kind: "F", ctor: ctor}
	s, dur := ctorLeaf(ctor)
	n.dur = dur
	t0 := time.Unix(1_000_000, 0)
	s.Start(t0)
	for {
		tx, ok := s.Next()
		if !ok {
			break
		}
		n.offs = append(n.offs, int64(tx.Sub(t0)))
	}
	return n
}

func genTree(r *rand.Rand, depth int) *node {
	if depth == 0 || r.Intn(3) == 0 {
		return genLeaf(r)
	}
	n := &node{kind: "C"}
	k := r.Intn(5)
	if r.Intn(12) == 0 {
		k = r.Intn(2) // 0 or 1 children: NewComposite's shortcuts
	} else {
		k += 2
	}
	for i := 0; i < k; i++ {
		n.kids = append(n.kids, genTree(r, depth-1))
	}
	return n
}

func gen(r *rand.Rand, tier string) []string {
	n := 2500
	if tier == "thorough" {
		n = 40000
	}
	var out []string
	for i := 0; i < n; i++ {
		t := genTree(r, 1+r.Intn(3))
		if t.kind != "C" && r.Intn(4) != 0 {
			t = &node{kind: "C", kids: []*node{t, genTree(r, 1)}}
		}
		nops := t.tokens() + 2 + r.Intn(6)
		ops := []string{"S"}
		pl := r.Intn(4) // how often Left
		for j := 0; j < nops; j++ {
			if r.Intn(4) < pl {
				ops = append(ops, "L")
			} else {
				ops = append(ops, "N")
			}
		}
		if r.Intn(10) == 0 {
			ops = append(ops, "L", "N", "L")
		}
		out = append(out, fmt.Sprintf("mode=seq now=%d tree=%s ops=%s", tenHours, t.String(), strings.Join(ops, ",")))
	}
	out = append(out, genConc(r, tier)...)
	return out
}

// parse the tree syntax back (also used for replay / corpus lines)
func parseTree(s string) (*node, string) {
	switch {
	case strings.HasPrefix(s, "F"):
		i := strings.IndexByte(s, '[')
		j := strings.IndexByte(s, ']')
		n := &node{kind: "F"}
		n.dur, _ = strconv.ParseInt(s[1:i], 10, 64)
		rest := s[j+1:]
		if strings.HasPrefix(rest, "{") {
			k := strings.IndexByte(rest, '}')
			n.ctor = rest[1:k]
			rest = rest[k+1:]
		}
		return n, rest
	case strings.HasPrefix(s, "U"):
		i := 1
		for i < len(s) && (s[i] >= '0' && s[i] <= '9') {
			i++
		}
		n := &node{kind: "U"}
		n.dur, _ = strconv.ParseInt(s[1:i], 10, 64)
		return n, s[i:]
	case strings.HasPrefix(s, "C("):
		n := &node{kind: "C"}
		rest := s[2:]
		for {
			if strings.HasPrefix(rest, ")") {
				return n, rest[1:]
			}
			if strings.HasPrefix(rest, ";") {
				rest = rest[1:]
				continue
			}
			var k *node
			k, rest = parseTree(rest)
			n.kids = append(n.kids, k)
		}
	}
	panic("tree syntax: " + s)
}

func buildReal(n *node) core.Schedule {
	switch n.kind {
	case "F":
		s, _ := ctorLeaf(n.ctor)
		return s
	case "U":
		return schedule.NewUnlimited(time.Duration(n.dur))
	}
	var kids []core.Schedule
	for _, k := range n.kids {
		kids = append(kids, buildReal(k))
	}
	return schedule.NewComposite(kids...)
}

func fmtT(t0 time.Time, tx time.Time) string {
	off := int64(tx.Sub(t0))
	d := off - tenHours
	if d >= 0 && d < int64(time.Minute) {
		return "NOW"
	}
	return strconv.FormatInt(off, 10)
}

func runSeq(m map[string]string) (obs string) {
	var res []string
	defer func() {
		if r := recover(); r != nil {
			res = append(res, "P:"+drv.Clean(fmt.Sprint(r)))
			obs = strings.Join(res, ";")
		}
	}()
	t0 := time.Now().Add(-time.Duration(tenHours))
	tree, _ := parseTree(m["tree"])
	s := buildReal(tree)
	for _, op := range strings.Split(m["ops"], ",") {
		switch op {
		case "S":
			s.Start(t0)
			res = append(res, "S")
		case "N":
			tx, ok := s.Next()
			b := 0
			if ok {
				b = 1
			}
			res = append(res, fmt.Sprintf("N:%s:%d", fmtT(t0, tx), b))
		case "L":
			res = append(res, fmt.Sprintf("L:%d", s.Left()))
		}
	}
	return strings.Join(res, ";")
}

func run(input string) string {
	m := drv.KV(input)
	switch m["mode"] {
	case "conc":
		return runConc(m)
	default:
		return runSeq(m)
	}
}

func main() {
	drv.Main(&drv.Prop{
		ID:  "C02",
		Gen: gen,
		Run: run,
		Class: func(in, obs string) string {
			m := drv.KV(in)
			c := m["mode"]
			if strings.Contains(m["tree"], "U") {
				c += "/unlimited"
			}
			if strings.Count(m["tree"], "C(") > 1 {
				c += "/nested"
			}
			if strings.Contains(m["tree"], "[]") {
				c += "/zero-token-part"
			}
			if strings.Contains(obs, "P:") {
				c += "/panic"
			}
			return c
		},
		Rule: "random schedule trees (depth<=3, <=6 children, once/const/line leaves incl. zero-token parts, unlimited parts finished/unfinished by hours of margin, 0- and 1-child composites) x random Start/Next/Left sequences; conc: 2-3 goroutines released one atomic section at a time in PRNG-chosen (quick) or exhaustively enumerated (thorough) orders through the verif yield points. distinct = distinct input line; all are non-trivial",
	})
}
