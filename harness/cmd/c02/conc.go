package main

// mode=conc: the REAL compositeSchedule driven through the verif scheduling points. Exactly one worker
// goroutine runs at a time, from a call (or from the point before rwMu.Lock) to its next such point or
// its return; the controller releases workers in the order given by `sched`, then lets every worker finish
// (lowest id first). The event log is compared with the Lean model stepped with the same order.

import (
	"bytes"
	"fmt"
	"math/rand"
	"runtime"
	"strconv"
	"strings"
	"sync"
	"time"

	"verifharness/drv"

	"github.com/yandex/pandora/lib/verifhook"
)

type cworker struct {
	resume chan struct{}
	parked chan string
	left   int // ops not yet returned
}

var (
	concMu  sync.Mutex // the hook is global: one controlled run at a time
	workers sync.Map   // goid -> *cworker
)

func goid() int64 {
	var buf [64]byte
	n := runtime.Stack(buf[:], false)
	f := bytes.Fields(buf[:n])
	id, _ := strconv.ParseInt(string(f[1]), 10, 64)
	return id
}

func init() {
	verifhook.Yield = func(point string) {
		if w, ok := workers.Load(goid()); ok {
			cw := w.(*cworker)
			cw.parked <- "K"
			<-cw.resume
		}
	}
}

func runConc(m map[string]string) string {
	concMu.Lock()
	defer concMu.Unlock()
	t0 := time.Now().Add(-time.Duration(tenHours))
	tree, _ := parseTree(m["tree"])
	s := buildReal(tree)
	s.Start(t0)
	progs := strings.Split(m["prog"], "|")
	ws := make([]*cworker, len(progs))
	for i, p := range progs {
		w := &cworker{resume: make(chan struct{}), parked: make(chan string), left: len(p)}
		ws[i] = w
		prog := p
		ready := make(chan struct{})
		go func() {
			id := goid()
			workers.Store(id, w)
			defer workers.Delete(id)
			close(ready)
			for _, op := range prog {
				<-w.resume
				res := func() (res string) {
					defer func() {
						if r := recover(); r != nil {
							res = "P:" + drv.Clean(fmt.Sprint(r))
						}
					}()
					switch op {
					case 'N':
						tx, ok := s.Next()
						b := 0
						if ok {
							b = 1
						}
						return fmt.Sprintf("N:%s:%d", fmtT(t0, tx), b)
					default:
						return fmt.Sprintf("L:%d", s.Left())
					}
				}()
				w.parked <- res
				if strings.HasPrefix(res, "P:") {
					return
				}
			}
		}()
		<-ready
	}
	var log []string
	stepW := func(i int) bool { // returns false on panic
		w := ws[i]
		w.resume <- struct{}{}
		ev := <-w.parked
		log = append(log, fmt.Sprintf("%d:%s", i, ev))
		if ev != "K" {
			w.left--
		}
		return !strings.HasPrefix(ev, "P:")
	}
	okAll := true
	if m["sched"] != "" {
		for _, t := range strings.Split(m["sched"], ",") {
			i, _ := strconv.Atoi(t)
			if i < 0 || i >= len(ws) || ws[i].left == 0 {
				continue
			}
			if !stepW(i) {
				okAll = false
				break
			}
		}
	}
	for okAll {
		i := -1
		for j, w := range ws {
			if w.left > 0 {
				i = j
				break
			}
		}
		if i < 0 {
			break
		}
		if !stepW(i) {
			break
		}
	}
	return strings.Join(log, ";")
}

func concLeaf(r *rand.Rand) *node {
	switch r.Intn(7) {
	case 0, 1:
		return mkFin("once:0")
	case 2, 3:
		return mkFin(fmt.Sprintf("once:%d", 1+r.Intn(3)))
	case 4:
		return mkFin(fmt.Sprintf("const:%d:%d", 1+r.Intn(3), int64(1e9)))
	case 5:
		return mkFin("const:0:1000000000")
	default:
		return &node{kind: "U", dur: 1e6} // finished long ago when reached: a zero-token part
	}
}

func mkFin(ctor string) *node {
	n := &node{kind: "F", ctor: ctor}
	s, dur := ctorLeaf(ctor)
	n.dur = dur
	t0 := time.Unix(1_000_000, 0)
	s.Start(t0)
	for {
		tx, ok := s.Next()
		if !ok {
			break
		}
		n.offs = append(n.offs, int64(tx.Sub(t0)))
	}
	return n
}

func genConc(r *rand.Rand, tier string) []string {
	var out []string
	n := 1500
	if tier == "thorough" {
		n = 15000
	}
	for i := 0; i < n; i++ {
		t := &node{kind: "C"}
		k := 2 + r.Intn(4)
		for j := 0; j < k; j++ {
			t.kids = append(t.kids, concLeaf(r))
		}
		if r.Intn(4) == 0 {
			t.kids = append(t.kids, &node{kind: "U", dur: int64(20 * time.Hour)})
		}
		nt := 2 + r.Intn(2)
		var progs []string
		total := 0
		for j := 0; j < nt; j++ {
			l := 1 + r.Intn(4)
			var sb strings.Builder
			for x := 0; x < l; x++ {
				if r.Intn(3) == 0 {
					sb.WriteByte('L')
				} else {
					sb.WriteByte('N')
				}
			}
			progs = append(progs, sb.String())
			total += l
		}
		var sched []string
		for x := 0; x < total*3; x++ {
			sched = append(sched, strconv.Itoa(r.Intn(nt)))
		}
		out = append(out, fmt.Sprintf("mode=conc now=%d tree=%s prog=%s sched=%s", tenHours, t.String(), strings.Join(progs, "|"), strings.Join(sched, ",")))
	}
	if tier == "thorough" {
		// exhaustive: every interleaving (as a schedule word over {0,1} of length 9) for a family of small trees
		fam := [][]string{
			{"once:1", "once:0", "once:2"},
			{"once:0", "once:0", "once:1"},
			{"once:1", "U", "once:1"},
			{"once:1", "once:0", "T"},
			{"once:0", "T"},
		}
		progs := []string{"NN|NN", "NNN|N", "NL|NN", "LN|NL", "L|NNN", "NLN|LN"}
		for _, f := range fam {
			t := &node{kind: "C"}
			for _, c := range f {
				switch c {
				case "U":
					t.kids = append(t.kids, &node{kind: "U", dur: 1e6})
				case "T":
					t.kids = append(t.kids, &node{kind: "U", dur: int64(20 * time.Hour)})
				default:
					t.kids = append(t.kids, mkFin(c))
				}
			}
			for _, p := range progs {
				for w := 0; w < 512; w++ {
					var sched []string
					for b := 0; b < 9; b++ {
						sched = append(sched, strconv.Itoa((w>>b)&1))
					}
					out = append(out, fmt.Sprintf("mode=conc now=%d tree=%s prog=%s sched=%s", tenHours, t.String(), p, strings.Join(sched, ",")))
				}
			}
		}
	}
	return out
}
