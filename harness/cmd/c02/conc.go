package main

// mode=conc: the REAL compositeSchedule driven through the verif scheduling points. Exactly one worker
// goroutine runs at a time, from a call (or from the point before rwMu.Lock) to its next such point or
// its return; the controller releases workers in the order given by `sched`, then lets every worker finish
// (lowest id first). The event log is compared with the Lean model stepped with the same order, and replayed
// against the atomic flat spec. Children of the root that are composites themselves are wrapped (noYield): their
// operations run to completion, i.e. they are atomic objects, as in the model.

import (
	"bytes"
	"fmt"
	"math/rand"
	"runtime"
	"strconv"
	"strings"
	"sync"
	"time"

	"verifharness/drv"

	"github.com/yandex/pandora/core"
	"github.com/yandex/pandora/lib/verifhook"
)

type cworker struct {
	resume   chan struct{}
	parked   chan string
	left     int // ops not yet returned
	suppress int // >0 while inside a child of the root
	gid      int64
}

var (
	concMu  sync.Mutex // the hook is global: one controlled run at a time
	workers sync.Map   // goid -> *cworker
)

func goid() int64 {
	var buf [64]byte
	n := runtime.Stack(buf[:], false)
	f := bytes.Fields(buf[:n])
	id, _ := strconv.ParseInt(string(f[1]), 10, 64)
	return id
}

func init() {
	verifhook.Yield = func(point string) {
		if strings.HasPrefix(point, "fine:") {
			return // FINE points are for mode=lnconc pts=fine only
		}
		if w, ok := workers.Load(goid()); ok {
			cw := w.(*cworker)
			if cw.suppress > 0 {
				return
			}
			cw.parked <- "K"
			<-cw.resume
		}
	}
}

// noYield makes a nested schedule an atomic object for the controlled runs.
type noYield struct{ core.Schedule }

func enter() *cworker {
	if w, ok := workers.Load(goid()); ok {
		cw := w.(*cworker)
		cw.suppress++
		return cw
	}
	return nil
}
func leave(cw *cworker) {
	if cw != nil {
		cw.suppress--
	}
}
func (n *noYield) Start(t time.Time) { cw := enter(); defer leave(cw); n.Schedule.Start(t) }
func (n *noYield) Next() (time.Time, bool) {
	cw := enter()
	defer leave(cw)
	return n.Schedule.Next()
}
func (n *noYield) Left() int { cw := enter(); defer leave(cw); return n.Schedule.Left() }

func runConc(m map[string]string) string {
	concMu.Lock()
	defer concMu.Unlock()
	t0 := time.Now().Add(-time.Duration(tenHours))
	tree, _ := parseTree(m["tree"])
	s := buildReal(tree, true)
	if m["start"] != "0" {
		s.Start(t0)
	}
	progs := strings.Split(m["prog"], "|")
	ws := make([]*cworker, len(progs))
	for i, p := range progs {
		w := &cworker{resume: make(chan struct{}), parked: make(chan string), left: len(p)}
		ws[i] = w
		prog := p
		ready := make(chan struct{})
		go func() {
			id := goid()
			w.gid = id
			workers.Store(id, w)
			defer workers.Delete(id)
			close(ready)
			for _, op := range prog {
				<-w.resume
				res := func() (res string) {
					defer func() {
						if r := recover(); r != nil {
							res = "P:" + drv.Clean(fmt.Sprint(r))
						}
					}()
					switch op {
					case 'N':
						tx, ok := s.Next()
						b := 0
						if ok {
							b = 1
						}
						return fmt.Sprintf("N:%s:%d", fmtT(t0, tx), b)
					default:
						return fmt.Sprintf("L:%d", s.Left())
					}
				}()
				w.parked <- res
				if strings.HasPrefix(res, "P:") {
					return
				}
			}
		}()
		<-ready
	}
	var log []string
	timedOut := false
	stepW := func(i int) bool { // returns false on panic or when the worker does not come back
		w := ws[i]
		w.resume <- struct{}{}
		// blocked for good (only one goroutine runs at a time, so nobody can release it) = a deadlock; decided by looking
		// at the goroutine, not by the clock (hangwatch.go)
		ev, why := hwAwait(w.parked, 2*time.Second, func() []int64 { return []int64{w.gid} })
		if why == "TIMEOUT" {
			timedOut = true
			return false
		}
		if why == "HANG" {
			log = append(log, fmt.Sprintf("%d:HANG", i))
			return false
		}
		log = append(log, fmt.Sprintf("%d:%s", i, ev))
		if ev != "K" {
			w.left--
		}
		return !strings.HasPrefix(ev, "P:")
	}
	okAll := true
	if m["sched"] != "" {
		for _, t := range strings.Split(m["sched"], ",") {
			i, _ := strconv.Atoi(t)
			if i < 0 || i >= len(ws) || ws[i].left == 0 {
				continue
			}
			if !stepW(i) {
				okAll = false
				break
			}
		}
	}
	for okAll {
		i := -1
		for j, w := range ws {
			if w.left > 0 {
				i = j
				break
			}
		}
		if i < 0 {
			break
		}
		if !stepW(i) {
			okAll = false
		}
	}
	if !okAll {
		// a worker panicked: release the parked ones so that they do not leak (their results are dropped)
		for _, w := range ws {
			if w.left > 0 {
				go func(w *cworker) {
					for w.left > 0 {
						select {
						case w.resume <- struct{}{}:
						case ev := <-w.parked:
							if ev != "K" {
								w.left--
							}
						case <-time.After(200 * time.Millisecond):
							return
						}
					}
				}(w)
			}
		}
	}
	if timedOut {
		return "TIMEOUT"
	}
	return strings.Join(log, ";")
}

func concLeaf(r *rand.Rand, unstarted bool) *node {
	switch r.Intn(9) {
	case 0, 1:
		return mkFin("once:0")
	case 2, 3:
		return mkFin(fmt.Sprintf("once:%d", 1+r.Intn(3)))
	case 4:
		return mkFin(fmt.Sprintf("const:%d:%d", 1+r.Intn(3), int64(1e9)))
	case 5:
		return mkFin("const:0:1000000000")
	case 6:
		// a nested composite: an atomic child object
		n := &node{kind: "C"}
		for j, k := 0, r.Intn(4); j < k; j++ {
			n.kids = append(n.kids, concLeaf(r, unstarted))
		}
		return n
	case 7:
		f := int64(r.Intn(2))
		return &node{kind: "I", is: [4]int64{f, f + int64(r.Intn(4)), int64(1 + r.Intn(2)), 1e9}}
	default:
		if unstarted {
			return mkFin("once:0")
		}
		return &node{kind: "U", dur: 1e6} // finished long ago when reached: a zero-token part
	}
}

func genProgs(r *rand.Rand) ([]string, int) {
	nt := 2 + r.Intn(2)
	var progs []string
	total := 0
	for j := 0; j < nt; j++ {
		l := 1 + r.Intn(4)
		var sb strings.Builder
		for x := 0; x < l; x++ {
			if r.Intn(3) == 0 {
				sb.WriteByte('L')
			} else {
				sb.WriteByte('N')
			}
		}
		progs = append(progs, sb.String())
		total += l
	}
	return progs, total
}

func genConc(r *rand.Rand, tier string) []string {
	var out []string
	n := 2000
	if tier == "thorough" {
		n = 40000
	}
	for i := 0; i < n; i++ {
		unstarted := r.Intn(3) == 0
		t := &node{kind: "C"}
		k := 2 + r.Intn(4)
		for j := 0; j < k; j++ {
			t.kids = append(t.kids, concLeaf(r, unstarted))
		}
		if r.Intn(4) == 0 {
			t.kids = append(t.kids, &node{kind: "U", dur: twentyHours})
		}
		progs, total := genProgs(r)
		nt := len(progs)
		var sched []string
		for x := 0; x < total*3; x++ {
			sched = append(sched, strconv.Itoa(r.Intn(nt)))
		}
		st := 1
		if unstarted {
			st = 0
		}
		out = append(out, fmt.Sprintf("mode=conc now=%d start=%d tree=%s prog=%s sched=%s", tenHours, st, t.String(), strings.Join(progs, "|"), strings.Join(sched, ",")))
	}
	if tier == "thorough" {
		// exhaustive: every interleaving (as a schedule word over {0,1} of length 11) for a family of small trees
		fam := [][]string{
			{"once:1", "once:0", "once:2"},
			{"once:0", "once:0", "once:1"},
			{"once:1", "U", "once:1"},
			{"once:1", "once:0", "T"},
			{"once:0", "T"},
			{"once:0", "C(once:0;once:1)", "once:1"},
			{"once:1", "C()", "C(once:0;T)"},
			{"I0:2:1", "once:1"},
		}
		progs := []string{"NN|NN", "NNN|N", "NL|NN", "LN|NL", "L|NNN", "NLN|LN", "LL|NN"}
		for _, f := range fam {
			t := &node{kind: "C"}
			for _, c := range f {
				t.kids = append(t.kids, famNode(c))
			}
			for _, p := range progs {
				for st := 0; st <= 1; st++ {
					if st == 0 && strings.Contains(t.String(), "U1000000") {
						continue // a short unlimited part cannot be "finished long ago" in an unstarted schedule
					}
					for w := 0; w < 2048; w++ {
						var sched []string
						for b := 0; b < 11; b++ {
							sched = append(sched, strconv.Itoa((w>>b)&1))
						}
						out = append(out, fmt.Sprintf("mode=conc now=%d start=%d tree=%s prog=%s sched=%s", tenHours, st, t.String(), p, strings.Join(sched, ",")))
					}
				}
			}
		}
		// three callers, all words over {0,1,2} of length 8, two trees
		for _, f := range [][]string{{"once:1", "once:0", "once:1", "T"}, {"once:0", "C(once:0;once:0)", "once:2"}} {
			t := &node{kind: "C"}
			for _, c := range f {
				t.kids = append(t.kids, famNode(c))
			}
			for _, p := range []string{"NN|N|L", "N|LN|N", "L|L|NN"} {
				for w := 0; w < 6561; w++ {
					var sched []string
					x := w
					for b := 0; b < 8; b++ {
						sched = append(sched, strconv.Itoa(x%3))
						x /= 3
					}
					out = append(out, fmt.Sprintf("mode=conc now=%d start=%d tree=%s prog=%s sched=%s", tenHours, w%2, t.String(), p, strings.Join(sched, ",")))
				}
			}
		}
	}
	return out
}

func famNode(c string) *node {
	switch {
	case c == "U":
		return &node{kind: "U", dur: 1e6}
	case c == "T":
		return &node{kind: "U", dur: twentyHours}
	case strings.HasPrefix(c, "I"):
		n, _ := parseTree(c + ":1000000000")
		return n
	case strings.HasPrefix(c, "C("):
		n := &node{kind: "C"}
		inner := c[2 : len(c)-1]
		if inner != "" {
			for _, k := range strings.Split(inner, ";") {
				n.kids = append(n.kids, famNode(k))
			}
		}
		return n
	default:
		return mkFin(c)
	}
}
