package main

// mode=seq big=1: const parts with REALISTIC rates and lengths — tens of thousands of operations per second, rates
// whose period 1e9/ops is not a whole number of nanoseconds (6000, 7000, 15000, 33333, 70000.5 … ops/s), parts of
// 10^4 … 3·10^5 tokens that are drained completely, alone, in lists, in step profiles, nested, in front of and behind
// small parts. The offsets of such a leaf are neither enumerated into the case line nor taken from the real leaf: the
// Lean side computes them from the configuration with the float64 operations of constDoAt / NewConst carried out in
// exact integer arithmetic (round to nearest even; `Model/C02Big.lean`). Tree syntax: `G<dur>:<num>/<den>{const:…}`,
// num/den = the exact value of the float64 rate.
//
// A case drains whole parts with the op `D<k>` = k calls of Next, reported as a digest
// `D:<ok results>:<!ok results>:<first time>:<last time>:<dec>:<sum>` where dec = how many of the k results carry a
// time EARLIER than the result returned before them (the one before the batch included) and sum = the sum of the
// returned offsets mod 2^61-1 (clock readings excluded). So every single token takes part in the comparison with
// the model and in "times returned to one caller never decrease", and the batches are cut at the part borders: the
// last token of a part, the first token of the next part and the finish time are separate results.

import (
	"fmt"
	"math/big"
	"math/rand"
	"strconv"
	"strings"
	"time"
)

const bigMod = uint64(1)<<61 - 1

// bigDigest is the running state of a case's D ops (and of its N ops: `prev` is the time returned last).
type bigDigest struct {
	prev    time.Time
	hasPrev bool
}

func (d *bigDigest) note(tx time.Time) (dec bool) {
	dec = d.hasPrev && tx.Before(d.prev)
	d.prev, d.hasPrev = tx, true
	return
}

type nexter interface {
	Next() (time.Time, bool)
}

func (d *bigDigest) batch(s nexter, t0 time.Time, k int64) string {
	var nok, nfin, dec int64
	var sum uint64
	var first, last time.Time
	for i := int64(0); i < k; i++ {
		tx, ok := s.Next()
		if i == 0 {
			first = tx
		}
		last = tx
		if ok {
			nok++
		} else {
			nfin++
		}
		if d.note(tx) {
			dec++
		}
		off := int64(tx.Sub(t0))
		if w := off - tenHours; !(w >= 0 && w < int64(time.Hour)) {
			sum = (sum + uint64(off)%bigMod) % bigMod
		}
	}
	if k == 0 {
		return "D:0:0:-:-:0:0"
	}
	return fmt.Sprintf("D:%d:%d:%s:%s:%d:%d", nok, nfin, fmtT(t0, first), fmtT(t0, last), dec, sum)
}

func fmtRate(f float64) string { return strconv.FormatFloat(f, 'g', -1, 64) }

// bigConst: a const leaf that is described, not enumerated. cnt = what the REAL leaf says it holds (used only to cut
// the batches of the case at the part borders).
func bigConst(rate float64, dur int64) *node {
	ctor := fmt.Sprintf("const:%s:%d", fmtRate(rate), dur)
	q := new(big.Rat)
	q.SetFloat64(rate)
	s, _ := ctorLeaf(ctor)
	n := &node{kind: "F", ctor: ctor, dur: dur, g: q.Num().String() + "/" + q.Denom().String(), cnt: int64(s.Left())}
	return n
}

var bigRates = []float64{6000, 7000, 15000, 30000, 60000, 70000, 80000, 90000, 33333, 99999, 12345, 1500, 101, 64000}

func bigLeaf(r *rand.Rand, budget int64) *node {
	for {
		var rate float64
		var dur int64
		switch c := r.Intn(20); {
		case c < 8:
			rate = float64(40000 + r.Intn(80001))
			dur = int64(1+r.Intn(2)) * 1e9
		case c < 12:
			rate = bigRates[r.Intn(len(bigRates))]
			dur = int64(1+r.Intn(60)) * 1e9
		case c < 15:
			rate = float64(1000+r.Intn(100000)) + []float64{0.5, 0.25, 0.1, 0.678, 1.0 / 3}[r.Intn(5)]
			dur = int64(1+r.Intn(4)) * 1e9
		case c < 18:
			rate = float64(100 + r.Intn(2900))
			dur = int64(30+r.Intn(90)) * 1e9
		default:
			rate = float64(20000 + r.Intn(60000))
			dur = []int64{1_500_000_000, 999_999_937, 2_000_000_001, 700_000_000, 1_234_567_890}[r.Intn(5)]
		}
		if est := int64(rate * float64(dur) / 1e9); est > budget || est < 1000 {
			continue
		}
		return bigConst(rate, dur)
	}
}

func bigSmall(r *rand.Rand) *node {
	switch r.Intn(6) {
	case 0:
		return mkFin("once:0")
	case 1, 2:
		return mkFin(fmt.Sprintf("once:%d", 1+r.Intn(3)))
	case 3:
		return mkFin(fmt.Sprintf("const:0:%d", []int64{1e9, 5e8}[r.Intn(2)]))
	case 4:
		return mkFin(fmt.Sprintf("const:%d:1000000000", 1+r.Intn(3)))
	default:
		return &node{kind: "C", kids: []*node{mkFin(fmt.Sprintf("once:%d", r.Intn(3))), mkFin("once:1")}}
	}
}

// bigStep: what NewStep(from, to, step, d) builds, with described const parts
func bigStep(from, to float64, step int64, d int64) *node {
	n := &node{kind: "C", ctor: fmt.Sprintf("step:%s:%s:%d:%d", fmtRate(from), fmtRate(to), step, d)}
	for i := from; i <= to; i += float64(step) {
		n.kids = append(n.kids, bigConst(i, d))
	}
	return n
}

// flatParts: the leaf parts in the order they are used (token counts; -1 = an unlimited part)
func flatParts(n *node, out *[]int64) {
	switch n.kind {
	case "F":
		if n.g != "" {
			*out = append(*out, n.cnt)
		} else {
			*out = append(*out, int64(len(n.offs)))
		}
	case "U":
		*out = append(*out, -1)
	case "I":
		*out = append(*out, n.is[0])
		for i := n.is[0] + n.is[2]; i <= n.is[1]; i += n.is[2] {
			*out = append(*out, 0, n.is[2])
		}
	default:
		for _, k := range n.kids {
			flatParts(k, out)
		}
	}
}

func genBig(r *rand.Rand, tier string) []string {
	n := 14
	if tier == "thorough" {
		n = 150
	}
	var out []string
	for i := 0; i < n; i++ {
		budget := int64(260000)
		var t *node
		switch c := r.Intn(10); {
		case c == 0:
			t = bigLeaf(r, budget) // a const schedule alone
		case c <= 2:
			// a step profile of high rates
			from := float64(30000 + r.Intn(40000))
			st := int64(2500 + r.Intn(10000))
			k := 1 + r.Intn(2)
			t = bigStep(from, from+float64(st)*float64(k)+float64(r.Intn(int(st))), st, 1e9)
			if r.Intn(2) == 0 {
				t = &node{kind: "C", kids: []*node{t, bigSmall(r)}}
			}
		default:
			t = &node{kind: "C"}
			k := 2 + r.Intn(3)
			nb := 0
			for j := 0; j < k; j++ {
				switch {
				case nb < 2 && (r.Intn(2) == 0 || (j == k-1 && nb == 0)):
					b := bigLeaf(r, budget/2)
					if r.Intn(5) == 0 {
						b = &node{kind: "C", kids: []*node{b, bigSmall(r)}}
					}
					t.kids = append(t.kids, b)
					nb++
				default:
					t.kids = append(t.kids, bigSmall(r))
				}
			}
		}
		var parts []int64
		flatParts(t, &parts)
		ops := []string{"S"}
		if r.Intn(4) == 0 {
			ops = []string{"L", "S"}
		}
		for _, c := range parts {
			switch {
			case c < 0:
			case c <= 4:
				for j := int64(0); j < c; j++ {
					ops = append(ops, "N")
				}
			default:
				switch r.Intn(4) {
				case 0:
					ops = append(ops, fmt.Sprintf("D%d", c))
				case 1:
					ops = append(ops, fmt.Sprintf("D%d", c-1), "N")
				case 2:
					a := 1 + r.Int63n(c-1)
					ops = append(ops, fmt.Sprintf("D%d", a), "L", fmt.Sprintf("D%d", c-a))
				default:
					ops = append(ops, "N", fmt.Sprintf("D%d", c-2), "L", "N")
				}
			}
			if r.Intn(4) == 0 {
				ops = append(ops, "L")
			}
		}
		ops = append(ops, "N", "L", "N")
		line := fmt.Sprintf("mode=seq big=1 now=%d tree=%s ops=%s", tenHours, t.String(), strings.Join(ops, ","))
		if r.Intn(4) == 0 {
			line += " cb=1"
		}
		out = append(out, line)
	}
	// parts far too long to drain (70000 ops/s for hours): the counts, and a few thousand tokens from the head
	m := 6
	if tier == "thorough" {
		m = 60
	}
	for i := 0; i < m; i++ {
		rate := bigRates[r.Intn(len(bigRates))] + []float64{0, 0, 0.5}[r.Intn(3)]
		b := bigConst(rate, int64(1+r.Intn(10))*3600e9)
		b.huge = 1
		t := &node{kind: "C", kids: []*node{mkFin(fmt.Sprintf("once:%d", r.Intn(3))), b, mkFin("once:1")}, huge: 1}
		ops := []string{"S", "L", "N", "N", "N", fmt.Sprintf("D%d", 1000+r.Intn(20000)), "L", "N", "L"}
		if r.Intn(3) == 0 {
			ops = append([]string{"L"}, ops...)
		}
		out = append(out, fmt.Sprintf("mode=seq big=1 now=%d tree=%s ops=%s", tenHours, t.String(), strings.Join(ops, ",")))
	}
	return out
}
