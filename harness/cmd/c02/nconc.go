package main

// mode=nconc: controlled interleavings on NESTED composites with the scheduling points of EVERY level active
// (mode=conc suppresses those inside children: there the children are atomic objects, as in the model).
//
// A goroutine that parks at a scheduling point of an inner composite still holds the read lock of every composite
// above it, so a goroutine released next may have to WAIT for one of those locks: the controller releases one worker,
// then waits until every released worker has either parked/returned or is reported by the Go runtime as waiting on a
// sync primitive under core/schedule (goroutine status, see cbconc.go). Workers that were waiting and got the lock
// run on by themselves to their next scheduling point; which of several waiters goes first is up to sync.RWMutex, so
// the observation is judged like a free run (mode=stress: per caller results, Left with its interval of Next counts)
// and not compared with a model run. What this adds to mode=stress: the lock upgrades of the inner levels are
// reached systematically, in orders chosen by the PRNG (thorough: enumerated), instead of by luck.

import (
	"fmt"
	"math/rand"
	"strconv"
	"strings"
	"sync"
	"sync/atomic"
	"time"

	"verifharness/drv"

	"github.com/yandex/pandora/lib/verifhook"
)

type nWorker struct {
	resume chan struct{}
	parked chan string
	gid    int64
	left   int
	mid    bool // released, no event yet
	res    []string
	// compOnly: only the scheduling points of the composites stop this caller (`pts=comp`: the leaves are atomic
	// objects again, a release runs a whole section of a composite)
	compOnly bool
	// fine: also the FINE points stop this caller (`pts=fine`: inside the function passed to a once, between the loads of
	// one read-only group)
	fine bool
}

var (
	nTableMu sync.Mutex                         // writers (controllers) only
	nTable   atomic.Pointer[map[int64]*nWorker] // copy-on-write: lookups by the hook take no lock
)

func nRegister(ws []*nWorker, add bool) {
	gids := make([]int64, len(ws))
	for i, w := range ws {
		gids[i] = w.gid
	}
	nRegisterGids(gids, ws, add)
}

// nRegisterGids: ws == nil registers the goroutines as "quiet" (scheduling points are no-ops for them).
func nRegisterGids(gids []int64, ws []*nWorker, add bool) {
	nTableMu.Lock()
	defer nTableMu.Unlock()
	m := map[int64]*nWorker{}
	if old := nTable.Load(); old != nil {
		for k, v := range *old {
			m[k] = v
		}
	}
	for i, g := range gids {
		if add {
			if ws != nil {
				m[g] = ws[i]
			} else {
				m[g] = nil
			}
		} else {
			delete(m, g)
		}
	}
	nTable.Store(&m)
}

// installNHook puts the dispatcher in front of whatever hook is installed (conc.go's); called from main().
func installNHook() {
	prev := verifhook.Yield
	verifhook.Yield = func(point string) {
		if t := nTable.Load(); t != nil && len(*t) > 0 {
			if w, ok := (*t)[goid()]; ok {
				if w == nil {
					return // a worker of mode=cbconc: the wrapped schedule is one atomic object there
				}
				if w.compOnly && !strings.HasPrefix(point, "composite") {
					return
				}
				if strings.HasPrefix(point, "fine:") && !w.fine {
					return
				}
				w.parked <- "K"
				<-w.resume
				return
			}
		}
		if prev != nil {
			prev(point)
		}
	}
}

func runNConc(m map[string]string) string {
	t0 := time.Now().Add(-time.Duration(tenHours))
	tree, _ := parseTree(m["tree"])
	s := buildReal(tree, false)
	if m["start"] != "0" {
		s.Start(t0)
	}
	progs := strings.Split(m["prog"], "|")
	ws := make([]*nWorker, len(progs))
	var begun, done atomic.Int64
	for i, p := range progs {
		w := &nWorker{resume: make(chan struct{}), parked: make(chan string), left: len(p), compOnly: m["pts"] == "comp", fine: m["pts"] == "fine"}
		ws[i] = w
		prog := p
		ready := make(chan struct{})
		go func() {
			w.gid = goid()
			close(ready)
			for _, op := range prog {
				<-w.resume
				res := func() (res string) {
					defer func() {
						if r := recover(); r != nil {
							res = "P:" + drv.Clean(fmt.Sprint(r))
						}
					}()
					if op == 'N' {
						begun.Add(1)
						tx, ok := s.Next()
						done.Add(1)
						b := 0
						if ok {
							b = 1
						}
						return fmt.Sprintf("N:%s:%d", fmtT(t0, tx), b)
					}
					a := done.Load()
					l := s.Left()
					b := begun.Load()
					return fmt.Sprintf("L:%d@%d-%d", l, a, b)
				}()
				w.parked <- res
				if strings.HasPrefix(res, "P:") {
					return
				}
			}
		}()
		<-ready
	}
	nRegister(ws, true)
	defer nRegister(ws, false)
	hang := false     // a deadlock: every unfinished caller waits for a lock and stays so
	timedOut := false // the goroutines did not come to rest in time (a loaded machine): inconclusive, not a failure
	blocked := 0      // number of W observations (coverage)
	take := func(w *nWorker, ev string) {
		w.mid = false
		if ev == "K" {
			return
		}
		w.res = append(w.res, ev)
		if strings.HasPrefix(ev, "P:") {
			w.left = 0
		} else {
			w.left--
		}
	}
	// settle: every released worker has parked / returned (its event is taken) or waits for a lock held by a parked one
	settle := func() {
		for {
			var mids []*nWorker
			var gids []int64
			for _, w := range ws {
				if w.mid {
					mids = append(mids, w)
					gids = append(gids, w.gid)
				}
			}
			if len(mids) == 0 {
				return
			}
			if len(mids) == 1 {
				// the usual case: the released worker parks within microseconds
				t := time.NewTimer(300 * time.Microsecond)
				select {
				case ev := <-mids[0].parked:
					t.Stop()
					take(mids[0], ev)
					return
				case <-t.C:
				}
			}
			st := settleGoroutines(gids, "/core/schedule.", 12*time.Second)
			if st == nil {
				timedOut = true
				return
			}
			took := false
			for k, w := range mids {
				if st[k] == gEvent {
					select {
					case ev := <-w.parked:
						take(w, ev)
						took = true
					default:
					}
				}
			}
			if !took {
				return // all of them wait for a lock
			}
		}
	}
	step := func(i int) bool {
		w := ws[i]
		if w.mid || w.left == 0 {
			return false
		}
		w.resume <- struct{}{}
		w.mid = true
		settle()
		for _, x := range ws {
			if x.mid {
				blocked++
				break
			}
		}
		return true
	}
	// confirmDeadlock: nobody could be released. A caller that was seen waiting for a lock may have got it meanwhile and
	// not have been scheduled yet (a loaded machine): it is a deadlock only if for three seconds no caller comes forward.
	confirmDeadlock := func() bool {
		deadline := time.Now().Add(3 * time.Second)
		for time.Now().Before(deadline) {
			for _, w := range ws {
				if w.mid {
					select {
					case ev := <-w.parked:
						take(w, ev)
						return false
					default:
					}
				}
			}
			time.Sleep(2 * time.Millisecond)
		}
		return true
	}
	if m["sched"] != "" {
		for _, t := range strings.Split(m["sched"], ",") {
			i, _ := strconv.Atoi(t)
			if i >= 0 && i < len(ws) && !hang && !timedOut {
				step(i)
			}
		}
	}
	for !hang && !timedOut {
		progress, any := false, false
		for i, w := range ws {
			if w.left > 0 {
				any = true
				if step(i) {
					progress = true
				}
			}
		}
		if !any {
			break
		}
		if !progress && !timedOut && confirmDeadlock() {
			hang = true // everybody waits for a lock nobody will release
		}
	}
	if hang || timedOut {
		for _, w := range ws {
			if w.left > 0 {
				go func(w *nWorker) {
					for k := 0; k < 64; k++ {
						select {
						case w.resume <- struct{}{}:
						case <-w.parked:
						case <-time.After(100 * time.Millisecond):
							return
						}
					}
				}(w)
			}
		}
		if timedOut && !hang {
			return "TIMEOUT"
		}
		return "HANG"
	}
	var parts []string
	for _, w := range ws {
		parts = append(parts, strings.Join(w.res, ","))
	}
	obs := strings.Join(parts, "|")
	if blocked > 0 {
		obs += "#W:" + strconv.Itoa(blocked)
	}
	return obs
}

func nTreeOf(r *rand.Rand, depth int, unstarted bool) *node {
	if depth == 0 {
		switch r.Intn(6) {
		case 0, 1:
			return mkFin("once:0")
		case 2:
			return mkFin("const:0:1000000000")
		case 3:
			if !unstarted {
				return &node{kind: "U", dur: 1e6}
			}
			return mkFin("once:0")
		default:
			return mkFin(fmt.Sprintf("once:%d", 1+r.Intn(2)))
		}
	}
	n := &node{kind: "C"}
	for j, k := 0, 2+r.Intn(3); j < k; j++ {
		d := depth - 1
		if r.Intn(3) == 0 {
			d = 0
		}
		n.kids = append(n.kids, nTreeOf(r, d, unstarted))
	}
	return n
}

func genNConc(r *rand.Rand, tier string) []string {
	n := 300
	if tier == "thorough" {
		n = 8000
	}
	var out []string
	mk := func(t *node, st int, progs []string, sched []string) string {
		return fmt.Sprintf("mode=nconc now=%d start=%d tree=%s prog=%s sched=%s", tenHours, st, t.String(), strings.Join(progs, "|"), strings.Join(sched, ","))
	}
	for i := 0; i < n; i++ {
		unstarted := r.Intn(3) == 0
		t := nTreeOf(r, 2+r.Intn(2), unstarted)
		if r.Intn(5) == 0 {
			t.kids = append(t.kids, &node{kind: "U", dur: twentyHours})
		}
		progs, total := genProgs(r)
		var sched []string
		for x := 0; x < total*5; x++ {
			sched = append(sched, strconv.Itoa(r.Intn(len(progs))))
		}
		st := 1
		if unstarted {
			st = 0
		}
		out = append(out, mk(t, st, progs, sched))
	}
	if tier == "thorough" {
		// every order of two callers (words of length 12) on nested families with token-less heads at both levels
		nc := func(kids ...*node) *node { return &node{kind: "C", kids: kids} }
		o := func(k int) *node { return mkFin(fmt.Sprintf("once:%d", k)) }
		for _, t := range []*node{
			nc(nc(o(0), o(1)), nc(o(0), o(0), o(1))),
			nc(o(0), nc(o(0), nc(o(0), o(1))), o(1)),
			nc(o(0), nc(o(0), &node{kind: "U", dur: twentyHours})),
		} {
			for _, p := range []string{"NN|NN", "NL|LN", "L|NN"} {
				for w := 0; w < 4096; w++ {
					var sched []string
					for b := 0; b < 12; b++ {
						sched = append(sched, strconv.Itoa((w>>b)&1))
					}
					out = append(out, mk(t, w%2, []string{strings.Split(p, "|")[0], strings.Split(p, "|")[1]}, sched))
				}
			}
		}
	}
	return out
}
