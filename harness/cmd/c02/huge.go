package main

// mode=seq huge=1: schedules whose parts hold HUGE numbers of tokens (2^31 … 2^62: a million operations per second
// for an hour, once(1<<32), instance_step with steps of 2^31 instances). Such a schedule is never drained: a case
// calls Left() and a handful of Next() — across the small parts in front of a huge tail, into a huge part, from an
// unstarted schedule. What is checked is the arithmetic of the counts: the suffix sums NewComposite stores, what
// Left() adds up, what survives a shift.
//
// The offsets of a huge leaf are written run-length encoded, `first+step*count` (once: `0*count`); they are NOT
// enumerated from the real leaf (that would take hours) but computed here from the configuration: once(n) has n
// tokens at offset 0; const(r, d) with r a whole number of operations per second that divides 1e9 and d whole seconds
// has r*d tokens, the i-th at i*(1e9/r) ns. The few tokens a case draws are compared with what the real leaf hands out.

import (
	"fmt"
	"math/rand"
	"strings"
)

type hrun struct{ first, step, count int64 }

func (n *node) runsString() string {
	var parts []string
	for _, r := range n.runs {
		switch {
		case r.step == 0:
			parts = append(parts, fmt.Sprintf("%d*%d", r.first, r.count))
		default:
			parts = append(parts, fmt.Sprintf("%d+%d*%d", r.first, r.step, r.count))
		}
	}
	return strings.Join(parts, ",")
}

func hugeOnce(n int64) *node {
	return &node{kind: "F", ctor: fmt.Sprintf("once:%d", n), dur: 0, runs: []hrun{{0, 0, n}}, huge: n}
}

// hugeConst: rate operations per second (a divisor of 1e9) for secs whole seconds
func hugeConst(rate, secs int64) *node {
	d := secs * 1e9
	return &node{kind: "F", ctor: fmt.Sprintf("const:%d:%d", rate, d), dur: d, runs: []hrun{{0, 1e9 / rate, rate * secs}}, huge: rate * secs}
}

var hugeCounts = []int64{
	1<<31 - 1, 1 << 31, 1<<31 + 1, 3_000_000_000, 1<<32 - 1, 1 << 32, 1<<32 + 1, 1<<32 + 2, 3 << 31, 1 << 33, 5 << 32,
	1 << 40, 1<<48 + 7, 1<<53 + 1,
}

func hugeLeaf(r *rand.Rand, big *bool, unstarted bool) *node {
	c := r.Intn(10)
	if unstarted && (c == 5 || c == 6 || c > 7) {
		c = 0 // an unstarted schedule starts at the real clock reading: only times within the hour after it are printed alike
	}
	switch c {
	case 0, 1, 2, 3:
		return hugeOnce(hugeCounts[r.Intn(len(hugeCounts))])
	case 4:
		if !*big {
			*big = true // at most one part of this size: the total stays far below 2^63
			return hugeOnce([]int64{1 << 61, 1<<62 - 1, 1<<62 + 12345}[r.Intn(3)])
		}
		return hugeOnce(1 << 32)
	case 5, 6:
		// a million (or more) operations per second for 36 minutes to a few hours
		rate := []int64{1_000_000, 2_000_000, 500_000, 1_000_000_000}[r.Intn(4)]
		secs := (int64(1)<<31)/rate + int64(r.Intn(3)) + []int64{0, 1, 2148, 4295}[r.Intn(4)]
		if rate*secs < 1<<31 && r.Intn(2) == 0 {
			secs++
		}
		return hugeConst(rate, secs)
	case 7:
		// instance_step whose steps are huge: once(from), then (pause, once(step)) per step
		st := []int64{1 << 31, 1 << 32, 3_000_000_000}[r.Intn(3)]
		from := []int64{0, 5, 1 << 31}[r.Intn(3)]
		return &node{kind: "I", is: [4]int64{from, from + st*int64(r.Intn(4)), st, 1e9}, huge: st}
	default:
		// step profile of two or three huge const parts
		rate := []int64{500_000, 1_000_000}[r.Intn(2)]
		secs := int64(2148 + r.Intn(3)*2148)
		n := &node{kind: "C", ctor: fmt.Sprintf("step:%d:%d:%d:%d", rate, 2*rate, rate, secs*1e9)}
		n.kids = []*node{hugeConst(rate, secs), hugeConst(2*rate, secs)}
		n.huge = 1
		return n
	}
}

func hugeSmall(r *rand.Rand, unstarted bool) *node {
	switch r.Intn(7) {
	case 0:
		return mkFin("once:0")
	case 1, 2:
		return mkFin(fmt.Sprintf("once:%d", 1+r.Intn(3)))
	case 3:
		return mkFin("const:0:1000000000")
	case 4:
		return mkFin(fmt.Sprintf("const:%d:1000000000", 1+r.Intn(3)))
	case 5:
		if unstarted {
			return &node{kind: "U", dur: twentyHours}
		}
		return &node{kind: "U", dur: []int64{1e6, twentyHours}[r.Intn(2)]}
	default:
		return &node{kind: "C", kids: []*node{mkFin(fmt.Sprintf("once:%d", r.Intn(3))), mkFin("once:1")}}
	}
}

func smallTokens(n *node) int {
	if n.huge != 0 {
		return 0
	}
	if n.kind == "C" {
		t := 0
		for _, k := range n.kids {
			t += smallTokens(k)
		}
		return t
	}
	return n.tokens()
}

func genHuge(r *rand.Rand, tier string) []string {
	n := 160
	if tier == "thorough" {
		n = 4000
	}
	var out []string
	// counts whose low 32 bits are all zero (or just below / above): small parts, then a tail of m·2^32 tokens; the small
	// parts are drained and Left is asked at every step, half of the cases through the onFinish wrapper
	for i := 0; i < n/5; i++ {
		a := r.Intn(3)
		m := int64(1 + r.Intn(3))
		t := &node{kind: "C", huge: 1}
		t.kids = append(t.kids, mkFin(fmt.Sprintf("once:%d", a)))
		if r.Intn(2) == 0 {
			t.kids = append(t.kids, mkFin("const:0:1000000000"))
		}
		tail := m<<32 + int64(r.Intn(3)-1)*int64(r.Intn(2))
		if r.Intn(3) == 0 {
			t.kids = append(t.kids, &node{kind: "C", kids: []*node{hugeOnce(tail - 1<<31), hugeOnce(1 << 31)}, huge: 1})
		} else {
			t.kids = append(t.kids, hugeOnce(tail))
		}
		ops := []string{"S", "L"}
		if r.Intn(3) == 0 {
			ops = []string{"L"}
		}
		for j := 0; j < a+1+r.Intn(2); j++ {
			ops = append(ops, "N", "L")
		}
		line := fmt.Sprintf("mode=seq huge=1 now=%d tree=%s ops=%s", tenHours, t.String(), strings.Join(ops, ","))
		if r.Intn(2) == 0 {
			line += " cb=1"
		}
		out = append(out, line)
	}
	for i := 0; i < n; i++ {
		unstarted := r.Intn(4) == 0
		big := false
		t := &node{kind: "C"}
		k := 2 + r.Intn(4)
		nh := 0
		for j := 0; j < k; j++ {
			switch {
			case r.Intn(5) < 2 || (j == k-1 && nh == 0):
				t.kids = append(t.kids, hugeLeaf(r, &big, unstarted))
				nh++
			case r.Intn(6) == 0:
				// a nested composite with a huge part inside
				t.kids = append(t.kids, &node{kind: "C", kids: []*node{hugeSmall(r, unstarted), hugeLeaf(r, &big, unstarted)}, huge: 1})
				nh++
			default:
				t.kids = append(t.kids, hugeSmall(r, unstarted))
			}
		}
		t.huge = 1
		nops := smallTokens(t) + 2 + r.Intn(8)
		if nops > 24 {
			nops = 24
		}
		body := randOps(r, nops, 1+r.Intn(3))
		var ops []string
		if unstarted {
			ops = append([]string{"L"}, body...)
		} else {
			ops = append([]string{"S"}, body...)
			if r.Intn(3) == 0 {
				ops = append([]string{"L"}, ops...)
			}
		}
		ops = append(ops, "L")
		line := fmt.Sprintf("mode=seq huge=1 now=%d tree=%s ops=%s", tenHours, t.String(), strings.Join(ops, ","))
		if r.Intn(4) == 0 {
			line += " cb=1"
		}
		out = append(out, line)
	}
	return out
}
