package main

// Deciding that a call did not come back (a lock that is never released, a lost wake-up) WITHOUT a stopwatch.
//
// A time limit alone cannot tell a deadlock from a process that got no CPU for a few seconds (twenty builders share the
// machine; a `go build` of the instrumented worker, a stop of the whole process). So when a limit expires the harness
// LOOKS: one dump of all goroutine stacks gives, for the goroutine of the case and every goroutine it started
// (transitively: `created by … in goroutine N`), its wait status. The case hangs iff some of them wait on a sync
// primitive (mutex, RWMutex, Once …) called DIRECTLY by code of the package under test, none of them is running or
// runnable, and that picture stays the same for a dozen looks 250 ms apart — looks that come late (the process itself
// was held up) start the count again. If no such picture appears within a minute the observation is TIMEOUT
// (= `skip:inconclusive`), never a failure.

import (
	"bytes"
	"fmt"
	"runtime"
	"sort"
	"strconv"
	"strings"
	"time"
)

const hangWithin = "yandex/pandora/"

type hwG struct {
	state   string
	parent  int64
	blocked bool // waits on a sync primitive called directly by the code under test
}

func hwDump() map[int64]hwG {
	buf := make([]byte, 1<<18)
	for {
		n := runtime.Stack(buf, true)
		if n < len(buf) {
			buf = buf[:n]
			break
		}
		buf = make([]byte, 2*len(buf))
	}
	out := map[int64]hwG{}
	for _, blk := range bytes.Split(buf, []byte("\n\n")) {
		if !bytes.HasPrefix(blk, []byte("goroutine ")) {
			continue
		}
		nl := bytes.IndexByte(blk, '\n')
		if nl < 0 {
			nl = len(blk)
		}
		hdr := string(blk[:nl]) // goroutine 12 [sync.Mutex.Lock, 2 minutes]:
		f := strings.Fields(hdr)
		if len(f) < 3 {
			continue
		}
		id, err := strconv.ParseInt(f[1], 10, 64)
		if err != nil {
			continue
		}
		st := hdr
		if i := strings.IndexByte(hdr, '['); i >= 0 {
			st = hdr[i+1:]
		}
		if j := strings.IndexAny(st, ",]"); j >= 0 {
			st = st[:j]
		}
		g := hwG{state: st}
		if i := bytes.LastIndex(blk, []byte(" in goroutine ")); i >= 0 {
			rest := blk[i+len(" in goroutine "):]
			if e := bytes.IndexByte(rest, '\n'); e >= 0 {
				rest = rest[:e]
			}
			g.parent, _ = strconv.ParseInt(strings.TrimSpace(string(rest)), 10, 64)
		}
		if strings.HasPrefix(st, "sync.") || strings.HasPrefix(st, "semacquire") {
			g.blocked = calledFrom(blk, hangWithin)
		}
		out[id] = g
	}
	return out
}

// hwPicture: the blocked goroutines among `roots` and their descendants, and whether any of those is running/runnable.
func hwPicture(roots []int64) (blocked []int64, busy bool) {
	gs := hwDump()
	in := map[int64]bool{}
	for _, r := range roots {
		in[r] = true
	}
	for changed := true; changed; {
		changed = false
		for id, g := range gs {
			if !in[id] && in[g.parent] {
				in[id] = true
				changed = true
			}
		}
	}
	self := goid()
	for id := range in {
		g, ok := gs[id]
		if !ok || id == self {
			continue
		}
		switch {
		case g.blocked:
			blocked = append(blocked, id)
		case g.state == "running" || g.state == "runnable":
			busy = true
		}
	}
	sort.Slice(blocked, func(a, b int) bool { return blocked[a] < blocked[b] })
	return blocked, busy
}

const (
	hwLook    = 250 * time.Millisecond
	hwLooks   = 12 // consecutive unchanged looks: a deadlock
	hwGiveUp  = 60 * time.Second
	hwTooLate = time.Second // a look that comes this late: the process itself was held up
)

// hwAwait waits for a value on ch. After `limit` it starts looking at the goroutines (see above) and returns
// ("", "HANG") for a confirmed deadlock, ("", "TIMEOUT") when nothing could be decided within a minute.
func hwAwait(ch <-chan string, limit time.Duration, roots func() []int64) (string, string) {
	t := time.NewTimer(limit)
	select {
	case v := <-ch:
		t.Stop()
		return v, ""
	case <-t.C:
	}
	start, last := time.Now(), time.Now()
	quiet, prev := 0, ""
	for {
		tk := time.NewTimer(hwLook)
		select {
		case v := <-ch:
			tk.Stop()
			return v, ""
		case <-tk.C:
		}
		late := time.Since(last) > hwTooLate
		last = time.Now()
		blocked, busy := hwPicture(roots())
		sig := fmt.Sprint(blocked)
		if len(blocked) > 0 && !busy && !late && (quiet == 0 || sig == prev) {
			quiet++
		} else {
			quiet = 0
		}
		prev = sig
		if quiet >= hwLooks {
			// once more: did it come back in the meantime?
			select {
			case v := <-ch:
				return v, ""
			default:
			}
			return "", "HANG"
		}
		if time.Since(start) > hwGiveUp {
			return "", "TIMEOUT"
		}
	}
}
