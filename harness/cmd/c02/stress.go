package main

// mode=stress: G free-running goroutines on one REAL schedule (nested composites, started or not). Nothing is
// steered: the Go scheduler interleaves the lock upgrades of Next and Left at every nesting level as it likes.
// Observation: per goroutine its results in its own order; a Left result carries the interval
// [a, b] = [Next calls that had returned when it began, Next calls that had begun when it returned].
// The Lean side checks every result against the atomic flat spec (see Drv/C02.lean, handleStress).

import (
	"fmt"
	"math/rand"
	"strconv"
	"strings"
	"sync"
	"sync/atomic"
	"time"

	"verifharness/drv"

	"github.com/yandex/pandora/core/coreutil"
)

func runStress(m map[string]string) string {
	t0 := time.Now().Add(-time.Duration(tenHours))
	tree, _ := parseTree(m["tree"])
	s := buildReal(tree, false)
	var cbCalls atomic.Int64
	if m["cb"] == "1" {
		s = coreutil.NewCallbackOnFinishSchedule(s, func() { cbCalls.Add(1) })
	}
	if m["start"] != "0" {
		s.Start(t0)
	}
	progs := strings.Split(m["prog"], "|")
	res := make([][]string, len(progs))
	var begun, done atomic.Int64
	var wg sync.WaitGroup
	gate := make(chan struct{})
	for i, p := range progs {
		wg.Add(1)
		go func(i int, prog string) {
			defer wg.Done()
			defer func() {
				if r := recover(); r != nil {
					res[i] = append(res[i], "P:"+drv.Clean(fmt.Sprint(r)))
				}
			}()
			<-gate
			for _, op := range prog {
				if op == 'N' {
					begun.Add(1)
					tx, ok := s.Next()
					done.Add(1)
					b := 0
					if ok {
						b = 1
					}
					res[i] = append(res[i], fmt.Sprintf("N:%s:%d", fmtT(t0, tx), b))
				} else {
					a := done.Load()
					l := s.Left()
					b := begun.Load()
					res[i] = append(res[i], fmt.Sprintf("L:%d@%d-%d", l, a, b))
				}
			}
		}(i, p)
	}
	close(gate)
	wg.Wait()
	var parts []string
	for _, r := range res {
		parts = append(parts, strings.Join(r, ","))
	}
	obs := strings.Join(parts, "|")
	if m["cb"] == "1" {
		obs += fmt.Sprintf("#CB:%d", cbCalls.Load())
	}
	return obs
}

func stressTree(r *rand.Rand, depth int, unstarted bool) *node {
	if depth == 0 || r.Intn(4) == 0 {
		switch r.Intn(8) {
		case 0, 1:
			return mkFin("once:0")
		case 2:
			return mkFin("const:0:1000000000")
		case 3:
			return mkFin(fmt.Sprintf("const:%d:%d", 1+r.Intn(4), int64(1e9)))
		case 4:
			f := int64(r.Intn(3))
			return &node{kind: "I", is: [4]int64{f, f + int64(r.Intn(5)), int64(1 + r.Intn(2)), 1e9}}
		case 5:
			if !unstarted {
				return &node{kind: "U", dur: 1e6}
			}
			return mkFin("once:1")
		default:
			return mkFin(fmt.Sprintf("once:%d", 1+r.Intn(5)))
		}
	}
	n := &node{kind: "C"}
	for j, k := 0, 2+r.Intn(4); j < k; j++ {
		n.kids = append(n.kids, stressTree(r, depth-1, unstarted))
	}
	return n
}

func genStress(r *rand.Rand, tier string) []string {
	n := 600
	if tier == "thorough" {
		n = 70000
	}
	var out []string
	for i := 0; i < n; i++ {
		unstarted := r.Intn(2) == 0
		t := stressTree(r, 1+r.Intn(3), unstarted)
		if t.kind != "C" {
			t = &node{kind: "C", kids: []*node{t, stressTree(r, 1, unstarted)}}
		}
		if r.Intn(5) == 0 {
			t.kids = append(t.kids, &node{kind: "U", dur: twentyHours})
		}
		g := 2 + r.Intn(7)
		if tier == "thorough" && r.Intn(4) == 0 {
			g = 9 + r.Intn(8)
		}
		per := (t.tokens()+6)/g + 1 + r.Intn(3)
		if per > 40 {
			per = 40
		}
		var progs []string
		pl := r.Intn(3)
		for j := 0; j < g; j++ {
			var sb strings.Builder
			for x := 0; x < per; x++ {
				if r.Intn(4) < pl {
					sb.WriteByte('L')
				} else {
					sb.WriteByte('N')
				}
			}
			progs = append(progs, sb.String())
		}
		st := 1
		if unstarted {
			st = 0
		}
		line := "mode=stress now=" + strconv.FormatInt(tenHours, 10) + fmt.Sprintf(" start=%d tree=%s prog=%s", st, t.String(), strings.Join(progs, "|"))
		if r.Intn(3) == 0 {
			line += " cb=1"
		}
		out = append(out, line)
	}
	return out
}
