package main

// mode=lconc / mode=lnconc: controlled interleavings INSIDE the leaves. Both run in the instrumented worker process
// (instr.go): every statement of doAtSchedule / unlimitedSchedule Next and Left that touches shared state has a
// scheduling point in front of it.
//
// mode=lconc   the schedule is ONE leaf (once / const / line / unlimited, started or not). The controller of
//              mode=conc releases one caller at a time: a release runs the caller from where it is parked to its next
//              scheduling point or to its return, so one release = one action of `Model/C02LeafPar.lean` (enter the
//              call / startOnce.Do / the operation). The log is compared with the model's and replayed against the
//              atomic flat spec.
// mode=lnconc  composites over such leaves; the points of the composites (before Lock) and of the leaves are all
//              active; a caller may be parked inside a leaf while holding the read lock of the composites above, so
//              the controller of mode=nconc is used (callers that wait for a lock are observed through their goroutine
//              status) and the results are judged like a free run.

import (
	"fmt"
	"math/rand"
	"strconv"
	"strings"
)

func lconcLeaf(r *rand.Rand, unstarted bool) *node {
	switch r.Intn(8) {
	case 0:
		return mkFin("once:0")
	case 1, 2:
		return mkFin("once:1")
	case 3:
		return mkFin(fmt.Sprintf("once:%d", 2+r.Intn(2)))
	case 4:
		return mkFin(fmt.Sprintf("const:%d:1000000000", 1+r.Intn(3)))
	case 5:
		return mkFin(fmt.Sprintf("line:%d:%d:1000000000", r.Intn(2), 2+r.Intn(3)))
	case 6:
		return &node{kind: "U", dur: twentyHours}
	default:
		if unstarted {
			return mkFin("once:2")
		}
		return &node{kind: "U", dur: 1e6} // finished long ago
	}
}

func lconcProgs(r *rand.Rand, tokens int) ([]string, int) {
	nt := 2 + r.Intn(3)
	var progs []string
	total := 0
	for j := 0; j < nt; j++ {
		l := 1 + r.Intn(3)
		var sb strings.Builder
		for x := 0; x < l; x++ {
			if r.Intn(3) == 0 {
				sb.WriteByte('L')
			} else {
				sb.WriteByte('N')
			}
		}
		if r.Intn(2) == 0 {
			sb.WriteByte('L') // what does Left say once the race is over?
			l++
		}
		progs = append(progs, sb.String())
		total += l
	}
	return progs, total
}

func genLeafConc(r *rand.Rand, tier string) []string {
	n, nn := 260, 90 // a composite case costs ~60 ms (callers parked inside a leaf hold read locks: goroutine status polling)
	if tier == "thorough" {
		n, nn = 3000, 400
	}
	var out []string
	line := func(mode string, st int, t *node, progs []string, sched []string) string {
		return fmt.Sprintf("mode=%s now=%d start=%d tree=%s prog=%s sched=%s", mode, tenHours, st, t.String(), strings.Join(progs, "|"), strings.Join(sched, ","))
	}
	for i := 0; i < n; i++ {
		unstarted := r.Intn(2) == 0
		t := lconcLeaf(r, unstarted)
		progs, total := lconcProgs(r, t.tokens())
		var sched []string
		for x := 0; x < total*3; x++ {
			sched = append(sched, strconv.Itoa(r.Intn(len(progs))))
		}
		st := 1
		if unstarted {
			st = 0
		}
		out = append(out, line("lconc", st, t, progs, sched))
	}
	for i := 0; i < nn; i++ {
		unstarted := r.Intn(3) == 0
		t := nTreeOf(r, 1+r.Intn(2), unstarted)
		if t.kind != "C" {
			t = &node{kind: "C", kids: []*node{t, mkFin("once:1")}}
		}
		progs, total := lconcProgs(r, t.tokens())
		if len(progs) > 3 {
			progs = progs[:3]
		}
		var sched []string
		for x := 0; x < total*6; x++ {
			sched = append(sched, strconv.Itoa(r.Intn(len(progs))))
		}
		st := 1
		if unstarted {
			st = 0
		}
		out = append(out, line("lnconc", st, t, progs, sched))
	}
	// Left against a shift: flat composites of 2-4 small finite parts (sometimes a live unlimited tail), one or two
	// callers that draw tokens, one that keeps asking Left; schedules in BURSTS (a caller is released several times in a
	// row, so that a whole Next — it has 4-8 scheduling points in this build — fits between two actions of another
	// caller); two thirds with the points of the composite only (`pts=comp`, leaves atomic: a release = a section).
	// What a Left returns must be the count at some moment of the call (judged like a free run).
	ns := 90
	if tier == "thorough" {
		ns = 1200
	}
	for i := 0; i < ns; i++ {
		t := &node{kind: "C"}
		for j, k := 0, 2+r.Intn(3); j < k; j++ {
			c := r.Intn(5)
			if c == 4 {
				c = 0
			}
			t.kids = append(t.kids, mkFin(fmt.Sprintf("once:%d", c)))
		}
		unstarted := r.Intn(4) == 0
		if r.Intn(6) == 0 {
			t.kids = append(t.kids, &node{kind: "U", dur: twentyHours})
		}
		var progs []string
		total := 0
		for j, k := 0, 1+r.Intn(2); j < k; j++ {
			var sb strings.Builder
			for x, l := 0, 2+r.Intn(4); x < l; x++ {
				if r.Intn(6) == 0 {
					sb.WriteByte('L')
				} else {
					sb.WriteByte('N')
				}
				total++
			}
			progs = append(progs, sb.String())
		}
		l := 2 + r.Intn(3)
		progs = append(progs, strings.Repeat("L", l))
		total += l
		r.Shuffle(len(progs), func(a, b int) { progs[a], progs[b] = progs[b], progs[a] })
		var sched []string
		for len(sched) < total*6 {
			c := strconv.Itoa(r.Intn(len(progs)))
			for x, run := 0, 1+r.Intn(7); x < run; x++ {
				sched = append(sched, c)
			}
		}
		st := 1
		if unstarted {
			st = 0
		}
		ln := line("lnconc", st, t, progs, sched)
		if r.Intn(3) != 0 {
			ln += " pts=comp"
		}
		out = append(out, ln)
	}
	// A leaf being started against Left, access by access (`pts=fine`): one unstarted leaf (a live unlimited part, a
	// once with 0-2 tokens), one or two callers whose first Next starts it, one or two that ask Left; the stores inside the once and
	// the loads of Left are separate points. Judged like a free run: every Left must be the flat spec's answer for some
	// number of draws inside the call (a live unlimited part: -1, never 0).
	nf := 40
	if tier == "thorough" {
		nf = 600
	}
	for i := 0; i < nf; i++ {
		var t *node
		switch r.Intn(4) {
		case 0:
			t = mkFin(fmt.Sprintf("once:%d", 1+r.Intn(2)))
		case 1:
			t = mkFin("once:0") // (not a 1 ms unlimited part: it would end while its starter is parked inside the once)
		default:
			t = &node{kind: "U", dur: twentyHours}
		}
		var progs []string
		total := 0
		for j, k := 0, 1+r.Intn(2); j < k; j++ {
			p := "N"
			if r.Intn(2) == 0 {
				p += "L"
			}
			progs = append(progs, p)
			total += len(p)
		}
		for j, k := 0, 1+r.Intn(2); j < k; j++ {
			p := strings.Repeat("L", 1+r.Intn(2))
			progs = append(progs, p)
			total += len(p)
		}
		r.Shuffle(len(progs), func(a, b int) { progs[a], progs[b] = progs[b], progs[a] })
		var sched []string
		for len(sched) < total*5 {
			c := strconv.Itoa(r.Intn(len(progs)))
			for x, run := 0, 1+r.Intn(3); x < run; x++ {
				sched = append(sched, c)
			}
		}
		out = append(out, line("lnconc", 0, t, progs, sched)+" pts=fine")
	}
	if tier == "thorough" {
		// every order of two callers (words of length 10) on small leaves
		for _, c := range []string{"once:1", "once:2"} {
			t := mkFin(c)
			for _, p := range []string{"NL|N", "NL|NL", "L|NN"} {
				ps := strings.Split(p, "|")
				for st := 0; st <= 1; st++ {
					for w := 0; w < 1024; w++ {
						var sched []string
						for b := 0; b < 10; b++ {
							sched = append(sched, strconv.Itoa((w>>b)&1))
						}
						out = append(out, line("lconc", st, t, ps, sched))
					}
				}
			}
		}
		// three callers racing for the last token, words of length 8 over {0,1,2}
		for _, c := range []string{"once:1"} {
			t := mkFin(c)
			for w := 0; w < 6561; w++ {
				var sched []string
				x := w
				for b := 0; b < 8; b++ {
					sched = append(sched, strconv.Itoa(x%3))
					x /= 3
				}
				out = append(out, line("lconc", w%2, t, []string{"NL", "N", "N"}, sched))
			}
		}
	}
	return out
}
