package main

// Documented options (round 4): a snapshot, written from docs/eng/*.md of the unchanged tree, of the configuration blocks
// the documentation shows — every option under the key the documentation gives it, with the example value it gives —
// and of the defaults the documentation states ("Default: 3s").  Like docTags (the documented constraints) this is what
// the tree under test is measured AGAINST: the schema, the model and every other generated case follow the tree, so a
// tree that renames the key of an option (struct tag), or changes the default a component registers, stays consistent
// with itself — only the documentation tells that `rps-per-instance` is the key and 3s the dial timeout.
//
//	kind=dockey      the documented block is accepted and every option holds the documented example value
//	kind=docdefault  the smallest valid block (required options only): every option with a documented default holds it
//
// Options whose documented default is what a LIBRARY substitutes for the zero value the component registers are left out
// of the defaults (max-idle-conns-per-host: documented 2 = http.DefaultMaxIdleConnsPerHost for a registered 0,
// dial.fallback-delay: documented 300ms = net.Dialer's reading of 0, shared-client.client-number: documented 1 for 0).

import (
	"fmt"
	"strconv"
	"strings"
	"time"
)

// The documented target `example.com:80` is written 127.0.0.1:80: the gun constructors resolve the target's host name when
// the configuration is decoded (PreResolveTargetAddr), and a check must not wait for a name server.
type docBlock struct {
	root     string         // the root the block is decoded into
	src      string         // where the documentation shows it
	cfg      map[string]any // the documented block
	given    []docWant      // Go field path -> the value the documented block gives
	pos      string         // the key of the pool option the documentation shows the block under ("" for the cli root)
	base     map[string]any // required options only (nil: no defaults case)
	defaults []docWant      // Go field path -> documented default
}

type docWant struct {
	at string
	v  any
}

func docDV(v any) string {
	switch x := v.(type) {
	case bool:
		return node("b", strconv.FormatBool(x))
	case int:
		return node("i", strconv.Itoa(x))
	case uint:
		return node("u", strconv.FormatUint(uint64(x), 10))
	case time.Duration:
		return node("i", strconv.FormatInt(int64(x), 10))
	case float64:
		return node("d", fmtFloat(x, 64))
	case string:
		return tstr(x)
	case []string:
		var xs []string
		for _, e := range x {
			xs = append(xs, tstr(e))
		}
		return node("l", xs...)
	}
	panic(fmt.Sprintf("docDV: %T", v))
}

func docWantsTerm(prefix string, ws []docWant) string {
	var xs []string
	for _, w := range ws {
		xs = append(xs, node("p", enc(prefix+w.at), docDV(w.v)))
	}
	return node("l", xs...)
}

func docHTTPGun(name string, ssl bool) docBlock {
	return docBlock{
		root: "alt|core.Gun|" + name, src: "docs/eng/http-generator.md",
		cfg: map[string]any{
			"target": "127.0.0.1:443", "ssl": true, "connect-ssl": false, "tls-handshake-timeout": "1s",
			"disable-keep-alives": false, "disable-compression": true, "max-idle-conns": 0, "max-idle-conns-per-host": 2,
			"idle-conn-timeout": "90s", "response-header-timeout": 0, "expect-continue-timeout": "1s",
			"shared-client": map[string]any{"enabled": false, "client-number": 1},
			"dial": map[string]any{"timeout": "1s", "dns-cache": true, "dual-stack": true, "fallback-delay": "300ms", "keep-alive": "120s"},
			"answlog":   map[string]any{"enabled": true, "path": "./answ.log", "filter": "all"},
			"auto-tag":  map[string]any{"enabled": true, "uri-elements": 2, "no-tag-only": true},
			"httptrace": map[string]any{"dump": true, "trace": true},
		},
		given: []docWant{
			{"Target", "127.0.0.1:443"}, {"SSL", true}, {"ConnectSSL", false}, {"TLSHandshakeTimeout", time.Second},
			{"DisableKeepAlives", false}, {"DisableCompression", true}, {"MaxIdleConns", 0}, {"MaxIdleConnsPerHost", 2},
			{"IdleConnTimeout", 90 * time.Second}, {"ResponseHeaderTimeout", time.Duration(0)}, {"ExpectContinueTimeout", time.Second},
			{"SharedClient.Enabled", false}, {"SharedClient.ClientNumber", 1},
			{"Dialer.Timeout", time.Second}, {"Dialer.DNSCache", true}, {"Dialer.DualStack", true},
			{"Dialer.FallbackDelay", 300 * time.Millisecond}, {"Dialer.KeepAlive", 120 * time.Second},
			{"AnswLog.Enabled", true}, {"AnswLog.Path", "./answ.log"}, {"AnswLog.Filter", "all"},
			{"AutoTag.Enabled", true}, {"AutoTag.URIElements", 2}, {"AutoTag.NoTagOnly", true},
			{"HTTPTrace.DumpEnabled", true}, {"HTTPTrace.TraceEnabled", true},
		},
		base: map[string]any{"target": "127.0.0.1:80"},
		defaults: []docWant{
			{"SSL", ssl}, {"ConnectSSL", false}, {"TLSHandshakeTimeout", time.Second}, {"DisableKeepAlives", false}, {"DisableCompression", true},
			{"MaxIdleConns", 0}, {"IdleConnTimeout", 90 * time.Second}, {"ResponseHeaderTimeout", time.Duration(0)},
			{"ExpectContinueTimeout", time.Second}, {"Dialer.Timeout", 3 * time.Second}, {"Dialer.DNSCache", true},
			{"Dialer.DualStack", true}, {"Dialer.KeepAlive", 120 * time.Second}, {"AnswLog.Filter", "error"},
			{"AutoTag.URIElements", 2}, {"AutoTag.NoTagOnly", true},
		},
	}
}

// docPool: the pool of "Basic configuration" (docs/eng/config.md)
func docPool() map[string]any {
	return map[string]any{
		"id":     "HTTP pool",
		"gun":    map[string]any{"type": "http", "target": "127.0.0.1:80"},
		"ammo":   map[string]any{"type": "uri", "file": "./ammo.uri"},
		"result": map[string]any{"type": "phout", "destination": "./phout.log"},
		"rps-per-instance": false, "discard_overflow": true,
		"rps":     map[string]any{"type": "line", "from": 1, "to": 5, "duration": "60s"},
		"startup": map[string]any{"type": "once", "times": 10},
	}
}

// docPos: where a pool shows a plugin of this root
func docPos(b docBlock) string {
	if b.pos != "" {
		return b.pos
	}
	switch {
	case strings.HasPrefix(b.root, "alt|core.Gun|"):
		return "gun"
	case strings.HasPrefix(b.root, "alt|core.Provider|"):
		return "ammo"
	case strings.HasPrefix(b.root, "alt|core.Aggregator|"):
		return "result"
	case strings.HasPrefix(b.root, "alt|core.Schedule|"):
		return "rps"
	}
	return ""
}

func docBlocks() []docBlock {
	docPool := docPool()
	return []docBlock{
		docHTTPGun("http", false),
		docHTTPGun("http2", true),
		// docs/eng/config.md, "Basic configuration" and "Monitoring and Logging"
		{root: "cli", src: "docs/eng/config.md",
			cfg: map[string]any{
				"pools": []any{docPool},
				"log":   map[string]any{"level": "error"},
				"monitoring": map[string]any{
					"expvar":     map[string]any{"enabled": true, "port": 1234},
					"cpuprofile": map[string]any{"enabled": true, "file": "cpuprofile.log"},
					"memprofile": map[string]any{"enabled": true, "file": "memprofile.log"},
				}},
			given: []docWant{
				{"Pools.#0.ID", "HTTP pool"}, {"Pools.#0.RPSPerInstance", false}, {"Pools.#0.DiscardOverflow", true},
				{"Monitoring.Expvar.Enabled", true}, {"Monitoring.Expvar.Port", 1234},
				{"Monitoring.CPUProfile.Enabled", true}, {"Monitoring.CPUProfile.File", "cpuprofile.log"},
				{"Monitoring.MemProfile.Enabled", true}, {"Monitoring.MemProfile.File", "memprofile.log"},
			}},
		{root: "cli", src: "docs/eng/config.md (rps-per-instance on, discard_overflow off)",
			cfg: map[string]any{"pools": []any{func() map[string]any {
				m := cloneMap(docPool)
				m["rps-per-instance"], m["discard_overflow"] = true, false
				return m
			}()}},
			given: []docWant{{"Pools.#0.RPSPerInstance", true}, {"Pools.#0.DiscardOverflow", false}}},
		// docs/eng/load-profile.md, docs/eng/startup.md
		{root: "alt|core.Schedule|const", src: "docs/eng/load-profile.md",
			cfg:   map[string]any{"duration": "300s", "ops": 10000},
			given: []docWant{{"Duration", 300 * time.Second}, {"Ops", 10000.0}}},
		{root: "alt|core.Schedule|line", src: "docs/eng/load-profile.md",
			cfg:   map[string]any{"duration": "180s", "from": 1, "to": 10000},
			given: []docWant{{"Duration", 180 * time.Second}, {"From", 1.0}, {"To", 10000.0}}},
		{root: "alt|core.Schedule|step", src: "docs/eng/load-profile.md",
			cfg:   map[string]any{"duration": "30s", "from": 10, "to": 100, "step": 5},
			given: []docWant{{"Duration", 30 * time.Second}, {"From", 10.0}, {"To", 100.0}, {"Step", 5}}},
		{root: "alt|core.Schedule|once", src: "docs/eng/load-profile.md",
			cfg: map[string]any{"times": 133}, given: []docWant{{"Times", 133}}},
		{root: "alt|core.Schedule|unlimited", src: "docs/eng/load-profile.md",
			cfg: map[string]any{"duration": "30s"}, given: []docWant{{"Duration", 30 * time.Second}}},
		{root: "alt|core.Schedule|instance_step", src: "docs/eng/startup.md", pos: "startup",
			cfg:   map[string]any{"from": 10, "to": 100, "step": 10, "stepduration": "10s"},
			given: []docWant{{"From", 10}, {"To", 100}, {"Step", 10}, {"StepDuration", 10 * time.Second}}},
		// docs/eng/providers.md
		{root: "alt|core.Provider|uri", src: "docs/eng/providers.md",
			cfg: map[string]any{"file": "./ammofile", "headers": []any{"[Host: yourhost.tld]", "[User-Agent: some user agent]"},
				"chosencases": []any{"tag1", "tag2"}, "preload": true},
			given: []docWant{{"File", "./ammofile"}, {"Headers", []string{"[Host: yourhost.tld]", "[User-Agent: some user agent]"}},
				{"ChosenCases", []string{"tag1", "tag2"}}, {"Preload", true}}},
		{root: "alt|core.Provider|raw", src: "docs/eng/providers.md",
			cfg:   map[string]any{"file": "./ammofile", "headers": []any{"[Host: yourhost.tld]"}},
			given: []docWant{{"File", "./ammofile"}, {"Headers", []string{"[Host: yourhost.tld]"}}}},
		{root: "alt|core.Provider|http/json", src: "docs/eng/providers.md",
			cfg: map[string]any{"file": "./ammofile"}, given: []docWant{{"File", "./ammofile"}}},
		{root: "alt|core.Aggregator|phout", src: "docs/eng/config.md",
			cfg: map[string]any{"destination": "./phout.log"}, given: []docWant{{"Destination", "./phout.log"}}},
	}
}

func docCases() []string {
	var out []string
	for i, b := range docBlocks() {
		k := gcase{kind: "dockey", root: b.root, path: "doc#" + strconv.Itoa(i) + "(" + b.src + ")", at: "-", exp: "values",
			want: docWantsTerm("", b.given), cfg: b.cfg}
		out = append(out, k.line())
		if pos := docPos(b); pos != "" {
			// the same block where the documentation shows it: below a pool, named by `type: <documented name>` — a plugin
			// that is no longer registered under the documented name is refused there
			parts := strings.SplitN(b.root, "|", 3)
			blk := cloneMap(b.cfg)
			blk["type"] = parts[2]
			pool := docPool()
			pool[pos] = blk
			c := gcase{kind: "dockey", root: "cli", path: "doc#" + strconv.Itoa(i) + "@" + pos + "(" + b.src + ")", at: "-", exp: "accept",
				cfg: map[string]any{"pools": []any{pool}}}
			out = append(out, c.line())
		}
		if b.base != nil {
			d := gcase{kind: "docdefault", root: b.root, path: "doc#" + strconv.Itoa(i) + "(" + b.src + ")", at: "-", exp: "values",
				want: docWantsTerm("", b.defaults), cfg: b.base}
			out = append(out, d.line())
		}
	}
	return out
}
