package main

// Reflection over the REAL registered plugins and their config types: the schema the Lean model runs on.
//
// schema terms (defaults of the registered default-config constructors are part of the schema):
//
//	bool(d) str(s(d)) int(bits,d) uint(bits,d) float(bits,d) dur(ns)
//	st(f(Name,key,x|u,q|-,v(tag,...),schema),...)       struct; x = settable, q = squash
//	ptr(nil|set,schema) sl(elem,dflt) mp(elem,dflt) any(dflt)
//	pl(iface,i|f,sink|sched|none,nil|set,alts(alt(name,lazy|eager,schema),...),names(n1,...))
//	special(type,repr) opaque(type)
//
// decoded values (observation and defaults):
//
//	b(true) i(n) u(n) d(text) s(text) nil st(Name,v,...) ptr(v) l(v,...) m(k,v,...) any(val) P F sp(repr) x(type)

import (
	"encoding"
	"fmt"
	"net"
	"net/url"
	"reflect"
	"sort"
	"strconv"
	"strings"
	"time"
	"unsafe"

	"github.com/c2h5oh/datasize"
	"github.com/yandex/pandora/core/plugin"
)

var (
	durationType = reflect.TypeOf(time.Duration(0))
	textUnmType  = reflect.TypeOf((*encoding.TextUnmarshaler)(nil)).Elem()
	urlType      = reflect.TypeOf(url.URL{})
	ipType       = reflect.TypeOf(net.IP{})
	sizeType     = reflect.TypeOf(datasize.B)
)

type altInfo struct {
	iface    reflect.Type
	name     string
	confType reflect.Type // struct type (pointer stripped); struct{} when the constructor takes no config
	hasConf  bool
	lazyFac  bool // requested as factory: the config is filled at the factory call, not at decode time
}

var (
	reg      = map[reflect.Type]map[string]*altInfo{}
	regOrder []reflect.Type
)

var errCapture = fmt.Errorf("c17-capture")

// freshDefault: a new default config of the plugin, as the registry hands it to fillConf (pointer to struct)
func freshDefault(iface reflect.Type, name string) reflect.Value {
	var got interface{}
	_, _ = plugin.New(iface, name, func(conf interface{}) error { got = conf; return errCapture })
	if got == nil {
		// the registry did not offer a config to fill (it does, an empty struct, also for a plugin without config)
		return reflect.ValueOf(&struct{}{})
	}
	return reflect.ValueOf(got)
}

func loadRegistry() {
	r := plugin.DefaultRegistry()
	f := reflect.ValueOf(r).Elem().FieldByName("typeToNameReg")
	f = reflect.NewAt(f.Type(), unsafe.Pointer(f.UnsafeAddr())).Elem()
	for _, k := range f.MapKeys() {
		iface := k.Interface().(reflect.Type)
		names := map[string]*altInfo{}
		for _, nk := range f.MapIndex(k).MapKeys() {
			name := nk.String()
			a := &altInfo{iface: iface, name: name}
			d := freshDefault(iface, name)
			a.confType = d.Type().Elem()
			a.hasConf = a.confType.NumField() > 0 || a.confType.Name() != ""
			// lazy? ask the registry for a factory and see whether fillConf ran during NewFactory
			facType := reflect.FuncOf(nil, []reflect.Type{iface, reflect.TypeOf((*error)(nil)).Elem()}, false)
			called := false
			func() {
				defer func() { _ = recover() }()
				_, _ = plugin.NewFactory(facType, name, func(conf interface{}) error { called = true; return errCapture })
			}()
			a.lazyFac = !called
			names[name] = a
		}
		reg[iface] = names
		regOrder = append(regOrder, iface)
	}
	sort.Slice(regOrder, func(i, j int) bool { return regOrder[i].String() < regOrder[j].String() })
}

func altNames(iface reflect.Type) []string {
	var out []string
	for n := range reg[iface] {
		out = append(out, n)
	}
	sort.Strings(out)
	return out
}

// pluginPos: is t a position the plugin hooks fill (registered interface, or factory of one)?
func pluginPos(t reflect.Type) (iface reflect.Type, factory bool, ok bool) {
	if t.Kind() == reflect.Interface {
		if _, ok := reg[t]; ok {
			return t, false, true
		}
		return nil, false, false
	}
	if t.Kind() == reflect.Func && t.NumIn() == 0 && (t.NumOut() == 1 || t.NumOut() == 2) && t.Out(0).Kind() == reflect.Interface {
		if t.NumOut() == 2 && t.Out(1).String() != "error" {
			return nil, false, false
		}
		if _, ok := reg[t.Out(0)]; ok {
			return t.Out(0), true, true
		}
	}
	return nil, false, false
}

func isSpecial(t reflect.Type) bool {
	if t == durationType {
		return false
	}
	if t == urlType || t == ipType || t == sizeType {
		return true
	}
	if t.Kind() == reflect.Ptr && t.Elem() == urlType {
		return true
	}
	if t.Implements(textUnmType) || reflect.PtrTo(t).Implements(textUnmType) {
		return true
	}
	return false
}

func fmtFloat(f float64, bits int) string {
	if f == 0 {
		return "0" // -0 and 0 are one value
	}
	return strconv.FormatFloat(f, 'f', -1, bits)
}

// fieldKey: the mapstructure key of a struct field under TagName "config"
func fieldKey(f reflect.StructField) (key string, squash bool) {
	tag := f.Tag.Get("config")
	parts := strings.Split(tag, ",")
	key = f.Name
	if parts[0] != "" {
		key = parts[0]
	}
	for _, p := range parts[1:] {
		if p == "squash" {
			squash = true
		}
	}
	return
}

func lookupFold(m map[string]any, key string) (any, bool) {
	if v, ok := m[key]; ok {
		return v, true
	}
	for k, v := range m {
		if strings.EqualFold(k, key) {
			return v, true
		}
	}
	return nil, false
}

const sinkIface = "core.DataSink"
const schedIface = "core.Schedule"

// sinkString: what core/import's sinkStringHook makes of a string at a DataSink position
func sinkString(s string) map[string]any {
	for _, k := range []string{"stdout", "stderr", "stdin"} {
		if s == k {
			return map[string]any{"type": k}
		}
	}
	return map[string]any{"type": "file", "path": s}
}

// schemaOf dumps the schema of type t with default value def (may be invalid = zero), pruned to what the
// configuration values cfgs (everything that will be decoded into this position) can reach.
func schemaOf(t reflect.Type, def reflect.Value, cfgs []any) string {
	if !def.IsValid() {
		def = reflect.Zero(t)
	}
	if iface, fac, ok := pluginPos(t); ok {
		return pluginSchema(t, iface, fac, def, cfgs)
	}
	if t == durationType {
		return node("dur", strconv.FormatInt(def.Int(), 10))
	}
	if isSpecial(t) {
		return node("special", enc(t.String()), enc(fmt.Sprintf("%v", safeIface(def))))
	}
	switch t.Kind() {
	case reflect.Bool:
		return node("bool", strconv.FormatBool(def.Bool()))
	case reflect.Int, reflect.Int8, reflect.Int16, reflect.Int32, reflect.Int64:
		return node("int", strconv.Itoa(t.Bits()), strconv.FormatInt(def.Int(), 10))
	case reflect.Uint, reflect.Uint8, reflect.Uint16, reflect.Uint32, reflect.Uint64:
		return node("uint", strconv.Itoa(t.Bits()), strconv.FormatUint(def.Uint(), 10))
	case reflect.Float32, reflect.Float64:
		return node("float", strconv.Itoa(t.Bits()), fmtFloat(def.Float(), t.Bits()))
	case reflect.String:
		return node("str", tstr(def.String()))
	case reflect.Struct:
		var maps []map[string]any
		for _, c := range cfgs {
			if m, ok := c.(map[string]any); ok {
				maps = append(maps, m)
			}
		}
		var fs []string
		for i := 0; i < t.NumField(); i++ {
			f := t.Field(i)
			if f.PkgPath != "" && !f.Anonymous {
				continue // unexported: mapstructure never sets it and its key counts as unused
			}
			key, squash := fieldKey(f)
			fv := def.Field(i)
			var sub []any
			if squash {
				for _, m := range maps {
					sub = append(sub, m)
				}
			} else {
				for _, m := range maps {
					if v, ok := lookupFold(m, key); ok && v != nil {
						sub = append(sub, v)
					}
				}
			}
			settable := "x"
			if f.PkgPath != "" {
				settable = "u"
			}
			sq := "-"
			if squash {
				sq = "q"
			}
			var tags []string
			if vt := f.Tag.Get("validate"); vt != "" {
				for _, p := range strings.Split(vt, ",") {
					tags = append(tags, enc(p))
				}
			}
			fs = append(fs, node("f", enc(f.Name), enc(key), settable, sq, node("v", tags...), schemaOf(f.Type, fv, sub)))
		}
		return node("st", fs...)
	case reflect.Ptr:
		if def.IsNil() {
			if len(cfgs) == 0 {
				return node("ptr", "nil", node("opaque", "pruned"))
			}
			return node("ptr", "nil", schemaOf(t.Elem(), reflect.Value{}, cfgs))
		}
		return node("ptr", "set", schemaOf(t.Elem(), def.Elem(), cfgs))
	case reflect.Slice:
		var sub []any
		for _, c := range cfgs {
			if l, ok := c.([]any); ok {
				for _, e := range l {
					if e != nil {
						sub = append(sub, e)
					}
				}
			}
		}
		el := node("opaque", "pruned")
		if len(sub) > 0 {
			el = schemaOf(t.Elem(), reflect.Value{}, sub)
		}
		return node("sl", el, dval(def))
	case reflect.Map:
		var sub []any
		for _, c := range cfgs {
			if m, ok := c.(map[string]any); ok {
				for _, e := range m {
					if e != nil {
						sub = append(sub, e)
					}
				}
			}
		}
		el := node("opaque", "pruned")
		if len(sub) > 0 {
			el = schemaOf(t.Elem(), reflect.Value{}, sub)
		}
		if t.Key().Kind() != reflect.String {
			return node("opaque", enc(t.String()))
		}
		return node("mp", el, dval(def))
	case reflect.Interface:
		if t.NumMethod() == 0 {
			return node("any", dval(def))
		}
	}
	return node("opaque", enc(t.String()))
}

func pluginSchema(t, iface reflect.Type, fac bool, def reflect.Value, cfgs []any) string {
	hook := "none"
	if iface.String() == sinkIface {
		hook = "sink"
	} else if iface.String() == schedIface {
		hook = "sched"
	}
	byName := map[string][]any{}
	for _, c := range cfgs {
		if s, ok := c.(string); ok && hook == "sink" {
			c = sinkString(s)
		}
		if l, ok := c.([]any); ok && hook == "sched" {
			c = map[string]any{"type": "composite", "nested": l}
		}
		m, ok := c.(map[string]any)
		if !ok {
			continue
		}
		rest := map[string]any{}
		var names []string
		for k, v := range m {
			if strings.EqualFold(k, "type") {
				if s, ok := v.(string); ok {
					names = append(names, s)
				}
				continue
			}
			rest[k] = v
		}
		if len(names) == 1 {
			byName[names[0]] = append(byName[names[0]], rest)
		}
	}
	var sel []string
	for n := range byName {
		if _, ok := reg[iface][n]; ok {
			sel = append(sel, n)
		}
	}
	sort.Strings(sel)
	var alts []string
	for _, n := range sel {
		a := reg[iface][n]
		mode := "eager"
		if fac && a.lazyFac {
			mode = "lazy"
		}
		d := freshDefault(iface, n)
		alts = append(alts, node("alt", enc(n), mode, schemaOf(a.confType, d.Elem(), byName[n])))
	}
	var names []string
	for _, n := range altNames(iface) {
		names = append(names, enc(n))
	}
	kind := "i"
	if fac {
		kind = "f"
	}
	isnil := "nil"
	if (def.Kind() == reflect.Interface || def.Kind() == reflect.Func) && !def.IsNil() {
		isnil = "set"
	}
	return node("pl", enc(iface.String()), kind, hook, isnil, node("alts", alts...), node("names", names...))
}

func safeIface(v reflect.Value) (out any) {
	defer func() {
		if recover() != nil {
			out = "?"
		}
	}()
	if !v.IsValid() {
		return nil
	}
	return v.Interface()
}

// rawVal: a value held by an interface{} position, printed in the configuration-value syntax
func rawVal(v any) string {
	switch x := v.(type) {
	case nil:
		return "n"
	case bool:
		return node("b", strconv.FormatBool(x))
	case int:
		return node("i", strconv.Itoa(x))
	case int64:
		return node("i", strconv.FormatInt(x, 10))
	case uint64:
		return node("i", strconv.FormatUint(x, 10))
	case float64:
		return node("d", fmtFloat(x, 64))
	case string:
		return tstr(x)
	case []any:
		var xs []string
		for _, e := range x {
			xs = append(xs, rawVal(e))
		}
		return node("l", xs...)
	case map[string]any:
		keys := make([]string, 0, len(x))
		for k := range x {
			keys = append(keys, k)
		}
		sort.Strings(keys)
		var xs []string
		for _, k := range keys {
			xs = append(xs, enc(k), rawVal(x[k]))
		}
		return node("m", xs...)
	case map[any]any:
		// a mapping with keys that are no strings: an integer key n is written `#!n`
		byKey := map[string]any{}
		for k, e := range x {
			switch kk := k.(type) {
			case string:
				byKey[kk] = e
			case int:
				byKey["#!"+strconv.Itoa(kk)] = e
			default:
				byKey[fmt.Sprintf("#?%v", k)] = e
			}
		}
		return rawVal(byKey)
	}
	return node("x", enc(fmt.Sprintf("%T", v)))
}

// dval prints a decoded Go value canonically (same shape the Lean model prints)
func dval(v reflect.Value) string {
	t := v.Type()
	if iface, fac, ok := pluginPos(t); ok {
		if v.IsNil() {
			return "nil"
		}
		if iface == probeIface {
			return probeDval(v, fac) // the config every instance received
		}
		if fac {
			return "F"
		}
		return "P"
	}
	if t == durationType {
		return node("i", strconv.FormatInt(v.Int(), 10))
	}
	if isSpecial(t) {
		return node("sp", enc(fmt.Sprintf("%v", safeIface(v))))
	}
	switch t.Kind() {
	case reflect.Bool:
		return node("b", strconv.FormatBool(v.Bool()))
	case reflect.Int, reflect.Int8, reflect.Int16, reflect.Int32, reflect.Int64:
		return node("i", strconv.FormatInt(v.Int(), 10))
	case reflect.Uint, reflect.Uint8, reflect.Uint16, reflect.Uint32, reflect.Uint64:
		return node("u", strconv.FormatUint(v.Uint(), 10))
	case reflect.Float32, reflect.Float64:
		return node("d", fmtFloat(v.Float(), t.Bits()))
	case reflect.String:
		return tstr(v.String())
	case reflect.Struct:
		var xs []string
		for i := 0; i < t.NumField(); i++ {
			f := t.Field(i)
			if f.PkgPath != "" && !f.Anonymous {
				continue
			}
			if _, squash := fieldKey(f); squash && f.Type.Kind() == reflect.Struct && f.PkgPath == "" {
				// squashed: its fields are fields of this struct (the model works on collected fields)
				inner := dval(v.Field(i))
				if inner != "st()" {
					xs = append(xs, strings.TrimSuffix(strings.TrimPrefix(inner, "st("), ")"))
				}
				continue
			}
			xs = append(xs, enc(f.Name), dval(v.Field(i)))
		}
		return node("st", xs...)
	case reflect.Ptr:
		if v.IsNil() {
			return "nil"
		}
		return node("ptr", dval(v.Elem()))
	case reflect.Slice:
		if v.IsNil() {
			return "nil"
		}
		var xs []string
		for i := 0; i < v.Len(); i++ {
			xs = append(xs, dval(v.Index(i)))
		}
		return node("l", xs...)
	case reflect.Map:
		if v.IsNil() {
			return "nil"
		}
		if t.Key().Kind() != reflect.String {
			return node("x", enc(t.String()))
		}
		keys := v.MapKeys()
		sort.Slice(keys, func(i, j int) bool { return keys[i].String() < keys[j].String() })
		var xs []string
		for _, k := range keys {
			xs = append(xs, enc(k.String()), dval(v.MapIndex(k)))
		}
		return node("m", xs...)
	case reflect.Interface:
		if v.IsNil() {
			return "nil"
		}
		if t.NumMethod() == 0 {
			return node("any", rawVal(safeIface(v)))
		}
	}
	return node("x", enc(t.String()))
}
