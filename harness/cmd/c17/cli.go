package main

// The CLI config reader itself: cli.readConfig is unexported and ends the process (zap Fatal) on a bad
// config, so it is reached through a linkname in a child process of this binary (see childMain).

import (
	"math"
	"math/rand"
	_ "unsafe" // go:linkname

	"github.com/spf13/afero"
	"github.com/yandex/pandora/cli"
	grpcimport "github.com/yandex/pandora/components/grpc/import"
	phttpimport "github.com/yandex/pandora/components/phttp/import"
	coreimport "github.com/yandex/pandora/core/import"
)

//go:linkname cliReadConfig github.com/yandex/pandora/cli.readConfig
func cliReadConfig(args []string) *cli.CliConfig

// setupReal: exactly what /repo/main.go does before cli.Run
func setupReal() {
	fs := afero.NewOsFs()
	coreimport.Import(fs)
	phttpimport.Import(fs)
	grpcimport.Import(fs)
}

func basePool() map[string]any {
	return map[string]any{
		"ammo":    map[string]any{"type": "dummy"},
		"result":  map[string]any{"type": "discard"},
		"gun":     map[string]any{"type": "http", "target": "127.0.0.1:8080"},
		"rps":     map[string]any{"type": "once", "times": 1},
		"startup": map[string]any{"type": "once", "times": 1},
	}
}

func cliLine(kind, path, exp string, cfg any, uses bool) string {
	c := gcase{kind: "cli", root: "cli", path: kind + ":" + path, at: "-", exp: exp, cfg: cfg, uses: uses}
	return c.line()
}

func cliCases(r *rand.Rand, tier string) []string {
	var out []string
	pool := func(d any) map[string]any {
		p := basePool()
		if d != "absent" {
			p["discard_overflow"] = d
		}
		return p
	}
	cfgOf := func(ds ...any) map[string]any {
		var ps []any
		for _, d := range ds {
			ps = append(ps, pool(d))
		}
		return map[string]any{"pools": ps}
	}
	out = append(out,
		cliLine("discard", "absent", "disc", cfgOf("absent"), false),
		cliLine("discard", "false", "disc", cfgOf(false), false),
		cliLine("discard", "true", "disc", cfgOf(true), false),
		cliLine("discard", "mixed", "disc", cfgOf("absent", false, "absent", true), false),
		cliLine("discard", "null", "none", cfgOf(nil), false),
		cliLine("discard", "mistyped", "reject", cfgOf("yes"), false),
	)
	// the keys of a configuration file are case-insensitive (viper folds them, also inside the pools list)
	{
		c1 := cfgOf("absent", false)
		c1["POOLS"] = c1["pools"]
		delete(c1, "pools")
		out = append(out, cliLine("discard", "POOLS", "disc", c1, false))
		c2 := cfgOf("absent", "absent")
		p0 := c2["pools"].([]any)[0].(map[string]any)
		p0["Discard_Overflow"] = false
		p1 := c2["pools"].([]any)[1].(map[string]any)
		p1["DISCARD_OVERFLOW"] = true
		c2["Pools"] = c2["pools"]
		delete(c2, "pools")
		out = append(out, cliLine("discard", "Discard_Overflow", "disc", c2, false))
	}
	n := 6
	if tier == "thorough" {
		n = 150
	}
	for i := 0; i < n; i++ {
		k := 1 + r.Intn(4)
		var ds []any
		for j := 0; j < k; j++ {
			ds = append(ds, []any{"absent", "absent", true, false}[r.Intn(4)])
		}
		cfg := cfgOf(ds...)
		if r.Intn(3) == 0 {
			cfg["log"] = map[string]any{"level": "error"}
		}
		out = append(out, cliLine("discard", "random", "disc", cfg, false))
	}
	// unknown keys at several levels, through the CLI reader
	mut := []struct {
		path string
		f    func(c map[string]any)
	}{
		{"/zz_unknown", func(c map[string]any) { c["zz_unknown"] = 1 }},
		{"/pools[0]/zz_unknown", func(c map[string]any) { c["pools"].([]any)[0].(map[string]any)["zz_unknown"] = 1 }},
		{"/pools[0]/gun/zz_unknown", func(c map[string]any) {
			c["pools"].([]any)[0].(map[string]any)["gun"].(map[string]any)["zz_unknown"] = 1
		}},
		{"/pools[0]/gun/auto-tag/zz_unknown", func(c map[string]any) {
			c["pools"].([]any)[0].(map[string]any)["gun"].(map[string]any)["auto-tag"] = map[string]any{"zz_unknown": 1}
		}},
		{"/pools[0]/ammo/zz_unknown", func(c map[string]any) {
			c["pools"].([]any)[0].(map[string]any)["ammo"].(map[string]any)["zz_unknown"] = 1
		}},
		{"/pools[0]/result/zz_unknown", func(c map[string]any) {
			c["pools"].([]any)[0].(map[string]any)["result"].(map[string]any)["zz_unknown"] = 1
		}},
		{"/pools[0]/startup/zz_unknown", func(c map[string]any) {
			c["pools"].([]any)[0].(map[string]any)["startup"].(map[string]any)["zz_unknown"] = 1
		}},
		{"/log/zz_unknown", func(c map[string]any) { c["log"] = map[string]any{"zz_unknown": 1} }},
		{"/monitoring/expvar/zz_unknown", func(c map[string]any) {
			c["monitoring"] = map[string]any{"expvar": map[string]any{"zz_unknown": 1}}
		}},
	}
	for _, m := range mut {
		cfg := cfgOf("absent")
		m.f(cfg)
		out = append(out, cliLine("unknown", m.path, "reject", cfg, false))
	}
	// numbers the option's type cannot hold, as a YAML file gives them (an integer above MaxInt64 arrives as uint64, 1e30 as float64)
	{
		cfg := cfgOf("absent")
		cfg["pools"].([]any)[0].(map[string]any)["gun"].(map[string]any)["dial"] = map[string]any{"timeout": uint64(10000000000000000000)}
		out = append(out, cliLine("number", "/pools[0]/gun/dial/timeout=1e19", "reject", cfg, false))
		cfg2 := cfgOf("absent")
		cfg2["pools"].([]any)[0].(map[string]any)["gun"].(map[string]any)["max-idle-conns"] = 1e30
		out = append(out, cliLine("number", "/pools[0]/gun/max-idle-conns=1e30", "reject", cfg2, false))
		cfg3 := cfgOf("absent")
		cfg3["pools"].([]any)[0].(map[string]any)["gun"].(map[string]any)["max-idle-conns"] = math.MaxInt64
		out = append(out, cliLine("number", "/pools[0]/gun/max-idle-conns=maxint64", "accept", cfg3, false))
	}
	// a key that is no string, as a YAML file can have it
	{
		cfg := cfgOf("absent")
		gun := cfg["pools"].([]any)[0].(map[string]any)["gun"].(map[string]any)
		ik := map[any]any{5: "x"}
		for k, v := range gun {
			ik[k] = v
		}
		cfg["pools"].([]any)[0].(map[string]any)["gun"] = ik
		out = append(out, cliLine("intkey", "/pools[0]/gun/5", "reject", cfg, false))
	}
	// placeholders through the CLI reader
	{
		cfg := cfgOf("absent")
		cfg["pools"].([]any)[0].(map[string]any)["id"] = "${env:C17_STR}"
		cfg["pools"].([]any)[0].(map[string]any)["discard_overflow"] = "${env:C17_FALSE}"
		out = append(out, cliLine("placeholder", "discard_overflow", "none", cfg, true))
		cfg2 := cfgOf("absent")
		cfg2["pools"].([]any)[0].(map[string]any)["id"] = "${env:C17_UNSET}"
		out = append(out, cliLine("placeholder", "unset", "reject", cfg2, true))
	}
	return out
}
