package main

// Running the REAL decoder: core/config.DecodeAndValidate into the real default config of the root, then the first
// call of every plugin factory the decode created (what the engine does when a pool starts).

import (
	"fmt"
	"os"
	"os/exec"
	"path/filepath"
	"reflect"
	"sort"
	"strings"
	"sync"
	"sync/atomic"
	"time"

	"verifharness/drv"

	"github.com/yandex/pandora/cli"
	"github.com/yandex/pandora/core/config"
	"github.com/yandex/pandora/core/plugin"
	"gopkg.in/yaml.v2"
)

func cliDefault() reflect.Value { return reflect.ValueOf(cli.DefaultConfig()) }

// classes: the error text mapped to the small enum the model speaks
func classes(msg string) string {
	set := map[string]bool{}
	has := func(s string) bool { return strings.Contains(msg, s) }
	if has("has invalid keys") {
		set["unused"] = true
	}
	if has("expected type") || has("unconvertible type") || has("expected a map") || has("must be an array or slice") ||
		has("needs a map with string keys") || has("overflows uint") || has("unexpected config type") || has("unexpected key type") ||
		has("number is not an integer") || has("number is out of range") {
		set["type"] = true
	}
	if has("plugin type expected") || has("has non-string value") || has("too many type keys") {
		set["plugintype"] = true
	}
	if has("has been registered for name") || has("no plugins for type") || has("should not be empty") {
		set["pluginname"] = true
	}
	if has("Error:Field validation for") {
		set["validate"] = true
	}
	if has("env variable not set") || has("no such property") || has("cannot open file") || has("property tag should be in format") {
		set["resolve"] = true
	}
	if has("unsupported kind") {
		set["castkind"] = true
	}
	if has("time: invalid duration") || has("time: unknown unit") || has("time: missing unit") {
		set["parse"] = true
	}
	// the text hooks of core/config (url, ip, data size, encoding.TextUnmarshaler): the text is no value of the type
	if has("string is not valid URL") || has("string is not valid IP") || has("invalid IP address") || has("UnmarshalText") || has("unrecognized level") ||
		has("invalid syntax") && has("ByteSize") {
		set["parse"] = true
	}
	if len(set) == 0 {
		if debugMsgs {
			fmt.Fprintln(os.Stderr, "CTOR:", drv.Trunc(drv.Clean(msg), 400))
		}
		// errors of component constructors and of library text parsers (not part of config decoding)
		for _, s := range []string{"cant create ReadSeekCloser", "unknown decoder type", "NewProvider", "unknown time zone",
			"HTTP/2.0 over TCP", "UnmarshalText", "unrecognized level", "decoder init error"} {
			if has(s) {
				return "ctor"
			}
		}
		// round 6: an error the DECODER reports (mapstructure's aggregate "N error(s) decoding:") is a rejection of the
		// configuration whatever its text says — a message this table does not know (a cast error that is no longer
		// recognised and surfaces, mutant W1) must not hide among the constructor errors
		if has("error(s) decoding") {
			return "decode"
		}
		return "other:" + drv.Trunc(drv.Clean(strings.ReplaceAll(msg, " ", "_")), 80)
	}
	ks := make([]string, 0, len(set))
	for k := range set {
		ks = append(ks, k)
	}
	sort.Strings(ks)
	return strings.Join(ks, "+")
}

// force calls every non-nil plugin factory reachable through exported fields (not entering constructed plugins).
func force(v reflect.Value, errs *[]string) {
	t := v.Type()
	if _, fac, ok := pluginPos(t); ok {
		if fac && !v.IsNil() {
			func() {
				defer func() {
					if r := recover(); r != nil {
						*errs = append(*errs, fmt.Sprint(r))
					}
				}()
				out := v.Call(nil)
				if len(out) == 2 && !out[1].IsNil() {
					*errs = append(*errs, out[1].Interface().(error).Error())
				}
			}()
		}
		return
	}
	switch t.Kind() {
	case reflect.Struct:
		if isSpecial(t) {
			return
		}
		for i := 0; i < t.NumField(); i++ {
			if t.Field(i).PkgPath == "" {
				force(v.Field(i), errs)
			}
		}
	case reflect.Ptr:
		if !v.IsNil() && !isSpecial(t) {
			force(v.Elem(), errs)
		}
	case reflect.Slice:
		for i := 0; i < v.Len(); i++ {
			force(v.Index(i), errs)
		}
	}
}

func runDecode(root string, cfg any, skipCtor bool) (obs string) {
	defer func() {
		if r := recover(); r != nil {
			// a panic while a configuration is read is never an acceptable outcome
			msg := fmt.Sprint(r)
			if skipCtor && (strings.Contains(msg, "makechan") || strings.Contains(msg, "makeslice") || strings.Contains(msg, "out of memory")) {
				// a component built from an accepted config with an absurdly large (but representable) size: the
				// constructor's allocation fails; not an outcome of config decoding
				obs = "err=ctor"
				return
			}
			obs = "PANIC " + drv.Trunc(drv.Clean(strings.ReplaceAll(msg, " ", "_")), 120)
		}
	}()
	_, target := rootTarget(root)
	err := config.DecodeAndValidate(cfg, target.Interface())
	if err != nil {
		return "err=" + classes(err.Error())
	}
	if strings.HasPrefix(root, "alt|") && !skipCtor {
		// the registered constructor on the accepted config (what pluginconfig.Hook does next); only a panic matters here
		parts := strings.SplitN(root, "|", 3)
		for _, iface := range regOrder {
			if iface.String() == parts[1] {
				_, _ = plugin.New(iface, parts[2], func(c interface{}) error { return config.DecodeAndValidate(cfg, c) })
			}
		}
	}
	var late []string
	force(target.Elem(), &late)
	if len(late) > 0 {
		return "late=" + classes(strings.Join(late, " ; "))
	}
	return "ok val=" + dval(target.Elem())
}

func setupEnv() {
	_ = os.Unsetenv("C17_UNSET")
	_ = os.MkdirAll(propDir, 0o755)
	_ = os.Remove(filepath.Join(propDir, "absent.properties"))
	applyEnv(envTable)
	ensurePropFile(stdProps.path, stdProps.lines)
}

func applyEnv(m map[string]string) {
	for k, v := range m {
		if strings.HasPrefix(strings.ToUpper(k), "C17_") && k != "C17_UNSET" {
			if cur, ok := os.LookupEnv(k); !ok || cur != v {
				_ = os.Setenv(k, v)
			}
		}
	}
}

var propFilesDone sync.Map

// ensurePropFile writes a properties file named by an input (only below the scratch directory, written once, atomically)
func ensurePropFile(path string, lines []string) {
	if filepath.Dir(path) != propDir || !strings.HasSuffix(path, ".properties") {
		return
	}
	content := strings.Join(lines, "\n") + "\n"
	if len(lines) == 0 {
		content = ""
	}
	if strings.HasSuffix(path, ".nonl.properties") {
		// round 6: a file whose last line has no line terminator (an editor that does not add one, `printf k=v > file`)
		content = strings.TrimSuffix(content, "\n")
	}
	if _, ok := propFilesDone.Load(path + "\x00" + content); ok {
		return
	}
	if cur, err := os.ReadFile(path); err != nil || string(cur) != content {
		tmp := fmt.Sprintf("%s.%d.%d.tmp", path, os.Getpid(), atomic.AddInt64(&cliSeq, 1))
		_ = os.WriteFile(tmp, []byte(content), 0o644)
		_ = os.Rename(tmp, path)
	}
	propFilesDone.Store(path+"\x00"+content, true)
}

// applyInput: the environment variables and properties files an input line names
func applyInput(kv map[string]string) {
	if t, err := parseTerm(kv["env"]); err == nil && t.name == "m" {
		m := map[string]string{}
		for i := 0; i+1 < len(t.args); i += 2 {
			v := ""
			if len(t.args[i+1].args) == 1 {
				v = t.args[i+1].args[0].name
			}
			m[t.args[i].name] = v
		}
		applyEnv(m)
	}
	if t, err := parseTerm(kv["props"]); err == nil && t.name == "m" {
		for i := 0; i+1 < len(t.args); i += 2 {
			f := t.args[i+1]
			if f.name == "m" {
				// older corpus lines give a properties file as a key/value map: m(k,s(v),...)
				var lines []string
				for j := 0; j+1 < len(f.args); j += 2 {
					v := ""
					if len(f.args[j+1].args) == 1 {
						v = f.args[j+1].args[0].name
					}
					lines = append(lines, f.args[j].name+"="+v)
				}
				ensurePropFile(t.args[i].name, lines)
				continue
			}
			if f.name != "l" {
				continue
			}
			var lines []string
			for _, a := range f.args {
				l := ""
				if len(a.args) == 1 {
					l = a.args[0].name
				}
				lines = append(lines, l)
			}
			ensurePropFile(t.args[i].name, lines)
		}
	}
}

// probeMu serialises the cases decoded into the driver's probe plugins: their default config holds a map, and a tree that
// shares one default object between decodes would otherwise end the whole run with "concurrent map writes"
var probeMu sync.Mutex

const oneFlag = "-c17one"

var inChild bool

// runInChild: one input in a process of its own (kind=inst: what an instance is built from must not depend on anything
// this process decoded before — and a failing input must fail again when it is replayed alone)
func runInChild(input string) string {
	name := filepath.Join(propDir, fmt.Sprintf("one-%d-%d.txt", os.Getpid(), atomic.AddInt64(&cliSeq, 1)))
	if err := os.WriteFile(name, []byte(input), 0o644); err != nil {
		return "HARNESSERR " + err.Error()
	}
	defer os.Remove(name)
	exe, _ := os.Executable()
	cmd := exec.Command(exe, oneFlag, name)
	cmd.Dir = propDir
	done := make(chan struct{})
	var out []byte
	go func() { out, _ = cmd.CombinedOutput(); close(done) }()
	select {
	case <-done:
	case <-time.After(30 * time.Second):
		_ = cmd.Process.Kill()
		return "HANG"
	}
	for _, l := range strings.Split(string(out), "\n") {
		if strings.HasPrefix(l, "OBS ") {
			return strings.TrimPrefix(l, "OBS ")
		}
	}
	return "PANIC child:" + drv.Trunc(drv.Clean(strings.ReplaceAll(string(out), " ", "_")), 200)
}

func oneMain(file string) {
	b, err := os.ReadFile(file)
	if err != nil {
		fmt.Println("OBS HARNESSERR " + err.Error())
		os.Exit(0)
	}
	inChild = true
	setup()
	fmt.Println("OBS " + drv.Clean(run(string(b))))
	os.Exit(0)
}

func run(input string) string {
	kv := drv.KV(input)
	if kv["kind"] == "inst" && !inChild {
		return runInChild(input)
	}
	if r := dec(kv["root"]); r == "probe" || strings.HasPrefix(r, "alt|"+probeIface.String()+"|") {
		probeMu.Lock()
		defer probeMu.Unlock()
	}
	cfgT, err := parseTerm(kv["cfg"])
	if err != nil {
		return "BADINPUT " + err.Error()
	}
	cfg, err := termVal(cfgT)
	if err != nil {
		return "BADINPUT " + err.Error()
	}
	root := dec(kv["root"])
	applyInput(kv)
	// the schema the model runs on: dumped from the real types of THIS tree, pruned to what cfg can reach
	t, d := rootTarget(root)
	sch := " sch=" + schemaOf(t, d.Elem(), []any{cfg})
	if kv["kind"] == "cli" {
		return runCli(cfg) + sch
	}
	// numbers at the edge of a type's range: what a component does with an absurdly large size is not config decoding
	first := runDecode(root, cfg, kv["kind"] == "num")
	// the SAME data decoded once more into a fresh target: the outcome is the same (decoding does not consume its input)
	if second := runDecode(root, cfg, true); second != first && !strings.HasPrefix(first, "PANIC") {
		return "UNSTABLE first=" + drv.Trunc(first, 200) + " second=" + drv.Trunc(second, 200) + sch
	}
	return first + sch
}

// ---- the CLI config reader (cli.readConfig), in a child process because it ends the process on a bad config

const childFlag = "-c17child"

var cliSeq int64

func runCli(cfg any) string {
	dir := "/var/tmp/c17-props"
	name := filepath.Join(dir, fmt.Sprintf("cli-%d-%d.yaml", os.Getpid(), atomic.AddInt64(&cliSeq, 1)))
	b, err := yaml.Marshal(cfg)
	if err != nil {
		return "HARNESSERR " + err.Error()
	}
	if err := os.WriteFile(name, b, 0o644); err != nil {
		return "HARNESSERR " + err.Error()
	}
	defer os.Remove(name)
	exe, _ := os.Executable()
	cmd := exec.Command(exe, childFlag, name)
	cmd.Dir = dir
	done := make(chan struct{})
	var out []byte
	go func() { out, _ = cmd.CombinedOutput(); close(done) }()
	select {
	case <-done:
	case <-time.After(30 * time.Second):
		_ = cmd.Process.Kill()
		return "HANG"
	}
	s := string(out)
	for _, l := range strings.Split(s, "\n") {
		if strings.HasPrefix(l, "OBS ") {
			return strings.TrimPrefix(l, "OBS ")
		}
	}
	if strings.Contains(s, "Config decode failed") {
		return "err=" + classes(s)
	}
	if strings.Contains(s, "panic:") {
		return "PANIC " + drv.Trunc(drv.Clean(s), 300)
	}
	return "CHILDFAIL " + drv.Trunc(drv.Clean(s), 300)
}

func childMain(file string) {
	setupReal()
	conf := cliReadConfig([]string{file})
	var ds []string
	for _, p := range conf.Engine.Pools {
		ds = append(ds, fmt.Sprint(p.DiscardOverflow))
	}
	fmt.Println("OBS ok disc=" + strings.Join(ds, ","))
	os.Exit(0)
}

var debugMsgs = os.Getenv("C17_DEBUG") != ""
