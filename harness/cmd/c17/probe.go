package main

// Probe plugins (round 3): components whose only behaviour is to remember the config their constructor received.
//
// They are registered with the REAL registry (core/plugin) under an interface of this driver, one per way the registry
// hands a config to a constructor: struct config with a registered default, pointer config with a registered default,
// struct config without default (zero config), no config at all, and a newFactory-style constructor (the config is
// filled once, when the factory is created).  Decoding a configuration that names them goes through the real hooks
// (pluginconfig.Hook / FactoryHook -> parseConf -> plugin.New / NewFactory -> defaultConfigContainer -> fillConf ->
// config.DecodeAndValidate), and the observation shows what every instance was built from: `P(conf)` for a constructed
// component, `F(conf,conf)` for a factory (two calls).  This makes visible what is invisible with the real components:
// that an instance gets the given options over a FRESH copy of the registered defaults — whatever was decoded into
// another instance of the same plugin before (same configuration, another position; an earlier call of the same factory).

import (
	"fmt"
	"math/rand"
	"reflect"
	"sort"
	"strconv"
	"time"

	"github.com/yandex/pandora/core/plugin"
)

type c17Probe interface {
	c17Conf() reflect.Value // the config the constructor received (a struct value)
}

type probeSub struct {
	Level int    `config:"level" validate:"min=0"`
	Label string `config:"label"`
}

type probeConf struct {
	N     int               `config:"n" validate:"min=0"`
	Name  string            `config:"name"`
	Wait  time.Duration     `config:"wait"`
	On    bool              `config:"on"`
	Ratio float64           `config:"ratio"`
	Tags  map[string]string `config:"tags"`
	Sub   *probeSub         `config:"sub"`
	Inner c17Probe          `config:"inner"`
}

// probeInst keeps what it was given: a struct config by value, a pointer config by pointer (so that a config object
// the registry shares between instances shows)
type probeInst struct {
	byValue probeConf
	byPtr   *probeConf
	none    bool
}

func (p *probeInst) c17Conf() reflect.Value {
	switch {
	case p.none:
		return reflect.ValueOf(struct{}{})
	case p.byPtr != nil:
		return reflect.ValueOf(*p.byPtr)
	}
	return reflect.ValueOf(p.byValue)
}

// the registered default config: a new value at every call (own map, own pointer)
func probeDefault() probeConf {
	return probeConf{N: 5, Name: "dflt", Wait: 2 * time.Second, On: true, Ratio: 1.5,
		Tags: map[string]string{"dk": "dv"}, Sub: &probeSub{Level: 3, Label: "l"}}
}

func probeDefaultPtr() *probeConf {
	c := probeDefault()
	return &c
}

// probeCopy: the config as it was received (own map, own pointer)
func probeCopy(c probeConf) probeConf {
	if c.Tags != nil {
		t := make(map[string]string, len(c.Tags))
		for k, v := range c.Tags {
			t[k] = v
		}
		c.Tags = t
	}
	if c.Sub != nil {
		sub := *c.Sub
		c.Sub = &sub
	}
	return c
}

func probeScribble(c *probeConf) {
	c.N += 1000
	c.Name += "!"
	c.Wait += time.Hour
	c.On = !c.On
	if c.Tags != nil {
		c.Tags["scribbled"] = "x"
	}
	if c.Sub != nil {
		c.Sub.Level += 1000
		c.Sub.Label += "!"
	}
}

var probeIface = reflect.TypeOf((*c17Probe)(nil)).Elem()

func registerProbes() {
	plugin.Register(probeIface, "pstruct", func(conf probeConf) c17Probe { return &probeInst{byValue: conf} }, probeDefault)
	plugin.Register(probeIface, "pptr", func(conf *probeConf) (c17Probe, error) { return &probeInst{byPtr: conf}, nil }, probeDefaultPtr)
	plugin.Register(probeIface, "pzero", func(conf probeConf) c17Probe { return &probeInst{byValue: conf} })
	plugin.Register(probeIface, "pnone", func() c17Probe { return &probeInst{none: true} })
	// round 4: components that, like many real ones, normalise the config they were given IN PLACE after reading it
	// (pointer config; struct config whose map / pointer fields are shared references): an instance built later from a
	// config object the registry hands out a second time would see the scribbling of the earlier instance
	plugin.Register(probeIface, "pmut", func(conf *probeConf) c17Probe {
		inst := &probeInst{byValue: probeCopy(*conf)}
		probeScribble(conf)
		return inst
	}, probeDefaultPtr)
	plugin.Register(probeIface, "pmutv", func(conf probeConf) (c17Probe, error) {
		inst := &probeInst{byValue: probeCopy(conf)}
		probeScribble(&conf)
		return inst, nil
	}, probeDefault)
	// newFactory-style: the config is filled when the factory is created; every call builds from that one config
	plugin.Register(probeIface, "pfac", func(conf probeConf) func() (c17Probe, error) {
		return func() (c17Probe, error) { return &probeInst{byValue: conf}, nil }
	}, probeDefault)
}

// the root the probe cases are decoded into
type probeRoot struct {
	One   c17Probe                 `config:"one"`
	Two   c17Probe                 `config:"two"`
	Make  func() (c17Probe, error) `config:"make"`
	Make1 func() c17Probe          `config:"make1"`
	Slots []probeSlot              `config:"slots"`
}

type probeSlot struct {
	ID  string                   `config:"id"`
	New func() (c17Probe, error) `config:"new"`
}

const probeCalls = 3 // round 4: three calls (right for two, wrong from the third)

// probeDval: what a probe position holds (dval of schema.go calls this for positions of the probe interface)
// nesting of probe instances while one value is printed (probe cases run one at a time, see probeMu): a tree that shares
// config objects between instances can make an instance's config contain the instance itself
var probeDepth int

func probeDval(v reflect.Value, fac bool) (out string) {
	probeDepth++
	defer func() { probeDepth-- }()
	if probeDepth > 6 {
		return node("P", "cycle")
	}
	defer func() {
		if r := recover(); r != nil {
			out = node("F", enc("panic:"+fmt.Sprint(r)))
		}
	}()
	if !fac {
		inst, ok := v.Interface().(c17Probe)
		if !ok {
			return "P"
		}
		return node("P", dval(inst.c17Conf()))
	}
	var xs []string
	for i := 0; i < probeCalls; i++ {
		res := v.Call(nil)
		if len(res) == 2 && !res[1].IsNil() {
			xs = append(xs, enc("err:"+classes(res[1].Interface().(error).Error())))
			continue
		}
		inst, ok := res[0].Interface().(c17Probe)
		if !ok {
			xs = append(xs, "x")
			continue
		}
		xs = append(xs, dval(inst.c17Conf()))
	}
	return node("F", xs...)
}

// ---- cases: the same plugin at several positions of one configuration / several calls of one factory, with the
// expected config of every instance stated from the registered defaults and the given options alone

// probeGiven: a random set of options for one probe block (values differ from the defaults)
func probeGiven(r *rand.Rand, i int) map[string]any {
	m := map[string]any{}
	if r.Intn(2) == 0 {
		m["n"] = 10 + i
	}
	if r.Intn(2) == 0 {
		m["name"] = "given" + strconv.Itoa(i)
	}
	if r.Intn(3) == 0 {
		m["wait"] = strconv.Itoa(3+i) + "s"
	}
	if r.Intn(3) == 0 {
		m["on"] = false
	}
	if r.Intn(3) == 0 {
		m["tags"] = map[string]any{"k" + strconv.Itoa(i): "v" + strconv.Itoa(i)}
	}
	if r.Intn(3) == 0 {
		m["sub"] = map[string]any{"level": 20 + i}
	}
	return m
}

type probeWant struct{ at, want string }

// probeWants: the fields of the config an instance of plugin `name` must have received for the given options
func probeWants(prefix, name string, given map[string]any) []probeWant {
	if name == "pnone" {
		return nil
	}
	zero := name == "pzero"
	pick := func(key string, dflt, zeroV any) any {
		if v, ok := given[key]; ok {
			return v
		}
		if zero {
			return zeroV
		}
		return dflt
	}
	var out []probeWant
	out = append(out, probeWant{prefix + ".N", node("i", strconv.Itoa(pick("n", 5, 0).(int)))})
	out = append(out, probeWant{prefix + ".Name", tstr(pick("name", "dflt", "").(string))})
	wait := map[bool]int64{false: 2000000000, true: 0}[zero]
	if w, ok := given["wait"].(string); ok {
		d, _ := time.ParseDuration(w)
		wait = int64(d)
	}
	out = append(out, probeWant{prefix + ".Wait", node("i", strconv.FormatInt(wait, 10))})
	out = append(out, probeWant{prefix + ".On", node("b", strconv.FormatBool(pick("on", true, false).(bool)))})
	// the map option is merged into the default map (ZeroFields is off): the default entry stays, the given ones are added
	tags := map[string]string{}
	if !zero {
		tags["dk"] = "dv"
	}
	if g, ok := given["tags"].(map[string]any); ok {
		for k, v := range g {
			tags[k] = v.(string)
		}
	}
	if len(tags) > 0 {
		keys := make([]string, 0, len(tags))
		for k := range tags {
			keys = append(keys, k)
		}
		sort.Strings(keys)
		var xs []string
		for _, k := range keys {
			xs = append(xs, enc(k), tstr(tags[k]))
		}
		out = append(out, probeWant{prefix + ".Tags", node("m", xs...)})
	} else {
		out = append(out, probeWant{prefix + ".Tags", "nil"})
	}
	// the pointer option: given fields over the default's fields
	if g, ok := given["sub"].(map[string]any); ok {
		label := "l"
		if zero {
			label = ""
		}
		out = append(out, probeWant{prefix + ".Sub.Level", node("i", strconv.Itoa(g["level"].(int)))})
		out = append(out, probeWant{prefix + ".Sub.Label", tstr(label)})
	} else if !zero {
		out = append(out, probeWant{prefix + ".Sub.Level", node("i", "3")})
		out = append(out, probeWant{prefix + ".Sub.Label", tstr("l")})
	} else {
		out = append(out, probeWant{prefix + ".Sub", "nil"})
	}
	return out
}

func wantsTerm(ws []probeWant) string {
	var xs []string
	for _, w := range ws {
		xs = append(xs, node("p", enc(w.at), w.want))
	}
	return node("l", xs...)
}

func probeBlock(name string, given map[string]any) map[string]any {
	m := cloneMap(given)
	m["type"] = name
	return m
}

var probeNames = []string{"pstruct", "pptr", "pzero", "pnone", "pfac", "pmut", "pmutv"}

func instCases(r *rand.Rand, tier string) []gcase {
	var out []gcase
	add := func(label string, cfg map[string]any, ws []probeWant) {
		out = append(out, gcase{kind: "inst", root: "probe", path: label, at: "-", exp: "values", want: wantsTerm(ws), cfg: cfg})
	}
	// the same plugin at two positions: the second names the plugin and nothing else — it is built from the defaults,
	// whatever the first was given
	for _, name := range probeNames {
		g := map[string]any{"n": 9, "name": "first", "tags": map[string]any{"a": "b"}, "sub": map[string]any{"level": 7}, "on": false, "wait": "9s"}
		if name == "pnone" {
			g = map[string]any{}
		}
		cfg := map[string]any{"one": probeBlock(name, g), "two": probeBlock(name, nil)}
		add("two-positions("+name+")", cfg, append(probeWants("One", name, g), probeWants("Two", name, nil)...))
		// a factory: every call builds from the given options over fresh defaults
		cfg2 := map[string]any{"make": probeBlock(name, g)}
		ws := append(probeWants("Make.#0", name, g), probeWants("Make.#1", name, g)...)
		ws = append(ws, probeWants("Make.#2", name, g)...)
		add("factory-calls("+name+")", cfg2, ws)
		cfg3 := map[string]any{"one": probeBlock(name, g), "make": probeBlock(name, nil), "make1": probeBlock(name, nil)}
		ws3 := append(probeWants("Make.#0", name, nil), probeWants("Make.#1", name, nil)...)
		ws3 = append(ws3, probeWants("Make1.#1", name, nil)...)
		ws3 = append(ws3, probeWants("Make1.#2", name, nil)...)
		add("factory-after-instance("+name+")", cfg3, append(ws3, probeWants("One", name, g)...))
		// a list of slots, every one with its own factory of the same plugin
		g2 := map[string]any{"name": "third"}
		if name == "pnone" {
			g2 = map[string]any{}
		}
		cfg4 := map[string]any{"slots": []any{
			map[string]any{"id": "a", "new": probeBlock(name, g)},
			map[string]any{"id": "b", "new": probeBlock(name, nil)},
			map[string]any{"id": "c", "new": probeBlock(name, g2)},
		}}
		ws4 := append(probeWants("Slots.#0.New.#1", name, g), probeWants("Slots.#1.New.#0", name, nil)...)
		ws4 = append(ws4, probeWants("Slots.#1.New.#1", name, nil)...)
		ws4 = append(ws4, probeWants("Slots.#2.New.#1", name, g2)...)
		ws4 = append(ws4, probeWants("Slots.#0.New.#2", name, g)...)
		add("slots("+name+")", cfg4, ws4)
		// a nested instance of the same plugin inside the config of the outer one
		if name != "pnone" {
			inner := map[string]any{"n": 77}
			g5 := cloneMap(g)
			g5["inner"] = probeBlock(name, inner)
			cfg5 := map[string]any{"one": probeBlock(name, g5), "two": probeBlock(name, nil)}
			ws5 := append(probeWants("One", name, g), probeWants("One.Inner", name, inner)...)
			add("nested("+name+")", cfg5, append(ws5, probeWants("Two", name, nil)...))
		}
	}
	// random: a random plugin with random options at every position
	n := 30
	if tier == "thorough" {
		n = 1500
	}
	for i := 0; i < n; i++ {
		cfg := map[string]any{}
		var ws []probeWant
		pickName := func() string { return probeNames[r.Intn(len(probeNames))] }
		same := pickName()
		nameFor := func() string {
			if r.Intn(3) != 0 {
				return same // mostly the same plugin everywhere: instances of one plugin must not see each other
			}
			return pickName()
		}
		k := 0
		giv := func(name string) map[string]any {
			k++
			if name == "pnone" {
				return map[string]any{}
			}
			return probeGiven(r, k)
		}
		if r.Intn(4) != 0 {
			nm := nameFor()
			g := giv(nm)
			cfg["one"] = probeBlock(nm, g)
			ws = append(ws, probeWants("One", nm, g)...)
		}
		if r.Intn(4) != 0 {
			nm := nameFor()
			g := giv(nm)
			cfg["two"] = probeBlock(nm, g)
			ws = append(ws, probeWants("Two", nm, g)...)
		}
		if r.Intn(3) != 0 {
			nm := nameFor()
			g := giv(nm)
			cfg["make"] = probeBlock(nm, g)
			ws = append(ws, probeWants("Make.#0", nm, g)...)
			ws = append(ws, probeWants("Make.#1", nm, g)...)
		}
		if r.Intn(3) == 0 {
			nm := nameFor()
			g := giv(nm)
			cfg["make1"] = probeBlock(nm, g)
			ws = append(ws, probeWants("Make1.#1", nm, g)...)
		}
		if r.Intn(2) == 0 {
			var slots []any
			for j, m := 0, 1+r.Intn(3); j < m; j++ {
				nm := nameFor()
				g := giv(nm)
				slots = append(slots, map[string]any{"new": probeBlock(nm, g)})
				ws = append(ws, probeWants(fmt.Sprintf("Slots.#%d.New.#%d", j, r.Intn(probeCalls)), nm, g)...)
			}
			cfg["slots"] = slots
		}
		add(fmt.Sprintf("random%d", i), cfg, ws)
	}
	return out
}
