package main

// Term syntax shared with lean/Pandora/Drv/C17.lean:
//
//	term := atom | atom '(' ')' | atom '(' term {',' term} ')'
//	atom := percent-encoded text; only [A-Za-z0-9_./:#${}@+*=\[\]-] stay literal
//
// No spaces, no TABs: a term is one k=v token of the line protocol.

import (
	"fmt"
	"strings"
)

func enc(s string) string {
	var b strings.Builder
	for i := 0; i < len(s); i++ {
		c := s[i]
		switch {
		case c >= 'a' && c <= 'z', c >= 'A' && c <= 'Z', c >= '0' && c <= '9':
			b.WriteByte(c)
		case strings.IndexByte("_./:#${}@+*=[]-", c) >= 0:
			b.WriteByte(c)
		default:
			fmt.Fprintf(&b, "%%%02X", c)
		}
	}
	return b.String()
}

func dec(s string) string {
	var b strings.Builder
	for i := 0; i < len(s); i++ {
		if s[i] == '%' && i+2 < len(s) {
			var v int
			if _, err := fmt.Sscanf(s[i+1:i+3], "%02X", &v); err == nil {
				b.WriteByte(byte(v))
				i += 2
				continue
			}
		}
		b.WriteByte(s[i])
	}
	return b.String()
}

func node(name string, args ...string) string {
	return name + "(" + strings.Join(args, ",") + ")"
}

// tstr: a string literal term s(<enc>); the empty string is s()
func tstr(s string) string {
	if s == "" {
		return "s()"
	}
	return "s(" + enc(s) + ")"
}

// ---- a tiny parser (used to read corpus / replay inputs back into Go values)

type term struct {
	name string
	args []term
}

func parseTerm(s string) (term, error) {
	p := &tparser{s: s}
	t, err := p.term()
	if err != nil {
		return t, err
	}
	if p.i != len(s) {
		return t, fmt.Errorf("trailing text at %d", p.i)
	}
	return t, nil
}

type tparser struct {
	s string
	i int
}

func (p *tparser) term() (term, error) {
	st := p.i
	for p.i < len(p.s) && strings.IndexByte("(),", p.s[p.i]) < 0 {
		p.i++
	}
	t := term{name: dec(p.s[st:p.i])}
	if p.i < len(p.s) && p.s[p.i] == '(' {
		p.i++
		if p.i < len(p.s) && p.s[p.i] == ')' {
			p.i++
			return t, nil
		}
		for {
			a, err := p.term()
			if err != nil {
				return t, err
			}
			t.args = append(t.args, a)
			if p.i >= len(p.s) {
				return t, fmt.Errorf("unterminated")
			}
			if p.s[p.i] == ',' {
				p.i++
				continue
			}
			if p.s[p.i] == ')' {
				p.i++
				return t, nil
			}
			return t, fmt.Errorf("unexpected %q at %d", p.s[p.i], p.i)
		}
	}
	return t, nil
}
