package main

// C17 — correspondence driver for configuration decoding.
//
// Everything the real binary registers (core/import, components/phttp/import, components/grpc/import — the three
// Import calls of /repo/main.go) is registered here; the plugin registry is then walked by reflection: every
// registered plugin of every plugin interface, its config type and its default config, and every struct position
// reachable from them and from cli.CliConfig.  For every position: one unknown key and one misspelled key; for
// every field: one mistyped value, one out-of-range value per `validate:` tag, an explicit null, a valid
// non-default value, and placeholders (${env:…} set / unset, ${property:file#key} present / missing key / missing
// file) per field kind.  The outcome of the REAL config.DecodeAndValidate (+ first call of the created factories),
// and of the REAL cli.readConfig in a child process, is the observation.
//
// input : kind=… root=cli|alt|<iface>|<name> path=… exp=reject|accept|value|cast|disc|none at=<Go field path> fk=<kind>
//         raw=s(text) want=<value> env=m(…) props=m(file,m(…)) cfg=<value>
// obs   : (err=<classes> | late=<classes> | ok val=<decoded value> | ok disc=<bool,…> (cli)) sch=<schema>
//         sch = the schema the model runs on, dumped by reflection from the real types of the tree under test

import (
	"fmt"
	"math/rand"
	"os"
	"reflect"
	"strings"
	"time"

	"verifharness/drv"

	"github.com/spf13/afero"
	"github.com/yandex/pandora/cli"
	grpcimport "github.com/yandex/pandora/components/grpc/import"
	phttpimport "github.com/yandex/pandora/components/phttp/import"
	coreimport "github.com/yandex/pandora/core/import"
)

func setup() {
	fs := afero.NewMemMapFs() // in-process: files named by configs (phout destination, file sinks) stay in memory
	// the ammo files the documented example blocks name (docopts.go): constructors that look at the file find one
	// (only the http/json decoder looks into the file when it is made: a JSON line serves all three documented formats)
	_ = afero.WriteFile(fs, "./ammo.uri", []byte("/\n"), 0o644)
	_ = afero.WriteFile(fs, "./ammofile", []byte(`{"host": "h", "method": "GET", "uri": "/"}`+"\n"), 0o644)
	coreimport.Import(fs)
	phttpimport.Import(fs)
	grpcimport.Import(fs)
	registerProbes()
	loadRegistry()
	setupEnv()
	// constructors create files named by the configs (answ.log …): keep them in the scratch directory
	_ = os.Chdir("/var/tmp/c17-props")
}

func class(input, obs string) string {
	kv := drv.KV(input)
	root := dec(kv["root"])
	if i := strings.Index(root, "|"); i >= 0 {
		root = "alt"
	}
	o := obs
	if i := strings.IndexAny(o, " "); i >= 0 {
		o = o[:i]
	}
	if strings.HasPrefix(o, "err=") || strings.HasPrefix(o, "late=") {
		o = o[:strings.Index(o, "=")]
	}
	return kv["kind"] + "/" + root + "/" + o
}

func main() {
	if len(os.Args) > 2 && os.Args[1] == childFlag {
		childMain(os.Args[2])
		return
	}
	if len(os.Args) > 2 && os.Args[1] == oneFlag {
		oneMain(os.Args[2])
		return
	}
	setup()
	if len(os.Args) > 1 && os.Args[1] == "-dump" {
		for _, iface := range regOrder {
			for _, n := range altNames(iface) {
				a := reg[iface][n]
				d := freshDefault(iface, n)
				fmt.Printf("%s %s lazy=%v conf=%s\n  %s\n", iface, n, a.lazyFac, a.confType, schemaOf(a.confType, d.Elem(), nil))
			}
		}
		c := cli.DefaultConfig()
		fmt.Printf("ROOT %s\n", schemaOf(reflect.TypeOf(*c), reflect.ValueOf(c).Elem(), nil))
		return
	}
	drv.Main(&drv.Prop{
		ID:      "C17",
		Gen:     func(r *rand.Rand, tier string) []string { return genCases(r, tier) },
		Run:     run,
		Class:   class,
		Workers: 16,
		Timeout: 40 * time.Second,
		Rule: "reflection walk over every config struct reachable from cli.CliConfig and from the config type of every plugin " +
			"registered by core/import, phttp/import and grpc/import; per struct position one unknown and one misspelled key, a required option left out; " +
			"per plugin position a block that only names the plugin (every registered plugin), TYPE in another case, two type keys, a non-string type; per field " +
			"one mistyped value, a fractional number for an integer, one out-of-range value per constraint (constraints = validate tags of the tree " +
			"united with the snapshot docTags) and the bound itself, null, a valid value, and env/property placeholders " +
			"(set, unset, missing key, missing file, upper-case tag type, blanks, several in one string, negative / too wide / non-literal text) by field kind; " +
			"the standard properties file surrounds every key with prefix / suffix / case / blank decoys; the same walk over a synthetic struct with the kinds no " +
			"component uses (narrow integers, float32, maps of structs, interface{}) plus boundary literals per kind through generated variables and " +
			"generated properties files (keys that are prefixes of one another, comments, duplicates); random combinations of 2-4 " +
			"of these mutations (outcome compared with the model, no demand); random VALID configurations of every root (random plugin per position, " +
			"random optional fields, nested) with one unknown / misspelled key at every struct position and a mistyped value / unresolvable placeholder / null " +
			"at every scalar of each; cli.readConfig in a child process for discard_overflow and unknown keys; " +
			"per constraint the values next to its bounds (exp=meets: the Spec derives accept / reject from tags + value): endpoint = 18 host forms x 19 port forms " +
			"(host-less ':port', signs, leading zeros, words, blanks, brackets, IPv6) + malformed host:port texts, url-path, min-time / max-time / min one step below, at and above " +
			"the bound as text and as number, min-size / max-size on a data-size field, clearly valid / invalid texts of the url / ip / size / log-level text types; " +
			"an infinity / NaN for an integer option; base-0 integer literals (0x, 0o, 0b, octal, underscores) and float exponents through placeholders; property values with " +
			"blanks; resolved values that contain placeholder text; " +
			"a case is non-trivial when it carries a mutation (everything but kind=base / rbase)",
	})
}
