package main

// Case generation: a type-level walk over every config struct reachable from a root
// (cli.CliConfig, or the config type of one registered plugin), exhaustive over paths.

import (
	"crypto/sha1"
	"fmt"
	"math"
	"math/rand"
	"net"
	"net/url"
	"reflect"
	"sort"
	"strconv"
	"strings"
	"time"

	"github.com/c2h5oh/datasize"
)

const propDir = "/var/tmp/c17-props"

// environment variables the placeholder cases use. Every input line carries the variables it needs (env=m(...)); the
// driver sets them before it decodes (names are fixed per value: a name never has two values, so parallel cases
// cannot disturb each other). C17_UNSET is never set.
var envTable = map[string]string{
	"C17_STR":   "hello",
	"C17_INT":   "42",
	"C17_NEG":   "-1",
	"C17_FLOAT": "2.5",
	"C17_TRUE":  "true",
	"C17_FALSE": "false",
	"C17_DUR":   "7s",
	"C17_EP":    "127.0.0.3:7070",
	"C17_BIG":   "99999999999999999999",
	"C17_EMPTY": "",
	"C17_300":   "300",
	// values that contain placeholder text themselves (ResolveCustomTags substitutes tag by tag on the string built so far)
	"C17_RE1":    "${env:C17_STR}",
	"C17_RE2":    "x${C17_INT}y",
	"C17_RE3":    "${env:C17_RE3}",
	"C17_DOLLAR": "a$b${",
}

// the keys of the standard properties file and their values
var propTable = map[string]string{
	"str": "hello", "int": "42", "neg": "-1", "float": "2.5", "true": "true", "false": "false", "dur": "7s", "ep": "127.0.0.3:7070",
}

// a decoy value of the same kind (accepted silently by the target field if the wrong line is taken)
var propDecoy = map[string]string{
	"str": "decoy", "int": "1000", "neg": "-7", "float": "9.25", "true": "false", "false": "true", "dur": "9s", "ep": "127.0.0.9:9999",
}

// a properties file: its lines in file order. The path is derived from the content, the driver writes the file when
// an input names it (props=m(path,l(s(line),...))).
type propFileT struct {
	path  string
	lines []string
}

func mkPropFile(lines []string) propFileT {
	h := sha1.Sum([]byte(strings.Join(lines, "\n")))
	return propFileT{path: fmt.Sprintf("%s/p-%x.properties", propDir, h[:6]), lines: lines}
}

// stdProps: every key is surrounded by lines that a sloppy lookup would take instead: a longer key with the same
// prefix / suffix, another letter case, blanks around the key, the bare key without `=`, a later duplicate.
// Only the line `key=value` (text before the FIRST `=` equal to the key, first such line) is the property.
var stdProps = func() propFileT {
	lines := []string{"# written by the C17 driver", "", "nosuch_key=1", "xnosuch=2", "NOSUCH=3", " nosuch =4", "nosuch"}
	for _, k := range sortedKeys(propTable) {
		d := propDecoy[k]
		lines = append(lines,
			k+"_max="+d, "x"+k+"="+d, strings.ToUpper(k)+"="+d, " "+k+" ="+d, k, k+" ="+d, " "+k+"="+d,
			k+"="+propTable[k],
			k+"="+d)
	}
	lines = append(lines, "eq=a=b", "=novalue-key", "empty=")
	return mkPropFile(lines)
}()

var propFile = stdProps.path

// refLookup: the property `key` of a file per docs/eng/config.md (`MY_FIELD=data`): the first line whose text before
// the first `=` is exactly the key
func refLookup(lines []string, key string) (string, bool) {
	for _, l := range lines {
		// a piece that ends in \r is a line of a file saved with CRLF line ends: its text is what stands before the \r\n
		l = strings.TrimSuffix(l, "\r")
		i := strings.IndexByte(l, '=')
		if i < 0 {
			continue
		}
		if l[:i] == key {
			return l[i+1:], true
		}
	}
	return "", false
}

func sortedKeys(m map[string]string) []string {
	ks := make([]string, 0, len(m))
	for k := range m {
		ks = append(ks, k)
	}
	sort.Strings(ks)
	return ks
}

func envTermOf2(all map[string]string) string {
	var xs []string
	for _, k := range sortedKeys(all) {
		xs = append(xs, enc(k), tstr(all[k]))
	}
	return node("m", xs...)
}

func propsTermOf(files []propFileT) string {
	var xs []string
	for _, f := range files {
		var ls []string
		for _, l := range f.lines {
			ls = append(ls, tstr(l))
		}
		xs = append(xs, enc(f.path), node("l", ls...))
	}
	return node("m", xs...)
}

// envName: the variable that holds a generated value (one name per value)
func envName(val string) string {
	h := sha1.Sum([]byte(val))
	return fmt.Sprintf("C17_R_%X", h[:5])
}

// ---- configuration values

func valTerm(v any) string { return rawVal(v) }

func termVal(t term) (any, error) {
	switch t.name {
	case "n":
		return nil, nil
	case "b":
		return len(t.args) == 1 && t.args[0].name == "true", nil
	case "i":
		if len(t.args) != 1 {
			return nil, fmt.Errorf("bad i")
		}
		// what a YAML parser hands over: an int, or a uint64 when the number is above the int64 range
		if n, err := strconv.ParseInt(t.args[0].name, 10, 64); err == nil {
			return int(n), nil
		}
		u, err := strconv.ParseUint(t.args[0].name, 10, 64)
		return u, err
	case "d":
		if len(t.args) != 1 {
			return nil, fmt.Errorf("bad d")
		}
		return strconv.ParseFloat(t.args[0].name, 64)
	case "s":
		if len(t.args) == 0 {
			return "", nil
		}
		return t.args[0].name, nil
	case "l":
		out := []any{}
		for _, a := range t.args {
			v, err := termVal(a)
			if err != nil {
				return nil, err
			}
			out = append(out, v)
		}
		return out, nil
	case "m":
		out := map[string]any{}
		if len(t.args)%2 != 0 {
			return nil, fmt.Errorf("odd map")
		}
		var intKeys map[any]any // a key written `#!n` is the INTEGER n (a YAML mapping may have such keys)
		for i := 0; i < len(t.args); i += 2 {
			v, err := termVal(t.args[i+1])
			if err != nil {
				return nil, err
			}
			if k := t.args[i].name; strings.HasPrefix(k, "#!") {
				n, err := strconv.Atoi(k[2:])
				if err != nil {
					return nil, err
				}
				if intKeys == nil {
					intKeys = map[any]any{}
				}
				intKeys[n] = v
				continue
			}
			out[t.args[i].name] = v
		}
		if intKeys != nil {
			for k, v := range out {
				intKeys[k] = v
			}
			return intKeys, nil
		}
		return out, nil
	}
	return nil, fmt.Errorf("unknown value term %q", t.name)
}

func cloneMap(m map[string]any) map[string]any {
	out := make(map[string]any, len(m)+1)
	for k, v := range m {
		out[k] = v
	}
	return out
}

// ---- valid base configurations

type flatField struct {
	owner reflect.Type // the struct type that declares the field
	sf    reflect.StructField
	key   string
	def   reflect.Value
	names []string // Go field names from the enclosing struct (through squashed structs): value lookup path
}

func flatFields(t reflect.Type, def reflect.Value) []flatField {
	var out []flatField
	for i := 0; i < t.NumField(); i++ {
		f := t.Field(i)
		if f.PkgPath != "" {
			continue
		}
		key, squash := fieldKey(f)
		var dv reflect.Value
		if def.IsValid() {
			dv = def.Field(i)
		} else {
			dv = reflect.Zero(f.Type)
		}
		if squash && f.Type.Kind() == reflect.Struct {
			out = append(out, flatFields(f.Type, dv)...)
			continue
		}
		out = append(out, flatField{owner: t, sf: f, key: key, def: dv, names: []string{f.Name}})
	}
	return out
}

// vtags: the constraints of a field: the `validate` tag of the tree under test, plus whatever the snapshot docTags
// lists for it and the tree no longer has
func vtags(owner reflect.Type, f reflect.StructField) []string {
	var out []string
	if vt := f.Tag.Get("validate"); vt != "" {
		out = strings.Split(vt, ",")
	}
	if owner != nil {
		key := strings.TrimPrefix(owner.PkgPath(), "github.com/yandex/pandora/") + "." + owner.Name() + "." + f.Name
		if doc, ok := docTags[key]; ok {
			for _, d := range strings.Split(doc, ",") {
				have := false
				for _, o := range out {
					have = have || o == d
				}
				if !have {
					out = append(out, d)
				}
			}
		}
	}
	return out
}

func stringFor(key string, tags []string) string {
	for _, t := range tags {
		if t == "endpoint" {
			return "127.0.0.1:8080"
		}
		if t == "url-path" {
			return "/a/b"
		}
		if strings.HasPrefix(t, "eq=") {
			return strings.SplitN(strings.TrimPrefix(t, "eq="), "|", 2)[0]
		}
	}
	switch strings.ToLower(key) {
	case "target":
		return "127.0.0.1:8080"
	case "path", "file", "destination":
		return "/var/tmp/c17-props/data.txt"
	}
	return "x"
}

func basePlugin(iface reflect.Type) any {
	switch iface.String() {
	case "core.Provider":
		return map[string]any{"type": "dummy"}
	case "core.Aggregator":
		return map[string]any{"type": "discard"}
	case "core.Gun":
		return map[string]any{"type": "http", "target": "127.0.0.1:8080"}
	case "core.Schedule":
		return map[string]any{"type": "once", "times": 1}
	case "core.DataSource":
		return map[string]any{"type": "inline", "data": "x"}
	case "core.DataSink":
		return map[string]any{"type": "stdout"}
	}
	names := altNames(iface)
	return map[string]any{"type": names[0]}
}

// baseFor: the keys a struct needs so that decoding + validation succeeds (required fields, minimums)
func baseFor(t reflect.Type, def reflect.Value) map[string]any {
	out := map[string]any{}
	for _, f := range flatFields(t, def) {
		tags := vtags(f.owner, f.sf)
		ft := f.sf.Type
		for _, tag := range tags {
			switch {
			case tag == "required":
				if !f.def.IsZero() {
					continue
				}
				if iface, _, ok := pluginPos(ft); ok {
					out[f.key] = basePlugin(iface)
					continue
				}
				switch ft.Kind() {
				case reflect.String:
					out[f.key] = stringFor(f.key, tags)
				case reflect.Bool:
					out[f.key] = true
				case reflect.Int, reflect.Int8, reflect.Int16, reflect.Int32, reflect.Int64, reflect.Uint, reflect.Uint8, reflect.Uint16, reflect.Uint32, reflect.Uint64:
					out[f.key] = 1
				case reflect.Float32, reflect.Float64:
					out[f.key] = 1.5
				case reflect.Slice:
					if ft.Elem().Kind() == reflect.Struct {
						out[f.key] = []any{baseFor(ft.Elem(), reflect.Value{})}
					} else {
						out[f.key] = []any{"x"}
					}
				}
			case strings.HasPrefix(tag, "min="):
				n, _ := strconv.Atoi(strings.TrimPrefix(tag, "min="))
				switch ft.Kind() {
				case reflect.Int, reflect.Int8, reflect.Int16, reflect.Int32, reflect.Int64:
					if f.def.Int() < int64(n) {
						out[f.key] = n
					}
				case reflect.Float32, reflect.Float64:
					if f.def.Float() < float64(n) {
						out[f.key] = n
					}
				}
			case strings.HasPrefix(tag, "min-time="):
				if ft == durationType && f.def.Int() < int64(1e6) {
					out[f.key] = "1s"
				}
			case tag == "endpoint":
				if f.def.String() == "" {
					out[f.key] = "127.0.0.1:8080"
				}
			}
		}
	}
	return out
}

// ---- the walk

type gcase struct {
	kind string // unknown | misspelled | mistyped | oor | valid | null | base | ph-… | plugin-…
	root string
	path string
	at   string // Go field names from the root to the field whose value is checked ("-" = not visible)
	fk   string // kind of that field: bool str int:64 uint:64 float:64 dur
	raw  string // placeholder cases: the text the resolver returns
	want string // expected decoded value (valid / null / base); exp=meets: the value the field is given
	tags string // exp=meets: the field's constraints, v(tag,...)
	exp  string // reject | accept | value | cast | meets
	cfg  any
	uses bool // cfg contains a placeholder
	env  map[string]string // generated variables the case needs besides envTable
	files []propFileT      // properties files the case needs besides the standard one
}

type walker struct {
	dupPath   map[string]bool // field paths whose key is shared by two fields of the struct (both are decoded from it)
	root      string
	rootType  reflect.Type
	maxPlugin int
	out       []gcase
}

func (w *walker) add(c gcase) {
	c.root = w.root
	w.out = append(w.out, c)
}

func joinAt(vis []string, names []string) string {
	if vis == nil {
		return "-"
	}
	all := append(append([]string{}, vis...), names...)
	if len(all) == 0 {
		return "."
	}
	return strings.Join(all, ".")
}

func kindName(t reflect.Type) string {
	if t == durationType {
		return "dur"
	}
	switch t.Kind() {
	case reflect.Bool:
		return "bool"
	case reflect.String:
		return "str"
	case reflect.Int, reflect.Int8, reflect.Int16, reflect.Int32, reflect.Int64:
		return "int:" + strconv.Itoa(t.Bits())
	case reflect.Uint, reflect.Uint8, reflect.Uint16, reflect.Uint32, reflect.Uint64:
		return "uint:" + strconv.Itoa(t.Bits())
	case reflect.Float32, reflect.Float64:
		return "float:" + strconv.Itoa(t.Bits())
	}
	return ""
}

func hasTag(tags []string, prefix string) (string, bool) {
	for _, t := range tags {
		if t == prefix || strings.HasPrefix(t, prefix+"=") {
			return strings.TrimPrefix(strings.TrimPrefix(t, prefix), "="), true
		}
	}
	return "", false
}

// walkStruct: position = a struct decoded from a map. wrap builds the root configuration from the map at this position.
func (w *walker) walkStruct(path string, t reflect.Type, def reflect.Value, wrap func(map[string]any) any, vis []string, pdepth int) {
	base := baseFor(t, def)
	fields := flatFields(t, def)

	// the base itself: defaults kept
	if path == "" {
		want := ""
		if vis != nil {
			want = "*"
		}
		w.add(gcase{kind: "base", path: ".", at: joinAt(vis, nil), exp: "accept", cfg: wrap(cloneMap(base)), want: want})
	}
	// unknown key, misspelled key
	m := cloneMap(base)
	m["zz_unknown"] = 1
	w.add(gcase{kind: "unknown", path: path + "/zz_unknown", at: "-", exp: "reject", cfg: wrap(m)})
	if len(fields) > 0 {
		m := cloneMap(base)
		k := fields[0].key
		v, had := m[k]
		delete(m, k)
		if !had {
			v = nil
		}
		m[k+"_"] = v
		if v == nil {
			m[k+"_"] = 1
		}
		w.add(gcase{kind: "misspelled", path: path + "/" + k + "_", at: "-", exp: "reject", cfg: wrap(m)})
	}

	// constraints the documentation states (docs/eng/*-generator.md: answlog.filter is all | warning | error)
	if t.Name() == "AnswLogConfig" {
		m := cloneMap(base)
		m["enabled"] = true
		m["filter"] = "bogus"
		w.add(gcase{kind: "doc", path: path + "/filter#documented", at: "-", exp: "reject", cfg: wrap(m)})
		for _, ok := range []string{"all", "warning", "error"} {
			m := cloneMap(base)
			m["filter"] = ok
			w.add(gcase{kind: "valid", path: path + "/filter", at: joinAt(vis, []string{"Filter"}), exp: "value", want: tstr(ok), cfg: wrap(m)})
		}
	}

	// a required option without default that is not given at all
	for _, f := range fields {
		if _, req := hasTag(vtags(f.owner, f.sf), "required"); req && f.def.IsValid() && f.def.IsZero() {
			if _, inBase := base[f.key]; inBase {
				m := cloneMap(base)
				delete(m, f.key)
				w.add(gcase{kind: "oor", path: path + "/" + f.key + "#required-absent", at: "-", exp: "reject", cfg: wrap(m)})
			}
		}
	}
	keyCount := map[string]int{}
	for _, f := range fields {
		keyCount[strings.ToLower(f.key)]++
	}
	for _, f := range fields {
		f := f
		fpath := path + "/" + f.key
		if keyCount[strings.ToLower(f.key)] > 1 {
			if w.dupPath == nil {
				w.dupPath = map[string]bool{}
			}
			w.dupPath[fpath] = true
		}
		set := func(v any) any {
			m := cloneMap(base)
			m[f.key] = v
			return wrap(m)
		}
		at := joinAt(vis, f.names)
		var fvis []string
		if vis != nil {
			fvis = append(append([]string{}, vis...), f.names...)
		}
		w.walkField(fpath, f, set, at, fvis, pdepth)
	}
}

func (w *walker) walkField(fpath string, f flatField, set func(any) any, at string, fvis []string, pdepth int) {
	ft := f.sf.Type
	tags := vtags(f.owner, f.sf)
	// explicit null: the default stays
	if f.def.IsValid() && !f.def.IsZero() {
		if kindName(ft) != "" && !isSpecial(ft) {
			w.add(gcase{kind: "null", path: fpath, at: at, exp: "value", want: dval(f.def), cfg: set(nil)})
		} else {
			w.add(gcase{kind: "null", path: fpath, at: "-", exp: "accept", cfg: set(nil)})
		}
	}
	if iface, _, ok := pluginPos(ft); ok {
		w.walkPlugin(fpath, iface, set, fvis, pdepth)
		return
	}
	if isSpecial(ft) {
		if ft == ipType {
			w.add(gcase{kind: "mistyped", path: fpath, at: "-", exp: "reject", cfg: set(map[string]any{"a": 1})}) // a list of numbers is a []byte
		} else {
			w.add(gcase{kind: "mistyped", path: fpath, at: "-", exp: "reject", cfg: set([]any{1})})
		}
		if isSize(ft) {
			w.sizeCases(fpath, tags, set)
		}
		// text types parsed by a hook of core/config (url, ip, data size) or by the type itself (zap level): a text that is
		// clearly no value of the type is an error, a clearly valid one is accepted (the model predicts neither)
		good, bad := libTexts(ft, tags)
		if w.dupPath[fpath] {
			good = nil // json / jsonlines aggregators: `buffer-size` also feeds an int field, a size text cannot satisfy both
		}
		for _, g := range good {
			w.add(gcase{kind: "libtype", path: fpath + "#valid", at: "-", exp: "accept", cfg: set(g)})
		}
		for _, b := range bad {
			w.add(gcase{kind: "libtype", path: fpath + "#invalid", at: "-", exp: "reject", cfg: set(b)})
		}
		return
	}
	if fk := kindName(ft); fk != "" {
		w.scalarCases(fpath, f, fk, tags, set, at)
		return
	}
	switch ft.Kind() {
	case reflect.Struct:
		w.add(gcase{kind: "mistyped", path: fpath, at: "-", exp: "reject", cfg: set("x")})
		w.walkStruct(fpath, ft, f.def, func(m map[string]any) any { return set(m) }, fvis, pdepth)
	case reflect.Ptr:
		if ft.Elem().Kind() == reflect.Struct && !isSpecial(ft.Elem()) {
			w.add(gcase{kind: "mistyped", path: fpath, at: "-", exp: "reject", cfg: set("x")})
			var d reflect.Value
			if f.def.IsValid() && !f.def.IsNil() {
				d = f.def.Elem()
			}
			var pv []string
			if fvis != nil {
				pv = fvis // the dumper prints ptr(v); the lookup steps through it
			}
			w.walkStruct(fpath, ft.Elem(), d, func(m map[string]any) any { return set(m) }, pv, pdepth)
		} else if fk := kindName(ft.Elem()); fk != "" {
			// pointer to a scalar: the hooks see the POINTER target first, a lone placeholder has no castable kind there
			// ("unsupported kind"); a text with a placeholder inside it is substituted (no demand for the lone form: the
			// statement names string / numeric / boolean / duration fields; the outcome is compared with the model)
			w.add(gcase{kind: "mistyped", path: fpath, at: "-", exp: "reject", cfg: set(map[string]any{"a": 1})})
			var good any
			var lone string
			switch strings.SplitN(fk, ":", 2)[0] {
			case "bool":
				good, lone = true, "C17_TRUE"
			case "str":
				good, lone = "v", "C17_STR"
			case "int", "uint":
				good, lone = 17, "C17_INT"
			case "float":
				good, lone = 2.5, "C17_FLOAT"
			case "dur":
				good, lone = "3s", "C17_DUR"
			}
			w.add(gcase{kind: "valid", path: fpath, at: "-", exp: "accept", cfg: set(good)})
			w.add(gcase{kind: "ph-ptr", path: fpath + "#lone", at: "-", fk: fk, exp: "none", cfg: set(ph("env", lone)), uses: true})
			w.add(gcase{kind: "ph-ptr", path: fpath + "#lone-prop", at: "-", fk: fk, exp: "none", cfg: set(ph("property", strings.ToLower(lone[4:]))), uses: true})
			w.add(gcase{kind: "ph-ptr", path: fpath + "#blank", at: "-", fk: fk, exp: "none", cfg: set(" " + ph("env", lone)), uses: true})
			w.add(gcase{kind: "ph-unset", path: fpath, at: "-", fk: fk, exp: "reject", cfg: set(ph("env", "C17_UNSET")), uses: true})
			w.add(gcase{kind: "ph-unset", path: fpath + "#embedded", at: "-", fk: fk, exp: "reject", cfg: set("x-" + ph("env", "C17_UNSET")), uses: true})
			if strings.HasPrefix(fk, "str") {
				w.add(gcase{kind: "ph-ptr", path: fpath + "#embedded", at: "-", fk: fk, exp: "accept", cfg: set("x-" + ph("env", lone)), uses: true})
			}
			if fk == "dur" {
				w.add(gcase{kind: "valid", path: fpath + "#number", at: "-", exp: "accept", cfg: set(30)})
				w.add(gcase{kind: "mistyped", path: fpath + "#no-unit", at: "-", exp: "reject", cfg: set("30")})
			}
		}
	case reflect.Interface:
		// round 6: an `interface{}` option (no plugin position): any value is stored as it is; a text with a placeholder
		// inside is substituted, an unset variable is an error, a lone resolvable placeholder is "unsupported kind"
		w.add(gcase{kind: "valid", path: fpath, at: "-", exp: "accept", cfg: set("text")})
		w.add(gcase{kind: "valid", path: fpath + "#number", at: "-", exp: "accept", cfg: set(5)})
		w.add(gcase{kind: "ph-any", path: fpath + "#embedded", at: "-", exp: "accept", cfg: set("x-" + ph("env", "C17_STR")), uses: true})
		w.add(gcase{kind: "ph-any", path: fpath + "#two", at: "-", exp: "accept", cfg: set(ph("env", "C17_STR") + ph("property", "int")), uses: true})
		w.add(gcase{kind: "ph-any", path: fpath + "#lone", at: "-", exp: "none", cfg: set(ph("env", "C17_INT")), uses: true})
		w.add(gcase{kind: "ph-unset", path: fpath, at: "-", exp: "reject", cfg: set(ph("env", "C17_UNSET")), uses: true})
		w.add(gcase{kind: "ph-unset", path: fpath + "#embedded", at: "-", exp: "reject", cfg: set("x-" + ph("env", "C17_UNSET")), uses: true})
		w.add(gcase{kind: "ph-noprop", path: fpath, at: "-", exp: "reject", cfg: set("x-" + ph("property", "nosuch")), uses: true})
		w.add(gcase{kind: "ph-twin", path: fpath, at: "-", exp: "reject", cfg: set("x-${env:c17_str}"), uses: true})
	case reflect.Slice:
		w.add(gcase{kind: "mistyped", path: fpath, at: "-", exp: "reject", cfg: set(map[string]any{"a": 1})})
		et := ft.Elem()
		if iface, _, ok := pluginPos(et); ok {
			w.walkPlugin(fpath+"[0]", iface, func(v any) any { return set([]any{v}) }, nil, pdepth)
		} else if et.Kind() == reflect.Struct && !isSpecial(et) {
			w.walkStruct(fpath+"[0]", et, reflect.Value{}, func(m map[string]any) any { return set([]any{m}) }, nil, pdepth)
		} else if fk := kindName(et); fk == "str" {
			w.add(gcase{kind: "valid", path: fpath, at: at, exp: "value", want: node("l", tstr("a"), tstr("b")), cfg: set([]any{"a", "b"})})
			w.add(gcase{kind: "ph-elem", path: fpath, at: at, exp: "value", want: node("l", tstr("hello"), tstr("x-hello")),
				cfg: set([]any{"${env:C17_STR}", "x-${env:C17_STR}"}), uses: true})
			w.add(gcase{kind: "ph-unset", path: fpath, at: "-", exp: "reject", cfg: set([]any{"${env:C17_UNSET}"}), uses: true})
			w.add(gcase{kind: "mistyped", path: fpath + "[0]", at: "-", exp: "reject", cfg: set([]any{map[string]any{"a": 1}})})
		}
	case reflect.Map:
		w.add(gcase{kind: "mistyped", path: fpath, at: "-", exp: "reject", cfg: set([]any{1})})
		if ft.Key().Kind() == reflect.String && kindName(ft.Elem()) == "str" {
			// a mapping option is merged into the default mapping (ZeroFields is off): the default's entries stay
			merged := func(k, v string) string {
				m := map[string]string{}
				if f.def.IsValid() && !f.def.IsNil() {
					for _, mk := range f.def.MapKeys() {
						m[mk.String()] = f.def.MapIndex(mk).String()
					}
				}
				m[k] = v
				var xs []string
				for _, mk := range sortedKeys(m) {
					xs = append(xs, enc(mk), tstr(m[mk]))
				}
				return node("m", xs...)
			}
			w.add(gcase{kind: "valid", path: fpath, at: at, exp: "value", want: merged("k", "v"), cfg: set(map[string]any{"k": "v"})})
			w.add(gcase{kind: "ph-elem", path: fpath, at: at, exp: "value", want: merged("k", "hello"),
				cfg: set(map[string]any{"k": "${env:C17_STR}"}), uses: true})
			w.add(gcase{kind: "ph-unset", path: fpath, at: "-", exp: "reject", cfg: set(map[string]any{"k": "${property:" + propFile + "#nosuch}"}), uses: true})
		}
	}
}

// twinOther: a value of the same kind as the one the exact name holds, but another one
func twinOther(base string) string {
	switch base {
	case "bool":
		return "0"
	case "str":
		return "other"
	case "float":
		return "9.25"
	case "dur":
		return "11s"
	}
	return "99"
}

func ph(kind, name string) string {
	if kind == "env" {
		return "${env:" + name + "}"
	}
	return "${property:" + propFile + "#" + name + "}"
}

func (w *walker) scalarCases(fpath string, f flatField, fk string, tags []string, set func(any) any, at string) {
	_, minTag := hasTag(tags, "min")
	_, isEP := hasTag(tags, "endpoint")
	_, isEq := hasTag(tags, "eq")
	_, isPath := hasTag(tags, "url-path")
	base := strings.SplitN(fk, ":", 2)[0]
	if w.dupPath[fpath] {
		// the key feeds two fields of different types (json / jsonlines aggregators: buffer-size is an int AND a data size):
		// only what is wrong for both
		w.add(gcase{kind: "mistyped", path: fpath, at: "-", exp: "reject", cfg: set([]any{"x"})})
		w.add(gcase{kind: "ph-unset", path: fpath, at: "-", fk: fk, exp: "reject", cfg: set(ph("env", "C17_UNSET")), uses: true})
		return
	}
	w.consCases(fpath, f, fk, tags, set, at)
	w.numCases(fpath, fk, tags, set, at)
	// mistyped
	var bad any
	switch base {
	case "bool":
		bad = "yes"
	case "str":
		bad = 5
	case "int", "float":
		bad = "abc"
	case "uint":
		bad = -1
	case "dur":
		bad = true
	}
	w.add(gcase{kind: "mistyped", path: fpath, at: "-", exp: "reject", cfg: set(bad)})
	if base == "uint" {
		w.add(gcase{kind: "mistyped", path: fpath, at: "-", exp: "reject", cfg: set("abc")})
	}
	if base == "dur" {
		w.add(gcase{kind: "mistyped", path: fpath, at: "-", exp: "reject", cfg: set("5x")})
	}
	if base == "int" || base == "uint" || base == "dur" {
		// a number with a fractional part is no integer (times: 2.7); a whole float is (JSON numbers are floats)
		w.add(gcase{kind: "mistyped", path: fpath + "#fraction", at: "-", exp: "reject", cfg: set(2.5)})
		// no integer either: an infinity, not-a-number (YAML .inf / .nan)
		w.add(gcase{kind: "mistyped", path: fpath + "#inf", at: "-", exp: "reject", cfg: set(math.Inf(1))})
		w.add(gcase{kind: "mistyped", path: fpath + "#nan", at: "-", exp: "reject", cfg: set(math.NaN())})
	}
	// out of range, one per validate tag
	for _, t := range tags {
		switch {
		case t == "required":
			var zero any
			switch base {
			case "str":
				zero = ""
			case "bool":
				zero = false
			default:
				zero = 0
			}
			if isEP {
				continue // "" fails `endpoint` first; covered below
			}
			w.add(gcase{kind: "oor", path: fpath + "#required", at: "-", exp: "reject", cfg: set(zero)})
		case strings.HasPrefix(t, "min="):
			n, _ := strconv.Atoi(strings.TrimPrefix(t, "min="))
			if base == "uint" && n == 0 {
				continue
			}
			w.add(gcase{kind: "oor", path: fpath + "#" + t, at: "-", exp: "reject", cfg: set(n - 1)})
			if _, req := hasTag(tags, "required"); !req || n != 0 {
				// the bound itself is allowed
				w.add(gcase{kind: "valid", path: fpath + "#" + t + "-bound", at: "-", exp: "accept", cfg: set(n)})
			}
		case strings.HasPrefix(t, "min-time="):
			w.add(gcase{kind: "oor", path: fpath + "#" + t, at: "-", exp: "reject", cfg: set("100us")})
			if d, err := time.ParseDuration(strings.TrimPrefix(t, "min-time=")); err == nil && d > time.Microsecond {
				w.add(gcase{kind: "valid", path: fpath + "#" + t + "-bound", at: "-", exp: "accept", cfg: set(fmt.Sprintf("%dns", int64(d)))})
				w.add(gcase{kind: "oor", path: fpath + "#" + t + "-below", at: "-", exp: "reject", cfg: set(fmt.Sprintf("%dns", int64(d-1)))})
			}
		case t == "endpoint":
			w.add(gcase{kind: "oor", path: fpath + "#endpoint", at: "-", exp: "reject", cfg: set("no-port")})
			w.add(gcase{kind: "oor", path: fpath + "#endpoint", at: "-", exp: "reject", cfg: set("127.0.0.1:99999")})
		case strings.HasPrefix(t, "eq="):
			w.add(gcase{kind: "oor", path: fpath + "#oneof", at: "-", exp: "reject", cfg: set("bogus")})
		}
	}
	// a valid non-default value; placeholders
	type pv struct {
		env, prop string // variable names
		raw       string
	}
	var valid any
	var want string
	var p pv
	switch base {
	case "bool":
		nv := !f.def.Bool()
		valid, want = nv, node("b", strconv.FormatBool(nv))
		if nv {
			p = pv{"C17_TRUE", "true", "true"}
		} else {
			p = pv{"C17_FALSE", "false", "false"}
		}
	case "str":
		s := "v-" + f.key
		if isEP {
			s = "127.0.0.2:9090"
		}
		if isEq || isPath {
			s = stringFor(f.key, tags)
		}
		valid, want = s, tstr(s)
		p = pv{"C17_STR", "str", "hello"}
		if isEP {
			p = pv{"C17_EP", "ep", "127.0.0.3:7070"}
		}
		if isEq || isPath {
			p = pv{}
		}
	case "int":
		valid, want = 17, node("i", "17")
		p = pv{"C17_INT", "int", "42"}
	case "uint":
		valid, want = 17, node("u", "17")
		p = pv{"C17_INT", "int", "42"}
	case "float":
		valid, want = 3.5, node("d", "3.5")
		p = pv{"C17_FLOAT", "float", "2.5"}
	case "dur":
		valid, want = "3s", node("i", "3000000000")
		p = pv{"C17_DUR", "dur", "7s"}
	}
	w.add(gcase{kind: "valid", path: fpath, at: at, fk: fk, exp: "value", want: want, cfg: set(valid)})
	_, minTime := hasTag(tags, "min-time")
	if base == "int" || base == "uint" || (base == "dur" && !minTime) {
		ww := node("i", "17")
		if base == "uint" {
			ww = node("u", "17")
		}
		w.add(gcase{kind: "valid", path: fpath + "#whole-float", at: at, fk: fk, exp: "value", want: ww, cfg: set(17.0)})
	}
	if p.env != "" {
		w.add(gcase{kind: "ph-env", path: fpath, at: at, fk: fk, raw: p.raw, exp: "cast", cfg: set(ph("env", p.env)), uses: true})
		w.add(gcase{kind: "ph-prop", path: fpath, at: at, fk: fk, raw: p.raw, exp: "cast", cfg: set(ph("property", p.prop)), uses: true})
	}
	if p.env != "" {
		// the tag type is case-insensitive (resolvers are registered and looked up lower-cased)
		w.add(gcase{kind: "ph-upper", path: fpath, at: at, fk: fk, raw: p.raw, exp: "cast", cfg: set("${ENV:" + p.env + "}"), uses: true})
		w.add(gcase{kind: "ph-upper", path: fpath, at: at, fk: fk, raw: p.raw, exp: "cast", cfg: set("${Property:" + propFile + "#" + p.prop + "}"), uses: true})
		// blanks inside the braces are trimmed
		w.add(gcase{kind: "ph-inner", path: fpath, at: at, fk: fk, raw: p.raw, exp: "cast", cfg: set("${ env : " + p.env + " }"), uses: true})
		// blanks around the placeholder stay part of the text: no demand, the outcome is compared with the model
		w.add(gcase{kind: "ph-space", path: fpath, at: "-", fk: fk, exp: "none", cfg: set(" " + ph("env", p.env) + " "), uses: true})
	}
	w.add(gcase{kind: "ph-unset", path: fpath, at: "-", fk: fk, exp: "reject", cfg: set(ph("env", "C17_UNSET")), uses: true})
	if p.env != "" {
		// round 6: the referenced name is NOT set, a variable whose name differs from it in letter case only IS set (with a
		// value the field would accept): variable names are case-sensitive, the placeholder names an unset variable
		lo := strings.ToLower(p.env)
		mixed := p.env[:5] + strings.ToLower(p.env[5:])
		w.add(gcase{kind: "ph-twin", path: fpath + "#lower", at: "-", fk: fk, exp: "reject", cfg: set("${env:" + lo + "}"), uses: true})
		if w.root == "synth" || w.root == "probe" {
			w.add(gcase{kind: "ph-twin", path: fpath + "#mixed", at: "-", fk: fk, exp: "reject", cfg: set("${env:" + mixed + "}"), uses: true})
		}
		// the other way round: the variable that is set has the lower-case name
		tw := "c17_lo_" + strings.ToLower(p.prop)
		w.add(gcase{kind: "ph-twin", path: fpath + "#upper", at: "-", fk: fk, exp: "reject", cfg: set("${env:" + strings.ToUpper(tw) + "}"), uses: true,
			env: map[string]string{tw: p.raw}})
		// and the exact name next to its twin still resolves to its OWN value
		// (names of their own: the environment of the process is shared by all cases, C17_LO_… must stay unset)
		ex := "c17_ex_" + strings.ToLower(p.prop)
		if w.root == "synth" || w.root == "probe" {
			w.add(gcase{kind: "ph-twin", path: fpath + "#exact", at: at, fk: fk, raw: p.raw, exp: "cast", cfg: set("${env:" + ex + "}"), uses: true,
			env: map[string]string{ex: p.raw, strings.ToUpper(ex): twinOther(base)}})
		}
		if base == "str" && !isEP && (w.root == "synth" || w.root == "probe" || w.root == "cli") {
			w.add(gcase{kind: "ph-twin", path: fpath + "#embedded", at: "-", fk: fk, exp: "reject", cfg: set("a-${env:" + lo + "}-b"), uses: true})
		}
	}
	w.add(gcase{kind: "ph-noprop", path: fpath, at: "-", fk: fk, exp: "reject", cfg: set(ph("property", "nosuch")), uses: true})
	w.add(gcase{kind: "ph-nofile", path: fpath, at: "-", fk: fk, exp: "reject", cfg: set("${property:/var/tmp/c17-props/absent.properties#str}"), uses: true})
	switch base {
	case "str":
		if !isEP && !isEq && !isPath {
			w.add(gcase{kind: "ph-embed", path: fpath, at: at, fk: fk, exp: "value", want: tstr("a-hello-b"), cfg: set("a-${env:C17_STR}-b"), uses: true})
			w.add(gcase{kind: "ph-short", path: fpath, at: at, fk: fk, raw: "hello", exp: "cast", cfg: set("${C17_STR}"), uses: true})
			w.add(gcase{kind: "ph-multi", path: fpath, at: at, fk: fk, exp: "value", want: tstr("hellohello"), cfg: set("${env:C17_STR}${env:C17_STR}"), uses: true})
			w.add(gcase{kind: "ph-multi", path: fpath, at: at, fk: fk, exp: "value", want: tstr("[hello: 42-hello]"),
				cfg: set("[${env:C17_STR}: ${C17_INT}-" + ph("property", "str") + "]"), uses: true})
			w.add(gcase{kind: "ph-unset", path: fpath + "#second", at: "-", fk: fk, exp: "reject", cfg: set("${env:C17_STR}-${env:C17_UNSET}"), uses: true})
			w.add(gcase{kind: "ph-empty", path: fpath, at: at, fk: fk, exp: "value", want: tstr("xy"), cfg: set("x${env:C17_EMPTY}y"), uses: true})
			// a tag of a type nobody registered is left as it is — and the placeholders after it are still substituted / still errors
			w.add(gcase{kind: "ph-foreign", path: fpath, at: at, fk: fk, exp: "value", want: tstr("${foo:bar}-hello"), cfg: set("${foo:bar}-${env:C17_STR}"), uses: true})
			w.add(gcase{kind: "ph-foreign", path: fpath + "#alone", at: at, fk: fk, exp: "value", want: tstr("${foo:bar}"), cfg: set("${foo:bar}"), uses: true})
			w.add(gcase{kind: "ph-unset", path: fpath + "#after-foreign", at: "-", fk: fk, exp: "reject", cfg: set("${foo:bar}${env:C17_UNSET}"), uses: true})
			if w.root == "synth" {
				// a resolved value that contains the text of another placeholder of the same string: no demand, the outcome
				// (a later tag's text is substituted again, an earlier one's is not) is compared with the model
				for _, t := range []string{"${env:C17_RE1}|${env:C17_STR}", "${env:C17_STR}|${env:C17_RE1}", "${env:C17_RE1}${env:C17_RE1}-${env:C17_STR}",
					"${env:C17_RE2}+${C17_INT}", "${C17_INT}+${env:C17_RE2}", "${env:C17_RE3}/${env:C17_STR}", "${env:C17_DOLLAR}{env:C17_STR}${env:C17_STR}",
					"${env:C17_RE1}", " ${env:C17_RE1} ${env:C17_RE2} ${env:C17_STR}${C17_INT}"} {
					w.add(gcase{kind: "ph-resub", path: fpath, at: "-", fk: fk, exp: "none", cfg: set(t), uses: true})
				}
			}
		}
	case "uint":
		// the confirmed defect: -1 into an unsigned field
		w.add(gcase{kind: "ph-neg", path: fpath, at: at, fk: fk, raw: "-1", exp: "cast", cfg: set(ph("env", "C17_NEG")), uses: true})
		w.add(gcase{kind: "ph-big", path: fpath, at: at, fk: fk, raw: envTable["C17_BIG"], exp: "cast", cfg: set(ph("env", "C17_BIG")), uses: true})
		w.add(gcase{kind: "ph-300", path: fpath, at: at, fk: fk, raw: "300", exp: "cast", cfg: set(ph("env", "C17_300")), uses: true})
	case "int":
		w.add(gcase{kind: "ph-300", path: fpath, at: at, fk: fk, raw: "300", exp: "cast", cfg: set(ph("env", "C17_300")), uses: true})
		if !minTag {
			w.add(gcase{kind: "ph-neg", path: fpath, at: at, fk: fk, raw: "-1", exp: "cast", cfg: set(ph("property", "neg")), uses: true})
		}
		w.add(gcase{kind: "ph-big", path: fpath, at: at, fk: fk, raw: envTable["C17_BIG"], exp: "cast", cfg: set(ph("env", "C17_BIG")), uses: true})
		w.add(gcase{kind: "ph-badlit", path: fpath, at: at, fk: fk, raw: "hello", exp: "cast", cfg: set(ph("env", "C17_STR")), uses: true})
	case "bool", "float", "dur":
		w.add(gcase{kind: "ph-badlit", path: fpath, at: at, fk: fk, raw: "hello", exp: "cast", cfg: set(ph("env", "C17_STR")), uses: true})
	}
}

// ---- values next to the bounds of every constraint (exp=meets: the Spec derives the demand from tags + value)

var epHosts = []string{"", "localhost", "127.0.0.1", "example.org", "a-b.c", "256.1.1.1", "host_1", "-bad", "a..b", "a b",
	"example.org.", "exa$mple", "[::1]", "[localhost]", "[]", "h:", "a.-b", "ü"}
var epHostsShort = []string{"", "localhost", "127.0.0.1", "[::1]"}

// IPv6 literals in brackets (net.ParseIP decides): well-formed, and every way of being malformed
var epHosts6 = []string{"[::]", "[1::]", "[2001:db8::1]", "[1:2:3:4:5:6:7:8]", "[1:2:3:4:5:6:7:8:9]", "[1:2:3:4:5:6:7::8]", "[1:2:3:4:5:6:7::]",
	"[::2:3:4:5:6:7:8]", "[::1:2:3:4:5:6:7:8]", "[::ffff:1.2.3.4]", "[1:2:3:4:5:6:1.2.3.4]", "[1:2:3:4:5:6:7:1.2.3.4]", "[1:2:3:4:5:1.2.3.4]",
	"[::1.2.3.04]", "[::1.2.3]", "[::1.2.3.256]", "[::1.2.3.4.5]", "[12345::]", "[g::]", "[::1%25eth0]", "[1:::2]", "[:1]", "[1:]", "[1::2::3]",
	"[fe80::1]", "[::FFFF:0:0]", "[0:0:0:0:0:0:0:0]", "[::1.2.3.4:5]", "[1.2.3.4::]", "[ffff:ffff:ffff:ffff:ffff:ffff:255.255.255.255]", "[:]", "[::.1.2.3]"}
var epPorts = []string{"1", "80", "65535", "65536", "0", "99999", "-1", "+80", "080", "00", "http", "80a", "", " 80", "8 0", "1e3",
	"0x50", "65_535", "99999999999999999999"}
var epMalformed = []string{"", ":", "::", "no-port", "a:b:80", "[::1]", "[::1]80", "[a:80", "a]:80", "a[:80", "[[a]:80", "[a]]:80",
	"[a]b:80", ":80:", "host:", "[::1]:"}
var urlPaths = []string{"/a", "/a/b", "/~user/:x@y;z=1", "/%41", "/a.b-c_d", "/1", "", "/", "a", "a/b", "/a/", "//a", "/a//b", "/a b",
	"/a?x", "/a#", "/ü", "/a\n", "/a/b/", "/{x}", "/a|b"}

func isSize(t reflect.Type) bool { return t == sizeType }

func libTexts(t reflect.Type, tags []string) (good, bad []any) {
	switch {
	case t == sizeType:
		good = []any{"10KB", "2048"}
		if len(tags) > 0 {
			good = []any{"10KB"} // inside the bounds of the synthetic field
		}
		bad = []any{"12XB", "abc", "KB", true}
	case t == urlType || (t.Kind() == reflect.Ptr && t.Elem() == urlType):
		good = []any{"http://example.org/path?q=1", "https://127.0.0.1:8080/"}
		bad = []any{"not a url", "http//example", 5}
	case t == ipType:
		good = []any{"192.168.1.1", "::1"}
		bad = []any{"999.1.1.1", "abc", "1.2.3", 5}
	case t.String() == "zapcore.Level":
		good = []any{"debug", "warn", "error"}
		bad = []any{"loud", "de bug", 1.5}
	}
	return
}

func tagsTerm(tags []string) string {
	var xs []string
	for _, t := range tags {
		xs = append(xs, enc(t))
	}
	return node("v", xs...)
}

func (w *walker) consCases(fpath string, f flatField, fk string, tags []string, set func(any) any, at string) {
	tt := tagsTerm(tags)
	base := strings.SplitN(fk, ":", 2)[0]
	meets := func(label string, cfgVal any, val string) {
		w.add(gcase{kind: "cons", path: fpath + "#" + label, at: at, fk: fk, exp: "meets", want: val, tags: tt, cfg: set(cfgVal)})
	}
	for _, t := range tags {
		switch {
		case t == "endpoint" && base == "str":
			hosts := epHostsShort
			if w.root == "synth" {
				hosts = epHosts
			}
			for _, h := range hosts {
				for _, p := range epPorts {
					meets("endpoint", h+":"+p, tstr(h+":"+p))
				}
			}
			if w.root == "synth" {
				for _, h := range epHosts6 {
					for _, p := range []string{"80", "65536", ""} {
						meets("endpoint-ipv6", h+":"+p, tstr(h+":"+p))
					}
				}
			}
			for _, e := range epMalformed {
				meets("endpoint-form", e, tstr(e))
			}
		case t == "url-path" && base == "str":
			for _, u := range urlPaths {
				meets("url-path", u, tstr(u))
			}
		case strings.HasPrefix(t, "min-time=") || strings.HasPrefix(t, "max-time="):
			d, err := time.ParseDuration(t[strings.Index(t, "=")+1:])
			if err != nil || base != "dur" {
				continue
			}
			for _, ns := range []int64{int64(d) - 1, int64(d), int64(d) + 1} {
				meets(t, fmt.Sprintf("%dns", ns), node("i", strconv.FormatInt(ns, 10)))
				meets(t+"-int", int(ns), node("i", strconv.FormatInt(ns, 10)))
			}
		case strings.HasPrefix(t, "min="):
			n, err := strconv.Atoi(strings.TrimPrefix(t, "min="))
			if err != nil {
				continue
			}
			switch base {
			case "int":
				for _, v := range []int{n - 1, n, n + 1} {
					meets(t, v, node("i", strconv.Itoa(v)))
				}
			case "uint":
				for _, v := range []int{n - 1, n, n + 1} {
					if v >= 0 {
						meets(t, v, node("u", strconv.Itoa(v)))
					}
				}
			case "float":
				for _, v := range []float64{float64(n) - 0.5, float64(n), float64(n) + 0.5} {
					meets(t, v, node("d", fmtFloat(v, 64)))
				}
			}
		}
	}
}

// ---- numbers at the edges of what the option's type can hold (exp=num: the Spec derives "stored as that number" /
// "refused" from the kind, the number and the field's constraints). Floats are written with few significant digits (the
// shortest decimal text that names the float is what both sides see; 9.2e18 < 2^63 < 9.3e18, 1.8e19 < 2^64 < 1.9e19,
// 3.4e38 < MaxFloat32 < 3.5e38).

type numVal struct {
	label string
	v     any
}

func numBounds(fk string) []numVal {
	parts := strings.SplitN(fk, ":", 2)
	bits := 64
	if len(parts) == 2 {
		bits, _ = strconv.Atoi(parts[1])
	}
	var out []numVal
	add := func(l string, v any) { out = append(out, numVal{l, v}) }
	switch parts[0] {
	case "int", "dur":
		if bits < 64 {
			hi := int(1)<<(bits-1) - 1
			lo := -(int(1) << (bits - 1))
			add("max", hi)
			add("max+1", hi+1)
			add("min", lo)
			add("min-1", lo-1)
			add("fmax", float64(hi))
			add("fmax+1", float64(hi+1))
			add("fmin", float64(lo))
			add("fmin-1", float64(lo-1))
			add("u64max", uint64(math.MaxUint64))
			add("f1e19", 1e19)
		} else {
			add("max", math.MaxInt64)
			add("max+1", uint64(1)<<63)
			add("min", math.MinInt64)
			add("u64max", uint64(math.MaxUint64))
			add("f9.2e18", 9.2e18)
			add("f2^63", math.Ldexp(1, 63)) // the first float the type cannot hold (its shortest decimal text lies above it, too)
			add("f9.3e18", 9.3e18)
			add("f-9.2e18", -9.2e18)
			add("f-9.3e18", -9.3e18)
			add("f1e19", 1e19)
			add("f1e30", 1e30)
		}
	case "uint":
		if bits < 64 {
			hi := int(1)<<bits - 1
			add("max", hi)
			add("max+1", hi+1)
			add("fmax", float64(hi))
			add("fmax+1", float64(hi+1))
			add("u64max", uint64(math.MaxUint64))
			add("f1.9e19", 1.9e19)
		} else {
			add("max", uint64(math.MaxUint64))
			add("i64max", math.MaxInt64)
			add("f9.3e18", 9.3e18)
			add("f1.8e19", 1.8e19)
			add("f2^64", math.Ldexp(1, 64))
			add("f1.9e19", 1.9e19)
			add("f1e30", 1e30)
		}
	case "float":
		if bits == 32 {
			add("f3.4e38", 3.4e38)
			add("f3.5e38", 3.5e38)
			add("f-3.4e38", -3.4e38)
			add("f-3.5e38", -3.5e38)
			add("f1.5e38", 1.5e38)
			add("f1e39", 1e39)
		} else {
			add("f1e39", 1e39)
			add("f-1e300", -1e300)
			add("i2^53", 1<<53)
		}
	}
	return out
}

func (w *walker) numCases(fpath string, fk string, tags []string, set func(any) any, at string) {
	if at == "-" {
		// inside the block of a nested plugin: its constructor runs while the configuration is decoded, and what a component
		// does with an enormous (but representable) count — a step schedule from 1 to 2^53 — is not config decoding.
		// Every registered config is a root of its own (alt|…): there its fields get these cases, the constructor is not run.
		return
	}
	tt := tagsTerm(tags)
	for _, nv := range numBounds(fk) {
		w.add(gcase{kind: "num", path: fpath + "#" + nv.label, at: at, fk: fk, exp: "num", want: valTerm(nv.v), tags: tt, cfg: set(nv.v)})
	}
}

// sizeCases: min-size / max-size on a datasize.ByteSize field (the text form is parsed by the library: the demand is
// stated here, the model predicts nothing)
func (w *walker) sizeCases(fpath string, tags []string, set func(any) any) {
	for _, t := range tags {
		var bound datasize.ByteSize
		isMin := strings.HasPrefix(t, "min-size=")
		if !isMin && !strings.HasPrefix(t, "max-size=") {
			continue
		}
		if bound.UnmarshalText([]byte(t[strings.Index(t, "=")+1:])) != nil {
			continue
		}
		other := func(v uint64) bool { // the other bounds of the field hold?
			for _, o := range tags {
				var b datasize.ByteSize
				if i := strings.Index(o, "="); i > 0 && b.UnmarshalText([]byte(o[i+1:])) == nil {
					if strings.HasPrefix(o, "min-size=") && v < b.Bytes() {
						return false
					}
					if strings.HasPrefix(o, "max-size=") && v > b.Bytes() {
						return false
					}
				}
			}
			return true
		}
		for _, v := range []uint64{bound.Bytes() - 1, bound.Bytes(), bound.Bytes() + 1} {
			exp := "accept"
			if !other(v) {
				exp = "reject"
			}
			w.add(gcase{kind: "cons", path: fpath + "#" + t, at: "-", exp: exp, cfg: set(int(v))})
			w.add(gcase{kind: "cons", path: fpath + "#" + t + "-text", at: "-", exp: exp, cfg: set(fmt.Sprintf("%dB", v))})
		}
	}
}

func (w *walker) walkPlugin(fpath string, iface reflect.Type, set func(any) any, fvis []string, pdepth int) {
	w.add(gcase{kind: "mistyped", path: fpath, at: "-", exp: "reject", cfg: set(5)})
	w.add(gcase{kind: "plugin-notype", path: fpath, at: "-", exp: "reject", cfg: set(map[string]any{"zz": 1})})
	w.add(gcase{kind: "plugin-badname", path: fpath, at: "-", exp: "reject", cfg: set(map[string]any{"type": "no-such-plugin"})})
	w.add(gcase{kind: "plugin-nonstring", path: fpath, at: "-", exp: "reject", cfg: set(map[string]any{"type": 5})})
	w.add(gcase{kind: "plugin-badname", path: fpath + "#empty", at: "-", exp: "reject", cfg: set(map[string]any{"type": ""})})
	// round 6: a STRING with a placeholder at a plugin position (the hooks of core/config run on the interface / factory
	// type first): an unset variable / a missing property is an error also here, alone or inside a text; a lone resolvable
	// placeholder has no castable kind ("unsupported kind": no demand, compared with the model); a text with a resolvable
	// placeholder inside is substituted and then a string at a plugin position (a file sink at a sink position, else an error)
	w.add(gcase{kind: "ph-unset", path: fpath + "#plugin", at: "-", exp: "reject", cfg: set(ph("env", "C17_UNSET")), uses: true})
	w.add(gcase{kind: "ph-unset", path: fpath + "#plugin-embedded", at: "-", exp: "reject", cfg: set("/var/tmp/c17-props/" + ph("env", "C17_UNSET") + ".txt"), uses: true})
	w.add(gcase{kind: "ph-noprop", path: fpath + "#plugin", at: "-", exp: "reject", cfg: set(ph("property", "nosuch")), uses: true})
	w.add(gcase{kind: "ph-twin", path: fpath + "#plugin", at: "-", exp: "reject", cfg: set("/var/tmp/c17-props/${env:c17_str}.txt"), uses: true})
	w.add(gcase{kind: "ph-plugin", path: fpath + "#lone", at: "-", exp: "none", cfg: set(ph("env", "C17_STR")), uses: true})
	w.add(gcase{kind: "ph-plugin", path: fpath + "#embedded", at: "-", exp: "none", cfg: set("/var/tmp/c17-props/" + ph("env", "C17_STR") + ".txt"), uses: true})
	if bp, ok := basePlugin(iface).(map[string]any); ok {
		// a key that is no string (YAML `5: x`) is no option of any plugin
		ik := map[any]any{5: "x"}
		for k, v := range bp {
			ik[k] = v
		}
		w.add(gcase{kind: "plugin-intkey", path: fpath, at: "-", exp: "reject", cfg: set(ik)})
	}
	if bp, ok := basePlugin(iface).(map[string]any); ok {
		// the `type` key in another letter case is the type key; two of them are one too many
		up := map[string]any{}
		for k, v := range bp {
			if k == "type" {
				up["TYPE"] = v
			} else {
				up[k] = v
			}
		}
		w.add(gcase{kind: "plugin-typecase", path: fpath, at: "-", exp: "accept", cfg: set(up)})
		two := cloneMap(bp)
		two["Type"] = bp["type"]
		w.add(gcase{kind: "plugin-twotypes", path: fpath, at: "-", exp: "reject", cfg: set(two)})
		// round 4: one too many is not only "exactly two": three spellings of the key, the extra ones naming other / no plugins
		three := cloneMap(two)
		three["TYPE"] = bp["type"]
		w.add(gcase{kind: "plugin-threetypes", path: fpath, at: "-", exp: "reject", cfg: set(three)})
		four := cloneMap(three)
		four["tYpE"] = "no-such-plugin"
		w.add(gcase{kind: "plugin-threetypes", path: fpath + "#4", at: "-", exp: "reject", cfg: set(four)})
	}
	switch iface.String() {
	case sinkIface:
		w.add(gcase{kind: "plugin-short", path: fpath, at: "-", exp: "accept", cfg: set("stderr")})
		w.add(gcase{kind: "plugin-short", path: fpath, at: "-", exp: "accept", cfg: set("/var/tmp/c17-props/out.txt")})
		// the string shortcut names a file: an empty name violates the file sink's required path
		w.add(gcase{kind: "oor", path: fpath + "#empty-file-name", at: "-", exp: "reject", cfg: set("")})
	case schedIface:
		w.add(gcase{kind: "plugin-short", path: fpath, at: "-", exp: "accept", cfg: set([]any{map[string]any{"type": "once", "times": 2}})})
		w.add(gcase{kind: "plugin-short", path: fpath, at: "-", exp: "accept",
			cfg: set([]any{map[string]any{"type": "once", "times": 2}, map[string]any{"type": "const", "ops": 1, "duration": "1s"}})})
		w.add(gcase{kind: "oor", path: fpath + "[1]/duration#min-time", at: "-", exp: "reject",
			cfg: set([]any{map[string]any{"type": "once", "times": 2}, map[string]any{"type": "const", "ops": 1, "duration": "1us"}})})
		w.add(gcase{kind: "unknown", path: fpath + "[0]/zz_unknown", at: "-", exp: "reject", cfg: set([]any{map[string]any{"type": "once", "times": 2, "zz_unknown": 1}})})
	}
	// a block that names the plugin and nothing else: the plugin's default config is decoded from an empty mapping and
	// VALIDATED like any other; it is refused exactly when the defaults do not meet the config's own constraints
	for _, name := range altNames(iface) {
		a := reg[iface][name]
		d := freshDefault(iface, name)
		exp := "accept"
		if len(baseFor(a.confType, d.Elem())) > 0 {
			exp = "reject"
		}
		w.add(gcase{kind: "typeonly", path: fpath + "(" + name + ")", at: "-", exp: exp, cfg: set(map[string]any{"type": name})})
	}
	if pdepth >= w.maxPlugin {
		return
	}
	for _, name := range altNames(iface) {
		name := name
		a := reg[iface][name]
		d := freshDefault(iface, name)
		w.walkStruct(fpath+"("+name+")", a.confType, d.Elem(), func(m map[string]any) any {
			m2 := cloneMap(m)
			m2["type"] = name
			return set(m2)
		}, nil, pdepth+1)
	}
}

// ---- rendering a case as an input line

// synthConfig: field kinds that no registered component uses (narrow integers, float32, pointers to scalars, nested
// containers), decoded by the same real config.DecodeAndValidate
type synthConfig struct {
	U8   uint8   `config:"u8"`
	U16  uint16  `config:"u16"`
	U32  uint32  `config:"u32" validate:"min=1"`
	U    uint    `config:"u"`
	I8   int8    `config:"i8"`
	I16  int16   `config:"i16"`
	I32  int32   `config:"i32"`
	F32  float32 `config:"f32"`
	F64  float64
	Name string        `validate:"required"`
	Wait time.Duration `config:"wait" validate:"min-time=1ms"`
	On   bool
	Sub  *synthSub           `config:"sub"`
	Subs []synthSub          `config:"subs" validate:"dive"`
	ByK  map[string]synthSub `config:"by-k"`
	Tags map[string]string   `config:"tags"`
	Any  interface{}         `config:"any"`
	Emb  synthEmb            `config:",squash"`
	// one field without constraints per kind (generated placeholder values land here)
	// one field per validation of core/config/validations.go that no registered component uses
	Link    url.URL           `config:"link"`
	LinkP   *url.URL          `config:"link-p"`
	IP      net.IP            `config:"ip"`
	MaxWait time.Duration     `config:"max-wait" validate:"max-time=3h"`
	Window  time.Duration     `config:"window" validate:"min-time=1s,max-time=1m"`
	Addr    string            `config:"addr" validate:"endpoint"`
	UPath   string            `config:"upath" validate:"url-path"`
	Size    datasize.ByteSize `config:"size" validate:"min-size=1KB,max-size=1MB"`
	Ratio   float64           `config:"ratio" validate:"min=1"`
	I64   int64         `config:"i64"`
	U64   uint64        `config:"u64"`
	Note  string        `config:"note"`
	Pause time.Duration `config:"pause"`
	Flag  bool          `config:"flag"`
	// round 6: pointers to scalars (the hook chain sees the pointer type first)
	PInt  *int           `config:"p-int"`
	PStr  *string        `config:"p-str"`
	PDur  *time.Duration `config:"p-dur"`
	PBool *bool          `config:"p-bool"`
	PF64  *float64       `config:"p-f64"`
}

type synthSub struct {
	Level int    `config:"level" validate:"min=0"`
	Label string `config:"label"`
}

type synthEmb struct {
	Depth uint16 `config:"depth"`
	Mode  string `config:"mode" validate:"omitempty,eq=a|eq=b"`
}

func synthDefault() *synthConfig {
	return &synthConfig{U8: 8, U16: 16, U32: 32, U: 1, I8: -8, I16: -16, I32: 32, F32: 0.5, F64: 1.5, Name: "n", Wait: time.Second,
		On: true, Sub: &synthSub{Level: 3, Label: "l"}, Emb: synthEmb{Depth: 2, Mode: "a"},
		MaxWait: 5 * time.Second, Window: 30 * time.Second, Addr: "127.0.0.1:1", UPath: "/x", Size: 2 * datasize.KB, Ratio: 2}
}

func rootTarget(root string) (reflect.Type, reflect.Value) {
	if root == "cli" {
		c := cliDefault()
		return c.Type().Elem(), c
	}
	if root == "synth" {
		c := reflect.ValueOf(synthDefault())
		return c.Type().Elem(), c
	}
	if root == "probe" {
		c := reflect.ValueOf(&probeRoot{})
		return c.Type().Elem(), c
	}
	parts := strings.SplitN(root, "|", 3)
	for _, iface := range regOrder {
		if iface.String() == parts[1] {
			d := freshDefault(iface, parts[2])
			return d.Type().Elem(), d
		}
	}
	panic("unknown root " + root)
}

func (c gcase) line() string {
	env, props := "m()", "m()"
	cfgText := valTerm(c.cfg)
	if c.uses {
		// only what the configuration names: the variables and the properties files of its placeholders
		vars := map[string]string{}
		for _, m := range []map[string]string{envTable, c.env} {
			for k, v := range m {
				// also the case twins of a name the configuration uses (c17_int names no variable although C17_INT is set)
				if strings.Contains(cfgText, k) || strings.Contains(strings.ToUpper(cfgText), strings.ToUpper(k)) {
					vars[k] = v
				}
			}
		}
		var files []propFileT
		seen := map[string]bool{}
		for _, f := range append([]propFileT{stdProps}, c.files...) {
			if strings.Contains(cfgText, f.path) && !seen[f.path] {
				seen[f.path] = true
				files = append(files, f)
			}
		}
		env, props = envTermOf2(vars), propsTermOf(files)
	}
	opt := func(s string) string {
		if s == "" {
			return "-"
		}
		return s
	}
	tags := c.tags
	if tags == "" {
		tags = "v()"
	}
	return fmt.Sprintf("kind=%s root=%s path=%s exp=%s at=%s fk=%s raw=%s want=%s tags=%s env=%s props=%s cfg=%s",
		c.kind, enc(c.root), enc(c.path), c.exp, enc(c.at), opt(c.fk), tstr(c.raw), opt(c.want), tags, env, props, cfgText)
}

func allRoots() []string {
	roots := []string{"cli", "synth", "probe"}
	for _, iface := range regOrder {
		for _, n := range altNames(iface) {
			if iface == probeIface && (n == "pmut" || n == "pmutv") {
				// the same config type as pptr / pstruct, which are walked exhaustively as roots of their own
				continue
			}
			roots = append(roots, "alt|"+iface.String()+"|"+n)
		}
	}
	return roots
}

// deepMerge overlays b on a (mappings key-wise, lists index-wise, otherwise b wins): two single mutations of the same
// base configuration become one configuration carrying both
func deepMerge(a, b any) any {
	switch x := a.(type) {
	case map[string]any:
		y, ok := b.(map[string]any)
		if !ok {
			return b
		}
		out := cloneMap(x)
		for k, v := range y {
			if old, ok := out[k]; ok {
				out[k] = deepMerge(old, v)
			} else {
				out[k] = v
			}
		}
		return out
	case []any:
		y, ok := b.([]any)
		if !ok {
			return b
		}
		n := len(x)
		if len(y) > n {
			n = len(y)
		}
		out := make([]any, n)
		for i := range out {
			switch {
			case i < len(x) && i < len(y):
				out[i] = deepMerge(x[i], y[i])
			case i < len(x):
				out[i] = x[i]
			default:
				out[i] = y[i]
			}
		}
		return out
	}
	return b
}

// combos: several mutations at once (errors accumulate, lazily filled factories defer): no demand of the property is
// attached, the real outcome is compared with the model's
func combos(r *rand.Rand, all []gcase, n int) []string {
	var out []string
	// numbers at the edge of a type's range stay out of the combinations: an accepted one reaches the component's
	// constructor (a step schedule up to 9.2e18 …), which is not config decoding
	var cases []gcase
	for _, c := range all {
		if c.kind != "num" {
			cases = append(cases, c)
		}
	}
	if len(cases) < 2 {
		return nil
	}
	for i := 0; i < n; i++ {
		k := 2 + r.Intn(3)
		c := cases[r.Intn(len(cases))]
		cfg := c.cfg
		uses := c.uses
		path := c.kind + ":" + c.path
		env := map[string]string{}
		for k, v := range c.env {
			env[k] = v
		}
		files := append([]propFileT{}, c.files...)
		for j := 1; j < k; j++ {
			d := cases[r.Intn(len(cases))]
			cfg = deepMerge(cfg, d.cfg)
			uses = uses || d.uses
			path += "+" + d.kind + ":" + d.path
			for k, v := range d.env {
				env[k] = v
			}
			files = append(files, d.files...)
		}
		out = append(out, gcase{kind: "combo", root: c.root, path: path, at: "-", exp: "none", cfg: cfg, uses: uses, env: env, files: files}.line())
	}
	return out
}

// ---- generated placeholder values and properties files (synthetic root: one untagged field per kind)

type synthField struct{ key, name, fk string }

var synthFields = []synthField{
	{"u8", "U8", "uint:8"}, {"u16", "U16", "uint:16"}, {"u", "U", "uint:64"}, {"u64", "U64", "uint:64"},
	{"i8", "I8", "int:8"}, {"i16", "I16", "int:16"}, {"i32", "I32", "int:32"}, {"i64", "I64", "int:64"},
	{"f32", "F32", "float:32"}, {"F64", "F64", "float:64"}, {"note", "Note", "str"}, {"pause", "Pause", "dur"}, {"flag", "Flag", "bool"},
}

// texts inside the literal grammar the model describes (decimal integers without leading zeros, plain decimals that are
// exact in binary, Go durations with integer components, strconv.ParseBool's words) and texts that are no literal at all
var rawPool = map[string][]string{
	"int": {"0", "1", "-1", "+7", "-0", "42", "127", "128", "-128", "-129", "255", "256", "32767", "32768", "-32768", "-32769",
		"65535", "65536", "2147483647", "2147483648", "-2147483648", "-2147483649", "4294967295", "4294967296",
		"9223372036854775807", "9223372036854775808", "-9223372036854775808", "-9223372036854775809",
		"18446744073709551615", "18446744073709551616", "abc", "1.5", "", " 42", "4 2", "-", "+", "--1", "1-", "true", "7s",
		// strconv with base 0: prefixes, a leading 0 is octal, underscores between digits
		"0x10", "0X1f", "0b101", "0B1", "0o17", "0O7", "017", "00", "-0x80", "+0b1", "0x7f", "0x80", "0xff", "0x100", "-0x81",
		"1_000", "0_7", "0x_1", "0x1_f", "1_0_0", "_1", "1_", "1__0", "08", "0x", "0b", "0o", "0b2", "0xg", "0_x1", "0x_", "_", "42 ",
		// float texts are no integer literals (whole or not)
		"1e3", "2.0", "2.5e0", "0x1p4"},
	"float": {"0", "1", "-1", "2.5", "-0.5", "+0.25", "100", "0.125", "12345.5", "-0.0", "abc", "", "1.2.3", "-", "1,5", "true",
		"1e3", "1.5E-2", ".5", "5.", "-.5e1", "1e+2", "0.1e1", "25e-2", "1e", "e3", ".", "1e+", "1.5e2.5", "+.e1", " 1",
		// the range of the width: a float32 ends a little above 3.4e38, a float64 a little below 1.8e308
		"3.4e38", "3.5e38", "1e39", "-1e39", "-3.4e38", "1e308", "1e309", "-1e400",
		// hexadecimal floats (the binary exponent is mandatory) and `_` between digits
		"0x1p-2", "0x1.8p1", "0X.8P+0", "-0x10p-1", "0x1", "0x1p", "0x.p1", "0xgp1", "0x1p1.5", "1_000.5", "1_.5", "1._5", "0x_1p0", "0x1_0p0",
		"1e1_0", "1_e1", "1e_1", "_1.5", "1.5_", "0b1", "0o7", "017.5"},
	"bool":  {"1", "t", "T", "TRUE", "true", "True", "0", "f", "F", "FALSE", "false", "False", "yes", "no", "tRuE", "", "2", "on", " true"},
	"dur": {"0", "7s", "1m30s", "250ms", "-5s", "+3s", "1h2m3s4ms5us6ns", "90m", "1000", "-1", "5x", "s", "1s2", "", "abc", "1 s", "--1s",
		"9223372036854775807", "9223372036854775808", "2562047h",
		// fractions, both micro signs, the edges of the int64 range
		"1.5s", ".5m", "1.s", ".s", "1.5", "1.5h30m", "0.001ms", "3.25us", "1µs", "1μs", "1.0ns", "00.50s", "1s.5ms", "1..5s", "1.5.5s", "0.0s",
		"+0", "-0", "2562048h", "2562047h47m16.854775807s", "2562047h47m16.854775808s", "-2562047h47m16.854775808s",
		"9223372036854775807ns", "9223372036854775808ns", "-9223372036854775808ns", "9223372036854775809ns", "1us1", "1m 30s"},
	"str": {"", "hello", "a b", " padded ", "trail ", " lead", "with=eq", "with#hash", "${env:C17_STR}", "x:y", "%41", "ü", "tab\there", "'q'", "{}", "$", "${", "}"},
}

// texts at the edge of a width: always part of the quick tier
var rawEdge = map[string]bool{"1.5": true, "1e3": true, "2.0": true,
	"0x1p-2": true, "1_000.5": true, "0x1": true, "1.5s": true, ".5m": true, "2562048h": true,
	"2562047h47m16.854775808s": true, "-2562047h47m16.854775808s": true,
	"3.4e38": true, "3.5e38": true, "1e39": true, "-1e39": true, "1e308": true, "1e309": true,
	"127": true, "128": true, "-128": true, "-129": true, "255": true, "256": true, "65535": true, "65536": true,
	"9223372036854775807": true, "9223372036854775808": true, "18446744073709551615": true, "18446744073709551616": true}

func poolFor(fk string) []string {
	base := strings.SplitN(fk, ":", 2)[0]
	if base == "uint" {
		base = "int"
	}
	return rawPool[base]
}

func synthBase() map[string]any {
	t, d := rootTarget("synth")
	return baseFor(t, d.Elem())
}

func rawCases(r *rand.Rand, tier string) []gcase {
	var out []gcase
	base := synthBase()
	for _, f := range synthFields {
		pool := poolFor(f.fk)
		for _, raw := range pool {
			// round 4: the bool literals are few and every one of them is a class of its own (1 / t / T / TRUE / True …):
			// always all of them
			if tier == "quick" && !rawEdge[raw] && f.fk != "bool" && r.Intn(100) >= 22 {
				continue
			}
			m := cloneMap(base)
			name := envName(raw)
			viaProp := r.Intn(3) == 0 && !strings.ContainsAny(raw, "\n\r")
			c := gcase{kind: "ph-raw", path: "/" + f.key, at: f.name, fk: f.fk, raw: raw, exp: "cast", uses: true}
			if viaProp {
				pf := mkPropFile([]string{"k_=0", "k=" + raw, "k=1"})
				m[f.key] = "${property:" + pf.path + "#k}"
				c.files = []propFileT{pf}
			} else {
				m[f.key] = "${env:" + name + "}"
				c.env = map[string]string{name: raw}
			}
			c.cfg = m
			out = append(out, c)
		}
	}
	return out
}

var propKeyPool = []string{"a", "ab", "abc", "b", "ba", "a_b", "A", "a.b", "timeout", "timeout_ms", "instances", "instances_max", ""}

func randPropLine(r *rand.Rand) string {
	k := propKeyPool[r.Intn(len(propKeyPool))]
	v := []string{"1", "22", "x", "y z", "", "v=w", "3s", " lead", "trail ", " 7 "}[r.Intn(10)]
	switch r.Intn(12) {
	case 0:
		return k // no `=`
	case 1:
		return " " + k + "=" + v
	case 2:
		return k + " =" + v
	case 3:
		return "#" + k + "=" + v
	case 4:
		return ""
	case 5:
		return k + "==" + v
	case 6:
		return strings.ToUpper(k) + "=" + v
	}
	return k + "=" + v
}

// propCases: properties files whose keys are prefixes / case variants of one another, in every order; the expected
// text is refLookup's (first line whose text before the first `=` IS the key), a key that is on no such line is an error
func propCases(r *rand.Rand, tier string) []gcase {
	var out []gcase
	base := synthBase()
	add := func(kind string, lines []string, key string, field synthField) {
		pf := mkPropFile(lines)
		m := cloneMap(base)
		m[field.key] = "${property:" + pf.path + "#" + key + "}"
		c := gcase{kind: kind, path: "/" + field.key + "#" + key, fk: field.fk, uses: true, files: []propFileT{pf}, cfg: m}
		if raw, ok := refLookup(lines, key); ok {
			c.at, c.raw, c.exp = field.name, raw, "cast"
		} else {
			c.at, c.exp = "-", "reject"
			c.kind = "ph-noprop"
		}
		out = append(out, c)
	}
	note, i64, pause := synthFields[10], synthFields[7], synthFields[11]
	// round 6: the same file WITHOUT a line terminator after its last line: the last line is a line like any other
	addNoNL := func(lines []string, key string, field synthField) {
		n := len(out)
		add("ph-propx", lines, key, field)
		c := out[n]
		pf := c.files[0]
		nonl := propFileT{path: strings.TrimSuffix(pf.path, ".properties") + ".nonl.properties", lines: pf.lines}
		m := cloneMap(c.cfg.(map[string]any))
		m[field.key] = "${property:" + nonl.path + "#" + key + "}"
		c.files, c.cfg, c.path = []propFileT{nonl}, m, c.path+"#nonl"
		out = append(out, c)
	}
	addNoNL([]string{"MY_FIELD=data"}, "MY_FIELD", note)
	addNoNL([]string{"a=1", "n=42"}, "n", i64)
	addNoNL([]string{"a=1", "n=42"}, "a", i64)
	addNoNL([]string{"# c", "timeout=3s"}, "timeout", pause)
	addNoNL([]string{"a=1", "n=42\r"}, "n", i64)
	addNoNL([]string{"a=1", "n"}, "n", i64)
	addNoNL([]string{"a=1", "n=4", "n=42"}, "n", i64)
	addNoNL(stdProps.lines, "ep", note)
	// the documented shape, and keys that are proper prefixes of one another in both orders
	add("ph-propx", []string{"MY_FIELD=data"}, "MY_FIELD", note)
	add("ph-propx", []string{"MY_FIELD=data"}, "MY_FIEL", note)
	add("ph-propx", []string{"MY_FIELD=data"}, "MY_FIELD_", note)
	add("ph-propx", []string{"MY_FIELD=data"}, "my_field", note)
	add("ph-propx", []string{"instances_max=1000"}, "instances", i64)
	add("ph-propx", []string{"instances_max=1000", "instances=10"}, "instances", i64)
	add("ph-propx", []string{"instances=10", "instances_max=1000"}, "instances_max", i64)
	add("ph-propx", []string{"timeout_ms=250", "timeout=3s"}, "timeout", pause)
	add("ph-propx", []string{"timeout=3s", "timeout_ms=250"}, "timeout_ms", i64)
	add("ph-propx", []string{"host=example.org"}, "ho", note)
	add("ph-propx", []string{"a=1", "a=2"}, "a", i64)
	add("ph-propx", []string{"a", "a=b=c"}, "a", note)
	add("ph-propx", []string{" a=1", "a =2", "A=3"}, "a", i64)
	add("ph-propx", []string{"k= v "}, "k", note)
	add("ph-propx", []string{"n= 42"}, "n", i64)
	add("ph-propx", []string{"n=42 "}, "n", i64)
	add("ph-propx", []string{"k=v"}, "", note)
	add("ph-propx", []string{"=v"}, "", note)
	add("ph-propx", []string{}, "a", note)
	// round 4: files saved with CRLF line ends (every piece between two \n ends in \r): the text of a line excludes its
	// terminator, so a number stays a number; one \r only; a \r elsewhere is part of the text
	add("ph-propx", []string{"MY_FIELD=data\r"}, "MY_FIELD", note)
	add("ph-propx", []string{"# dos\r", "n=42\r", "m=7\r"}, "n", i64)
	add("ph-propx", []string{"# dos\r", "n=42\r", "m=7"}, "m", i64)
	add("ph-propx", []string{"timeout=3s\r", ""}, "timeout", pause)
	add("ph-propx", []string{"k=v\r\r"}, "k", note)
	add("ph-propx", []string{"k=\r"}, "k", note)
	add("ph-propx", []string{"a\r=1", "a=2\r"}, "a", i64)
	add("ph-propx", []string{"a\rb=1\r"}, "a\rb", i64)
	add("ph-propx", []string{"n=4\r2\r"}, "n", note)
	{
		var crlf []string
		for _, l := range stdProps.lines {
			crlf = append(crlf, l+"\r")
		}
		for _, k := range sortedKeys(propTable) {
			f := note
			switch k {
			case "int":
				f = i64
			case "dur":
				f = pause
			}
			add("ph-propx", crlf, k, f)
			add("ph-propx", crlf, k+"_", note)
		}
	}
	for _, k := range sortedKeys(propTable) {
		// the standard file: the decoy lines around every key
		for _, key := range []string{k + "_max", "x" + k, strings.ToUpper(k), k + "_", k[:len(k)-1]} {
			add("ph-propx", stdProps.lines, key, note)
		}
	}
	n := 40
	if tier == "thorough" {
		n = 1500
	}
	for i := 0; i < n; i++ {
		var lines []string
		for j, k := 0, r.Intn(6); j <= k; j++ {
			l := randPropLine(r)
			if r.Intn(6) == 0 {
				l += "\r"
			}
			lines = append(lines, l)
		}
		key := propKeyPool[r.Intn(len(propKeyPool))]
		add("ph-propr", lines, key, note)
	}
	return out
}

// sameTagCases: ONE placeholder text at fields of several kinds of one configuration — every field gets the resolved
// text converted to ITS kind (the conversion belongs to the position, not to the placeholder)
func sameTagCases() []gcase {
	var out []gcase
	base := synthBase()
	add := func(label, tag string, ws []probeWant, fields ...string) {
		m := cloneMap(base)
		for _, f := range fields {
			m[f] = tag
		}
		out = append(out, gcase{kind: "ph-same", path: "/" + label, at: "-", exp: "values", want: wantsTerm(ws), cfg: m, uses: true})
	}
	add("int-everywhere", "${env:C17_INT}", []probeWant{{"I64", node("i", "42")}, {"Note", tstr("42")}, {"U16", node("u", "42")},
		{"F64", node("d", "42")}, {"Pause", node("i", "42")}, {"I8", node("i", "42")}}, "i64", "note", "u16", "F64", "pause", "i8")
	add("note-first", "${env:C17_INT}", []probeWant{{"Note", tstr("42")}, {"U64", node("u", "42")}}, "note", "u64")
	add("bool-and-string", "${env:C17_TRUE}", []probeWant{{"Flag", node("b", "true")}, {"Note", tstr("true")}}, "flag", "note")
	add("float-and-string", "${env:C17_FLOAT}", []probeWant{{"F64", node("d", "2.5")}, {"Note", tstr("2.5")}, {"F32", node("d", "2.5")}}, "F64", "note", "f32")
	add("duration-and-string", "${env:C17_DUR}", []probeWant{{"Pause", node("i", "7000000000")}, {"Note", tstr("7s")}}, "pause", "note")
	add("property", ph("property", "int"), []probeWant{{"I32", node("i", "42")}, {"Note", tstr("42")}, {"U8", node("u", "42")}}, "i32", "note", "u8")
	return out
}

func genCases(r *rand.Rand, tier string) []string {
	var out []string
	for _, root := range allRoots() {
		t, d := rootTarget(root)
		w := &walker{root: root, rootType: t, maxPlugin: 2}
		if root == "cli" {
			w.maxPlugin = 3
		}
		if root == "probe" || strings.HasPrefix(root, "alt|"+probeIface.String()+"|") {
			w.maxPlugin = 1 // the probe config nests a probe position: one level of it
		}
		w.walkStruct("", t, d.Elem(), func(m map[string]any) any { return m }, []string{}, 0)
		if root == "synth" {
			for _, c := range append(append(rawCases(r, tier), propCases(r, tier)...), sameTagCases()...) {
				w.add(c)
			}
		}
		if root == "probe" {
			for _, c := range instCases(r, tier) {
				w.add(c)
			}
		}
		for _, c := range w.out {
			if tier == "quick" && root == "probe" && c.kind != "inst" && c.kind != "base" {
				// the probe configs are walked exhaustively as roots of their own; below the probe root a sample
				if r.Intn(100) >= 10 {
					continue
				}
			}
			if tier == "quick" && root == "cli" && c.kind != "unknown" && c.kind != "misspelled" && c.kind != "base" && c.kind != "typeonly" {
				// the cli root repeats every plugin's cases below pools[0]: unknown keys and type-only blocks exhaustively, the rest sampled
				if r.Intn(100) >= 12 {
					continue
				}
			}
			out = append(out, c.line())
		}
		nc := 4
		if root == "cli" || root == "synth" || root == "probe" {
			nc = 60
		}
		if tier == "thorough" {
			nc *= 60
			if nc < 2000 {
				nc = 2000
			}
		}
		out = append(out, combos(r, w.out, nc)...)
		// random valid configurations of this root, every position of each mutated once
		nr, depth := 1, 2
		switch {
		case root == "cli" && tier == "thorough":
			nr, depth = 400, 3
		case root == "cli":
			nr, depth = 8, 3
		case (root == "synth" || root == "probe") && tier == "thorough":
			nr = 300
		case root == "probe":
			nr, depth = 6, 3
		case tier == "thorough":
			nr = 200
		}
		for _, c := range randomConfigCases(r, root, nr, depth, true) {
			out = append(out, c.line())
		}
	}
	out = append(out, cliCases(r, tier)...)
	out = append(out, docCases()...)
	return out
}
