package main

// Case generation: a type-level walk over every config struct reachable from a root
// (cli.CliConfig, or the config type of one registered plugin), exhaustive over paths.

import (
	"fmt"
	"math/rand"
	"reflect"
	"sort"
	"strconv"
	"strings"
	"time"
)

const propFile = "/var/tmp/c17-props/p.properties"

// environment variables / properties the placeholder cases use (set by the driver at start-up)
var envTable = map[string]string{
	"C17_STR":   "hello",
	"C17_INT":   "42",
	"C17_NEG":   "-1",
	"C17_FLOAT": "2.5",
	"C17_TRUE":  "true",
	"C17_FALSE": "false",
	"C17_DUR":   "7s",
	"C17_EP":    "127.0.0.3:7070",
	"C17_BIG":   "99999999999999999999",
	"C17_EMPTY": "",
	"C17_300":   "300",
}

// C17_UNSET is never set.
var propTable = map[string]string{
	"str": "hello", "int": "42", "neg": "-1", "float": "2.5", "true": "true", "false": "false", "dur": "7s", "ep": "127.0.0.3:7070",
}

func sortedKeys(m map[string]string) []string {
	ks := make([]string, 0, len(m))
	for k := range m {
		ks = append(ks, k)
	}
	sort.Strings(ks)
	return ks
}

func envTerm() string {
	var xs []string
	for _, k := range sortedKeys(envTable) {
		xs = append(xs, enc(k), tstr(envTable[k]))
	}
	return node("m", xs...)
}

func propsTerm() string {
	var xs []string
	for _, k := range sortedKeys(propTable) {
		xs = append(xs, enc(k), tstr(propTable[k]))
	}
	return node("m", enc(propFile), node("m", xs...))
}

// ---- configuration values

func valTerm(v any) string { return rawVal(v) }

func termVal(t term) (any, error) {
	switch t.name {
	case "n":
		return nil, nil
	case "b":
		return len(t.args) == 1 && t.args[0].name == "true", nil
	case "i":
		if len(t.args) != 1 {
			return nil, fmt.Errorf("bad i")
		}
		n, err := strconv.Atoi(t.args[0].name)
		return n, err
	case "d":
		if len(t.args) != 1 {
			return nil, fmt.Errorf("bad d")
		}
		return strconv.ParseFloat(t.args[0].name, 64)
	case "s":
		if len(t.args) == 0 {
			return "", nil
		}
		return t.args[0].name, nil
	case "l":
		out := []any{}
		for _, a := range t.args {
			v, err := termVal(a)
			if err != nil {
				return nil, err
			}
			out = append(out, v)
		}
		return out, nil
	case "m":
		out := map[string]any{}
		if len(t.args)%2 != 0 {
			return nil, fmt.Errorf("odd map")
		}
		for i := 0; i < len(t.args); i += 2 {
			v, err := termVal(t.args[i+1])
			if err != nil {
				return nil, err
			}
			out[t.args[i].name] = v
		}
		return out, nil
	}
	return nil, fmt.Errorf("unknown value term %q", t.name)
}

func cloneMap(m map[string]any) map[string]any {
	out := make(map[string]any, len(m)+1)
	for k, v := range m {
		out[k] = v
	}
	return out
}

// ---- valid base configurations

type flatField struct {
	sf    reflect.StructField
	key   string
	def   reflect.Value
	names []string // Go field names from the enclosing struct (through squashed structs): value lookup path
}

func flatFields(t reflect.Type, def reflect.Value) []flatField {
	var out []flatField
	for i := 0; i < t.NumField(); i++ {
		f := t.Field(i)
		if f.PkgPath != "" {
			continue
		}
		key, squash := fieldKey(f)
		var dv reflect.Value
		if def.IsValid() {
			dv = def.Field(i)
		} else {
			dv = reflect.Zero(f.Type)
		}
		if squash && f.Type.Kind() == reflect.Struct {
			out = append(out, flatFields(f.Type, dv)...)
			continue
		}
		out = append(out, flatField{sf: f, key: key, def: dv, names: []string{f.Name}})
	}
	return out
}

func vtags(f reflect.StructField) []string {
	vt := f.Tag.Get("validate")
	if vt == "" {
		return nil
	}
	return strings.Split(vt, ",")
}

func stringFor(key string, tags []string) string {
	for _, t := range tags {
		if t == "endpoint" {
			return "127.0.0.1:8080"
		}
		if strings.HasPrefix(t, "eq=") {
			return strings.SplitN(strings.TrimPrefix(t, "eq="), "|", 2)[0]
		}
	}
	switch strings.ToLower(key) {
	case "target":
		return "127.0.0.1:8080"
	case "path", "file", "destination":
		return "/var/tmp/c17-props/data.txt"
	}
	return "x"
}

func basePlugin(iface reflect.Type) any {
	switch iface.String() {
	case "core.Provider":
		return map[string]any{"type": "dummy"}
	case "core.Aggregator":
		return map[string]any{"type": "discard"}
	case "core.Gun":
		return map[string]any{"type": "http", "target": "127.0.0.1:8080"}
	case "core.Schedule":
		return map[string]any{"type": "once", "times": 1}
	case "core.DataSource":
		return map[string]any{"type": "inline", "data": "x"}
	case "core.DataSink":
		return map[string]any{"type": "stdout"}
	}
	names := altNames(iface)
	return map[string]any{"type": names[0]}
}

// baseFor: the keys a struct needs so that decoding + validation succeeds (required fields, minimums)
func baseFor(t reflect.Type, def reflect.Value) map[string]any {
	out := map[string]any{}
	for _, f := range flatFields(t, def) {
		tags := vtags(f.sf)
		ft := f.sf.Type
		for _, tag := range tags {
			switch {
			case tag == "required":
				if !f.def.IsZero() {
					continue
				}
				if iface, _, ok := pluginPos(ft); ok {
					out[f.key] = basePlugin(iface)
					continue
				}
				switch ft.Kind() {
				case reflect.String:
					out[f.key] = stringFor(f.key, tags)
				case reflect.Bool:
					out[f.key] = true
				case reflect.Int, reflect.Int8, reflect.Int16, reflect.Int32, reflect.Int64, reflect.Uint, reflect.Uint8, reflect.Uint16, reflect.Uint32, reflect.Uint64:
					out[f.key] = 1
				case reflect.Float32, reflect.Float64:
					out[f.key] = 1.5
				case reflect.Slice:
					if ft.Elem().Kind() == reflect.Struct {
						out[f.key] = []any{baseFor(ft.Elem(), reflect.Value{})}
					} else {
						out[f.key] = []any{"x"}
					}
				}
			case strings.HasPrefix(tag, "min="):
				n, _ := strconv.Atoi(strings.TrimPrefix(tag, "min="))
				switch ft.Kind() {
				case reflect.Int, reflect.Int8, reflect.Int16, reflect.Int32, reflect.Int64:
					if f.def.Int() < int64(n) {
						out[f.key] = n
					}
				case reflect.Float32, reflect.Float64:
					if f.def.Float() < float64(n) {
						out[f.key] = n
					}
				}
			case strings.HasPrefix(tag, "min-time="):
				if ft == durationType && f.def.Int() < int64(1e6) {
					out[f.key] = "1s"
				}
			case tag == "endpoint":
				if f.def.String() == "" {
					out[f.key] = "127.0.0.1:8080"
				}
			}
		}
	}
	return out
}

// ---- the walk

type gcase struct {
	kind string // unknown | misspelled | mistyped | oor | valid | null | base | ph-… | plugin-…
	root string
	path string
	at   string // Go field names from the root to the field whose value is checked ("-" = not visible)
	fk   string // kind of that field: bool str int:64 uint:64 float:64 dur
	raw  string // placeholder cases: the text the resolver returns
	want string // expected decoded value (valid / null / base)
	exp  string // reject | accept | value | cast
	cfg  any
	uses bool // cfg contains a placeholder
}

type walker struct {
	root      string
	rootType  reflect.Type
	maxPlugin int
	out       []gcase
}

func (w *walker) add(c gcase) {
	c.root = w.root
	w.out = append(w.out, c)
}

func joinAt(vis []string, names []string) string {
	if vis == nil {
		return "-"
	}
	all := append(append([]string{}, vis...), names...)
	if len(all) == 0 {
		return "."
	}
	return strings.Join(all, ".")
}

func kindName(t reflect.Type) string {
	if t == durationType {
		return "dur"
	}
	switch t.Kind() {
	case reflect.Bool:
		return "bool"
	case reflect.String:
		return "str"
	case reflect.Int, reflect.Int8, reflect.Int16, reflect.Int32, reflect.Int64:
		return "int:" + strconv.Itoa(t.Bits())
	case reflect.Uint, reflect.Uint8, reflect.Uint16, reflect.Uint32, reflect.Uint64:
		return "uint:" + strconv.Itoa(t.Bits())
	case reflect.Float32, reflect.Float64:
		return "float:" + strconv.Itoa(t.Bits())
	}
	return ""
}

func hasTag(tags []string, prefix string) (string, bool) {
	for _, t := range tags {
		if t == prefix || strings.HasPrefix(t, prefix+"=") {
			return strings.TrimPrefix(strings.TrimPrefix(t, prefix), "="), true
		}
	}
	return "", false
}

// walkStruct: position = a struct decoded from a map. wrap builds the root configuration from the map at this position.
func (w *walker) walkStruct(path string, t reflect.Type, def reflect.Value, wrap func(map[string]any) any, vis []string, pdepth int) {
	base := baseFor(t, def)
	fields := flatFields(t, def)

	// the base itself: defaults kept
	if path == "" {
		want := ""
		if vis != nil {
			want = "*"
		}
		w.add(gcase{kind: "base", path: ".", at: joinAt(vis, nil), exp: "accept", cfg: wrap(cloneMap(base)), want: want})
	}
	// unknown key, misspelled key
	m := cloneMap(base)
	m["zz_unknown"] = 1
	w.add(gcase{kind: "unknown", path: path + "/zz_unknown", at: "-", exp: "reject", cfg: wrap(m)})
	if len(fields) > 0 {
		m := cloneMap(base)
		k := fields[0].key
		v, had := m[k]
		delete(m, k)
		if !had {
			v = nil
		}
		m[k+"_"] = v
		if v == nil {
			m[k+"_"] = 1
		}
		w.add(gcase{kind: "misspelled", path: path + "/" + k + "_", at: "-", exp: "reject", cfg: wrap(m)})
	}

	// constraints the documentation states (docs/eng/*-generator.md: answlog.filter is all | warning | error)
	if t.Name() == "AnswLogConfig" {
		m := cloneMap(base)
		m["enabled"] = true
		m["filter"] = "bogus"
		w.add(gcase{kind: "doc", path: path + "/filter#documented", at: "-", exp: "reject", cfg: wrap(m)})
		for _, ok := range []string{"all", "warning", "error"} {
			m := cloneMap(base)
			m["filter"] = ok
			w.add(gcase{kind: "valid", path: path + "/filter", at: joinAt(vis, []string{"Filter"}), exp: "value", want: tstr(ok), cfg: wrap(m)})
		}
	}

	for _, f := range fields {
		f := f
		fpath := path + "/" + f.key
		set := func(v any) any {
			m := cloneMap(base)
			m[f.key] = v
			return wrap(m)
		}
		at := joinAt(vis, f.names)
		var fvis []string
		if vis != nil {
			fvis = append(append([]string{}, vis...), f.names...)
		}
		w.walkField(fpath, f, set, at, fvis, pdepth)
	}
}

func (w *walker) walkField(fpath string, f flatField, set func(any) any, at string, fvis []string, pdepth int) {
	ft := f.sf.Type
	tags := vtags(f.sf)
	// explicit null: the default stays
	if f.def.IsValid() && !f.def.IsZero() {
		if kindName(ft) != "" && !isSpecial(ft) {
			w.add(gcase{kind: "null", path: fpath, at: at, exp: "value", want: dval(f.def), cfg: set(nil)})
		} else {
			w.add(gcase{kind: "null", path: fpath, at: "-", exp: "accept", cfg: set(nil)})
		}
	}
	if iface, _, ok := pluginPos(ft); ok {
		w.walkPlugin(fpath, iface, set, fvis, pdepth)
		return
	}
	if isSpecial(ft) {
		w.add(gcase{kind: "mistyped", path: fpath, at: "-", exp: "reject", cfg: set([]any{1})})
		return
	}
	if fk := kindName(ft); fk != "" {
		w.scalarCases(fpath, f, fk, tags, set, at)
		return
	}
	switch ft.Kind() {
	case reflect.Struct:
		w.add(gcase{kind: "mistyped", path: fpath, at: "-", exp: "reject", cfg: set("x")})
		w.walkStruct(fpath, ft, f.def, func(m map[string]any) any { return set(m) }, fvis, pdepth)
	case reflect.Ptr:
		if ft.Elem().Kind() == reflect.Struct && !isSpecial(ft.Elem()) {
			w.add(gcase{kind: "mistyped", path: fpath, at: "-", exp: "reject", cfg: set("x")})
			var d reflect.Value
			if f.def.IsValid() && !f.def.IsNil() {
				d = f.def.Elem()
			}
			var pv []string
			if fvis != nil {
				pv = fvis // the dumper prints ptr(v); the lookup steps through it
			}
			w.walkStruct(fpath, ft.Elem(), d, func(m map[string]any) any { return set(m) }, pv, pdepth)
		} else if fk := kindName(ft.Elem()); fk != "" {
			// pointer to a scalar: a lone placeholder has no castable kind
			w.add(gcase{kind: "mistyped", path: fpath, at: "-", exp: "reject", cfg: set(map[string]any{"a": 1})})
		}
	case reflect.Slice:
		w.add(gcase{kind: "mistyped", path: fpath, at: "-", exp: "reject", cfg: set(map[string]any{"a": 1})})
		et := ft.Elem()
		if iface, _, ok := pluginPos(et); ok {
			w.walkPlugin(fpath+"[0]", iface, func(v any) any { return set([]any{v}) }, nil, pdepth)
		} else if et.Kind() == reflect.Struct && !isSpecial(et) {
			w.walkStruct(fpath+"[0]", et, reflect.Value{}, func(m map[string]any) any { return set([]any{m}) }, nil, pdepth)
		} else if fk := kindName(et); fk == "str" {
			w.add(gcase{kind: "valid", path: fpath, at: at, exp: "value", want: node("l", tstr("a"), tstr("b")), cfg: set([]any{"a", "b"})})
			w.add(gcase{kind: "ph-elem", path: fpath, at: at, exp: "value", want: node("l", tstr("hello"), tstr("x-hello")),
				cfg: set([]any{"${env:C17_STR}", "x-${env:C17_STR}"}), uses: true})
			w.add(gcase{kind: "ph-unset", path: fpath, at: "-", exp: "reject", cfg: set([]any{"${env:C17_UNSET}"}), uses: true})
			w.add(gcase{kind: "mistyped", path: fpath + "[0]", at: "-", exp: "reject", cfg: set([]any{map[string]any{"a": 1}})})
		}
	case reflect.Map:
		w.add(gcase{kind: "mistyped", path: fpath, at: "-", exp: "reject", cfg: set([]any{1})})
		if ft.Key().Kind() == reflect.String && kindName(ft.Elem()) == "str" {
			w.add(gcase{kind: "valid", path: fpath, at: at, exp: "value", want: node("m", "k", tstr("v")), cfg: set(map[string]any{"k": "v"})})
			w.add(gcase{kind: "ph-elem", path: fpath, at: at, exp: "value", want: node("m", "k", tstr("hello")),
				cfg: set(map[string]any{"k": "${env:C17_STR}"}), uses: true})
			w.add(gcase{kind: "ph-unset", path: fpath, at: "-", exp: "reject", cfg: set(map[string]any{"k": "${property:" + propFile + "#nosuch}"}), uses: true})
		}
	}
}

func ph(kind, name string) string {
	if kind == "env" {
		return "${env:" + name + "}"
	}
	return "${property:" + propFile + "#" + name + "}"
}

func (w *walker) scalarCases(fpath string, f flatField, fk string, tags []string, set func(any) any, at string) {
	_, minTag := hasTag(tags, "min")
	_, isEP := hasTag(tags, "endpoint")
	_, isEq := hasTag(tags, "eq")
	base := strings.SplitN(fk, ":", 2)[0]
	// mistyped
	var bad any
	switch base {
	case "bool":
		bad = "yes"
	case "str":
		bad = 5
	case "int", "float":
		bad = "abc"
	case "uint":
		bad = -1
	case "dur":
		bad = true
	}
	w.add(gcase{kind: "mistyped", path: fpath, at: "-", exp: "reject", cfg: set(bad)})
	if base == "uint" {
		w.add(gcase{kind: "mistyped", path: fpath, at: "-", exp: "reject", cfg: set("abc")})
	}
	if base == "dur" {
		w.add(gcase{kind: "mistyped", path: fpath, at: "-", exp: "reject", cfg: set("5x")})
	}
	// out of range, one per validate tag
	for _, t := range tags {
		switch {
		case t == "required":
			var zero any
			switch base {
			case "str":
				zero = ""
			case "bool":
				zero = false
			default:
				zero = 0
			}
			if isEP {
				continue // "" fails `endpoint` first; covered below
			}
			w.add(gcase{kind: "oor", path: fpath + "#required", at: "-", exp: "reject", cfg: set(zero)})
		case strings.HasPrefix(t, "min="):
			n, _ := strconv.Atoi(strings.TrimPrefix(t, "min="))
			if base == "uint" && n == 0 {
				continue
			}
			w.add(gcase{kind: "oor", path: fpath + "#" + t, at: "-", exp: "reject", cfg: set(n - 1)})
		case strings.HasPrefix(t, "min-time="):
			w.add(gcase{kind: "oor", path: fpath + "#" + t, at: "-", exp: "reject", cfg: set("100us")})
		case t == "endpoint":
			w.add(gcase{kind: "oor", path: fpath + "#endpoint", at: "-", exp: "reject", cfg: set("no-port")})
			w.add(gcase{kind: "oor", path: fpath + "#endpoint", at: "-", exp: "reject", cfg: set("127.0.0.1:99999")})
		case strings.HasPrefix(t, "eq="):
			w.add(gcase{kind: "oor", path: fpath + "#oneof", at: "-", exp: "reject", cfg: set("bogus")})
		}
	}
	// a valid non-default value; placeholders
	type pv struct {
		env, prop string // variable names
		raw       string
	}
	var valid any
	var want string
	var p pv
	switch base {
	case "bool":
		nv := !f.def.Bool()
		valid, want = nv, node("b", strconv.FormatBool(nv))
		if nv {
			p = pv{"C17_TRUE", "true", "true"}
		} else {
			p = pv{"C17_FALSE", "false", "false"}
		}
	case "str":
		s := "v-" + f.key
		if isEP {
			s = "127.0.0.2:9090"
		}
		if isEq {
			s = stringFor(f.key, tags)
		}
		valid, want = s, tstr(s)
		p = pv{"C17_STR", "str", "hello"}
		if isEP {
			p = pv{"C17_EP", "ep", "127.0.0.3:7070"}
		}
		if isEq {
			p = pv{}
		}
	case "int":
		valid, want = 17, node("i", "17")
		p = pv{"C17_INT", "int", "42"}
	case "uint":
		valid, want = 17, node("u", "17")
		p = pv{"C17_INT", "int", "42"}
	case "float":
		valid, want = 3.5, node("d", "3.5")
		p = pv{"C17_FLOAT", "float", "2.5"}
	case "dur":
		valid, want = "3s", node("i", "3000000000")
		p = pv{"C17_DUR", "dur", "7s"}
	}
	w.add(gcase{kind: "valid", path: fpath, at: at, fk: fk, exp: "value", want: want, cfg: set(valid)})
	if p.env != "" {
		w.add(gcase{kind: "ph-env", path: fpath, at: at, fk: fk, raw: p.raw, exp: "cast", cfg: set(ph("env", p.env)), uses: true})
		w.add(gcase{kind: "ph-prop", path: fpath, at: at, fk: fk, raw: p.raw, exp: "cast", cfg: set(ph("property", p.prop)), uses: true})
	}
	w.add(gcase{kind: "ph-unset", path: fpath, at: "-", fk: fk, exp: "reject", cfg: set(ph("env", "C17_UNSET")), uses: true})
	w.add(gcase{kind: "ph-noprop", path: fpath, at: "-", fk: fk, exp: "reject", cfg: set(ph("property", "nosuch")), uses: true})
	w.add(gcase{kind: "ph-nofile", path: fpath, at: "-", fk: fk, exp: "reject", cfg: set("${property:/var/tmp/c17-props/absent.properties#str}"), uses: true})
	switch base {
	case "str":
		if !isEP && !isEq {
			w.add(gcase{kind: "ph-embed", path: fpath, at: at, fk: fk, exp: "value", want: tstr("a-hello-b"), cfg: set("a-${env:C17_STR}-b"), uses: true})
			w.add(gcase{kind: "ph-short", path: fpath, at: at, fk: fk, raw: "hello", exp: "cast", cfg: set("${C17_STR}"), uses: true})
		}
	case "uint":
		// the confirmed defect: -1 into an unsigned field
		w.add(gcase{kind: "ph-neg", path: fpath, at: at, fk: fk, raw: "-1", exp: "cast", cfg: set(ph("env", "C17_NEG")), uses: true})
		w.add(gcase{kind: "ph-big", path: fpath, at: at, fk: fk, raw: envTable["C17_BIG"], exp: "cast", cfg: set(ph("env", "C17_BIG")), uses: true})
		w.add(gcase{kind: "ph-300", path: fpath, at: at, fk: fk, raw: "300", exp: "cast", cfg: set(ph("env", "C17_300")), uses: true})
	case "int":
		w.add(gcase{kind: "ph-300", path: fpath, at: at, fk: fk, raw: "300", exp: "cast", cfg: set(ph("env", "C17_300")), uses: true})
		if !minTag {
			w.add(gcase{kind: "ph-neg", path: fpath, at: at, fk: fk, raw: "-1", exp: "cast", cfg: set(ph("property", "neg")), uses: true})
		}
		w.add(gcase{kind: "ph-big", path: fpath, at: at, fk: fk, raw: envTable["C17_BIG"], exp: "cast", cfg: set(ph("env", "C17_BIG")), uses: true})
		w.add(gcase{kind: "ph-badlit", path: fpath, at: at, fk: fk, raw: "hello", exp: "cast", cfg: set(ph("env", "C17_STR")), uses: true})
	case "bool", "float", "dur":
		w.add(gcase{kind: "ph-badlit", path: fpath, at: at, fk: fk, raw: "hello", exp: "cast", cfg: set(ph("env", "C17_STR")), uses: true})
	}
}

func (w *walker) walkPlugin(fpath string, iface reflect.Type, set func(any) any, fvis []string, pdepth int) {
	w.add(gcase{kind: "mistyped", path: fpath, at: "-", exp: "reject", cfg: set(5)})
	w.add(gcase{kind: "plugin-notype", path: fpath, at: "-", exp: "reject", cfg: set(map[string]any{"zz": 1})})
	w.add(gcase{kind: "plugin-badname", path: fpath, at: "-", exp: "reject", cfg: set(map[string]any{"type": "no-such-plugin"})})
	switch iface.String() {
	case sinkIface:
		w.add(gcase{kind: "plugin-short", path: fpath, at: "-", exp: "accept", cfg: set("stderr")})
		w.add(gcase{kind: "plugin-short", path: fpath, at: "-", exp: "accept", cfg: set("/var/tmp/c17-props/out.txt")})
	case schedIface:
		w.add(gcase{kind: "plugin-short", path: fpath, at: "-", exp: "accept", cfg: set([]any{map[string]any{"type": "once", "times": 2}})})
		w.add(gcase{kind: "unknown", path: fpath + "[0]/zz_unknown", at: "-", exp: "reject", cfg: set([]any{map[string]any{"type": "once", "times": 2, "zz_unknown": 1}})})
	}
	if pdepth >= w.maxPlugin {
		return
	}
	for _, name := range altNames(iface) {
		name := name
		a := reg[iface][name]
		d := freshDefault(iface, name)
		w.walkStruct(fpath+"("+name+")", a.confType, d.Elem(), func(m map[string]any) any {
			m2 := cloneMap(m)
			m2["type"] = name
			return set(m2)
		}, nil, pdepth+1)
	}
}

// ---- rendering a case as an input line

// synthConfig: field kinds that no registered component uses (narrow integers, float32, pointers to scalars, nested
// containers), decoded by the same real config.DecodeAndValidate
type synthConfig struct {
	U8   uint8   `config:"u8"`
	U16  uint16  `config:"u16"`
	U32  uint32  `config:"u32" validate:"min=1"`
	U    uint    `config:"u"`
	I8   int8    `config:"i8"`
	I16  int16   `config:"i16"`
	I32  int32   `config:"i32"`
	F32  float32 `config:"f32"`
	F64  float64
	Name string        `validate:"required"`
	Wait time.Duration `config:"wait" validate:"min-time=1ms"`
	On   bool
	Sub  *synthSub           `config:"sub"`
	Subs []synthSub          `config:"subs" validate:"dive"`
	ByK  map[string]synthSub `config:"by-k"`
	Tags map[string]string   `config:"tags"`
	Any  interface{}         `config:"any"`
	Emb  synthEmb            `config:",squash"`
}

type synthSub struct {
	Level int    `config:"level" validate:"min=0"`
	Label string `config:"label"`
}

type synthEmb struct {
	Depth uint16 `config:"depth"`
	Mode  string `config:"mode" validate:"omitempty,eq=a|eq=b"`
}

func synthDefault() *synthConfig {
	return &synthConfig{U8: 8, U16: 16, U32: 32, U: 1, I8: -8, I16: -16, I32: 32, F32: 0.5, F64: 1.5, Name: "n", Wait: time.Second,
		On: true, Sub: &synthSub{Level: 3, Label: "l"}, Emb: synthEmb{Depth: 2, Mode: "a"}}
}

func rootTarget(root string) (reflect.Type, reflect.Value) {
	if root == "cli" {
		c := cliDefault()
		return c.Type().Elem(), c
	}
	if root == "synth" {
		c := reflect.ValueOf(synthDefault())
		return c.Type().Elem(), c
	}
	parts := strings.SplitN(root, "|", 3)
	for _, iface := range regOrder {
		if iface.String() == parts[1] {
			d := freshDefault(iface, parts[2])
			return d.Type().Elem(), d
		}
	}
	panic("unknown root " + root)
}

func (c gcase) line() string {
	env, props := "m()", "m()"
	if c.uses {
		env, props = envTerm(), propsTerm()
	}
	opt := func(s string) string {
		if s == "" {
			return "-"
		}
		return s
	}
	return fmt.Sprintf("kind=%s root=%s path=%s exp=%s at=%s fk=%s raw=%s want=%s env=%s props=%s cfg=%s",
		c.kind, enc(c.root), enc(c.path), c.exp, enc(c.at), opt(c.fk), tstr(c.raw), opt(c.want), env, props, valTerm(c.cfg))
}

func allRoots() []string {
	roots := []string{"cli", "synth"}
	for _, iface := range regOrder {
		for _, n := range altNames(iface) {
			roots = append(roots, "alt|"+iface.String()+"|"+n)
		}
	}
	return roots
}

// deepMerge overlays b on a (mappings key-wise, lists index-wise, otherwise b wins): two single mutations of the same
// base configuration become one configuration carrying both
func deepMerge(a, b any) any {
	switch x := a.(type) {
	case map[string]any:
		y, ok := b.(map[string]any)
		if !ok {
			return b
		}
		out := cloneMap(x)
		for k, v := range y {
			if old, ok := out[k]; ok {
				out[k] = deepMerge(old, v)
			} else {
				out[k] = v
			}
		}
		return out
	case []any:
		y, ok := b.([]any)
		if !ok {
			return b
		}
		n := len(x)
		if len(y) > n {
			n = len(y)
		}
		out := make([]any, n)
		for i := range out {
			switch {
			case i < len(x) && i < len(y):
				out[i] = deepMerge(x[i], y[i])
			case i < len(x):
				out[i] = x[i]
			default:
				out[i] = y[i]
			}
		}
		return out
	}
	return b
}

// combos: several mutations at once (errors accumulate, lazily filled factories defer): no demand of the property is
// attached, the real outcome is compared with the model's
func combos(r *rand.Rand, cases []gcase, n int) []string {
	var out []string
	if len(cases) < 2 {
		return nil
	}
	for i := 0; i < n; i++ {
		k := 2 + r.Intn(3)
		c := cases[r.Intn(len(cases))]
		cfg := c.cfg
		uses := c.uses
		path := c.kind + ":" + c.path
		for j := 1; j < k; j++ {
			d := cases[r.Intn(len(cases))]
			cfg = deepMerge(cfg, d.cfg)
			uses = uses || d.uses
			path += "+" + d.kind + ":" + d.path
		}
		out = append(out, gcase{kind: "combo", root: c.root, path: path, at: "-", exp: "none", cfg: cfg, uses: uses}.line())
	}
	return out
}

func genCases(r *rand.Rand, tier string) []string {
	var out []string
	for _, root := range allRoots() {
		t, d := rootTarget(root)
		w := &walker{root: root, rootType: t, maxPlugin: 2}
		if root == "cli" {
			w.maxPlugin = 3
		}
		w.walkStruct("", t, d.Elem(), func(m map[string]any) any { return m }, []string{}, 0)
		for _, c := range w.out {
			if tier == "quick" && root == "cli" && c.kind != "unknown" && c.kind != "misspelled" && c.kind != "base" {
				// the cli root repeats every plugin's cases below pools[0]: unknown keys exhaustively, the rest sampled
				if r.Intn(100) >= 12 {
					continue
				}
			}
			out = append(out, c.line())
		}
		nc := 4
		if root == "cli" || root == "synth" {
			nc = 60
		}
		if tier == "thorough" {
			nc *= 60
		}
		out = append(out, combos(r, w.out, nc)...)
	}
	out = append(out, cliCases(r, tier)...)
	return out
}
