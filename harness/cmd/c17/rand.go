package main

// Random VALID configurations (the property's quantifier: "all valid pool configurations, each with one inserted
// unknown key at every possible path, each field with … wrongly typed values, placeholders in every field position"):
// a configuration is built from the schema — every plugin position picks a random registered plugin, optional
// fields are given valid values at random, nested plugins / structs / lists recursively — and then, for EVERY mapping
// in it that is decoded into a struct, one variant with an unknown key and one with a misspelled key; for every
// scalar option in it one variant with a wrongly typed value, one with an unresolvable placeholder, one with null.

import (
	"fmt"
	"math/rand"
	"reflect"
	"strconv"
	"strings"
)

// validScalar: a valid non-default value of a scalar field (honouring its constraints)
func validScalar(r *rand.Rand, f flatField, fk string) any {
	tags := vtags(f.owner, f.sf)
	base := strings.SplitN(fk, ":", 2)[0]
	_, isEP := hasTag(tags, "endpoint")
	_, isEq := hasTag(tags, "eq")
	switch base {
	case "bool":
		return r.Intn(2) == 0
	case "str":
		if isEP {
			return []string{"127.0.0.2:9090", "localhost:80", ":8081", ":1", ":65535"}[r.Intn(5)]
		}
		if _, isPath := hasTag(tags, "url-path"); isEq || isPath {
			return stringFor(f.key, tags)
		}
		if _, req := hasTag(tags, "required"); req {
			return stringFor(f.key, tags)
		}
		return []string{"v-" + f.key, "x", "a b"}[r.Intn(3)]
	case "int", "uint":
		n := 1 + r.Intn(40)
		if m, ok := hasTag(tags, "min"); ok {
			if mv, err := strconv.Atoi(m); err == nil && n < mv {
				n = mv
			}
		}
		if r.Intn(4) == 0 {
			return float64(n) // JSON numbers are floats
		}
		return n
	case "float":
		if _, ok := hasTag(tags, "min"); ok {
			return []any{3.5, 2, 10.0}[r.Intn(3)]
		}
		return []any{3.5, 2, 0.25, 10.0}[r.Intn(4)]
	case "dur":
		if _, ok := hasTag(tags, "max-time"); ok {
			return []string{"3s", "1s", "59s", "1m"}[r.Intn(4)]
		}
		return []string{"3s", "1m30s", "250ms", "2h"}[r.Intn(4)]
	}
	return nil
}

func randPlugin(r *rand.Rand, iface reflect.Type, depth int) any {
	if depth <= 0 {
		return basePlugin(iface)
	}
	names := altNames(iface)
	name := names[r.Intn(len(names))]
	a := reg[iface][name]
	d := freshDefault(iface, name)
	m := randStruct(r, a.confType, d.Elem(), depth-1)
	tk := "type"
	if r.Intn(6) == 0 {
		tk = []string{"TYPE", "Type"}[r.Intn(2)]
	}
	m[tk] = name
	if iface.String() == schedIface && r.Intn(5) == 0 {
		// list shortcut of a schedule
		xs := []any{m}
		if r.Intn(2) == 0 {
			xs = append(xs, map[string]any{"type": "once", "times": 1 + r.Intn(3)})
		}
		return xs
	}
	if iface.String() == sinkIface && r.Intn(5) == 0 {
		return []string{"stdout", "stderr", "/var/tmp/c17-props/out.txt"}[r.Intn(3)]
	}
	return m
}

func randStruct(r *rand.Rand, t reflect.Type, def reflect.Value, depth int) map[string]any {
	out := baseFor(t, def)
	for _, f := range flatFields(t, def) {
		if strings.EqualFold(f.key, "type") || f.key == "-" {
			continue
		}
		_, inBase := out[f.key]
		if !inBase && r.Intn(100) >= 45 {
			continue
		}
		if v, ok := randFieldValue(r, f, depth); ok {
			out[f.key] = v
		}
	}
	return out
}

func randFieldValue(r *rand.Rand, f flatField, depth int) (any, bool) {
	ft := f.sf.Type
	if iface, _, ok := pluginPos(ft); ok {
		return randPlugin(r, iface, depth), true
	}
	if isSpecial(ft) {
		return nil, false
	}
	if fk := kindName(ft); fk != "" {
		return validScalar(r, f, fk), true
	}
	switch ft.Kind() {
	case reflect.Struct:
		return randStruct(r, ft, f.def, depth), true
	case reflect.Ptr:
		if ft.Elem().Kind() == reflect.Struct && !isSpecial(ft.Elem()) {
			var d reflect.Value
			if f.def.IsValid() && !f.def.IsNil() {
				d = f.def.Elem()
			}
			return randStruct(r, ft.Elem(), d, depth), true
		}
	case reflect.Slice:
		et := ft.Elem()
		n := 1 + r.Intn(2)
		var xs []any
		for i := 0; i < n; i++ {
			if iface, _, ok := pluginPos(et); ok {
				xs = append(xs, randPlugin(r, iface, depth))
			} else if et.Kind() == reflect.Struct && !isSpecial(et) {
				xs = append(xs, randStruct(r, et, reflect.Value{}, depth))
			} else if kindName(et) == "str" {
				xs = append(xs, []string{"a", "b", "[Host: x]"}[r.Intn(3)])
			} else {
				return nil, false
			}
		}
		return xs, true
	case reflect.Map:
		if ft.Key().Kind() == reflect.String && kindName(ft.Elem()) == "str" {
			return map[string]any{"k": "v"}, true
		}
		if ft.Key().Kind() == reflect.String && ft.Elem().Kind() == reflect.Struct && !isSpecial(ft.Elem()) {
			return map[string]any{"k1": randStruct(r, ft.Elem(), reflect.Value{}, depth)}, true
		}
	}
	return nil, false
}

// ---- positions inside a configuration

type cfgPos struct {
	steps []any // string = mapping key, int = list index
	path  string
	keys  map[string]bool // lower-cased keys of the struct decoded here
}

type cfgLeaf struct {
	cfgPos
	key string
	fk  string
}

func deepCopy(v any) any {
	switch x := v.(type) {
	case map[string]any:
		out := make(map[string]any, len(x))
		for k, e := range x {
			out[k] = deepCopy(e)
		}
		return out
	case []any:
		out := make([]any, len(x))
		for i, e := range x {
			out[i] = deepCopy(e)
		}
		return out
	}
	return v
}

// mutateAt copies cfg and applies mut to the mapping the steps lead to
func mutateAt(cfg any, steps []any, mut func(m map[string]any)) any {
	c := deepCopy(cfg)
	cur := c
	for _, s := range steps {
		switch k := s.(type) {
		case string:
			cur = cur.(map[string]any)[k]
		case int:
			cur = cur.([]any)[k]
		}
	}
	if m, ok := cur.(map[string]any); ok {
		mut(m)
	}
	return c
}

func actualKey(m map[string]any, key string) (string, bool) {
	if _, ok := m[key]; ok {
		return key, true
	}
	for k := range m {
		if strings.EqualFold(k, key) {
			return k, true
		}
	}
	return "", false
}

func appendStep(steps []any, s any) []any {
	return append(append([]any{}, steps...), s)
}

// walkPositions: every mapping of cfg that is decoded into a struct, every scalar option given in cfg
func walkPositions(t reflect.Type, cfg any, steps []any, path string, structs *[]cfgPos, leaves *[]cfgLeaf) {
	if cfg == nil {
		return
	}
	if iface, _, ok := pluginPos(t); ok {
		switch x := cfg.(type) {
		case []any:
			if iface.String() == schedIface {
				for i, e := range x {
					walkPositions(t, e, appendStep(steps, i), fmt.Sprintf("%s[%d]", path, i), structs, leaves)
				}
			}
		case map[string]any:
			name := ""
			for k, v := range x {
				if strings.EqualFold(k, "type") {
					name, _ = v.(string)
				}
			}
			a, ok := reg[iface][name]
			if !ok {
				return
			}
			walkStructPositions(a.confType, x, steps, path+"("+name+")", structs, leaves)
		}
		return
	}
	if isSpecial(t) {
		return
	}
	switch t.Kind() {
	case reflect.Struct:
		if m, ok := cfg.(map[string]any); ok {
			walkStructPositions(t, m, steps, path, structs, leaves)
		}
	case reflect.Ptr:
		walkPositions(t.Elem(), cfg, steps, path, structs, leaves)
	case reflect.Slice:
		if xs, ok := cfg.([]any); ok {
			for i, e := range xs {
				walkPositions(t.Elem(), e, appendStep(steps, i), fmt.Sprintf("%s[%d]", path, i), structs, leaves)
			}
		}
	case reflect.Map:
		if m, ok := cfg.(map[string]any); ok && t.Key().Kind() == reflect.String {
			for k, e := range m {
				walkPositions(t.Elem(), e, appendStep(steps, k), path+"{"+k+"}", structs, leaves)
			}
		}
	}
}

func walkStructPositions(t reflect.Type, m map[string]any, steps []any, path string, structs *[]cfgPos, leaves *[]cfgLeaf) {
	keys := map[string]bool{"type": true}
	for _, f := range flatFields(t, reflect.Value{}) {
		keys[strings.ToLower(f.key)] = true
	}
	*structs = append(*structs, cfgPos{steps: steps, path: path, keys: keys})
	for _, f := range flatFields(t, reflect.Value{}) {
		k, ok := actualKey(m, f.key)
		if !ok || strings.EqualFold(k, "type") {
			continue
		}
		if fk := kindName(f.sf.Type); fk != "" && !isSpecial(f.sf.Type) {
			if _, isPl, _ := pluginPos(f.sf.Type); !isPl {
				*leaves = append(*leaves, cfgLeaf{cfgPos: cfgPos{steps: steps, path: path + "/" + k}, key: k, fk: fk})
			}
			continue
		}
		walkPositions(f.sf.Type, m[k], appendStep(steps, k), path+"/"+k, structs, leaves)
	}
}

func badValue(fk string) any {
	switch strings.SplitN(fk, ":", 2)[0] {
	case "bool":
		return "yes"
	case "str":
		return 5
	case "int", "float":
		return "abc"
	case "uint":
		return -1
	case "dur":
		return "5x"
	}
	return []any{1}
}

// randomConfigCases: n random valid configurations of a root and their single mutations
func randomConfigCases(r *rand.Rand, root string, n, depth int, every bool) []gcase {
	var out []gcase
	t, d := rootTarget(root)
	for i := 0; i < n; i++ {
		cfg := any(randStruct(r, t, d.Elem(), depth))
		tag := fmt.Sprintf("rand%d", i)
		out = append(out, gcase{kind: "rbase", root: root, path: tag, at: "-", exp: "none", cfg: cfg})
		var structs []cfgPos
		var leaves []cfgLeaf
		walkPositions(t, cfg, nil, "", &structs, &leaves)
		for _, p := range structs {
			p := p
			if !every && r.Intn(3) != 0 {
				continue
			}
			uv := []any{1, nil, "x", map[string]any{"a": 1}, []any{1}}[r.Intn(5)]
			out = append(out, gcase{kind: "unknown", root: root, path: tag + ":" + p.path + "/zz_unknown", at: "-", exp: "reject",
				cfg: mutateAt(cfg, p.steps, func(m map[string]any) { m["zz_unknown"] = uv })})
			// a key of this mapping, misspelled (the original key disappears)
			out = append(out, gcase{kind: "misspelled", root: root, path: tag + ":" + p.path + "/~", at: "-", exp: "reject",
				cfg: mutateAt(cfg, p.steps, func(m map[string]any) {
					ks := make([]string, 0, len(m))
					for k := range m {
						if !strings.EqualFold(k, "type") {
							ks = append(ks, k)
						}
					}
					if len(ks) == 0 {
						m["typ"] = "x"
						return
					}
					sortStrings(ks)
					k := ks[r.Intn(len(ks))]
					v := m[k]
					delete(m, k)
					nk := misspell(r, k)
					for tries := 0; p.keys[strings.ToLower(nk)] || nk == ""; tries++ {
						nk = k + strings.Repeat("_", tries+1)
					}
					m[nk] = v
				})})
		}
		for _, l := range leaves {
			if !every && r.Intn(4) != 0 {
				continue
			}
			l := l
			out = append(out, gcase{kind: "mistyped", root: root, path: tag + ":" + l.path, at: "-", exp: "reject",
				cfg: mutateAt(cfg, l.steps, func(m map[string]any) { m[l.key] = badValue(l.fk) })})
			out = append(out, gcase{kind: "ph-unset", root: root, path: tag + ":" + l.path, at: "-", exp: "reject", uses: true,
				cfg: mutateAt(cfg, l.steps, func(m map[string]any) { m[l.key] = "${env:C17_UNSET}" })})
			out = append(out, gcase{kind: "rnull", root: root, path: tag + ":" + l.path, at: "-", exp: "none",
				cfg: mutateAt(cfg, l.steps, func(m map[string]any) { m[l.key] = nil })})
		}
	}
	return out
}

func sortStrings(xs []string) {
	for i := 1; i < len(xs); i++ {
		for j := i; j > 0 && xs[j] < xs[j-1]; j-- {
			xs[j], xs[j-1] = xs[j-1], xs[j]
		}
	}
}

// misspell: the slips people make — a dropped / doubled letter, `-` for `_`, a plural, a neighbouring key name
func misspell(r *rand.Rand, k string) string {
	switch r.Intn(6) {
	case 0:
		if len(k) > 2 {
			return k[:len(k)-1]
		}
	case 1:
		return k + k[len(k)-1:]
	case 2:
		if strings.ContainsAny(k, "-_") {
			return strings.Map(func(c rune) rune {
				if c == '-' {
					return '_'
				}
				if c == '_' {
					return '-'
				}
				return c
			}, k)
		}
	case 3:
		return k + "s"
	case 4:
		if len(k) > 3 {
			return k[:1] + k[2:3] + k[1:2] + k[3:]
		}
	}
	return k + "_"
}
