package main

// C08: limit/passes semantics and clean end-of-ammo on every provider.
//
// One cell = one line:
//   kind=uri preload=1 limit=2 passes=0 n=3 cons=1 cap=8 junk=0 [mode=drain|stall|ext|engine] [via=direct|cfg] [at=K] [shots=S] [pad=P] [eol=E] [idle=1] [gate=G]
// round 6, the size of an entry: [big=B bigat=I] entry I (1-based) is B bytes larger than the others; [mas=M] the maxammosize option
// fault plan (any combination, modes drain / ext / tcan): [cfail=1|2] [rfail=K [rsticky=1]] [ofail=1]; the observation then ends with rhit= chit= ohit=
// kinds: uri uris uripost raw jsonl jsonarr (components/providers/http, with and without preload), grpcjson,
// httpscn, grpcscn (scenario providers), genjson (core/provider JSON provider over MultiPassReader).
// See harness/c08cell for what each mode does.  Observation per mode:
//   drain   delivered=2 cut=0 run=nil end=closed seq=ok ops=5
//   ext     delivered=2 cut=0 fired=1 run=canceled end=closed seq=ok ops=5      (tcan: the same)
//   stall   delivered=2 cut=1 ret=1 run=canceled left=0 end=closed seq=ok
//   engine  shots=4 err=nil wait=1 seq=ok
//     run   = what Provider.Run returned (nil|canceled|limit|passes|noammo|other:..|noreturn)
//     end   = closed (every consumer got ok=false) | blocked | spinning | open
//     seq   = the acquired ammo are the entries of the file in cyclic order (one consumer: exact order; several: as a multiset)
//     ops   = Read+Seek calls on the ammo file (bounded by the Spec, not predicted by the model)
//
// Every run executes the exhaustive small matrix (all kinds x preload x limit 0..4 x passes 0..3 x n 1..4 x consumers
// {1,3}) in mode drain, cancellation after every possible number of deliveries for a set of bounded cells, the stall
// and ext matrices, a slice through the real engine, a slice constructed through the registered plugin factories, and
// random larger cells.

import (
	"fmt"
	"math/rand"
	"strconv"
	"strings"
	"time"

	"verifharness/c08cell"
	"verifharness/drv"
)

type variant struct {
	kind    string
	preload bool
}

func variants() []variant {
	var vs []variant
	for _, k := range c08cell.HTTPKinds {
		vs = append(vs, variant{k, false}, variant{k, true})
	}
	for _, k := range c08cell.OtherKinds {
		vs = append(vs, variant{k, false})
	}
	return vs
}

func expected(limit, passes, n int) (int, bool) {
	return c08cell.Expected(uint64(limit), uint64(passes), n)
}

// capFor: drain cells that are not meant to be cut get a cap above everything the provider may deliver
func capFor(limit, passes, n int) int {
	if limit == 0 && passes == 0 {
		return 3*n + 5
	}
	m := limit
	if passes*n > m {
		m = passes * n
	}
	return m + n + 3
}

type cell struct {
	v                variant
	limit, passes, n int
	cons, cap        int
	junk             bool
	mode, via        string
	at, shots, pad   int
	jit              int
	eol, gate        int
	idle             bool
	cfail, rfail     int  // fault plan: close fails (1) / Close field nil (2); the rfail-th file operation fails
	rsticky, ofail   bool // … and every later one; opening the ammo file fails
	// round 4
	xl, xp uint64 // != 0: the limit / passes of the cell (any value of a uint option, also above the int range), instead of limit / passes
	pick   []int  // chosencases: ids of the listed entries (nil: no chosencases option)
	src    string // generic JSON provider: data source kind
	wts    []int  // scenario kinds: weights of the n scenarios
	// round 6
	big, bigat, mas int // entry bigat-1 is `big` bytes larger than the others; the maxammosize option
}

func (c cell) lim() uint64 {
	if c.xl != 0 {
		return c.xl
	}
	return uint64(c.limit)
}

func (c cell) pas() uint64 {
	if c.xp != 0 {
		return c.xp
	}
	return uint64(c.passes)
}

func b2i(x bool) int {
	if x {
		return 1
	}
	return 0
}

func (c cell) line() string {
	s := fmt.Sprintf("kind=%s preload=%d limit=%d passes=%d n=%d cons=%d cap=%d junk=%d",
		c.v.kind, b2i(c.v.preload), c.lim(), c.pas(), c.n, c.cons, c.cap, b2i(c.junk))
	if c.mode != "" && c.mode != "drain" {
		s += " mode=" + c.mode
	}
	if c.via != "" && c.via != "direct" {
		s += " via=" + c.via
	}
	if c.mode == "ext" || c.mode == "tcan" {
		s += fmt.Sprintf(" at=%d", c.at)
	}
	if c.jit != 0 {
		s += fmt.Sprintf(" jit=%d", c.jit)
	}
	if c.mode == "engine" {
		s += fmt.Sprintf(" shots=%d", c.shots)
	}
	if c.pad != 0 {
		s += fmt.Sprintf(" pad=%d", c.pad)
	}
	if c.eol != 0 {
		s += fmt.Sprintf(" eol=%d", c.eol)
	}
	if c.idle {
		s += " idle=1"
	}
	if c.gate != 0 {
		s += fmt.Sprintf(" gate=%d", c.gate)
	}
	if c.cfail != 0 {
		s += fmt.Sprintf(" cfail=%d", c.cfail)
	}
	if c.rfail != 0 {
		s += fmt.Sprintf(" rfail=%d", c.rfail)
		if c.rsticky {
			s += " rsticky=1"
		}
	}
	if c.ofail {
		s += " ofail=1"
	}
	if c.pick != nil {
		p := make([]string, len(c.pick))
		for i, id := range c.pick {
			p[i] = strconv.Itoa(id)
		}
		s += " pick=" + strings.Join(p, ",")
	}
	if c.src != "" {
		s += " src=" + c.src
	}
	if c.bigat != 0 {
		s += fmt.Sprintf(" big=%d bigat=%d", c.big, c.bigat)
	}
	if c.mas != 0 {
		s += fmt.Sprintf(" mas=%d", c.mas)
	}
	if c.wts != nil {
		p := make([]string, len(c.wts))
		for i, w := range c.wts {
			p[i] = strconv.Itoa(w)
		}
		s += " wts=" + strings.Join(p, ",")
	}
	return s
}

func gen(r *rand.Rand, tier string) []string {
	thorough := tier == "thorough"
	var out []string
	add := func(c cell) { out = append(out, c.line()) }
	vs := variants()

	// A. exhaustive small matrix, consumers always ready, unbounded cells cut at cap
	maxL, maxP, maxN := 4, 3, 4
	if thorough {
		maxL, maxP, maxN = 12, 5, 10
	}
	for _, v := range vs {
		for limit := 0; limit <= maxL; limit++ {
			for passes := 0; passes <= maxP; passes++ {
				for n := 1; n <= maxN; n++ {
					for _, cons := range []int{1, 3} {
						// the shape of the line ends varies with the cell: every (kind, bound shape) meets every shape
						add(cell{v: v, limit: limit, passes: passes, n: n, cons: cons, cap: capFor(limit, passes, n), junk: (limit+passes+n)%2 == 1, eol: (limit + 2*passes + 3*n + cons) % 4})
					}
				}
			}
		}
	}

	// B. cancellation after every possible number of deliveries (1 .. M+1) of bounded cells
	type bnd struct{ limit, passes, n int }
	bs := []bnd{{3, 0, 2}, {0, 2, 2}, {5, 2, 3}, {1, 0, 1}, {0, 1, 1}}
	if thorough {
		bs = nil
		for limit := 0; limit <= 6; limit++ {
			for passes := 0; passes <= 3; passes++ {
				for n := 1; n <= 4; n++ {
					if m, ok := expected(limit, passes, n); ok && m <= 12 {
						bs = append(bs, bnd{limit, passes, n})
					}
				}
			}
		}
	}
	// racy families are repeated with different consumer jitter (thorough)
	reps := []int{0}
	if thorough {
		reps = []int{0, 1, 2, 3, 4, 5, 6, 7}
	}
	for _, v := range vs {
		for _, b := range bs {
			m, _ := expected(b.limit, b.passes, b.n)
			for cp := 1; cp <= m+1; cp++ {
				for _, cons := range []int{1, 3} {
					for _, rep := range reps {
						if rep != 0 && cons == 1 {
							continue
						}
						add(cell{v: v, limit: b.limit, passes: b.passes, n: b.n, cons: cons, cap: cp, jit: rep})
					}
				}
			}
		}
	}

	// C. consumers that stop: exactly cap Acquire calls, then nobody receives; cancel; Run must return, sink closed
	sb := []bnd{{0, 0, 1}, {0, 0, 3}, {3, 0, 1}, {3, 0, 3}, {0, 2, 1}, {0, 2, 3}, {4, 1, 3}, {2, 3, 2}}
	caps := []int{0, 1, 2, 3, 5, 7}
	if thorough {
		sb = append(sb, bnd{0, 0, 8}, bnd{7, 0, 5}, bnd{0, 3, 4}, bnd{150, 0, 3}, bnd{0, 40, 4}, bnd{9, 5, 2}, bnd{101, 0, 2}, bnd{130, 0, 7})
		caps = []int{0, 1, 2, 3, 4, 5, 6, 7, 9, 12, 20}
	}
	for _, v := range vs {
		for _, b := range sb {
			for _, cp := range caps {
				for _, cons := range []int{1, 2} {
					for _, rep := range reps {
						if rep > 3 {
							continue
						}
						add(cell{v: v, limit: b.limit, passes: b.passes, n: b.n, cons: cons, cap: cp, mode: "stall", jit: rep})
					}
				}
			}
		}
	}

	// D. cancel from inside the at-th file operation (0 = before Run); unbounded cells are also cut at cap
	eb := []bnd{{0, 0, 1}, {0, 0, 3}, {3, 0, 2}, {0, 2, 3}, {5, 3, 2}}
	maxAt := 8
	pads := []int{0}
	if thorough {
		eb = append(eb, bnd{0, 0, 6}, bnd{8, 0, 5}, bnd{0, 3, 5}, bnd{20, 0, 4})
		maxAt = 24
		pads = []int{0, 1500}
	}
	for _, v := range vs {
		for _, b := range eb {
			for _, pad := range pads {
				for at := 0; at <= maxAt; at++ {
					cons := 1 + (at+b.n)%3
					add(cell{v: v, limit: b.limit, passes: b.passes, n: b.n, cons: cons, cap: capFor(b.limit, b.passes, b.n), mode: "ext", at: at, pad: pad, junk: at%2 == 1, eol: (at / 2) % 4})
				}
			}
		}
	}

	// D2. cancel from a timer, `at` microseconds after Run was started: any point of the provider's code
	tb := []bnd{{0, 0, 3}, {5, 0, 2}, {0, 2, 3}}
	ats := []int{0, 20, 100, 400}
	if thorough {
		tb = append(tb, bnd{0, 0, 1}, bnd{40, 0, 7}, bnd{0, 6, 5}, bnd{300, 0, 3})
		ats = []int{0, 5, 10, 20, 35, 50, 75, 100, 150, 200, 300, 400, 600, 1000, 2000}
	}
	for _, v := range vs {
		for _, b := range tb {
			for i, at := range ats {
				for _, cons := range []int{1, 3} {
					for rep := 0; rep < 2*len(reps); rep++ {
						add(cell{v: v, limit: b.limit, passes: b.passes, n: b.n, cons: cons, cap: capFor(b.limit, b.passes, b.n), mode: "tcan", at: at, jit: rep + (i+cons)%2, pad: (i % 3) * 700})
					}
				}
			}
		}
	}

	// E. through the real engine (provider built by the registered plugin factory)
	gb := []bnd{{3, 0, 1}, {3, 0, 3}, {0, 2, 1}, {0, 2, 3}, {5, 2, 3}, {0, 0, 3}, {1, 1, 1}}
	shots := []int{0, 4}
	if thorough {
		gb = append(gb, bnd{0, 0, 1}, bnd{7, 0, 2}, bnd{0, 3, 4}, bnd{9, 2, 5}, bnd{2, 9, 5}, bnd{140, 0, 3}, bnd{0, 30, 5})
		shots = []int{0, 1, 4, 11}
	}
	for _, v := range vs {
		for _, b := range gb {
			for _, inst := range []int{1, 3} {
				for _, sh := range shots {
					if _, ok := expected(b.limit, b.passes, b.n); !ok && sh == 0 {
						continue // nothing would end that run
					}
					for _, rep := range reps {
						if rep > 3 {
							continue
						}
						add(cell{v: v, limit: b.limit, passes: b.passes, n: b.n, cons: inst, mode: "engine", via: "cfg", shots: sh, jit: rep})
					}
				}
			}
		}
	}

	// E2. a run that shoots nothing (schedule without a token): the instances finish at once and the engine cancels the
	// provider wherever it is — gate=k: inside its k-th file operation (for the preloading kinds: in the middle of LoadAmmo)
	ib := []bnd{{0, 0, 3}, {2, 0, 3}, {0, 1, 2}}
	gates := []int{0, 1, 2, 3}
	ipads := []int{0, 1500}
	if thorough {
		ib = append(ib, bnd{0, 0, 1}, bnd{7, 2, 5}, bnd{0, 3, 4})
		gates = []int{0, 1, 2, 3, 4, 5, 6, 8}
	}
	for _, v := range vs {
		for _, b := range ib {
			for _, g := range gates {
				for _, pad := range ipads {
					add(cell{v: v, limit: b.limit, passes: b.passes, n: b.n, cons: 1 + (g+b.n)%3, mode: "engine", via: "cfg", idle: true, gate: g, pad: pad, eol: g % 4})
				}
			}
		}
	}

	// F. drain cells constructed through the registered plugin factories
	for _, v := range vs {
		for _, limit := range []int{0, 2, 5} {
			for _, passes := range []int{0, 1, 2} {
				for _, n := range []int{1, 3} {
					add(cell{v: v, limit: limit, passes: passes, n: n, cons: 2, cap: capFor(limit, passes, n), via: "cfg", junk: n == 3})
				}
			}
		}
	}

	// H. fault plans (round 3): a Close that fails / is absent, the k-th file operation fails (once, or from then on),
	// the open fails — alone and together with each other, with a cancel after `cap` acquisitions, with a cancel from
	// inside a file operation (ext) and with the bound being reached: every kind, preload on and off
	fb := []bnd{{0, 0, 2}, {3, 0, 2}, {0, 2, 2}, {5, 2, 3}}
	maxK := 10
	if thorough {
		fb = append(fb, bnd{0, 0, 1}, bnd{1, 0, 1}, bnd{0, 1, 1}, bnd{7, 0, 3}, bnd{0, 3, 4}, bnd{9, 2, 5})
		maxK = 40
	}
	for _, v := range vs {
		for bi, b := range fb {
			m, bounded := expected(b.limit, b.passes, b.n)
			full := capFor(b.limit, b.passes, b.n)
			// H1. close faults x (nobody cancels | cancel after 1, 2, M-1, M acquisitions)
			cuts := []int{full, 1, 2}
			if bounded && m > 2 {
				cuts = append(cuts, m-1, m)
			}
			for ci, cp := range cuts {
				for _, cons := range []int{1, 2} {
					c := cell{v: v, limit: b.limit, passes: b.passes, n: b.n, cons: cons, cap: cp, cfail: 1, eol: (bi + ci) % 4, junk: (bi+ci+cons)%2 == 1}
					if (bi+ci+cons)%3 == 0 {
						c.via = "cfg"
					}
					add(c)
					if c08cell.IsHTTP(v.kind) && cons == 1 {
						c.cfail, c.via = 2, ""
						add(c)
					}
				}
			}
			// H2. a close fault and a cancel from inside the at-th file operation
			for at := 0; at <= 6; at++ {
				add(cell{v: v, limit: b.limit, passes: b.passes, n: b.n, cons: 1 + (at+bi)%2, cap: full, mode: "ext", at: at, cfail: 1 + (at/4)%2*b2i(c08cell.IsHTTP(v.kind)), junk: at%2 == 0})
			}
			// H3. the k-th file operation fails; every second cell also has a failing close, every third a cancel after 2 acquisitions
			for k := 1; k <= maxK; k++ {
				for _, sticky := range []bool{false, true} {
					c := cell{v: v, limit: b.limit, passes: b.passes, n: b.n, cons: 1 + (k+bi)%2, cap: full, rfail: k, rsticky: sticky, eol: (k + bi) % 4, junk: k%2 == 0}
					if (k+bi+b2i(sticky))%2 == 0 {
						c.cfail = 1
					}
					if (k+bi)%3 == 0 {
						c.cap = 2
					}
					if thorough && k%5 == 0 {
						c.pad = 1500
					}
					add(c)
				}
			}
			// H3b. … in a file whose entries are larger than one read buffer: the error falls between two entries of one pass
			// (also in the middle of LoadAmmo)
			if bi%2 == 0 {
				for k := 2; k <= 9; k++ {
					add(cell{v: v, limit: b.limit, passes: b.passes, n: b.n + 1, cons: 1, cap: full + 3, rfail: k, rsticky: k%2 == 0, pad: 4200, eol: k % 4, cfail: (k / 2) % 2})
				}
			}
			// H4. the open fails (grpc/json and the generic JSON provider open the file in Run)
			add(cell{v: v, limit: b.limit, passes: b.passes, n: b.n, cons: 2, cap: full, ofail: true, cfail: bi % 2})
		}
	}
	// H5. an I/O error and a cancel from inside a file operation / from a timer, at independent points
	nPairs := 12
	if thorough {
		nPairs = 150
	}
	for _, v := range vs {
		for i := 0; i < nPairs; i++ {
			b := fb[r.Intn(len(fb))]
			c := cell{v: v, limit: b.limit, passes: b.passes, n: b.n, cons: 1 + r.Intn(3), cap: capFor(b.limit, b.passes, b.n), mode: "ext", at: r.Intn(12), rfail: 1 + r.Intn(12), rsticky: r.Intn(2) == 0, cfail: r.Intn(2), eol: r.Intn(4), junk: r.Intn(2) == 0}
			if i%4 == 3 {
				c.mode, c.at, c.jit = "tcan", r.Intn(400), r.Intn(4)
			}
			add(c)
		}
	}

	// ------------------------------------------------------------------------------------------------ round 4
	// I. chosencases (http kinds with and without preload, grpc/json): the entries of a pass are the entries of the file
	// whose tag is listed.  EVERY non-empty subset of the entries of every file of 1..4 entries x limit 0..4 x passes 0..3
	// (the listed entries at the start, in the middle, at the end of the file, fewer or more of them than the limit).
	var fvs []variant // kinds with a chosencases option
	for _, v := range vs {
		if c08cell.IsHTTP(v.kind) || v.kind == c08cell.KGRPCJSON {
			fvs = append(fvs, v)
		}
	}
	subsetOf := func(n, mask int) []int {
		p := []int{}
		for i := 0; i < n; i++ {
			if mask&(1<<i) != 0 {
				p = append(p, i)
			}
		}
		return p
	}
	maxFN, maxFL, maxFP := 4, 4, 3
	if thorough {
		maxFN, maxFL, maxFP = 6, 8, 4
	}
	for vi, v := range fvs {
		for n := 1; n <= maxFN; n++ {
			for mask := 1; mask < 1<<n; mask++ {
				pick := subsetOf(n, mask)
				for limit := 0; limit <= maxFL; limit++ {
					for passes := 0; passes <= maxFP; passes++ {
						h := vi + n + mask + limit + 3*passes
						c := cell{v: v, limit: limit, passes: passes, n: n, cons: 1 + 2*(h%2), cap: capFor(limit, passes, len(pick)), pick: pick, junk: h%3 == 0, eol: h % 4}
						if h%3 == 1 {
							c.via = "cfg"
						}
						add(c)
					}
				}
			}
		}
	}
	// I2. … cut after every number of deliveries, consumers that stop, a cancel from inside a file operation / from a
	// timer, through the real engine, with a fault plan
	type pb struct {
		limit, passes, n int
		pick             []int
	}
	pbs := []pb{{3, 0, 4, []int{3}}, {0, 2, 4, []int{1, 3}}, {3, 1, 6, []int{3, 4, 5}}, {5, 2, 5, []int{0, 4}}, {0, 0, 3, []int{2}}, {2, 3, 3, []int{0, 1, 2}}}
	for vi, v := range fvs {
		for bi, b := range pbs {
			k := len(b.pick)
			m, bounded := expected(b.limit, b.passes, k)
			full := capFor(b.limit, b.passes, k)
			if bounded {
				for cp := 1; cp <= m+1; cp++ {
					add(cell{v: v, limit: b.limit, passes: b.passes, n: b.n, cons: 1 + 2*((cp+bi)%2), cap: cp, pick: b.pick})
				}
			}
			for _, cp := range []int{0, 1, 2, 5} {
				add(cell{v: v, limit: b.limit, passes: b.passes, n: b.n, cons: 1 + (cp+vi)%2, cap: cp, mode: "stall", pick: b.pick})
			}
			for at := 0; at <= 6; at++ {
				add(cell{v: v, limit: b.limit, passes: b.passes, n: b.n, cons: 1 + (at+bi)%3, cap: full, mode: "ext", at: at, pick: b.pick, junk: at%2 == 1, eol: at % 4})
			}
			add(cell{v: v, limit: b.limit, passes: b.passes, n: b.n, cons: 2, cap: full, mode: "tcan", at: 50 * bi, pick: b.pick, jit: 1 + bi%3})
			for _, sh := range []int{0, 4} {
				if !bounded && sh == 0 {
					continue
				}
				add(cell{v: v, limit: b.limit, passes: b.passes, n: b.n, cons: 1 + 2*((bi+sh/4)%2), mode: "engine", via: "cfg", shots: sh, pick: b.pick})
			}
			add(cell{v: v, limit: b.limit, passes: b.passes, n: b.n, cons: 1, cap: full, pick: b.pick, cfail: 1})
			for _, kf := range []int{2, 3, 5, 8} {
				add(cell{v: v, limit: b.limit, passes: b.passes, n: b.n, cons: 1 + kf%2, cap: full, pick: b.pick, rfail: kf, rsticky: kf%3 == 0, eol: kf % 4})
			}
		}
	}

	// J. every value of the options: limit / passes near and above the int range ("practically unbounded" written as a
	// number), alone, together with a small other bound (which then decides) and with each other (cut at cap); products
	// passes x entries that do not fit 64 bits
	const two63 = uint64(1) << 63
	for vi, v := range vs {
		uintKind := c08cell.IsHTTP(v.kind) || v.kind == c08cell.KHTTPScn || v.kind == c08cell.KGRPCScn
		for n := 1; n <= 4; n++ {
			var hs []uint64
			if uintKind {
				hs = []uint64{two63, two63 + 1, 1<<62 + 1, ^uint64(0), 1 << 32, 1<<32 + 1, 1<<31 + 1, ^uint64(0)/uint64(n) + 1, ^uint64(0)/uint64(n) + 2}
			} else { // `int` options
				hs = []uint64{two63 - 1, 1<<62 + 1, 1<<32 + 1, 1 << 31, 1<<31 + 1, (two63-1)/uint64(n+1) + 1}
			}
			if thorough {
				for i := 0; i < 12; i++ {
					x := r.Uint64()>>uint(r.Intn(34)) | 1<<31
					if !uintKind {
						x &= two63 - 1
					}
					hs = append(hs, x)
				}
			}
			for hi, hv := range hs {
				h := vi + n + hi
				via := ""
				if h%2 == 0 {
					via = "cfg"
				}
				for _, limit := range []int{0, 3, 7} { // huge passes
					c := cell{v: v, limit: limit, xp: hv, n: n, cons: 1 + h%2, cap: limit + n + 3, via: via, eol: h % 4}
					if limit == 0 {
						c.cap = 3*n + 5
					}
					add(c)
				}
				for _, passes := range []int{0, 2} { // huge limit
					c := cell{v: v, xl: hv, passes: passes, n: n, cons: 1 + (h+1)%2, cap: passes*n + n + 3, via: via, junk: h%3 == 0}
					if passes == 0 {
						c.cap = 3*n + 5
					}
					add(c)
				}
				add(cell{v: v, xl: hv, xp: hs[(hi+1)%len(hs)], n: n, cons: 1, cap: 2*n + 3, via: via})
				if n == 2 || n == 3 {
					add(cell{v: v, limit: 3, xp: hv, n: n, cons: 1, cap: 2, mode: "stall", via: via})
					add(cell{v: v, limit: 5, xp: hv, n: n, cons: 2, cap: 12, mode: "ext", at: 1 + hi%5, via: via})
					add(cell{v: v, limit: 5, xp: hv, n: n, cons: 1 + 2*(h%2), mode: "engine", via: "cfg", shots: 0})
					add(cell{v: v, xp: hv, n: n, cons: 2, mode: "engine", via: "cfg", shots: 4})
				}
			}
		}
	}

	// K. the data sources of the generic JSON provider: inline data (NewInline / `type: inline`), NewReader over a
	// ReadSeeker / a ReadSeekCloser / a plain io.Reader, NewBuffer (the last two cannot be rewound: read once)
	gv := variant{c08cell.KGenJSON, false}
	maxSL, maxSP, maxSN := 4, 3, 4
	if thorough {
		maxSL, maxSP, maxSN = 9, 5, 7
	}
	for si, src := range []string{"inline", "rs", "rsc", "pipe", "buf", "rc"} {
		for limit := 0; limit <= maxSL; limit++ {
			for passes := 0; passes <= maxSP; passes++ {
				for n := 1; n <= maxSN; n++ {
					for _, cons := range []int{1, 3} {
						c := cell{v: gv, limit: limit, passes: passes, n: n, cons: cons, cap: capFor(limit, passes, n), src: src, junk: (limit+passes+n)%2 == 1, eol: (limit + passes + n + cons) % 4}
						if src == "inline" && (limit+passes+n+cons)%2 == 0 {
							c.via = "cfg"
						}
						add(c)
					}
				}
			}
		}
		if !c08cell.Seekable(src) {
			continue
		}
		for bi, b := range []bnd{{3, 0, 2}, {0, 2, 2}, {5, 2, 3}, {0, 0, 2}, {0, 3, 1}} {
			m, bounded := expected(b.limit, b.passes, b.n)
			full := capFor(b.limit, b.passes, b.n)
			if bounded {
				for cp := 1; cp <= m+1; cp++ {
					add(cell{v: gv, limit: b.limit, passes: b.passes, n: b.n, cons: 1 + 2*((cp+bi)%2), cap: cp, src: src})
				}
			}
			for _, cp := range []int{0, 2, 5} {
				add(cell{v: gv, limit: b.limit, passes: b.passes, n: b.n, cons: 1 + cp%2, cap: cp, mode: "stall", src: src})
			}
			for at := 0; at <= 5; at++ {
				add(cell{v: gv, limit: b.limit, passes: b.passes, n: b.n, cons: 1 + (at+si)%3, cap: full, mode: "ext", at: at, src: src})
			}
			add(cell{v: gv, limit: b.limit, passes: b.passes, n: b.n, cons: 2, cap: full, mode: "tcan", at: 40 * bi, src: src, jit: 1 + bi%3})
			for _, sh := range []int{0, 4} {
				if !bounded && sh == 0 {
					continue
				}
				c := cell{v: gv, limit: b.limit, passes: b.passes, n: b.n, cons: 1 + 2*((bi+sh/4)%2), mode: "engine", shots: sh, src: src}
				if src == "inline" {
					c.via = "cfg"
				}
				add(c)
			}
			if src != "inline" { // the readers go through the cell's fault hooks
				for _, kf := range []int{1, 2, 3, 5} {
					add(cell{v: gv, limit: b.limit, passes: b.passes, n: b.n, cons: 1 + kf%2, cap: full, src: src, rfail: kf, rsticky: kf%2 == 0, cfail: b2i(src == "rsc" && kf%2 == 1)})
				}
			}
		}
	}

	// L. scenario weights (http/scenario, grpc/scenario): the entries of a pass are scenario i, weight_i / gcd times in a
	// row — weight vectors with and without a common divisor, a weight 0 (= 1), a single weighted scenario; x limit x passes,
	// cut after every number of deliveries, stalled, through the engine; huge passes whose product with the entries wraps
	wvs := [][]int{{2, 1}, {1, 3}, {2, 2}, {3, 1}, {2, 4, 6}, {5}, {0, 2}, {1, 1, 2}, {6, 4}, {3, 3, 3}}
	if thorough {
		for i := 0; i < 30; i++ {
			w := make([]int, 1+r.Intn(4))
			for j := range w {
				w[j] = r.Intn(7)
			}
			wvs = append(wvs, w)
		}
	}
	maxWL, maxWP := 5, 3
	if thorough {
		maxWL, maxWP = 13, 5
	}
	for vi, v := range vs {
		if v.kind != c08cell.KHTTPScn && v.kind != c08cell.KGRPCScn {
			continue
		}
		for wi, wv := range wvs {
			eff := len(c08cell.Spread(wv))
			for limit := 0; limit <= maxWL; limit++ {
				for passes := 0; passes <= maxWP; passes++ {
					h := vi + wi + limit + passes
					c := cell{v: v, limit: limit, passes: passes, n: len(wv), wts: wv, cons: 1 + 2*(h%2), cap: capFor(limit, passes, eff), eol: h % 4}
					if h%3 == 0 {
						c.via = "cfg"
					}
					add(c)
				}
			}
			for bi, b := range []bnd{{4, 0, 0}, {0, 2, 0}, {7, 3, 0}, {0, 0, 0}} {
				m, bounded := expected(b.limit, b.passes, eff)
				full := capFor(b.limit, b.passes, eff)
				if bounded {
					for cp := 1; cp <= m+1; cp++ {
						add(cell{v: v, limit: b.limit, passes: b.passes, n: len(wv), wts: wv, cons: 1 + 2*((cp+bi)%2), cap: cp})
					}
				}
				add(cell{v: v, limit: b.limit, passes: b.passes, n: len(wv), wts: wv, cons: 1 + bi%2, cap: 2, mode: "stall"})
				add(cell{v: v, limit: b.limit, passes: b.passes, n: len(wv), wts: wv, cons: 2, cap: full, mode: "tcan", at: 30 * bi, jit: 1 + bi%3})
				if bounded {
					add(cell{v: v, limit: b.limit, passes: b.passes, n: len(wv), wts: wv, cons: 1 + 2*(bi%2), mode: "engine", via: "cfg", shots: 0})
				}
				add(cell{v: v, limit: b.limit, passes: b.passes, n: len(wv), wts: wv, cons: 2, mode: "engine", via: "cfg", shots: 5})
			}
			for hi, hv := range []uint64{two63, two63 + 1, 1<<62 + 1, ^uint64(0), ^uint64(0)/uint64(eff) + 1, ^uint64(0)/uint64(eff) + 2} {
				for _, limit := range []int{0, 3, 10} {
					c := cell{v: v, limit: limit, xp: hv, n: len(wv), wts: wv, cons: 1 + (hi+wi)%2, cap: limit + eff + 3}
					if limit == 0 {
						c.cap = 3*eff + 5
					}
					if (hi+wi)%2 == 0 {
						c.via = "cfg"
					}
					add(c)
				}
			}
		}
	}

	// ------------------------------------------------------------------------------------------------ round 6
	// M. the size of an entry x the maxammosize option: one entry of the file (first / middle / last) is larger than one
	// read buffer (4 KiB), than bufio.MaxScanTokenSize (64 KiB: the default token limit of a bufio.Scanner) — with
	// maxammosize unset, set above the entry (the file is well-formed for that configuration: every pass has to deliver
	// it) and set below it (grpc/json: the entry is not readable, Run reports it) — x bound shapes that end inside the
	// first pass, at its end, in a later pass; cut, stalled, through the engine.  Every kind whose ammo file has entries
	// of a size of their own (all but the scenario kinds and the inline uris).
	type szb struct{ limit, passes int }
	szBounds := []szb{{0, 1}, {0, 2}, {0, 3}, {0, 0}}
	sizes := []struct{ big, mas int }{{70000, 0}, {70000, 100000}, {70000, 65536}, {5000, 0}, {5000, 4096}, {5000, 8192}, {300, 0}, {300, 100000}, {131072, 140000}}
	if thorough {
		sizes = append(sizes, struct{ big, mas int }{200000, 300000}, struct{ big, mas int }{65400, 0}, struct{ big, mas int }{66000, 66300}, struct{ big, mas int }{1 << 20, 1<<20 + 4096})
	}
	for vi, v := range vs {
		sized := c08cell.IsHTTP(v.kind) && v.kind != c08cell.KURIs || v.kind == c08cell.KGRPCJSON || v.kind == c08cell.KGenJSON
		if !sized {
			continue
		}
		for si, sz := range sizes {
			if sz.mas != 0 && v.kind == c08cell.KGenJSON {
				continue
			}
			for n := 1; n <= 3; n++ {
				for bigat := 1; bigat <= n; bigat++ {
					bounds := append([]szb{}, szBounds...)
					bounds = append(bounds, szb{n + bigat, 0}, szb{2*n + 1, 3}, szb{bigat, 0})
					for bi, b := range bounds {
						h := vi + si + n + bigat + bi
						if !thorough && sz.big < 60000 && h%2 == 0 {
							continue
						}
						c := cell{v: v, limit: b.limit, passes: b.passes, n: n, cons: 1 + 2*(h%2), cap: capFor(b.limit, b.passes, n), big: sz.big, bigat: bigat, mas: sz.mas, eol: h % 4, junk: h%3 == 0}
						if h%3 == 1 {
							c.via = "cfg"
						}
						if h%5 == 0 {
							c.pad = 700
						}
						add(c)
					}
				}
			}
			// cut after every number of deliveries of two passes, stalled, timer, engine
			n, bigat := 2, 1+si%2
			for cp := 1; cp <= 2*n+1; cp++ {
				add(cell{v: v, passes: 2, n: n, cons: 1 + 2*(cp%2), cap: cp, big: sz.big, bigat: bigat, mas: sz.mas})
			}
			add(cell{v: v, passes: 3, n: n, cons: 1, cap: 3, mode: "stall", big: sz.big, bigat: bigat, mas: sz.mas})
			add(cell{v: v, limit: 5, n: n, cons: 2, cap: 12, mode: "ext", at: 2 + si, big: sz.big, bigat: bigat, mas: sz.mas})
			add(cell{v: v, passes: 2, n: n, cons: 1 + si%3, mode: "engine", via: "cfg", big: sz.big, bigat: bigat, mas: sz.mas})
		}
	}

	// M2. grpc/json at the boundary of its token limit (a line of `len` bytes is handed out iff len < limit; the line of
	// entry 0 has 59 bytes + padding, one more with CRLF): one byte below / at / above maxammosize and the default 64 KiB
	for _, lim := range []int{5000, 65536, 70001} {
		mas := lim
		if lim == 65536 {
			mas = 0
		}
		for d := -2; d <= 1; d++ {
			for _, eol := range []int{0, 1, 2} {
				add(cell{v: variant{c08cell.KGRPCJSON, false}, passes: 2, n: 2, cons: 1, cap: 7, big: lim - 59 + d, bigat: 1 + (d+2)%2, mas: mas, eol: eol})
			}
		}
	}

	// M3. an entry of 2 MiB (above every "sane" fixed buffer size), two passes
	for _, v := range vs {
		switch v.kind {
		case c08cell.KURI, c08cell.KURIPost, c08cell.KRaw, c08cell.KJSONLine, c08cell.KGenJSON:
			add(cell{v: v, passes: 2, n: 2, cons: 1, cap: 7, big: 2 << 20, bigat: 2})
		case c08cell.KGRPCJSON:
			add(cell{v: v, passes: 2, n: 2, cons: 1, cap: 7, big: 2 << 20, bigat: 2, mas: 3 << 20})
		}
	}

	// G. random larger cells, all modes
	extra := 400
	maxN, maxL, maxP = 12, 30, 6
	if thorough {
		extra = 150000
		maxN, maxL, maxP = 40, 300, 12
	}
	for i := 0; i < extra; i++ {
		v := vs[r.Intn(len(vs))]
		n := 1 + r.Intn(maxN)
		limit, passes := 0, 0
		switch r.Intn(5) {
		case 0: // limit only
			limit = 1 + r.Intn(maxL)
		case 1: // passes only
			passes = 1 + r.Intn(maxP)
		case 2: // both, limit near passes*n
			passes = 1 + r.Intn(maxP)
			limit = passes*n - 2 + r.Intn(5)
			if limit < 1 {
				limit = 1
			}
		case 3:
			limit = 1 + r.Intn(maxL)
			passes = 1 + r.Intn(maxP)
		default: // unbounded
		}
		m, bounded := expected(limit, passes, n)
		c := cell{v: v, limit: limit, passes: passes, n: n, cons: []int{1, 2, 3, 8}[r.Intn(4)], cap: capFor(limit, passes, n), junk: r.Intn(2) == 0}
		if r.Intn(3) == 0 {
			c.via = "cfg"
		}
		if r.Intn(4) == 0 {
			c.pad = 200 + r.Intn(1800)
		}
		c.eol = r.Intn(4)
		// round 4: a chosencases option (a random non-empty subset), a data source, a huge second bound
		eff := n
		switch r.Intn(5) {
		case 0:
			if c08cell.IsHTTP(v.kind) || v.kind == c08cell.KGRPCJSON {
				c.pick = []int{}
				for len(c.pick) == 0 {
					for i := 0; i < n; i++ {
						if r.Intn(3) == 0 {
							c.pick = append(c.pick, i)
						}
					}
				}
				eff = len(c.pick)
				m, bounded = expected(limit, passes, eff)
				c.cap = capFor(limit, passes, eff)
			}
		case 1:
			if v.kind == c08cell.KGenJSON {
				c.src = []string{"inline", "rs", "rsc"}[r.Intn(3)]
				if c.src != "inline" {
					c.via = ""
				}
			}
		case 2:
			big := uint64(1)<<(31+uint(r.Intn(32))) + uint64(r.Intn(3))
			if limit != 0 && passes == 0 {
				c.xp = big
			} else if passes != 0 && limit == 0 {
				c.xl = big
			}
		}
		switch r.Intn(6) {
		case 0:
			c.mode = "stall"
			c.cap = r.Intn(2 * (eff + 2))
			if bounded && r.Intn(2) == 0 {
				c.cap = m - 2 + r.Intn(5)
				if c.cap < 0 {
					c.cap = 0
				}
			}
		case 1:
			c.mode = "ext"
			c.at = r.Intn(30)
		case 4:
			c.mode = "tcan"
			c.at = r.Intn(500)
			c.jit = r.Intn(5)
		case 2:
			c.mode = "engine"
			if c.src == "" || c.src == "inline" {
				c.via = "cfg"
			}
			c.cons = 1 + r.Intn(4)
			c.shots = r.Intn(2) * (1 + r.Intn(40))
			if !bounded && c.shots == 0 {
				c.shots = 1 + r.Intn(40)
			}
			if r.Intn(4) == 0 {
				c.idle, c.shots, c.gate = true, 0, r.Intn(7)
			}
		case 3: // cut a bounded cell somewhere
			if bounded && m > 0 {
				c.cap = 1 + r.Intn(m+1)
			}
		}
		// round 6: one larger entry / a maxammosize option
		if (c08cell.IsHTTP(v.kind) && v.kind != c08cell.KURIs || v.kind == c08cell.KGRPCJSON || v.kind == c08cell.KGenJSON) && r.Intn(6) == 0 {
			c.big, c.bigat = []int{300, 5000, 70000}[r.Intn(3)], 1+r.Intn(n)
			if v.kind != c08cell.KGenJSON && r.Intn(2) == 0 {
				c.mas = c.big + c.pad + 4096 + r.Intn(50000)
			}
		}
		if (c.mode == "" || c.mode == "ext" || c.mode == "tcan") && r.Intn(4) == 0 { // a fault plan on top
			switch r.Intn(4) {
			case 0:
				c.cfail = 1
			case 1:
				c.rfail, c.rsticky = 1+r.Intn(3*n+12), r.Intn(2) == 0
			case 2:
				c.cfail, c.rfail, c.rsticky = 1, 1+r.Intn(3*n+12), r.Intn(2) == 0
			default:
				if c08cell.IsHTTP(v.kind) && c.via != "cfg" {
					c.cfail = 2
				} else {
					c.ofail = true
				}
			}
		}
		add(c)
	}
	return out
}

func atoi(s string) int {
	n, _ := strconv.Atoi(s)
	return n
}

func atou(s string) uint64 {
	n, _ := strconv.ParseUint(s, 10, 64)
	return n
}

// parsePick: "0,2,5" -> ids; absent -> nil (no chosencases option)
func parsePick(s string, ok bool) []int {
	if !ok {
		return nil
	}
	out := []int{}
	for _, f := range strings.Split(s, ",") {
		if f != "" {
			out = append(out, atoi(f))
		}
	}
	return out
}

func run(input string) string {
	kv := drv.KV(input)
	c := c08cell.Cell{
		Kind:    kv["kind"],
		Preload: kv["preload"] == "1",
		Limit:   atou(kv["limit"]),
		Passes:  atou(kv["passes"]),
		N:       atoi(kv["n"]),
		Cons:    atoi(kv["cons"]),
		Cap:     atoi(kv["cap"]),
		Junk:    kv["junk"] == "1",
		Pad:     atoi(kv["pad"]),
		Mode:    kv["mode"],
		At:      atoi(kv["at"]),
		Jit:     atoi(kv["jit"]),
		Via:     kv["via"],
		Shots:   atoi(kv["shots"]),
		Eol:     atoi(kv["eol"]),
		Idle:    kv["idle"] == "1",
		Gate:    atoi(kv["gate"]),
		CFail:   atoi(kv["cfail"]),
		RFail:   atoi(kv["rfail"]),
		RSticky: kv["rsticky"] == "1",
		OFail:   kv["ofail"] == "1",
		Src:     kv["src"],
		Big:     atoi(kv["big"]),
		BigAt:   atoi(kv["bigat"]),
		Mas:     atoi(kv["mas"]),
	}
	pk, hasPick := kv["pick"]
	c.Pick = parsePick(pk, hasPick)
	wt, hasWts := kv["wts"]
	c.Wts = parsePick(wt, hasWts)
	if c.Mode == "" {
		c.Mode = "drain"
	}
	o := c08cell.Run(c)
	hits := ""
	if c.HasFault() {
		hits = fmt.Sprintf(" rhit=%d chit=%d ohit=%d", b2i(o.RHit), b2i(o.CHit), b2i(o.OHit))
	}
	if o.Construct != "" {
		return "construct=" + o.Construct + hits
	}
	switch c.Mode {
	case "stall":
		return fmt.Sprintf("delivered=%d cut=%d ret=%d run=%s left=%d end=%s seq=%s", o.Delivered, b2i(o.Cut), b2i(o.Ret), o.Run, o.Left, o.End, o.Seq)
	case "ext", "tcan":
		return fmt.Sprintf("delivered=%d cut=%d fired=%d run=%s end=%s seq=%s ops=%d", o.Delivered, b2i(o.Cut), b2i(o.Fired), o.Run, o.End, o.Seq, o.Ops) + hits
	case "engine":
		g := ""
		if c.Gate != 0 {
			g = fmt.Sprintf(" gated=%d", b2i(o.Gated))
		}
		return fmt.Sprintf("shots=%d err=%s wait=%d seq=%s%s", o.Shots, o.EngErr, b2i(o.Wait), o.Seq, g)
	}
	return fmt.Sprintf("delivered=%d cut=%d run=%s end=%s seq=%s ops=%d", o.Delivered, b2i(o.Cut), o.Run, o.End, o.Seq, o.Ops) + hits
}

func class(input, obs string) string {
	kv := drv.KV(input)
	b := "unbounded"
	l, p := kv["limit"] != "0", kv["passes"] != "0"
	switch {
	case l && p:
		b = "limit+passes"
	case l:
		b = "limit"
	case p:
		b = "passes"
	}
	pre := ""
	if kv["preload"] == "1" {
		pre = "+preload"
	}
	mode := kv["mode"]
	if kv["idle"] == "1" {
		mode = "engine-idle"
	}
	if mode == "" {
		mode = "drain"
		if strings.Contains(obs, "cut=1") && b != "unbounded" {
			mode = "drain-cut"
		}
	}
	// fault plan: which faults reached the provider, and together with what
	if kv["cfail"] != "" || kv["rfail"] != "" || kv["ofail"] != "" {
		f := "fault"
		if kv["cfail"] == "2" {
			f += "-noclose"
		}
		okv := drv.KV(obs)
		if okv["rhit"] == "1" {
			f += "-io"
		}
		if okv["chit"] == "1" {
			f += "-close"
		}
		if okv["ohit"] == "1" {
			f += "-open"
		}
		if okv["cut"] == "1" || okv["fired"] == "1" {
			f += "+cancel"
		}
		if strings.HasPrefix(obs, "construct=") {
			f += "@constructor"
		}
		mode += "/" + f
	}
	// round 4: chosencases (how the listed entries lie in the file), huge bounds, data source
	x := ""
	if pk, ok := kv["pick"]; ok {
		ids := parsePick(pk, true)
		n := atoi(kv["n"])
		switch {
		case len(ids) == n:
			x += "+pick-all"
		case len(ids) > 0 && ids[0] >= len(ids) && uint64(ids[0]) >= atou(kv["limit"]) && kv["limit"] != "0":
			x += "+pick-behind-limit" // none of the listed entries is among the first `limit` entries of the file
		case len(ids) > 0 && ids[0] > 0:
			x += "+pick-late"
		default:
			x += "+pick"
		}
	}
	if len(kv["limit"]) > 9 {
		x += "+hugelimit"
	}
	if len(kv["passes"]) > 9 {
		x += "+hugepasses"
	}
	if kv["src"] != "" {
		x += "+src-" + kv["src"]
	}
	if kv["wts"] != "" {
		x += "+wts"
	}
	if kv["bigat"] != "" {
		switch big := atoi(kv["big"]) + atoi(kv["pad"]); {
		case big >= 65536-100:
			x += "+big64k"
		case big >= 4096-100:
			x += "+big4k"
		default:
			x += "+big"
		}
	}
	if kv["mas"] != "" {
		x += "+mas"
	}
	return mode + ":" + kv["kind"] + pre + x + "/" + b
}

func main() {
	drv.Main(&drv.Prop{
		ID:      "C08",
		Gen:     gen,
		Run:     run,
		Class:   class,
		Workers: 24,
		Timeout: 60 * time.Second,
		Rule: "real providers (public constructors, or the registered plugin factories via config.DecodeAndValidate) over an in-memory ammo file: " +
			"exhaustive matrix kinds{uri,uris,uripost,raw,jsonl,jsonarr}x preload + {grpcjson,httpscn,grpcscn,genjson} x limit 0..4 x passes 0..3 x n 1..4 x consumers{1,3} with consumers always ready " +
			"(unbounded cells cancelled after cap acquisitions); cancellation after every number of deliveries 1..M+1 of bounded cells; consumers that stop after cap acquisitions followed by a cancel (stall); " +
			"cancellation from inside the k-th file operation (ext) and from a timer (tcan); a slice through the real core/engine with 1 or 3 instances and a recording gun, " +
			"fault plans (a failing / absent Close, an I/O error in the k-th file operation once or from then on, a failing open) alone, combined, and together with a cancel after cap acquisitions / from inside a file operation / at the bound; " +
			"round 4: a chosencases option (every non-empty subset of the entries of files of 1..4 entries x limit 0..4 x passes 0..3, all kinds that have the option, preload on and off; also cut, stalled, through the engine, with faults), " +
			"limit / passes near and above the int range (2^31+1 .. 2^64-1, products passes x entries that do not fit 64 bits) alone, with a small other bound and together, " +
			"scenario weights (weight vectors with and without a common divisor, weight 0, one weighted scenario: a pass delivers scenario i weight_i / gcd times) x limit x passes, cut, stalled, through the engine, with huge passes; " +
			"the data sources of the generic JSON provider (file, inline, NewReader over a ReadSeeker / ReadSeekCloser / ReadCloser without Seek / plain io.Reader, NewBuffer); " +
			"round 6: one entry of the file larger than a read buffer / than bufio.MaxScanTokenSize (big= bigat=) x the maxammosize option unset / above / below it (mas=) x bound shapes ending inside the first pass, at its end, in a later pass; also cut, stalled, cancelled inside a file operation, through the engine; " +
			"also with a schedule without any token (idle: the engine cancels the provider inside its gate-th file operation, e.g. in the middle of LoadAmmo); four shapes of line ends (eol: LF, no final newline, CRLF, surrounding blank lines); random larger cells in all modes. " +
			"Every cell is non-trivial (class = mode:kind/preload/bound shape)",
	})
}
