package main

// C08: limit/passes semantics and clean end-of-ammo on every provider.
//
// Every run executes the exhaustive small matrix
//   kinds {uri, uripost, raw, jsonl, jsonarr} x preload {0,1}  +  {grpcjson, httpscn, grpcscn, genjson}
//   x limit 0..4 x passes 0..3 x n 1..4 x consumers {1,3}
// on the REAL providers (public constructors, in-memory ammo file), plus random larger cells.
// One cell = one line:  kind=uri preload=1 limit=2 passes=0 n=3 cons=1 cap=8 junk=0
// `cap` = number of acquired ammo after which the harness cancels the context (cells without any bound are cut
// there; bounded cells only get there if the provider over-delivers).
// Observation:  delivered=2 cut=0 run=nil end=closed ops=5
//   run  = what Provider.Run returned (nil|canceled|limit|passes|noammo|other:..|noreturn)
//   end  = closed (every consumer got ok=false) | blocked | spinning (watchdog: no delivery/exit for two ticks;
//          spinning = the ammo file is still being read)
//   ops  = Read+Seek calls on the ammo file (bounded by the Spec, not predicted by the model)

import (
	"fmt"
	"math/rand"
	"strconv"
	"time"

	"verifharness/drv"
	"verifharness/provcell"
)

func capFor(limit, passes, n int) int {
	if limit == 0 && passes == 0 {
		return 3*n + 5
	}
	m := limit
	if passes*n > m {
		m = passes * n
	}
	return m + n + 3
}

func line(kind string, preload bool, limit, passes, n, cons int, junk bool) string {
	b := func(x bool) int {
		if x {
			return 1
		}
		return 0
	}
	return fmt.Sprintf("kind=%s preload=%d limit=%d passes=%d n=%d cons=%d cap=%d junk=%d",
		kind, b(preload), limit, passes, n, cons, capFor(limit, passes, n), b(junk))
}

func gen(r *rand.Rand, tier string) []string {
	var out []string
	type variant struct {
		kind    string
		preload bool
	}
	var variants []variant
	for _, k := range provcell.HTTPKinds {
		variants = append(variants, variant{k, false}, variant{k, true})
	}
	for _, k := range provcell.OtherKinds {
		variants = append(variants, variant{k, false})
	}
	for _, v := range variants {
		for limit := 0; limit <= 4; limit++ {
			for passes := 0; passes <= 3; passes++ {
				for n := 1; n <= 4; n++ {
					for _, cons := range []int{1, 3} {
						out = append(out, line(v.kind, v.preload, limit, passes, n, cons, (limit+passes+n)%2 == 1))
					}
				}
			}
		}
	}
	extra := 300
	maxN, maxL, maxP := 12, 30, 6
	if tier == "thorough" {
		extra = 6000
		maxN, maxL, maxP = 40, 150, 12
	}
	for i := 0; i < extra; i++ {
		v := variants[r.Intn(len(variants))]
		n := 1 + r.Intn(maxN)
		limit, passes := 0, 0
		switch r.Intn(5) {
		case 0: // limit only
			limit = 1 + r.Intn(maxL)
		case 1: // passes only
			passes = 1 + r.Intn(maxP)
		case 2: // both, limit near passes*n
			passes = 1 + r.Intn(maxP)
			limit = passes*n - 2 + r.Intn(5)
			if limit < 1 {
				limit = 1
			}
		case 3:
			limit = 1 + r.Intn(maxL)
			passes = 1 + r.Intn(maxP)
		default: // unbounded
		}
		cons := []int{1, 2, 3, 8}[r.Intn(4)]
		out = append(out, line(v.kind, v.preload, limit, passes, n, cons, r.Intn(2) == 0))
	}
	return out
}

func atoi(s string) int {
	n, _ := strconv.Atoi(s)
	return n
}

func run(input string) string {
	kv := drv.KV(input)
	n := atoi(kv["n"])
	tags := make([]string, n)
	for i := range tags {
		tags[i] = "t" + strconv.Itoa(i)
	}
	c := provcell.Cell{
		Kind:    kv["kind"],
		Preload: kv["preload"] == "1",
		Limit:   atoi(kv["limit"]),
		Passes:  atoi(kv["passes"]),
		Tags:    tags,
		Cons:    atoi(kv["cons"]),
		Cap:     atoi(kv["cap"]),
		Junk:    kv["junk"] == "1",
	}
	o := provcell.Run(c)
	if o.Construct != "" {
		return "construct=" + o.Construct
	}
	cut := 0
	if o.Cut {
		cut = 1
	}
	return fmt.Sprintf("delivered=%d cut=%d run=%s end=%s ops=%d", o.Delivered, cut, o.Run, o.End, o.Ops)
}

func class(input, obs string) string {
	kv := drv.KV(input)
	b := "unbounded"
	l, p := kv["limit"] != "0", kv["passes"] != "0"
	switch {
	case l && p:
		b = "limit+passes"
	case l:
		b = "limit"
	case p:
		b = "passes"
	}
	pre := ""
	if kv["preload"] == "1" {
		pre = "+preload"
	}
	return kv["kind"] + pre + "/" + b
}

func main() {
	drv.Main(&drv.Prop{
		ID:      "C08",
		Gen:     gen,
		Run:     run,
		Class:   class,
		Workers: 24,
		Timeout: 30 * time.Second,
		Rule: "exhaustive matrix kinds{uri,uripost,raw,jsonl,jsonarr}x preload + {grpcjson,httpscn,grpcscn,genjson} x limit 0..4 x passes 0..3 x n 1..4 x consumers{1,3} " +
			"on the real providers built by their public constructors over an in-memory ammo file, plus random larger cells (n, limit, passes, consumers); " +
			"cells without a bound are cancelled after cap acquisitions; every cell is non-trivial (class = kind/preload/bound shape)",
	})
}
