package main

// C04: real-time correspondence for the Waiter and the fire/discard decision of the instance loop.
//
//	mode=waiter toks=<ms,...> sleeps=<ms,...> [cancel=<ms>] [unit=us] [slownext=<us>] [then=<ms,...>]
//	    (tokens may lie minutes, days or centuries in the past - up to 250 years: instants more than 292 years apart are outside
//	    the claim, Time.Sub saturates there - and more than a second in the future; a case may have hundreds of tokens)
//	    the real coreutil.Waiter over a scripted schedule whose i-th token is T0+toks[i] ms (T0 = time.Now() at the
//	    start of the case; tokens seconds in the past / fractions of a second in the future), sleeping sleeps[i] ms
//	    before the i-th Wait (unit=us: both in microseconds). slownext: the schedule needs that long to hand a token out
//	    (a contended shared schedule); the pick-up instant is taken when it returns.
//	    then=: when the first Waiter is through (or cancelled) and the last of its tokens has passed, a SECOND, new Waiter with a
//	    context of its own runs over the tokens of `then` on another goroutine: nothing of the first (its timer, its state) may
//	    reach the second.
//	mode=engine inst=<n> prof=<once:N|const:OPS:MS|line:..|step:..|pause:MS>[+...] resp=<ms,...> discard=<0|1> [perinst=1] [startup=<profile>] [rot=<k>]
//	    (rot=k: the j-th instance starts k*j entries into the response-time history, so the instances see different histories)
//	    (OPS may be a fraction: tokens more than 2 s apart; pause:MS = const 0 rps for MS ms: a gap in the profile)
//	    the real engine (engine.New(...).Run) with n instances (startup once(n), or the given startup schedule: instances are
//	    started over time, so an instance can find its FIRST token already late), the real schedule constructors,
//	    provider.NewNum, a gun that records the instant of Shoot entry and then sleeps resp[k mod len] ms (k = number of
//	    the shot of that instance), an aggregator that records every Report.
//
//	mode=proc given=<none|true|false>[,<…per pool>] lat=<ms> times=<N> [pools=<k>] [fmt=yaml|json|toml|stdin] [key=upper] [anchor=1] [rps=mix]
//	    the real pandora BINARY (go build of <repo>/main.go) with a yaml config whose pool section does not mention
//	    discard_overflow / says true / says false, profile once(N), one instance, http gun against an in-process target that
//	    answers after lat ms, phout result file: ties cli.readConfig's default, the config decoding, the wiring into the
//	    instances and the phout rendering of the discarded sample (proc.go).
//
// Observation (all instants in ns since T0, taken on the monotonic clock):
//
//	end=<ns> err=<nil|ctx|other> total=<tokens of the profile> bad=<discard samples with wrong code/tag> net=<code> tag=<tag>
//	offs=<expected token offsets of the profile, ns after its first token, from a separate copy of the same schedule>
//	seq=<tok>:<pick>:<ret>:<F|D|->,...|<next instance>...
//
// pick = instant at which Schedule.Next returned the token to the waiter (taken inside the schedule wrapper before it
// returns), ret = instant of Shoot entry (F) or of the Report of the discarded sample (D); "-" = Wait returned false.
// The clock reading the Waiter takes for a token therefore lies in [pick, ret].

import (
	"context"
	"fmt"
	"math/rand"
	"os"
	"os/exec"
	"runtime"
	"sort"
	"strconv"
	"strings"
	"sync"
	"sync/atomic"
	"time"

	"verifharness/drv"
	"verifharness/trec"

	"github.com/yandex/pandora/core"
	"github.com/yandex/pandora/core/aggregator/netsample"
	"github.com/yandex/pandora/core/coreutil"
	"github.com/yandex/pandora/core/engine"
	"github.com/yandex/pandora/core/provider"
	"github.com/yandex/pandora/core/schedule"
	"go.uber.org/zap"
)

type entry struct {
	tok, pick, ret int64
	dec            byte
}

type recorder struct {
	clk  *trec.Clock
	mu   sync.Mutex
	seqs map[int64]*[]entry
	bad  int
	net  string
	tag  string
}

func newRecorder() *recorder {
	return &recorder{clk: trec.NewClock(), seqs: map[int64]*[]entry{}, net: "-", tag: "-"}
}

func (r *recorder) picked(tok time.Time) {
	pick := r.clk.Now()
	g := trec.Goid()
	r.mu.Lock()
	s := r.seqs[g]
	if s == nil {
		s = &[]entry{}
		r.seqs[g] = s
	}
	*s = append(*s, entry{tok: r.clk.Of(tok), pick: pick, ret: -1, dec: '-'})
	r.mu.Unlock()
}

func (r *recorder) decided(dec byte) {
	ret := r.clk.Now()
	g := trec.Goid()
	r.mu.Lock()
	if s := r.seqs[g]; s != nil && len(*s) > 0 && (*s)[len(*s)-1].dec == '-' {
		(*s)[len(*s)-1].ret = ret
		(*s)[len(*s)-1].dec = dec
	} else {
		r.bad += 1000 // an action without a drawn token
	}
	r.mu.Unlock()
}

func (r *recorder) render() string {
	r.mu.Lock()
	defer r.mu.Unlock()
	var seqs [][]entry
	for _, s := range r.seqs {
		if len(*s) > 0 {
			seqs = append(seqs, *s)
		}
	}
	sort.Slice(seqs, func(i, j int) bool {
		if seqs[i][0].pick != seqs[j][0].pick {
			return seqs[i][0].pick < seqs[j][0].pick
		}
		return seqs[i][0].tok < seqs[j][0].tok
	})
	var parts []string
	for _, s := range seqs {
		var es []string
		for _, e := range s {
			es = append(es, fmt.Sprintf("%d:%d:%d:%c", e.tok, e.pick, e.ret, e.dec))
		}
		parts = append(parts, strings.Join(es, ","))
	}
	return strings.Join(parts, "|")
}

// recSched wraps a schedule and records every token handed out.
type recSched struct {
	core.Schedule
	rec  *recorder
	slow time.Duration
}

func (s *recSched) Next() (time.Time, bool) {
	ts, ok := s.Schedule.Next()
	if s.slow > 0 {
		time.Sleep(s.slow)
	}
	if ok {
		s.rec.picked(ts)
	}
	return ts, ok
}

// scripted schedule: tokens at fixed instants, in the given order
type scriptSched struct {
	mu   sync.Mutex
	toks []time.Time
	i    int
}

func (s *scriptSched) Start(time.Time) {}
func (s *scriptSched) Next() (time.Time, bool) {
	s.mu.Lock()
	defer s.mu.Unlock()
	if s.i >= len(s.toks) {
		if len(s.toks) == 0 {
			return time.Now(), false
		}
		return s.toks[len(s.toks)-1], false
	}
	s.i++
	return s.toks[s.i-1], true
}
func (s *scriptSched) Left() int {
	s.mu.Lock()
	defer s.mu.Unlock()
	return len(s.toks) - s.i
}

// relSched: the i-th token lies rel[i] NANOSECONDS after the instant at which Next is asked for it (negative: before it). The
// schedule decides the token time when it is asked, so a token can be placed a few microseconds ahead of the very clock reading
// the Waiter is about to take - a distance no token fixed in advance can be given reliably (sleeps overshoot by more than that).
type relSched struct {
	mu  sync.Mutex
	rel []int64
	i   int
}

func (s *relSched) Start(time.Time) {}
func (s *relSched) Next() (time.Time, bool) {
	s.mu.Lock()
	defer s.mu.Unlock()
	if s.i >= len(s.rel) {
		return time.Now(), false
	}
	s.i++
	return time.Now().Add(time.Duration(s.rel[s.i-1])), true
}
func (s *relSched) Left() int {
	s.mu.Lock()
	defer s.mu.Unlock()
	return len(s.rel) - s.i
}

type recGun struct {
	rec   *recorder
	resp  []time.Duration
	shots int
}

func (g *recGun) Bind(core.Aggregator, core.GunDeps) error { return nil }
func (g *recGun) Shoot(core.Ammo) {
	g.rec.decided('F')
	d := g.resp[g.shots%len(g.resp)]
	g.shots++
	if d > 0 {
		time.Sleep(d)
	}
}

type recAggr struct{ rec *recorder }

func (a *recAggr) Run(ctx context.Context, _ core.AggregatorDeps) error {
	<-ctx.Done()
	return nil
}

func (a *recAggr) Report(s core.Sample) {
	a.rec.decided('D')
	net, tag := "?", "?"
	if ns, ok := s.(*netsample.Sample); ok {
		f := strings.Split(ns.String(), "\t")
		if len(f) >= 12 {
			tag = f[1]
			if i := strings.IndexByte(tag, '#'); i >= 0 {
				tag = tag[:i]
			}
			net = f[10]
		}
		// A reported sample belongs to the aggregator (the phout aggregator hands it to the sample pool, where the next
		// Acquire overwrites it): consume it, so that a sample object reported a second time does not read as a discarded one
		ns.SetUserNet(0)
	}
	a.rec.mu.Lock()
	if a.rec.net == "-" {
		a.rec.net, a.rec.tag = net, tag
	} else if a.rec.net != net || a.rec.tag != tag {
		a.rec.bad++
	}
	a.rec.mu.Unlock()
}

func parseMs(s string) []int64 {
	var out []int64
	if s == "" {
		return out
	}
	for _, f := range strings.Split(s, ",") {
		v, err := strconv.ParseInt(f, 10, 64)
		if err != nil {
			panic("bad number " + f)
		}
		out = append(out, v)
	}
	return out
}

func buildProfile(p string) core.Schedule {
	var parts []core.Schedule
	for _, seg := range strings.Split(p, "+") {
		f := strings.Split(seg, ":")
		switch {
		case f[0] == "once" && len(f) == 2:
			n, _ := strconv.ParseInt(f[1], 10, 64)
			parts = append(parts, schedule.NewOnce(n))
		case f[0] == "const" && len(f) == 3:
			ops, _ := strconv.ParseFloat(f[1], 64)
			ms, _ := strconv.ParseInt(f[2], 10, 64)
			parts = append(parts, schedule.NewConst(ops, time.Duration(ms)*time.Millisecond))
		case f[0] == "pause" && len(f) == 2:
			ms, _ := strconv.ParseInt(f[1], 10, 64)
			parts = append(parts, schedule.NewConst(0, time.Duration(ms)*time.Millisecond))
		case f[0] == "line" && len(f) == 4:
			from, _ := strconv.ParseFloat(f[1], 64)
			to, _ := strconv.ParseFloat(f[2], 64)
			ms, _ := strconv.ParseInt(f[3], 10, 64)
			parts = append(parts, schedule.NewLine(from, to, time.Duration(ms)*time.Millisecond))
		case f[0] == "step" && len(f) == 5:
			from, _ := strconv.ParseFloat(f[1], 64)
			to, _ := strconv.ParseFloat(f[2], 64)
			st, _ := strconv.ParseInt(f[3], 10, 64)
			ms, _ := strconv.ParseInt(f[4], 10, 64)
			parts = append(parts, schedule.NewStep(from, to, st, time.Duration(ms)*time.Millisecond))
		default:
			panic("bad profile " + seg)
		}
	}
	if len(parts) == 1 {
		return parts[0]
	}
	return schedule.NewComposite(parts...)
}

// addUnits is t0 + n*unit, also when n*unit does not fit a time.Duration (more than 292 years)
func addUnits(t0 time.Time, n int64, unit time.Duration) time.Time {
	const chunk = int64(1) << 32 // 2^32 ms = 49.7 days, 2^32 us = 71.6 min: far below the range of a Duration
	for n != 0 {
		step := n
		if step > chunk {
			step = chunk
		} else if step < -chunk {
			step = -chunk
		}
		t0 = t0.Add(time.Duration(step) * unit)
		n -= step
	}
	return t0
}

func runWaiter(m map[string]string) string {
	toks := parseMs(m["toks"])
	sleeps := parseMs(m["sleeps"])
	unit := time.Millisecond
	if m["unit"] == "us" {
		unit = time.Microsecond
	}
	rec := newRecorder()
	ss := &scriptSched{}
	for _, t := range toks {
		ss.toks = append(ss.toks, addUnits(rec.clk.T0, t, unit))
	}
	var inner core.Schedule = ss
	if rel := parseMs(m["rel"]); len(rel) > 0 {
		// tokens relative to the instant they are asked for (ns); `toks` is not given then
		inner = &relSched{rel: rel}
		toks = rel
	}
	ctx, cancel := context.WithCancel(context.Background())
	defer cancel()
	if c, ok := m["cancel"]; ok {
		ms, _ := strconv.ParseInt(c, 10, 64)
		tm := time.AfterFunc(time.Duration(ms)*time.Millisecond, cancel)
		defer tm.Stop()
	}
	slow, _ := strconv.ParseInt(m["slownext"], 10, 64)
	w := coreutil.NewWaiter(&recSched{Schedule: inner, rec: rec, slow: time.Duration(slow) * time.Microsecond})
	for i := range toks {
		if i < len(sleeps) && sleeps[i] > 0 {
			time.Sleep(time.Duration(sleeps[i]) * unit)
		}
		if !w.Wait(ctx) {
			continue
		}
		if w.IsSlowDown(ctx) {
			rec.decided('D')
		} else {
			rec.decided('F')
		}
	}
	then := parseMs(m["then"])
	if len(then) > 0 && m["rel"] == "" {
		// let the last token of the first waiter pass (a sleep that was cancelled has its deadline behind it)
		last := int64(0)
		for _, t := range toks {
			if t > last && t < 30_000_000/int64(unit/time.Microsecond) { // tokens more than 30 s ahead are never reached (cancelled runs)
				last = t
			}
		}
		if d := time.Duration(last)*unit + 50*time.Millisecond - time.Duration(rec.clk.Now()); d > 0 {
			time.Sleep(d)
		}
		ss2 := &scriptSched{}
		for _, t := range then {
			ss2.toks = append(ss2.toks, addUnits(rec.clk.T0, t, unit))
		}
		done := make(chan struct{})
		go func() {
			defer close(done)
			ctx2 := context.Background()
			w2 := coreutil.NewWaiter(&recSched{Schedule: ss2, rec: rec})
			for range then {
				if !w2.Wait(ctx2) {
					continue
				}
				if w2.IsSlowDown(ctx2) {
					rec.decided('D')
				} else {
					rec.decided('F')
				}
			}
		}()
		<-done
	}
	return fmt.Sprintf("end=%d err=nil total=%d bad=0 net=- tag=- seq=%s", rec.clk.Now(), len(toks)+len(then), rec.render())
}

func runEngine(m map[string]string) string {
	inst, _ := strconv.ParseInt(m["inst"], 10, 64)
	if inst < 1 {
		inst = 1
	}
	var resp []time.Duration
	for _, ms := range parseMs(m["resp"]) {
		resp = append(resp, time.Duration(ms)*time.Millisecond)
	}
	if len(resp) == 0 {
		resp = []time.Duration{0}
	}
	// tokens of the profile, counted on a separate copy of the same schedule; their offsets from the first one
	total := 0
	var offs []string
	var first time.Time
	for cp := buildProfile(m["prof"]); ; total++ {
		ts, ok := cp.Next()
		if !ok || total > 100_000 {
			break
		}
		if total == 0 {
			first = ts
		}
		offs = append(offs, strconv.FormatInt(int64(ts.Sub(first)), 10))
	}
	rec := newRecorder()
	// rot=<k>: the j-th instance (in the order the guns are made) starts k*j entries into the response-time history: the
	// instances of one pool see DIFFERENT histories (one falls behind while another keeps up)
	rot, _ := strconv.Atoi(m["rot"])
	var guns atomic.Int64
	conf := engine.InstancePoolConfig{
		ID:         "c04",
		Provider:   provider.NewNum(-1),
		Aggregator: &recAggr{rec: rec},
		NewGun: func() (core.Gun, error) {
			j := int(guns.Add(1) - 1)
			return &recGun{rec: rec, resp: resp, shots: (j * rot) % len(resp)}, nil
		},
		RPSPerInstance: m["perinst"] == "1",
		NewRPSSchedule: func() (core.Schedule, error) {
			return &recSched{Schedule: buildProfile(m["prof"]), rec: rec}, nil
		},
		StartupSchedule: schedule.NewOnce(inst),
		DiscardOverflow: m["discard"] == "1",
	}
	if su := m["startup"]; su != "" {
		// instances are started over time; their number is the number of tokens of the startup schedule
		n := int64(0)
		for cp := buildProfile(su); n < 1000; n++ {
			if _, ok := cp.Next(); !ok {
				break
			}
		}
		inst = n
		conf.StartupSchedule = buildProfile(su)
	}
	if conf.RPSPerInstance {
		total *= int(inst)
	}
	eng := engine.New(zap.NewNop(), trec.Metrics(), engine.Config{Pools: []engine.InstancePoolConfig{conf}})
	ctx, cancel := context.WithCancel(context.Background())
	defer cancel()
	if c, ok := m["cancel"]; ok {
		ms, _ := strconv.ParseInt(c, 10, 64)
		tm := time.AfterFunc(time.Duration(ms)*time.Millisecond, cancel)
		defer tm.Stop()
	}
	// heartbeat: the time this PROCESS was not running although it wanted to (a tick every 5 ms; the excess of every gap above
	// 50 ms is added up). A machine-wide stall of seconds (seen once: one time.Sleep(3 s) of a gun took 16.7 s) lengthens the run
	// without any doing of the code under test; the run-length verdict allows for it.
	var stall atomic.Int64
	hbStop := make(chan struct{})
	hbDone := make(chan struct{})
	go func() {
		defer close(hbDone)
		tk := time.NewTicker(5 * time.Millisecond)
		defer tk.Stop()
		last := time.Now()
		for {
			select {
			case <-hbStop:
				return
			case <-tk.C:
				now := time.Now()
				if gap := now.Sub(last); gap > 50*time.Millisecond {
					stall.Add(int64(gap - 5*time.Millisecond))
				}
				last = now
			}
		}
	}()
	err := eng.Run(ctx)
	end := rec.clk.Now()
	close(hbStop)
	<-hbDone
	eng.Wait()
	e := "nil"
	if err != nil {
		if ctx.Err() != nil {
			e = "ctx"
		} else {
			e = "other"
		}
	}
	return fmt.Sprintf("end=%d stall=%d err=%s total=%d bad=%d net=%s tag=%s offs=%s seq=%s", end, stall.Load(), e, total, rec.bad, rec.net, rec.tag, strings.Join(offs, ","), rec.render())
}

// runRace: `rounds` times a FRESH profile (real constructors, never Start()ed: the first Next takes the clock reading as the
// profile's start) is shared by `inst` goroutines, each with a real Waiter of its own, which are released together and take their
// FIRST token at the same moment - the start of a pool whose instances are started at once. Each goroutine makes `per` passes
// (Wait, IsSlowDown -> F | D); the round is cancelled once every goroutine has its first token and 50 us have passed, so tokens
// that lie in the future are not waited for. Observation: per kept round `<rs>/<entries>` with rs = the instant (ns since T0)
// just before the goroutines were released; every round in which a token precedes rs or an action precedes its token is
// kept (at most 3), and the first two rounds always.
var raceMu sync.Mutex // one race case at a time: its goroutines spin for microseconds per round, the other cases measure time

type raceRound struct {
	rec    *recorder
	shared *recSched
	ctx    context.Context
	lagMul int
}

// runRace runs the case in a CHILD process (this binary again, `race-child <input>`): the goroutines of a race case spin, and a
// Go runtime whose Ps are all kept busy by spinners serves the timers of other goroutines late (seen twice: a time.Sleep(2.1 s) of a
// recording gun in a concurrent engine case took 10.4 s while the heartbeat of that case kept ticking) - the timing-sensitive
// cases of the driver must not share a runtime with them.
func runRace(input string) string {
	raceMu.Lock()
	defer raceMu.Unlock()
	exe, err := os.Executable()
	if err != nil {
		return "BADINPUT cannot find the driver binary"
	}
	ctx, cancel := context.WithTimeout(context.Background(), 60*time.Second)
	defer cancel()
	out, err := exec.CommandContext(ctx, exe, "race-child", input).Output()
	if err != nil {
		return "BADINPUT race child failed: " + drv.Clean(err.Error())
	}
	return strings.TrimSpace(string(out))
}

func runRaceChild(m map[string]string) string {
	inst, _ := strconv.Atoi(m["inst"])
	rounds, _ := strconv.Atoi(m["rounds"])
	per, _ := strconv.Atoi(m["per"])
	budget, _ := strconv.Atoi(m["ms"]) // stop after that many ms even if fewer than `rounds` rounds were made (0: no limit)
	if inst < 2 {
		inst = 2
	}
	if per < 1 {
		per = 1
	}
	clk := trec.NewClock()
	var kept []string
	odd := 0
	total := 0
	for cp := buildProfile(m["prof"]); total < 100_000; total++ {
		if _, ok := cp.Next(); !ok {
			break
		}
	}
	// `inst` goroutines live for the whole case (no goroutine is created inside a round: a round takes microseconds); each waits for
	// the next round to be published, then - the j-th one j * (round mod 97) loop iterations (a few ns each) after the first, so that over
	// the rounds the distances between the arrivals sweep 0 .. a few hundred ns and every short window inside the first Next is
	// visited - makes a new Waiter over the round's shared schedule and its passes
	var cur atomic.Pointer[raceRound]
	var gen, doneCnt atomic.Int64
	var stop atomic.Bool
	var wg sync.WaitGroup
	for i := 0; i < inst; i++ {
		wg.Add(1)
		go func(i int) {
			defer wg.Done()
			seen := int64(0)
			for {
				for spins := 0; gen.Load() == seen; spins++ {
					if stop.Load() {
						return
					}
					if spins > 300 {
						runtime.Gosched()
					}
				}
				seen++
				rr := cur.Load()
				for x := 0; x < i*rr.lagMul; x++ {
					_ = gen.Load()
				}
				w := coreutil.NewWaiter(rr.shared)
				for k := 0; k < per; k++ {
					if !w.Wait(rr.ctx) {
						continue
					}
					if w.IsSlowDown(rr.ctx) {
						rr.rec.decided('D')
					} else {
						rr.rec.decided('F')
					}
				}
				doneCnt.Add(1)
			}
		}(i)
	}
	done := 0
	for round := 0; round < rounds; round++ {
		if budget > 0 && clk.Now() > int64(budget)*1_000_000 {
			break
		}
		done++
		rec := &recorder{clk: clk, seqs: map[int64]*[]entry{}, net: "-", tag: "-"}
		shared := &recSched{Schedule: buildProfile(m["prof"]), rec: rec}
		ctx, cancel := context.WithCancel(context.Background())
		cur.Store(&raceRound{rec: rec, shared: shared, ctx: ctx, lagMul: round % 97})
		doneCnt.Store(0)
		rs := clk.Now()
		gen.Add(1)
		// once every goroutine has its first token the round is cancelled: tokens that lie in the future are not waited for
		floor := total - inst
		if floor < 0 {
			floor = 0
		}
		cancelled := false
		for spins := 0; doneCnt.Load() < int64(inst); spins++ {
			if !cancelled && shared.Schedule.Left() <= floor {
				cancel()
				cancelled = true
			}
			if spins > 300 {
				runtime.Gosched()
			}
		}
		cancel()
		strange := false
		rec.mu.Lock()
		for _, sq := range rec.seqs {
			for _, e := range *sq {
				if e.tok < rs || (e.dec != '-' && e.ret < e.tok) {
					strange = true
				}
			}
		}
		rec.mu.Unlock()
		if strange {
			odd++
		}
		if (strange && odd <= 3) || round < 2 {
			kept = append(kept, fmt.Sprintf("%d/%s", rs, rec.render()))
		}
	}
	stop.Store(true)
	wg.Wait()
	return fmt.Sprintf("rounds=%d odd=%d total=%d seq=%s", done, odd, total, strings.Join(kept, ";"))
}

func run(input string) string {
	m := drv.KV(input)
	switch m["mode"] {
	case "waiter":
		return runWaiter(m)
	case "engine":
		return runEngine(m)
	case "proc":
		return runProc(m)
	case "race":
		return runRace(input)
	}
	return "BADINPUT"
}

func joinInts(v []int64) string {
	s := make([]string, len(v))
	for i, x := range v {
		s[i] = strconv.FormatInt(x, 10)
	}
	return strings.Join(s, ",")
}

// genWaiter draws one scripted Waiter case: every token is either >= 250 ms away from the 2 s threshold at the
// expected pick-up instant, or up to 300 ms in the future (one real sleep).
func genWaiter(r *rand.Rand) string {
	n := 2 + r.Intn(6)
	var toks, sleeps []int64
	var clock int64 // expected ms since T0 at the next Wait call
	for i := 0; i < n; i++ {
		var sl int64
		switch r.Intn(4) {
		case 0:
			sl = int64(100 * (1 + r.Intn(6)))
		case 1:
			sl = int64(1000 + 100*r.Intn(8))
		}
		clock += sl
		var late int64 // wanted lateness at pick-up, ms
		switch r.Intn(6) {
		case 0:
			late = -int64(50 + r.Intn(250)) // in the future: timer path
		case 1:
			late = int64(r.Intn(100))
		case 2:
			late = int64(300 + r.Intn(1400)) // late, inside the window
		case 3:
			late = int64(1500 + r.Intn(250))
		case 4:
			late = int64(2250 + r.Intn(500)) // just outside the window
		default:
			late = int64(2500 + r.Intn(6000))
		}
		toks = append(toks, clock-late)
		sleeps = append(sleeps, sl)
		if late < 0 {
			clock += -late
		}
	}
	return fmt.Sprintf("mode=waiter toks=%s sleeps=%s", joinInts(toks), joinInts(sleeps))
}

// genWaiterNear draws a Waiter case whose tokens are a few ms / a few hundred µs around the 2 s threshold when picked up
// (unit=us: toks and sleeps in microseconds). The decision is judged against the measured [pick, ret] interval, so a token
// that lands inside it is counted as inconclusive, never as a failure.
func genWaiterNear(r *rand.Rand, us bool) string {
	n := 2 + r.Intn(5)
	unit := int64(1)
	ds := []int64{0, 1, 2, 3, 5, 10, 20, 50, 100, 200}
	if us {
		unit = 1000
		ds = []int64{0, 100, 200, 300, 500, 700, 1000, 1500, 3000, 10000}
	}
	var toks, sleeps []int64
	var clock int64 // expected instant of the next Wait call, in units
	for i := 0; i < n; i++ {
		var sl int64
		switch r.Intn(3) {
		case 0:
			sl = int64(20+r.Intn(300)) * unit
		case 1:
			if i > 0 {
				sl = int64(1000+r.Intn(1200)) * unit
			}
		}
		clock += sl
		d := ds[r.Intn(len(ds))]
		late := 2000*unit + d
		if r.Intn(2) == 0 {
			late = 2000*unit - d
		}
		if r.Intn(7) == 0 {
			late = -int64(20+r.Intn(100)) * unit // a timer sleep in between: refreshes the cached reading
		} else if us && r.Intn(5) == 0 {
			late = -int64(50 + r.Intn(2000)) // a token less than ~2 ms ahead: a very short timer sleep
		}
		toks = append(toks, clock-late)
		sleeps = append(sleeps, sl)
		if late < 0 {
			clock += -late
		}
	}
	u := ""
	if us {
		u = " unit=us"
	}
	if r.Intn(3) == 0 {
		// the lateness aimed at is the one at the START of Next; the pick-up is `slownext` later
		u += fmt.Sprintf(" slownext=%d", []int{300, 1000, 3000, 8000}[r.Intn(4)])
	}
	return fmt.Sprintf("mode=waiter toks=%s sleeps=%s%s", joinInts(toks), joinInts(sleeps), u)
}

// genWaiterCancel: the context is cancelled while the Waiter sleeps on its timer (or between calls)
func genWaiterCancel(r *rand.Rand) string {
	n := 3 + r.Intn(3)
	var toks, sleeps []int64
	var clock int64
	for i := 0; i < n; i++ {
		late := int64(r.Intn(3000))
		if r.Intn(2) == 0 {
			late = -int64(100 + r.Intn(400))
		}
		toks = append(toks, clock-late)
		sleeps = append(sleeps, 0)
		if late < 0 {
			clock += -late
		}
	}
	s := fmt.Sprintf("mode=waiter toks=%s sleeps=%s cancel=%d", joinInts(toks), joinInts(sleeps), 50+r.Intn(int(clock)+200))
	if r.Intn(2) == 0 {
		// a second waiter after the cancelled one: a due token, then two it has to sleep for
		last := int64(0)
		for _, t := range toks {
			if t > last {
				last = t
			}
		}
		a := last + int64(r.Intn(100))
		b := a + int64(150+r.Intn(300))
		s += fmt.Sprintf(" then=%d,%d,%d", a, b, b+int64(100+r.Intn(1200)))
	}
	return s
}

// latenesses (ms) at which a lateness kept in a narrower integer wraps around or changes sign: 2^15, 2^16, 2^31, 2^32 of
// microseconds, milliseconds and seconds
var farEdges = func() []int64 {
	var out []int64
	for _, bits := range []uint{15, 16, 31, 32} {
		out = append(out, (int64(1)<<bits)/1000, int64(1)<<bits, (int64(1)<<bits)*1000)
	}
	return out
}()

// 250 years in ms
const farMax = int64(250) * 365 * 24 * 3600 * 1000

// genWaiterFar: tokens that are minutes, days, years or centuries late (no real waiting: the schedule is scripted), among them the
// edges above plus 1 ms .. 30 s, mixed with ordinary tokens. The lateness stays below 250 years: the claim is about instants
// within 292 years of each other (beyond that Time.Sub saturates and `0 - waitFor` of the refresh path of Wait overflows).
func genWaiterFar(r *rand.Rand) string {
	n := 3 + r.Intn(6)
	var toks, sleeps []int64
	var clock int64
	for i := 0; i < n; i++ {
		var sl int64
		if r.Intn(4) == 0 {
			sl = int64(50 + r.Intn(300))
		}
		clock += sl
		var late int64
		switch r.Intn(8) {
		case 0:
			late = -int64(30 + r.Intn(150)) // a short timer sleep in between
		case 1:
			late = int64(r.Intn(1700))
		case 2, 3:
			late = farEdges[r.Intn(len(farEdges))] + []int64{1, 400, 1500, 2500, 30000}[r.Intn(5)]
		case 4:
			late = farEdges[r.Intn(len(farEdges))] - []int64{1, 300}[r.Intn(2)]
		default:
			// log-uniform between 10 s and 250 years
			late = 10_000
			for k := r.Intn(31); k > 0; k-- {
				late *= 2
			}
			late += r.Int63n(late/2 + 1)
		}
		if late > farMax {
			late = farMax - r.Int63n(1_000_000)
		}
		if late > 1700 && late < 2300 {
			late = 2300 // stay clear of the threshold
		}
		toks = append(toks, clock-late)
		sleeps = append(sleeps, sl)
		if late < 0 {
			clock += -late
		}
	}
	return fmt.Sprintf("mode=waiter toks=%s sleeps=%s", joinInts(toks), joinInts(sleeps))
}

// genWaiterFuture: a due token, then a token that lies FAR in the future (just beyond 2^15, 2^16, 2^31, 2^32 microseconds,
// milliseconds or seconds, or log-uniformly 1 min .. 250 years ahead); the context is cancelled after 0.3 .. 0.6 s. The real Waiter
// has to sleep until the cancellation (the token is not acted on); a sleep whose duration went through a narrower integer or a
// coarser unit ends early. Sometimes a second waiter follows (`then=`).
func genWaiterFuture(r *rand.Rand) string {
	var ahead int64
	if r.Intn(4) == 0 {
		ahead = 60_000
		for k := r.Intn(28); k > 0; k-- {
			ahead *= 2
		}
		ahead += r.Int63n(ahead/2 + 1)
		if ahead > farMax {
			ahead = farMax - r.Int63n(1_000_000)
		}
	} else {
		ahead = farEdges[r.Intn(len(farEdges))] + []int64{1, 40, 120, 250}[r.Intn(4)]
		if ahead < 2000 {
			ahead += 65536 // 2^15 / 2^16 us are only 33 / 66 ms: take the ms edge instead
		}
	}
	cancel := 300 + r.Intn(300)
	first := -int64(r.Intn(1500))
	if r.Intn(3) == 0 {
		first = int64(50 + r.Intn(150)) // a short timer sleep first: the timer is re-armed (Reset) for the far token
	}
	s := fmt.Sprintf("mode=waiter toks=%d,%d sleeps=0,0 cancel=%d", first, ahead, cancel)
	if r.Intn(4) == 0 {
		s += fmt.Sprintf(" then=%d,%d", cancel+100, cancel+300)
	}
	return s
}

// genWaiterLong: one or two tokens that lie 1.05 .. 2.8 s in the FUTURE when they are picked up (a timer sleep of more than a
// second), among late and due ones
func genWaiterLong(r *rand.Rand) string {
	n := 3 + r.Intn(3)
	long := map[int]bool{1 + r.Intn(n-1): true}
	if r.Intn(3) == 0 {
		long[r.Intn(n)] = true
	}
	var toks, sleeps []int64
	var clock int64
	for i := 0; i < n; i++ {
		var late int64
		switch {
		case long[i]:
			late = -int64(1050 + r.Intn(1750))
		case r.Intn(3) == 0:
			late = int64(2300 + r.Intn(3000))
		default:
			late = int64(r.Intn(1700))
		}
		toks = append(toks, clock-late)
		sleeps = append(sleeps, 0)
		if late < 0 {
			clock += -late
		}
	}
	return fmt.Sprintf("mode=waiter toks=%s sleeps=%s", joinInts(toks), joinInts(sleeps))
}

// genWaiterBulk: hundreds of tokens in one go (a counter in the Waiter wraps around, a periodic refresh is skipped many times),
// each clearly inside or clearly outside the window, with a few real sleeps in between so that the clock moves
func genWaiterBulk(r *rand.Rand, n int) string {
	var toks, sleeps []int64
	var clock int64
	for i := 0; i < n; i++ {
		var sl int64
		if i > 0 && r.Intn(n/3+1) == 0 {
			sl = int64(300 + r.Intn(700))
		}
		clock += sl
		late := int64(r.Intn(1600))
		if r.Intn(3) == 0 {
			late = int64(2400 + r.Intn(2000))
		}
		toks = append(toks, clock-late)
		sleeps = append(sleeps, sl)
	}
	return fmt.Sprintf("mode=waiter toks=%s sleeps=%s", joinInts(toks), joinInts(sleeps))
}

// genWaiterRel: every token is placed relative to the instant the schedule is asked for it, nanoseconds to a millisecond ahead of
// it or behind it (relSched): waits far shorter than any sleep of the driver can aim at, next to waits of tens and hundreds of
// microseconds and tokens that are just due. A wait that is skipped, rounded down or cut short shows as an action before its token.
func genWaiterRel(r *rand.Rand) string {
	n := 8 + r.Intn(10)
	var rel, sleeps []int64
	for i := 0; i < n; i++ {
		var d int64
		switch r.Intn(7) {
		case 0:
			d = int64(1 + r.Intn(1000)) // under a microsecond
		case 1:
			d = int64(1000 + r.Intn(9000))
		case 2, 3:
			d = int64(10_000 + r.Intn(90_000)) // 10 .. 100 us
		case 4:
			d = int64(100_000 + r.Intn(900_000))
		case 5:
			d = int64(1_000_000 + r.Intn(4_000_000))
		default:
			d = -int64(r.Intn(200_000)) // just due
		}
		rel = append(rel, d)
		sl := int64(0)
		if r.Intn(5) == 0 {
			sl = int64(1 + r.Intn(3))
		}
		sleeps = append(sleeps, sl)
	}
	return fmt.Sprintf("mode=waiter rel=%s sleeps=%s", joinInts(rel), joinInts(sleeps))
}

// genRace: a fresh, never Start()ed profile whose first tokens are taken by several instances at the same moment, many rounds
func genRace(r *rand.Rand, rounds int) string {
	prof := []string{
		fmt.Sprintf("const:%d:100000", 1+r.Intn(3)),
		fmt.Sprintf("line:%d:%d:60000", 1+r.Intn(2), 4+r.Intn(4)),
		fmt.Sprintf("once:%d+const:2:60000", 1+r.Intn(3)),
		fmt.Sprintf("step:1:%d:1:20000", 2+r.Intn(3)),
		"const:0.5:100000",
	}[r.Intn(5)]
	return fmt.Sprintf("mode=race inst=%d rounds=%d ms=1500 per=%d prof=%s", []int{2, 3, 4, 8, 16}[r.Intn(5)], rounds, 1+r.Intn(2), prof)
}

var respPool = []int64{0, 0, 50, 300, 700, 1000, 1500, 2100, 3000, 4000}

func genSeg(r *rand.Rand, small, big bool) string {
	if big && !small && r.Intn(5) == 0 {
		// a dense profile: dozens of tokens per second, sometimes hundreds (a discard storm: the backlog is discarded in one go)
		if r.Intn(3) == 0 {
			return fmt.Sprintf("const:%d:%d", 100+r.Intn(150), 1000+500*r.Intn(3))
		}
		return fmt.Sprintf("const:%d:%d", 25+r.Intn(40), 1000+500*r.Intn(4))
	}
	if !small && r.Intn(8) == 0 {
		// a sparse profile (tokens 2 .. 2.5 s apart) or a burst, a gap, and tokens after the gap
		return []string{"const:0.4:5000", "const:0.5:4000", fmt.Sprintf("const:%d:500+pause:%d+const:2:1000", 6+r.Intn(6), 2200+100*r.Intn(8))}[r.Intn(3)]
	}
	switch k := r.Intn(6); {
	case k == 0:
		return fmt.Sprintf("once:%d", 1+r.Intn(8))
	case k == 1 && !small:
		// (durations that are not a whole number of seconds: the slope and the count depend on the fraction)
		return fmt.Sprintf("line:%d:%d:%d", r.Intn(7), 4+r.Intn(16), 1000+100*r.Intn(21))
	case k == 2 && !small:
		return fmt.Sprintf("step:%d:%d:%d:%d", 2+r.Intn(4), 8+r.Intn(8), 3+r.Intn(4), 500+250*r.Intn(3))
	case small:
		return fmt.Sprintf("const:%d:%d", 2+r.Intn(5), 1000)
	default:
		return fmt.Sprintf("const:%d:%d", 2+r.Intn(19), 1000+500*r.Intn(5))
	}
}

// genEngine draws one engine scenario: instance count, profile (1-2 segments of once/const/line/step), a response-time
// history of 1..5 entries (repeated cyclically per instance) and discard_overflow. With discard_overflow off every token is
// fired, so the profile is kept small and the responses short enough for the serial work to stay within a few seconds.
func genEngine(r *rand.Rand, thorough bool) string {
	insts := []int{1, 1, 2, 3, 4, 8}
	if thorough {
		insts = append(insts, 16, 5)
	}
	inst := insts[r.Intn(len(insts))]
	discard := 1
	if r.Intn(4) == 0 {
		discard = 0
	}
	prof := genSeg(r, discard == 0, thorough)
	if r.Intn(3) == 0 {
		prof += "+" + genSeg(r, discard == 0, thorough)
	}
	if thorough && r.Intn(10) == 0 {
		prof += "+" + genSeg(r, discard == 0, false)
	}
	n := 1 + r.Intn(5)
	var resp []int64
	for i := 0; i < n; i++ {
		v := respPool[r.Intn(len(respPool))]
		if discard == 0 && v > 700 {
			v = 300
		}
		resp = append(resp, v)
	}
	s := fmt.Sprintf("mode=engine inst=%d prof=%s resp=%s discard=%d", inst, prof, joinInts(resp), discard)
	if inst > 1 && r.Intn(5) == 0 {
		s += " perinst=1"
	}
	if inst > 1 && len(resp) > 1 && r.Intn(3) == 0 {
		s += fmt.Sprintf(" rot=%d", 1+r.Intn(len(resp)-1))
	}
	if inst > 1 && discard == 1 && r.Intn(4) == 0 {
		// the instances are started one after the other (0.33 .. 1.4 s apart): late starters find their first token late
		gap := []string{"3", "1.25", "0.7"}[r.Intn(3)]
		ms := map[string]int{"3": 334, "1.25": 800, "0.7": 1429}[gap] * inst
		s = strings.Replace(s, fmt.Sprintf("inst=%d ", inst), fmt.Sprintf("inst=%d startup=const:%s:%d ", inst, gap, ms+1), 1)
	}
	if r.Intn(12) == 0 {
		s += fmt.Sprintf(" cancel=%d", 300+r.Intn(3000))
	}
	return s
}

func gen(r *rand.Rand, tier string) []string {
	var out []string
	thorough := tier == "thorough"
	// the pandora binary with a config that leaves discard_overflow out / sets it: default, explicit true, explicit false
	out = append(out,
		"mode=proc given=none lat=800 times=6",
		"mode=proc given=false lat=800 times=5",
		"mode=proc given=true lat=800 times=6",
		"mode=proc given=none lat=800 times=5 pools=2",
		// the same option through the other ways a config can reach readConfig: json and toml files, yaml on standard input,
		// an upper-case key (config keys are case-insensitive), a pool section taken over through a yaml merge key
		"mode=proc given=false lat=800 times=5 key=upper fmt=toml",
		"mode=proc given=none lat=800 times=5 pools=2 anchor=1",
		"mode=proc given=true lat=800 times=5 fmt=json key=upper",
		// pools of one config with DIFFERENT settings: each pool runs with its own
		"mode=proc given=false,none lat=800 times=5 pools=2",
		"mode=proc given=none,false,true lat=800 times=5 pools=3 fmt=json",
		// several instances per pool, shared profile (3 x 3 tokens are less than 2 s late, the rest is discarded) and one profile per
		// instance (`rps-per-instance`): the option has to reach every instance the plugin factories and the pool build
		"mode=proc given=none lat=800 times=12 inst=3",
		// the config found by the default search (./load.yaml, no command line argument) and a config file without an extension
		"mode=proc given=none lat=800 times=5 fmt=cwd",
		"mode=proc given=none lat=800 times=5 fmt=noext pools=2",
		"mode=proc given=none,false lat=800 times=5 pools=2 inst=2 perinst=1")
	// (json file / yaml on stdin with the option left out, the mixed profile, late starters: corpus/C04.txt)
	// scripted engine scenarios: single and several instances, const/once profiles, response-time histories 0 / 0.3 s /
	// 1 s / 3 s and mixtures
	quick := []string{
		"mode=engine inst=1 prof=const:10:2000 resp=0 discard=1",
		"mode=engine inst=1 prof=const:10:2000 resp=300 discard=1",
		"mode=engine inst=3 prof=const:10:3000 resp=1000 discard=1",
		"mode=engine inst=1 prof=const:2:4000 resp=3000 discard=1",
		"mode=engine inst=2 prof=once:7 resp=1000 discard=1",
		"mode=engine inst=1 prof=const:10:1000 resp=300 discard=0",
		"mode=engine inst=2 prof=once:5 resp=1000,0 discard=0",
		"mode=engine inst=2 prof=const:5:2000 resp=0,0,3000 discard=1 perinst=1",
		"mode=engine inst=1 prof=once:2+const:5:2000 resp=1000,300 discard=1",
		"mode=engine inst=1 prof=const:10:3000 resp=1000 discard=1 cancel=2500",
		"mode=engine inst=4 prof=line:2:12:2000 resp=700,2100 discard=1",
		"mode=engine inst=8 prof=step:4:12:4:500 resp=1500 discard=1",
		// instances started 0.8 s apart: the fourth one finds its first token 2.4 s late
		"mode=engine inst=3 startup=const:0.7:4288 prof=const:10:3000 resp=4000,0 discard=1",
		"mode=engine inst=3 startup=const:0.7:4288 prof=once:5 resp=300 discard=0",
		// instances with their own schedules AND different response-time histories: the first falls 3.1 s behind at once, the second
		// keeps up for 1.5 s and then falls behind, the third never does
		"mode=engine inst=3 prof=const:5:4000 resp=3100,0,0,0,0,0,0,0,0,0,0,0,0,0,0,0,0,0,0,0,0,0,0,0 discard=1 perinst=1 rot=8",
	}
	quick = append(quick,
		// round 6: the run against the CONFIGURED profile (the oracle is Spec.C01, not a copy of the schedule): lines whose duration
		// is not a whole number of seconds, rising from 0 and falling to 0, one and several instances, instantaneous and slow gun
		"mode=engine inst=2 prof=line:0:40:1500 resp=0 discard=1",
		"mode=engine inst=3 prof=line:24:2:2700 resp=0,300 discard=0",
		"mode=engine inst=1 prof=once:2+line:3:17:1300+const:4:1250 resp=0 discard=1",
		// a dense profile through ONE instance with an instantaneous gun (tokens 50 us apart): the instance reaches the waiter
		// within microseconds of the next token's time
		"mode=engine inst=1 prof=const:20000:50 resp=0 discard=1",
		// tokens placed ns .. ms ahead of the instant they are asked for
		"mode=waiter rel=30000,5000,45000,100000,-20000,900000,20000,49000,1000,70000,300,12000,48000,2500000 sleeps=0,0,0,1,0,0,0,0,0,0,0,2,0,0",
		// the instances of a pool take their first tokens from a fresh (lazily started) shared profile at the same moment
		// (a time budget per case: under a load average of 200 a round takes milliseconds instead of microseconds)
		"mode=race inst=4 rounds=60000 ms=3000 per=1 prof=const:1:100000",
		"mode=race inst=16 rounds=60000 ms=3000 per=1 prof=const:2:100000",
		"mode=race inst=8 rounds=60000 ms=2000 per=1 prof=line:1:5:60000",
		"mode=race inst=3 rounds=60000 ms=1500 per=2 prof=once:2+const:2:60000",
	)
	out = append(out, quick...)
	nrel, nrace, raceRounds := 6, 1, 30000
	if thorough {
		nrel, nrace, raceRounds = 150, 16, 30000
	}
	for i := 0; i < nrel; i++ {
		out = append(out, genWaiterRel(r))
	}
	for i := 0; i < nrace; i++ {
		out = append(out, genRace(r, raceRounds))
	}
	ne, nw, nn, nc := 10, 40, 16, 3
	nfar, nlong, nbulk := 12, 3, 1
	nfut := 6
	if thorough {
		nfut = 240
		ne, nw, nn, nc = 740, 1650, 1100, 120
		nfar, nlong, nbulk = 400, 60, 12
		for _, g := range []string{"true,none", "none,false", "false,true,none", "false,false,none"} {
			out = append(out, fmt.Sprintf("mode=proc given=%s lat=800 times=5 pools=%d", g, strings.Count(g, ",")+1),
				fmt.Sprintf("mode=proc given=%s lat=900 times=4 pools=%d fmt=toml", g, strings.Count(g, ",")+1))
		}
		for _, g := range []string{"none", "true", "false"} {
			for _, lat := range []int{700, 1100} {
				for _, times := range []int{4, 7} {
					out = append(out, fmt.Sprintf("mode=proc given=%s lat=%d times=%d", g, lat, times))
					out = append(out, fmt.Sprintf("mode=proc given=%s lat=%d times=%d pools=%d", g, lat, times, 2+times%2))
				}
			}
			out = append(out, fmt.Sprintf("mode=proc given=%s lat=800 times=10 inst=2 pools=2", g), fmt.Sprintf("mode=proc given=%s lat=900 times=5 inst=3 perinst=1 fmt=toml", g),
				fmt.Sprintf("mode=proc given=%s lat=800 times=16 inst=4 fmt=json", g))
			for _, f := range []string{"json", "toml", "stdin", "cwd", "noext"} {
				out = append(out, fmt.Sprintf("mode=proc given=%s lat=800 times=5 fmt=%s", g, f))
				out = append(out, fmt.Sprintf("mode=proc given=%s lat=900 times=4 fmt=%s pools=2", g, f))
				if g != "none" {
					out = append(out, fmt.Sprintf("mode=proc given=%s lat=800 times=5 fmt=%s key=upper", g, f))
				}
			}
			out = append(out, fmt.Sprintf("mode=proc given=%s lat=800 times=5 pools=3 anchor=1", g))
			if g != "false" {
				out = append(out, fmt.Sprintf("mode=proc given=%s lat=1400 rps=mix times=9 pools=2", g), fmt.Sprintf("mode=proc given=%s lat=1150 rps=mix times=9 fmt=stdin", g))
			}
		}
		// the grid: instance counts x response-time histories x discard_overflow
		for _, inst := range []int{1, 2, 3, 4, 8, 16} {
			for _, resp := range []string{"0", "300", "1000", "2100", "3000", "0,300,1000,3000", "3000,0", "4000,0,0"} {
				for _, d := range []int{0, 1} {
					prof := []string{"const:10:2000", "once:6", "const:4:3000", "once:3+const:8:1500", "line:1:10:2000", "step:2:10:4:700"}[r.Intn(6)]
					if d == 0 {
						// without discards every token is fired: keep the serial work short
						prof = []string{"const:5:1000", "once:4"}[r.Intn(2)]
						if inst >= 4 {
							prof = []string{"const:10:1000", "once:9", "line:2:10:1000"}[r.Intn(3)]
						}
					}
					out = append(out, fmt.Sprintf("mode=engine inst=%d prof=%s resp=%s discard=%d", inst, prof, resp, d))
				}
			}
		}
	}
	for i := 0; i < ne; i++ {
		out = append(out, genEngine(r, thorough))
	}
	for i := 0; i < nw; i++ {
		out = append(out, genWaiter(r))
	}
	for i := 0; i < nn; i++ {
		out = append(out, genWaiterNear(r, i%2 == 1))
	}
	for i := 0; i < nc; i++ {
		out = append(out, genWaiterCancel(r))
	}
	for i := 0; i < nfar; i++ {
		out = append(out, genWaiterFar(r))
	}
	for i := 0; i < nlong; i++ {
		out = append(out, genWaiterLong(r))
	}
	for i := 0; i < nfut; i++ {
		out = append(out, genWaiterFuture(r))
	}
	for i := 0; i < nbulk; i++ {
		out = append(out, genWaiterBulk(r, 260+r.Intn(500)))
	}
	// exactly on / one ms around the threshold at the first call (pick-up a few µs after T0)
	out = append(out, "mode=waiter toks=-2000,-1999,-2001,-1998 sleeps=0,0,0,0")
	// a schedule that needs 8 ms to hand a token out: tokens 1.995 s / 1.99 s late when Next is entered are more than 2 s late
	// when they are picked up (the clock must be read after that)
	out = append(out, "mode=waiter toks=-1995,-1990,-1997 sleeps=0,0,0 slownext=8000")
	// cancellation while sleeping on the timer
	out = append(out, "mode=waiter toks=-100,400,900 sleeps=0,0,0 cancel=600")
	// ... and a second, new waiter afterwards, when the cancelled sleep's deadline has passed: it sleeps for its own tokens
	out = append(out, "mode=waiter toks=-100,600 sleeps=0,0 cancel=300 then=900,1400", "mode=waiter toks=200,1500 sleeps=0,0 cancel=700 then=1450,1800,3000")
	return out
}

func class(in, obs string) string {
	m := drv.KV(in)
	o := drv.KV(obs)
	if m["mode"] == "race" {
		if o["seq"] == "" {
			return ""
		}
		return "race/inst=" + m["inst"] + "/" + strings.SplitN(m["prof"], ":", 2)[0]
	}
	if m["mode"] == "proc" {
		if o["rc"] != "0" {
			return ""
		}
		c := "proc/given=" + m["given"]
		if strings.Contains(m["given"], ",") {
			c = "proc/given=mixed"
		}
		if m["pools"] != "" {
			c += "/pools=" + m["pools"]
		}
		if m["fmt"] != "" {
			c += "/" + m["fmt"]
		}
		if m["key"] != "" || m["anchor"] != "" {
			c += "/key-or-merge"
		}
		if m["inst"] != "" {
			c += "/multi"
			if m["perinst"] == "1" {
				c += "/perinst"
			}
		}
		if o["disc"] != "0" {
			c += "/discards"
		}
		return c
	}
	seq := o["seq"]
	if seq == "" {
		return ""
	}
	c := m["mode"]
	if m["mode"] == "engine" {
		c += "/discard=" + m["discard"]
		if m["inst"] != "1" {
			c += "/multi"
		}
		if m["startup"] != "" {
			c += "/late-starters"
		}
		if strings.Contains(m["prof"], "line:") {
			c += "/line"
		}
		if strings.Contains(m["prof"], "+") || strings.Contains(m["prof"], "step:") {
			c += "/composite"
		}
		if m["rot"] != "" && m["rot"] != "0" {
			c += "/different-histories"
		}
		if _, ok := m["cancel"]; ok {
			c += "/cancel"
		}
	} else {
		if m["unit"] == "us" {
			c += "/near-us"
		}
		if m["rel"] != "" {
			c += "/relative-tokens"
		}
		if n := strings.Count(m["toks"], ","); n > 100 {
			c += "/bulk"
		}
		for _, t := range parseMs(m["toks"]) {
			if t < -60_000 {
				c += "/far-past"
				break
			}
		}
		for _, t := range parseMs(m["toks"]) {
			if t > 30_000 && m["unit"] != "us" {
				c += "/far-future"
				break
			}
		}
		if strings.Contains(seq, ":F") && waiterSleptLong(seq) {
			c += "/long-sleep"
		}
		if m["slownext"] != "" {
			c += "/slownext"
		}
		if _, ok := m["cancel"]; ok {
			c += "/cancel"
		}
		if m["then"] != "" {
			c += "/second-waiter"
		}
	}
	if strings.Contains(seq, ":D") {
		c += "/discards"
	}
	if strings.Contains(seq, ":F") {
		c += "/fires"
	}
	return c
}

// waiterSleptLong: some token was picked up more than a second before its time
func waiterSleptLong(seq string) bool {
	for _, e := range strings.Split(strings.ReplaceAll(seq, "|", ","), ",") {
		f := strings.Split(e, ":")
		if len(f) == 4 {
			tok, _ := strconv.ParseInt(f[0], 10, 64)
			pick, _ := strconv.ParseInt(f[1], 10, 64)
			if tok-pick > 1_000_000_000 {
				return true
			}
		}
	}
	return false
}

func main() {
	if len(os.Args) == 3 && os.Args[1] == "race-child" {
		fmt.Println(runRaceChild(drv.KV(os.Args[2])))
		return
	}
	workers := 16
	for i, a := range os.Args {
		if (a == "-tier" || a == "--tier") && i+1 < len(os.Args) && os.Args[i+1] == "thorough" {
			workers = 32
		}
		if a == "-tier=thorough" || a == "--tier=thorough" {
			workers = 32
		}
	}
	drv.Main(&drv.Prop{
		ID:      "C04",
		Gen:     gen,
		Run:     run,
		Class:   class,
		Workers: workers,
		Timeout: 120 * time.Second,
		Rule: "real-time runs of the real code, every instant taken on the monotonic clock: (a) the engine (engine.New(...).Run) on scripted and PRNG-drawn scenarios - " +
			"1..16 instances, shared or per-instance once/const/line/step/composite profiles (also sparse ones and ones with gaps) from the real constructors, response-time histories of 1..5 entries from " +
			"0..4 s (slower than the inter-request interval and than 2 s), discard_overflow on and off, some runs cancelled, instances started at once or one after the other (late starters); (b) the bare coreutil.Waiter on scripted schedules: " +
			"tokens seconds in the past / up to 0.4 s in the future relative to time.Now(), real sleeps between calls, lateness far from, a few ms and a few hundred µs around " +
			"the 2 s threshold, minutes / days / up to 250 years late (also at the values where a narrower integer wraps), timer sleeps of more than a second, hundreds of tokens per case, cancellation during the timer sleep, a second new Waiter after a cancelled one, tokens FAR in the future (2^15..2^32 us / ms / s and up to 250 years ahead) in runs that are cancelled after 0.3..0.6 s; (c) the pandora binary with yaml / json / toml / stdin configs (1..3 pools with equal or different settings, upper-case key, yaml merge key, 1..4 instances per pool, rps-per-instance) that omit / set discard_overflow against a slow in-process HTTP " +
			"target that counts the requests it receives (a process that rejects the driver's valid config because of the discard_overflow key is a failure). Engine runs also with instances that see DIFFERENT response-time histories (rot=) and with dense profiles (hundreds of tokens discarded in one go). (d) round 6: tokens placed ns..ms relative to the instant the schedule is asked (rel=), fresh lazily started profiles whose first tokens are taken by 2..16 waiters at the same moment (mode=race, hundreds of rounds per case), and every engine run judged against the CONFIGURED profile (Spec.C01 as oracle: the m-th action never before the profile has scheduled m operations; line durations with fractions of a second). Every decision is judged against the measured [pick-up, action] interval. non-trivial = at least one token drawn (proc: the process ran)",
	})
}
