package main

// mode=proc: the process-level tie of cli.readConfig's discard_overflow default.
//
// go build <repo>/main.go (once per driver run), then for one case: an in-process HTTP target that answers every request
// after lat ms, a yaml config with ONE pool (http gun, uri ammo, phout result, rps once(times), startup once(1)) whose pool
// section does not mention discard_overflow / sets it to true / sets it to false, run the binary to completion, read the
// phout file.
//
// With one instance, once(N) (all tokens at the start) and a target that needs lat >= 700 ms per answer the k-th token is
// picked up at least (k-1)*lat late, so from the fourth token on every token is MORE than 2 s late whatever the machine
// load is (load only adds lateness): with discard_overflow on at least one sample must be a discarded one, with it off
// none may be.
//
// rps=mix (yaml): the profile is once(1) followed by const(2 rps, 4 s) = 9 tokens: late and on-time tokens alternate.
//
// pools=<k>: k identical pool sections (each with its own phout file) — the default has to reach every pool.
//
// Observation: rc=<exit code|timeout|build> total=<N*k> fired=<lines that are not discarded samples> disc=<discarded samples>
// bad=<lines that carry only one of tag "discarded" / net code 777> served=<requests the target answered>
// mindisc=<fewest discarded samples of a pool> recv=<requests that arrived at the target> errs=<fired lines with a net error>
// (counts summed over the pools) pp=<fired>:<disc>:<bad>,... per pool, in the order of the config
//
// given=<a>,<b>,...: the k-th pool section gets the k-th value (none = the option is left out of that section).
//
// inst=<n> (round 4): n instances per pool (startup once(n)); perinst=1: `rps-per-instance: true` (every instance its own once(N):
// total = N*n per pool). With a shared once(N) and answers of >= 700 ms every instance fires at most 3 tokens that are less than 2 s
// late, so N > 3n leaves tokens that must be discarded.
// fmt=cwd: the config is ./load.yaml in the working directory and pandora gets NO argument (the default search); fmt=noext: the
// config file has no extension (read as yaml).
// why=option-rejected: the process exited non-zero saying "Config decode failed" and naming discard_overflow.

import (
	"bytes"
	"context"
	"crypto/sha1"
	"encoding/json"
	"fmt"
	"net"
	"net/http"
	"os"
	"os/exec"
	"path/filepath"
	"strconv"
	"strings"
	"sync"
	"sync/atomic"
	"time"

	"verifharness/drv"
)

var (
	buildOnce sync.Once
	buildPath string
	buildErr  string
)

func buildPandora() (string, string) {
	buildOnce.Do(func() {
		h := sha1.Sum([]byte(drv.RepoDir))
		dir := "/verif/.build"
		if wd, err := os.Getwd(); err == nil {
			if _, err := os.Stat(filepath.Join(wd, ".build")); err == nil {
				dir = filepath.Join(wd, ".build")
			}
		}
		out := filepath.Join(dir, fmt.Sprintf("pandora-c04-%x", h[:4]))
		cmd := exec.Command("go", "build", "-o", out, ".")
		cmd.Dir = drv.RepoDir
		cmd.Env = append(os.Environ(), "GOFLAGS=-mod=readonly", "CGO_ENABLED=0")
		if b, err := cmd.CombinedOutput(); err != nil {
			buildErr = drv.Clean(err.Error() + ":" + drv.Trunc(string(b), 300))
			return
		}
		buildPath = out
	})
	return buildPath, buildErr
}

func runProc(m map[string]string) string {
	bin, berr := buildPandora()
	times, _ := strconv.Atoi(m["times"])
	if m["rps"] == "mix" {
		if f := m["fmt"]; f != "" && f != "yaml" && f != "stdin" && f != "cwd" && f != "noext" {
			return "BADINPUT"
		}
		times = 9
	}
	if bin == "" {
		return fmt.Sprintf("rc=build total=%d fired=0 disc=0 bad=0 served=0 mindisc=0 recv=0 errs=0 pp=- why=%s", times, strings.ReplaceAll(berr, " ", "_"))
	}
	lat, _ := strconv.Atoi(m["lat"])
	dir, err := os.MkdirTemp("/var/tmp", "c04-proc-")
	if err != nil {
		return fmt.Sprintf("rc=tmpdir total=%d fired=0 disc=0 bad=0 served=0 mindisc=0 recv=0 errs=0 pp=-", times)
	}
	defer os.RemoveAll(dir)
	ln, err := net.Listen("tcp", "127.0.0.1:0")
	if err != nil {
		return fmt.Sprintf("rc=listen total=%d fired=0 disc=0 bad=0 served=0 mindisc=0 recv=0 errs=0 pp=-", times)
	}
	var served, recv atomic.Int64
	srv := &http.Server{Handler: http.HandlerFunc(func(w http.ResponseWriter, r *http.Request) {
		recv.Add(1)
		time.Sleep(time.Duration(lat) * time.Millisecond)
		w.Header().Set("Content-Length", "2")
		_, _ = w.Write([]byte("ok"))
		served.Add(1)
	})}
	go func() { _ = srv.Serve(ln) }()
	defer srv.Close()

	pools, _ := strconv.Atoi(m["pools"])
	if pools < 1 {
		pools = 1
	}
	// inst=<n>: n instances per pool (startup once(n)); perinst=1: `rps-per-instance: true`, every instance has the whole profile
	inst, _ := strconv.Atoi(m["inst"])
	if inst < 1 {
		inst = 1
	}
	perPool := times
	if m["perinst"] == "1" {
		perPool = times * inst
	}
	var phouts []string
	for k := 0; k < pools; k++ {
		phouts = append(phouts, filepath.Join(dir, fmt.Sprintf("phout%d.log", k)))
	}
	cfg, ext := procConfig(m, ln.Addr().String(), phouts, times)
	if cfg == "" {
		return "BADINPUT"
	}
	cfgPath := filepath.Join(dir, "load."+ext)
	if m["fmt"] == "noext" {
		// a config file without an extension is read as yaml
		cfgPath = filepath.Join(dir, "c04load")
	}
	if err := os.WriteFile(cfgPath, []byte(cfg), 0o644); err != nil {
		return fmt.Sprintf("rc=config total=%d fired=0 disc=0 bad=0 served=0 mindisc=0 recv=0 errs=0 pp=-", times)
	}
	ctx, cancel := context.WithTimeout(context.Background(), time.Duration(times*lat+60000)*time.Millisecond)
	defer cancel()
	var stderr bytes.Buffer
	cmd := exec.CommandContext(ctx, bin, cfgPath)
	if m["fmt"] == "cwd" {
		// no argument at all: pandora looks for ./load.yaml (cmd.Dir is the directory the config was written to)
		cmd = exec.CommandContext(ctx, bin)
	}
	if m["fmt"] == "stdin" {
		// `pandora -`: the (yaml) config is read from standard input
		cmd = exec.CommandContext(ctx, bin, "-")
		cmd.Stdin = strings.NewReader(cfg)
	}
	cmd.Dir = dir
	cmd.Stderr = &stderr
	cmd.Stdout = &stderr
	rc, why := "0", "-"
	if err := cmd.Run(); err != nil {
		if ctx.Err() != nil {
			rc = "timeout"
		} else if ee, ok := err.(*exec.ExitError); ok {
			rc = strconv.Itoa(ee.ExitCode())
			// the config was written by this driver and is valid: a process that refuses to DECODE it and names the option in
			// its complaint has rejected the (defaulted or documented) discard_overflow key
			if e := strings.ToLower(stderr.String()); strings.Contains(e, "config decode failed") && strings.Contains(e, "discard_overflow") {
				why = "option-rejected"
			}
		} else {
			rc = "start"
		}
	}
	fired, disc, bad, mindisc, errs := 0, 0, 0, -1, 0
	var pp []string
	for _, phout := range phouts {
		pd := 0
		f0, b0 := fired, bad
		if b, err := os.ReadFile(phout); err == nil {
			for _, line := range strings.Split(string(b), "\n") {
				f := strings.Split(line, "\t")
				if len(f) < 12 {
					continue
				}
				tag := f[1]
				if i := strings.IndexByte(tag, '#'); i >= 0 {
					tag = tag[:i]
				}
				isTag, isNet := tag == "discarded", f[10] == "777"
				switch {
				case isTag && isNet:
					pd++
				case isTag || isNet:
					pd++
					bad++
				default:
					fired++
					if f[10] != "0" {
						errs++ // a fired request with a net error may not have reached the target
					}
				}
			}
		}
		disc += pd
		if mindisc < 0 || pd < mindisc {
			mindisc = pd
		}
		pp = append(pp, fmt.Sprintf("%d:%d:%d", fired-f0, pd, bad-b0))
	}
	return fmt.Sprintf("rc=%s total=%d fired=%d disc=%d bad=%d served=%d mindisc=%d recv=%d errs=%d pp=%s why=%s", rc, perPool*pools, fired, disc, bad, served.Load(), mindisc, recv.Load(), errs, strings.Join(pp, ","), why)
}

// procConfig renders the config of one proc case: `pools` identical pool sections (each with its own phout file) in the
// format fmt=yaml (default) | json | toml | stdin (yaml on standard input). given=none leaves discard_overflow out, given=true /
// given=false writes it; key=upper writes the option's key in upper case (config keys are case-insensitive). anchor=1 (yaml):
// the second and later pool sections are the first one taken over through a yaml merge key (`<<: *p0`).
func procConfig(m map[string]string, target string, phouts []string, times int) (string, string) {
	inst, _ := strconv.Atoi(m["inst"])
	if inst < 1 {
		inst = 1
	}
	perinst := m["perinst"] == "1"
	key := "discard_overflow"
	if m["key"] == "upper" {
		key = "DISCARD_OVERFLOW"
	}
	// one value for all pools, or one per pool
	givens := strings.Split(m["given"], ",")
	if len(givens) != 1 && (len(givens) != len(phouts) || m["anchor"] == "1") {
		return "", ""
	}
	for _, g := range givens {
		if g != "none" && g != "true" && g != "false" {
			return "", ""
		}
	}
	givenOf := func(k int) string {
		if len(givens) == 1 {
			return givens[0]
		}
		return givens[k]
	}
	switch m["fmt"] {
	case "", "yaml", "stdin", "cwd", "noext":
		rps := fmt.Sprintf("      type: once\n      times: %d\n", times)
		if m["rps"] == "mix" {
			// one token at the start, then 2 per second for 4 s: with answers slower than 1 s the instance alternates between
			// firing and discarding, so discarded samples and samples of real requests interleave in the result file
			rps = "      - type: once\n        times: 1\n      - type: const\n        ops: 2\n        duration: 4s\n"
		}
		cfg := "pools:\n"
		for k, phout := range phouts {
			opt := ""
			if given := givenOf(k); given != "none" {
				opt = fmt.Sprintf("    %s: %s\n", key, given)
			}
			if perinst {
				opt += "    rps-per-instance: true\n"
			}
			if m["anchor"] == "1" && k > 0 {
				// the section is the first one (merge key) with its own id and result file
				cfg += fmt.Sprintf("  - <<: *p0\n    id: c04p%d\n    result:\n      type: phout\n      destination: %s\n", k, phout)
				continue
			}
			head := "  - id: c04p0\n"
			if m["anchor"] == "1" {
				head = "  - &p0\n    id: c04p0\n"
			} else if k > 0 {
				head = fmt.Sprintf("  - id: c04p%d\n", k)
			}
			cfg += head + fmt.Sprintf(`    gun:
      type: http
      target: %s
    ammo:
      type: uri
      uris:
        - /c04 tagC04
    result:
      type: phout
      destination: %s
    rps:
%s    startup:
      type: once
      times: %d
`, target, phout, rps, inst) + opt
		}
		cfg += "log:\n  level: error\n"
		return cfg, "yaml"
	case "json":
		var ps []any
		for k, phout := range phouts {
			p := map[string]any{
				"id":      fmt.Sprintf("c04p%d", k),
				"gun":     map[string]any{"type": "http", "target": target},
				"ammo":    map[string]any{"type": "uri", "uris": []string{"/c04 tagC04"}},
				"result":  map[string]any{"type": "phout", "destination": phout},
				"rps":     map[string]any{"type": "once", "times": times},
				"startup": map[string]any{"type": "once", "times": inst},
			}
			if perinst {
				p["rps-per-instance"] = true
			}
			if given := givenOf(k); given != "none" {
				p[key] = given == "true"
			}
			ps = append(ps, p)
		}
		b, err := json.Marshal(map[string]any{"pools": ps, "log": map[string]any{"level": "error"}})
		if err != nil {
			return "", ""
		}
		return string(b), "json"
	case "toml":
		cfg := "[log]\nlevel = \"error\"\n"
		for k, phout := range phouts {
			cfg += fmt.Sprintf("[[pools]]\nid = \"c04p%d\"\n", k)
			if given := givenOf(k); given != "none" {
				cfg += fmt.Sprintf("%s = %s\n", key, given)
			}
			if perinst {
				cfg += "rps-per-instance = true\n"
			}
			cfg += fmt.Sprintf("[pools.gun]\ntype = \"http\"\ntarget = %q\n[pools.ammo]\ntype = \"uri\"\nuris = [\"/c04 tagC04\"]\n"+
				"[pools.result]\ntype = \"phout\"\ndestination = %q\n[pools.rps]\ntype = \"once\"\ntimes = %d\n[pools.startup]\ntype = \"once\"\ntimes = %d\n",
				target, phout, times, inst)
		}
		return cfg, "toml"
	}
	return "", ""
}
