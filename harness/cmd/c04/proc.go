package main

// mode=proc: the process-level tie of cli.readConfig's discard_overflow default.
//
// go build <repo>/main.go (once per driver run), then for one case: an in-process HTTP target that answers every request
// after lat ms, a yaml config with ONE pool (http gun, uri ammo, phout result, rps once(times), startup once(1)) whose pool
// section does not mention discard_overflow / sets it to true / sets it to false, run the binary to completion, read the
// phout file.
//
// With one instance, once(N) (all tokens at the start) and a target that needs lat >= 700 ms per answer the k-th token is
// picked up at least (k-1)*lat late, so from the fourth token on every token is MORE than 2 s late whatever the machine
// load is (load only adds lateness): with discard_overflow on at least one sample must be a discarded one, with it off
// none may be.
//
// pools=<k>: k identical pool sections (each with its own phout file) — the default has to reach every pool.
//
// Observation: rc=<exit code|timeout|build> total=<N*k> fired=<lines that are not discarded samples> disc=<discarded samples>
// bad=<lines that carry only one of tag "discarded" / net code 777> served=<requests the target answered>
// mindisc=<fewest discarded samples of a pool> (counts summed over the pools)

import (
	"bytes"
	"context"
	"crypto/sha1"
	"fmt"
	"net"
	"net/http"
	"os"
	"os/exec"
	"path/filepath"
	"strconv"
	"strings"
	"sync"
	"sync/atomic"
	"time"

	"verifharness/drv"
)

var (
	buildOnce sync.Once
	buildPath string
	buildErr  string
)

func buildPandora() (string, string) {
	buildOnce.Do(func() {
		h := sha1.Sum([]byte(drv.RepoDir))
		dir := "/verif/.build"
		if wd, err := os.Getwd(); err == nil {
			if _, err := os.Stat(filepath.Join(wd, ".build")); err == nil {
				dir = filepath.Join(wd, ".build")
			}
		}
		out := filepath.Join(dir, fmt.Sprintf("pandora-c04-%x", h[:4]))
		cmd := exec.Command("go", "build", "-o", out, ".")
		cmd.Dir = drv.RepoDir
		cmd.Env = append(os.Environ(), "GOFLAGS=-mod=readonly", "CGO_ENABLED=0")
		if b, err := cmd.CombinedOutput(); err != nil {
			buildErr = drv.Clean(err.Error() + ":" + drv.Trunc(string(b), 300))
			return
		}
		buildPath = out
	})
	return buildPath, buildErr
}

func runProc(m map[string]string) string {
	bin, berr := buildPandora()
	times, _ := strconv.Atoi(m["times"])
	if bin == "" {
		return fmt.Sprintf("rc=build total=%d fired=0 disc=0 bad=0 served=0 mindisc=0 why=%s", times, strings.ReplaceAll(berr, " ", "_"))
	}
	lat, _ := strconv.Atoi(m["lat"])
	dir, err := os.MkdirTemp("/var/tmp", "c04-proc-")
	if err != nil {
		return fmt.Sprintf("rc=tmpdir total=%d fired=0 disc=0 bad=0 served=0 mindisc=0", times)
	}
	defer os.RemoveAll(dir)
	ln, err := net.Listen("tcp", "127.0.0.1:0")
	if err != nil {
		return fmt.Sprintf("rc=listen total=%d fired=0 disc=0 bad=0 served=0 mindisc=0", times)
	}
	var served atomic.Int64
	srv := &http.Server{Handler: http.HandlerFunc(func(w http.ResponseWriter, r *http.Request) {
		time.Sleep(time.Duration(lat) * time.Millisecond)
		w.Header().Set("Content-Length", "2")
		_, _ = w.Write([]byte("ok"))
		served.Add(1)
	})}
	go func() { _ = srv.Serve(ln) }()
	defer srv.Close()

	opt := ""
	switch m["given"] {
	case "true":
		opt = "    discard_overflow: true\n"
	case "false":
		opt = "    discard_overflow: false\n"
	}
	pools, _ := strconv.Atoi(m["pools"])
	if pools < 1 {
		pools = 1
	}
	cfg := "pools:\n"
	var phouts []string
	for k := 0; k < pools; k++ {
		phout := filepath.Join(dir, fmt.Sprintf("phout%d.log", k))
		phouts = append(phouts, phout)
		cfg += fmt.Sprintf(`  - id: c04p%d
    gun:
      type: http
      target: %s
    ammo:
      type: uri
      uris:
        - /c04 tagC04
    result:
      type: phout
      destination: %s
    rps:
      type: once
      times: %d
    startup:
      type: once
      times: 1
%s`, k, ln.Addr().String(), phout, times, opt)
	}
	cfg += "log:\n  level: error\n"
	cfgPath := filepath.Join(dir, "load.yaml")
	if err := os.WriteFile(cfgPath, []byte(cfg), 0o644); err != nil {
		return fmt.Sprintf("rc=config total=%d fired=0 disc=0 bad=0 served=0 mindisc=0", times)
	}
	ctx, cancel := context.WithTimeout(context.Background(), time.Duration(times*lat+60000)*time.Millisecond)
	defer cancel()
	var stderr bytes.Buffer
	cmd := exec.CommandContext(ctx, bin, cfgPath)
	cmd.Dir = dir
	cmd.Stderr = &stderr
	cmd.Stdout = &stderr
	rc := "0"
	if err := cmd.Run(); err != nil {
		if ctx.Err() != nil {
			rc = "timeout"
		} else if ee, ok := err.(*exec.ExitError); ok {
			rc = strconv.Itoa(ee.ExitCode())
		} else {
			rc = "start"
		}
	}
	fired, disc, bad, mindisc := 0, 0, 0, -1
	for _, phout := range phouts {
		pd := 0
		if b, err := os.ReadFile(phout); err == nil {
			for _, line := range strings.Split(string(b), "\n") {
				f := strings.Split(line, "\t")
				if len(f) < 12 {
					continue
				}
				tag := f[1]
				if i := strings.IndexByte(tag, '#'); i >= 0 {
					tag = tag[:i]
				}
				isTag, isNet := tag == "discarded", f[10] == "777"
				switch {
				case isTag && isNet:
					pd++
				case isTag || isNet:
					pd++
					bad++
				default:
					fired++
				}
			}
		}
		disc += pd
		if mindisc < 0 || pd < mindisc {
			mindisc = pd
		}
	}
	return fmt.Sprintf("rc=%s total=%d fired=%d disc=%d bad=%d served=%d mindisc=%d", rc, times*pools, fired, disc, bad, served.Load(), mindisc)
}
