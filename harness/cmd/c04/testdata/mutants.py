#!/usr/bin/env python3
import subprocess, sys, os, json, re, time
WT='/var/tmp/wt-c04f'
ENV=dict(os.environ, GOFLAGS='-mod=mod', GOPROXY='off', GOSUMDB='off', GOTOOLCHAIN='local')
def sh(cmd, cwd=None, timeout=3000, env=ENV):
    p=subprocess.run(cmd, shell=True, cwd=cwd, env=env, stdout=subprocess.PIPE, stderr=subprocess.STDOUT, text=True, timeout=timeout)
    return p.returncode, p.stdout
W='core/coreutil/waiter.go'; I='core/engine/instance.go'; C='cli/cli.go'; S='core/aggregator/netsample/sample.go'; E='core/engine/engine.go'
M={
 'm01-stale-cache': [(W, '''		w.lastNow = time.Now()
		w.overdueDuration = w.lastNow.Sub(next)
		return true''','''		w.overdueDuration = 0 - waitFor
		return true''')],
 'm02-slow-gt': [(W,'return w.overdueDuration >= MaxOverdueDuration','return w.overdueDuration > MaxOverdueDuration')],
 'm03-window-2500ms': [(W,'const MaxOverdueDuration = 2 * time.Second','const MaxOverdueDuration = 2500 * time.Millisecond')],
 'm04-overdue-not-reset-on-timer-path': [(W,'''	w.overdueDuration = 0
	// Lazy init.''','''	// Lazy init.''')],
 'm05-skip-submillisecond-sleep': [(W,'''	w.lastNow = time.Now()
	waitFor = next.Sub(w.lastNow)
	if waitFor <= 0 {''','''	w.lastNow = time.Now()
	waitFor = next.Sub(w.lastNow)
	if waitFor < time.Millisecond {
		// not worth arming a timer
		w.overdueDuration = 0
		return true
	}
	if waitFor <= 0 {''')],
 'm06-slowdown-asked-before-wait': [(I,'''			if !waiter.Wait(ctx) {
				return nil
			}
			if !i.discardOverflow || !waiter.IsSlowDown(ctx) {''','''			slow := waiter.IsSlowDown(ctx)
			if !waiter.Wait(ctx) {
				return nil
			}
			if !i.discardOverflow || !slow {''')],
 'm07-cond-and': [(I,'if !i.discardOverflow || !waiter.IsSlowDown(ctx) {','if !i.discardOverflow && !waiter.IsSlowDown(ctx) {')],
 'm08-cli-default-false': [(C,'poolMap["discard_overflow"] = true','poolMap["discard_overflow"] = false')],
 'm09-cli-lookup-key-typo': [(C,'if _, ok := poolMap["discard_overflow"]; !ok {','if _, ok := poolMap["discard-overflow"]; !ok {')],
 'm10-sample-code-in-proto-field': [(S,'	sample.SetUserNet(DiscardedShootCodeError)','	sample.SetUserProto(DiscardedShootCodeError)')],
 'm11-engine-wiring-dropped': [(E,'			discardOverflow: p.DiscardOverflow,\n','')],
 'm12-cancel-during-sleep-returns-true': [(W,'''	case <-w.timer.C:
		return true
	case <-ctx.Done():
		return false
	}''','''	case <-w.timer.C:
		return true
	case <-ctx.Done():
		return true
	}''')],
 'm13-isfinished-one-left': [(W,'return w.sched.Left() == 0','return w.sched.Left() <= 1')],
 'm14-tag-renamed': [(S,'DiscardedShootTag       = "discarded"','DiscardedShootTag       = "discard"')],
 'm15-timer-armed-short': [(W,'		w.timer = time.NewTimer(waitFor)\n	} else {\n		w.timer.Reset(waitFor)','		w.timer = time.NewTimer(waitFor)\n	} else {\n		w.timer.Reset(waitFor - 2*time.Millisecond)')],
 'm16-skip-submillisecond-sleep-only': [(W,'''	w.overdueDuration = 0
	// Lazy init.''','''	w.overdueDuration = 0
	if waitFor < time.Millisecond {
		// not worth arming a timer
		return true
	}
	// Lazy init.''')],
 'm17-clock-read-before-next': [(W,'''	next, ok := w.sched.Next()
	if !ok {
		w.overdueDuration = 0
		return false
	}''','''	now := time.Now()
	next, ok := w.sched.Next()
	if !ok {
		w.overdueDuration = 0
		return false
	}'''),(W,'''		w.lastNow = time.Now()
		w.overdueDuration = w.lastNow.Sub(next)
		return true''','''		w.lastNow = now
		w.overdueDuration = w.lastNow.Sub(next)
		return true''')],
 'm18-overdue-sign-on-refresh-path': [(W,'		w.overdueDuration = 0 - waitFor\n','		w.overdueDuration = waitFor\n')],
 'm19-cli-default-first-pool-only': [(C,'if _, ok := poolMap["discard_overflow"]; !ok {','if _, ok := poolMap["discard_overflow"]; !ok && i == 0 {')],
 'h01-harmless-reorder-waiter': [(W,'''	w.overdueDuration = 0
	// Lazy init. We don't need timer for unlimited and once schedule.
	if w.timer == nil {
		w.timer = time.NewTimer(waitFor)
	} else {
		w.timer.Reset(waitFor)
	}
''','''	// Lazy init. We don't need timer for unlimited and once schedule.
	if w.timer == nil {
		w.timer = time.NewTimer(waitFor)
	} else {
		w.timer.Reset(waitFor)
	}
	w.overdueDuration = 0
''')],
 'h02-harmless-reorder-instance': [(I,'''				i.metrics.Request.Add(1)
				if tag.Debug {
					i.log.Debug("Shooting", zap.Any("ammo", ammo))
				}
				i.gun.Shoot(ammo)''','''				if tag.Debug {
					i.log.Debug("Shooting", zap.Any("ammo", ammo))
				}
				i.metrics.Request.Add(1)
				i.gun.Shoot(ammo)''')],
}
PK={W:'./core/coreutil/...',I:'./core/engine/...',C:'./cli/...',S:'./core/aggregator/...',E:'./core/engine/...'}
def main():
    names=sys.argv[2:] or sorted(M)
    tier=sys.argv[1]
    for n in names:
        sh('git checkout -- .', cwd=WT)
        pk=set()
        for f,a,b in M[n]:
            p=os.path.join(WT,f); s=open(p).read()
            assert s.count(a)==1, (n,f,s.count(a))
            open(p,'w').write(s.replace(a,b)); pk.add(PK[f])
        rc,o=sh('go build ./... 2>&1 | tail -5', cwd=WT)
        rb,ob=sh('go vet '+' '.join(pk)+' 2>&1 | tail -3', cwd=WT)
        t0=time.time()
        rt,ot=sh('go test -count=1 '+' '.join(pk)+' 2>&1 | tail -8', cwd=WT, timeout=1200)
        gotest='pass' if ('FAIL' not in ot and 'panic' not in ot) else 'FAIL'
        t1=time.time()
        rc2,o2=sh('VERIF_REPO=%s ./check C04 --tier %s 2>&1 | tee /var/tmp/c04/mut/%s.log | grep "^VIOLATION\\|tier="' % (WT,tier,n), cwd='/verif', timeout=3000)
        viol=[l for l in o2.split('\n') if l.startswith('VIOLATION')]
        detail=''
        for v in viol:
            m=re.search(r'replay=(\S+)', v)
            if m:
                try:
                    d=json.load(open('/verif/'+m.group(1)))
                    detail+=' | %s: %s ; input=%s ; broken=%s' % (d.get('kind'), d.get('spec_verdict', d.get('name')), (d.get('input') or '')[:120], str(d.get('broken_obligations'))[:300])
                except Exception as e: detail+=' | ?'+str(e)
        last=[l for l in o2.split('\n') if 'tier=' in l]
        print('=== %s: build=%s gotest=%s (%.0fs) check=%.0fs\n    %s\n    %s%s' % (n, 'ok' if 'error' not in o.lower() and o.strip()=='' else o.strip()[:200], gotest, t1-t0, time.time()-t1, '\n    '.join(viol) or 'NO VIOLATION', last[-1] if last else o2[-300:], detail), flush=True)
    sh('git checkout -- .', cwd=WT)
main()
