#!/usr/bin/env python3
import subprocess, sys, os, json, re, time
WT=os.environ.get('C04_WT','/var/tmp/wt-c04u')
LOGDIR=os.environ.get('C04_MUTLOG','/var/tmp/c04r6/mut')
os.makedirs(LOGDIR, exist_ok=True)
ENV=dict(os.environ, GOFLAGS='-mod=mod', GOPROXY='off', GOSUMDB='off', GOTOOLCHAIN='local')
def sh(cmd, cwd=None, timeout=3000, env=ENV):
    p=subprocess.run(cmd, shell=True, cwd=cwd, env=env, stdout=subprocess.PIPE, stderr=subprocess.STDOUT, text=True, timeout=timeout)
    return p.returncode, p.stdout
W='core/coreutil/waiter.go'; I='core/engine/instance.go'; C='cli/cli.go'; S='core/aggregator/netsample/sample.go'; E='core/engine/engine.go'
M={
 'm01-stale-cache': [(W, '''		w.lastNow = time.Now()
		w.overdueDuration = w.lastNow.Sub(next)
		return true''','''		w.overdueDuration = 0 - waitFor
		return true''')],
 'm02-slow-gt': [(W,'return w.overdueDuration >= MaxOverdueDuration','return w.overdueDuration > MaxOverdueDuration')],
 'm03-window-2500ms': [(W,'const MaxOverdueDuration = 2 * time.Second','const MaxOverdueDuration = 2500 * time.Millisecond')],
 'm04-overdue-not-reset-on-timer-path': [(W,'''	w.overdueDuration = 0
	// Lazy init.''','''	// Lazy init.''')],
 'm05-skip-submillisecond-sleep': [(W,'''	w.lastNow = time.Now()
	waitFor = next.Sub(w.lastNow)
	if waitFor <= 0 {''','''	w.lastNow = time.Now()
	waitFor = next.Sub(w.lastNow)
	if waitFor < time.Millisecond {
		// not worth arming a timer
		w.overdueDuration = 0
		return true
	}
	if waitFor <= 0 {''')],
 'm06-slowdown-asked-before-wait': [(I,'''			if !waiter.Wait(ctx) {
				return nil
			}
			if !i.discardOverflow || !waiter.IsSlowDown(ctx) {''','''			slow := waiter.IsSlowDown(ctx)
			if !waiter.Wait(ctx) {
				return nil
			}
			if !i.discardOverflow || !slow {''')],
 'm07-cond-and': [(I,'if !i.discardOverflow || !waiter.IsSlowDown(ctx) {','if !i.discardOverflow && !waiter.IsSlowDown(ctx) {')],
 'm08-cli-default-false': [(C,'poolMap["discard_overflow"] = true','poolMap["discard_overflow"] = false')],
 'm09-cli-lookup-key-typo': [(C,'if _, ok := poolMap["discard_overflow"]; !ok {','if _, ok := poolMap["discard-overflow"]; !ok {')],
 'm10-sample-code-in-proto-field': [(S,'	sample.SetUserNet(DiscardedShootCodeError)','	sample.SetUserProto(DiscardedShootCodeError)')],
 'm11-engine-wiring-dropped': [(E,'			discardOverflow: p.DiscardOverflow,\n','')],
 'm12-cancel-during-sleep-returns-true': [(W,'''	case <-w.timer.C:
		return true
	case <-ctx.Done():
		return false
	}''','''	case <-w.timer.C:
		return true
	case <-ctx.Done():
		return true
	}''')],
 'm13-isfinished-one-left': [(W,'return w.sched.Left() == 0','return w.sched.Left() <= 1')],
 'm14-tag-renamed': [(S,'DiscardedShootTag       = "discarded"','DiscardedShootTag       = "discard"')],
 'm15-timer-armed-short': [(W,'		w.timer = time.NewTimer(waitFor)\n	} else {\n		w.timer.Reset(waitFor)','		w.timer = time.NewTimer(waitFor)\n	} else {\n		w.timer.Reset(waitFor - 2*time.Millisecond)')],
 'm16-skip-submillisecond-sleep-only': [(W,'''	w.overdueDuration = 0
	// Lazy init.''','''	w.overdueDuration = 0
	if waitFor < time.Millisecond {
		// not worth arming a timer
		return true
	}
	// Lazy init.''')],
 'm17-clock-read-before-next': [(W,'''	next, ok := w.sched.Next()
	if !ok {
		w.overdueDuration = 0
		return false
	}''','''	now := time.Now()
	next, ok := w.sched.Next()
	if !ok {
		w.overdueDuration = 0
		return false
	}'''),(W,'''		w.lastNow = time.Now()
		w.overdueDuration = w.lastNow.Sub(next)
		return true''','''		w.lastNow = now
		w.overdueDuration = w.lastNow.Sub(next)
		return true''')],
 'm18-overdue-sign-on-refresh-path': [(W,'		w.overdueDuration = 0 - waitFor\n','		w.overdueDuration = waitFor\n')],
 'm19-cli-default-first-pool-only': [(C,'if _, ok := poolMap["discard_overflow"]; !ok {','if _, ok := poolMap["discard_overflow"]; !ok && i == 0 {')],
 'h01-harmless-reorder-waiter': [(W,'''	w.overdueDuration = 0
	// Lazy init. We don't need timer for unlimited and once schedule.
	if w.timer == nil {
		w.timer = time.NewTimer(waitFor)
	} else {
		w.timer.Reset(waitFor)
	}
''','''	// Lazy init. We don't need timer for unlimited and once schedule.
	if w.timer == nil {
		w.timer = time.NewTimer(waitFor)
	} else {
		w.timer.Reset(waitFor)
	}
	w.overdueDuration = 0
''')],
 'h02-harmless-reorder-instance': [(I,'''				i.metrics.Request.Add(1)
				if tag.Debug {
					i.log.Debug("Shooting", zap.Any("ammo", ammo))
				}
				i.gun.Shoot(ammo)''','''				if tag.Debug {
					i.log.Debug("Shooting", zap.Any("ammo", ammo))
				}
				i.metrics.Request.Add(1)
				i.gun.Shoot(ammo)''')],
}

# ---- round 2: kinds not covered above
M.update({
 'n01-overdue-units-mixed': [(W,'''		w.lastNow = time.Now()
		w.overdueDuration = w.lastNow.Sub(next)
		return true''','''		w.lastNow = time.Now()
		w.overdueDuration = w.lastNow.Sub(next) / time.Millisecond
		return true'''),(W,'return w.overdueDuration >= MaxOverdueDuration','return w.overdueDuration >= MaxOverdueDuration/time.Millisecond')],
 'n02-singleton-discard-sample': [(S,'''func DiscardedShootSample() *Sample {
	sample := &Sample{
		timeStamp: time.Now(),
		tags:      DiscardedShootTag,
	}
	sample.SetUserNet(DiscardedShootCodeError)

	return sample
}''','''var discardedShootSample = func() *Sample {
	sample := &Sample{tags: DiscardedShootTag}
	sample.SetUserNet(DiscardedShootCodeError)
	return sample
}()

// DiscardedShootSample returns the shared sample of a discarded shoot (no allocation per discard).
func DiscardedShootSample() *Sample {
	discardedShootSample.timeStamp = time.Now()
	return discardedShootSample
}''')],
 'n03-no-discard-for-per-instance-rps': [(E,'			discardOverflow: p.DiscardOverflow,\n','			discardOverflow: p.DiscardOverflow && !p.RPSPerInstance,\n')],
 'n04-schedule-sharing-inverted': [(E,'	if p.RPSPerInstance {\n		return p.NewRPSSchedule, nil','	if !p.RPSPerInstance {\n		return p.NewRPSSchedule, nil')],
 'n05-overdue-rounded-to-seconds': [(W,'''		w.overdueDuration = w.lastNow.Sub(next)
		return true''','''		w.overdueDuration = w.lastNow.Sub(next).Round(time.Second)
		return true''')],
 'n06-first-shot-of-an-instance-never-discarded': [(I,'''	waiter := coreutil.NewWaiter(i.schedule)
''','''	waiter := coreutil.NewWaiter(i.schedule)
	first := true
'''),(I,'''			if !i.discardOverflow || !waiter.IsSlowDown(ctx) {''','''			warm := first
			first = false
			if !i.discardOverflow || warm || !waiter.IsSlowDown(ctx) {''')],
 'n07-last-token-never-discarded': [(I,'if !i.discardOverflow || !waiter.IsSlowDown(ctx) {','if !i.discardOverflow || i.schedule.Left() == 0 || !waiter.IsSlowDown(ctx) {')],
 'n08-no-default-for-stdin-config': [(C,'if pools, ok := v.Get("pools").([]any); ok {','if pools, ok := v.Get("pools").([]any); ok && !useStdinConfig {')],
 'n09-discard-reported-and-shot': [(I,'''				i.aggregator.Report(netsample.DiscardedShootSample())
''','''				i.aggregator.Report(netsample.DiscardedShootSample())
				i.gun.Shoot(ammo)
''')],
 'n10-default-only-for-yaml-files': [(C,'if pools, ok := v.Get("pools").([]any); ok {','if pools, ok := v.Get("pools").([]any); ok && strings.HasSuffix(v.ConfigFileUsed(), ".yaml") {')],
 'h03-harmless-reset-hoisted-to-top-of-wait': [(W,'''	select {
	case <-ctx.Done():
		w.overdueDuration = 0
		return false
	default:
	}
	next, ok := w.sched.Next()
	if !ok {
		w.overdueDuration = 0
		return false
	}''','''	w.overdueDuration = 0
	select {
	case <-ctx.Done():
		return false
	default:
	}
	next, ok := w.sched.Next()
	if !ok {
		return false
	}'''),(W,'''	w.overdueDuration = 0
	// Lazy init.''','''	// Lazy init.''')],
 'h04-harmless-now-local-and-renamed': [(W,'''		w.lastNow = time.Now()
		w.overdueDuration = w.lastNow.Sub(next)
		return true''','''		now := time.Now()
		w.lastNow = now
		w.overdueDuration = now.Sub(next)
		return true'''),(W,'''	w.lastNow = time.Now()
	waitFor = next.Sub(w.lastNow)
	if waitFor <= 0 {
		w.overdueDuration = 0 - waitFor
		return true
	}''','''	w.lastNow = time.Now()
	left := next.Sub(w.lastNow)
	if left <= 0 {
		w.overdueDuration = -left
		return true
	}
	waitFor = left''')],
 'h05-harmless-slow-local-after-wait': [(I,'''			if !i.discardOverflow || !waiter.IsSlowDown(ctx) {''','''			slow := waiter.IsSlowDown(ctx)
			if !i.discardOverflow || !slow {''')],
 'h06-harmless-pooled-discard-sample': [(S,'''	sample := &Sample{
		timeStamp: time.Now(),
		tags:      DiscardedShootTag,
	}
	sample.SetUserNet(DiscardedShootCodeError)
''','''	sample := Acquire(DiscardedShootTag)
	sample.SetUserNet(DiscardedShootCodeError)
''')],
})

# ---- round 3: kinds not covered above (two files cooperating, periodic optimisation, far helpers, numeric/size boundaries,
# two faults coinciding, state carried across loop iterations, an optimisation that is wrong on the second use)
P='core/aggregator/netsample/phout.go'
M.update({
 'q01-hysteresis-two-files': [(W,'''// IsSlowDown returns true, if schedule contains 2 elements before current time.''','''// Overdue returns how late the last waited event was.
func (w *Waiter) Overdue() time.Duration { return w.overdueDuration }

// IsSlowDown returns true, if schedule contains 2 elements before current time.'''),(I,'''	waiter := coreutil.NewWaiter(i.schedule)
''','''	waiter := coreutil.NewWaiter(i.schedule)
	catchingUp := false
'''),(I,'''			if !i.discardOverflow || !waiter.IsSlowDown(ctx) {''','''			// once behind, keep discarding until half of the window is free again
			slow := waiter.IsSlowDown(ctx) || (catchingUp && waiter.Overdue() >= coreutil.MaxOverdueDuration/2)
			catchingUp = slow
			if !i.discardOverflow || !slow {''')],
 'q02-one-waiter-per-shared-schedule': [(I,'''type instance struct {''','''// one Waiter per schedule: instances of a pool that share the schedule share its waiter
var waiters sync.Map

func waiterFor(s core.Schedule) *coreutil.Waiter {
	if w, ok := waiters.Load(s); ok {
		return w.(*coreutil.Waiter)
	}
	w, _ := waiters.LoadOrStore(s, coreutil.NewWaiter(s))
	return w.(*coreutil.Waiter)
}

type instance struct {'''),(I,'''	waiter := coreutil.NewWaiter(i.schedule)
''','''	waiter := waiterFor(i.schedule)
'''),(I,'''	"io"
''','''	"io"
	"sync"
''')],
 'q03-phout-drops-samples-without-rtt': [(P,'''func (a *phoutAggregator) handle(s *Sample) error {
''','''func (a *phoutAggregator) handle(s *Sample) error {
	if s.get(keyRTTMicro) == 0 && s.err == nil {
		// nothing was measured
		releaseSample(s)
		return nil
	}
''')],
 'q04-net-code-kept-in-a-byte': [(S,'''func (s *Sample) set(k, v int)                       { s.fields[k] = v }''','''func (s *Sample) set(k, v int) {
	if k == keyErrno {
		v = int(uint8(v)) // errno fits a byte
	}
	s.fields[k] = v
}''')],
 'q05-overdue-int32-milliseconds': [(W,'''	sched           core.Schedule
	overdueDuration time.Duration
''','''	sched     core.Schedule
	overdueMs int32
'''),(W,'''	case <-ctx.Done():
		w.overdueDuration = 0
		return false
	default:
	}
	next, ok := w.sched.Next()
	if !ok {
		w.overdueDuration = 0
		return false
	}''','''	case <-ctx.Done():
		w.overdueMs = 0
		return false
	default:
	}
	next, ok := w.sched.Next()
	if !ok {
		w.overdueMs = 0
		return false
	}'''),(W,'''		w.overdueDuration = w.lastNow.Sub(next)
		return true''','''		w.overdueMs = int32(w.lastNow.Sub(next) / time.Millisecond)
		return true'''),(W,'''		w.overdueDuration = 0 - waitFor
		return true
	}
	w.overdueDuration = 0
''','''		w.overdueMs = int32((0 - waitFor) / time.Millisecond)
		return true
	}
	w.overdueMs = 0
'''),(W,'return w.overdueDuration >= MaxOverdueDuration','return time.Duration(w.overdueMs)*time.Millisecond >= MaxOverdueDuration')],
 'q06-cancel-on-last-token-returns-true': [(W,'''	case <-w.timer.C:
		return true
	case <-ctx.Done():
		return false
	}''','''	case <-w.timer.C:
		return true
	case <-ctx.Done():
		// do not lose the last event of the schedule
		return w.sched.Left() == 0
	}''')],
 'q07-clock-refreshed-every-64th-call': [(W,'''	timer   *time.Timer
	lastNow time.Time
''','''	timer   *time.Timer
	lastNow time.Time
	calls   uint
'''),(W,'''		w.lastNow = time.Now()
		w.overdueDuration = w.lastNow.Sub(next)
		return true''','''		// events in the past come in bursts: one clock reading serves 64 of them
		if w.calls%64 == 0 {
			w.lastNow = time.Now()
		}
		w.calls++
		w.overdueDuration = w.lastNow.Sub(next)
		return true''')],
 'q08-sleep-capped-at-one-second': [(W,'''	w.overdueDuration = 0
	// Lazy init.''','''	w.overdueDuration = 0
	if waitFor > time.Second {
		// wake up at least once a second
		waitFor = time.Second
	}
	// Lazy init.''')],
 'q09-cli-default-inherited-from-previous-pool': [(C,'''		for i, pool := range pools {''','''		def := true
		for i, pool := range pools {'''),(C,'''			if _, ok := poolMap["discard_overflow"]; !ok {
				poolMap["discard_overflow"] = true
			}''','''			if v, ok := poolMap["discard_overflow"].(bool); ok {
				def = v
			} else {
				poolMap["discard_overflow"] = def
			}''')],
 'q10-timer-not-rearmed-for-equal-interval': [(W,'''	timer   *time.Timer
	lastNow time.Time
''','''	timer   *time.Timer
	lastNow time.Time
	armed   time.Duration
'''),(W,'''	if w.timer == nil {
		w.timer = time.NewTimer(waitFor)
	} else {
		w.timer.Reset(waitFor)
	}''','''	if w.timer == nil {
		w.timer = time.NewTimer(waitFor)
	} else if d := waitFor.Round(time.Millisecond); d != w.armed || d == 0 {
		// a const schedule waits the same interval again and again
		w.timer.Reset(waitFor)
	}
	w.armed = waitFor.Round(time.Millisecond)''')],
 'h07-harmless-ctx-err-instead-of-select': [(W,'''	select {
	case <-ctx.Done():
		return false
	default:
		return w.overdueDuration >= MaxOverdueDuration
	}''','''	if ctx.Err() != nil {
		return false
	}
	return w.overdueDuration >= MaxOverdueDuration'''),(W,'''	select {
	case <-ctx.Done():
		return true
	default:
		return w.sched.Left() == 0
	}''','''	if ctx.Err() != nil {
		return true
	}
	return w.sched.Left() == 0''')],
 'h08-harmless-window-in-milliseconds': [(W,'const MaxOverdueDuration = 2 * time.Second','const MaxOverdueDuration = 2000 * time.Millisecond')],
 'h09-harmless-discard-sample-local': [(I,'''				i.aggregator.Report(netsample.DiscardedShootSample())
''','''				sample := netsample.DiscardedShootSample()
				i.aggregator.Report(sample)
''')],
})

# ---- round 4 ----
M.update({
 # two construction paths for the same thing: the first instance is built from `deps`, the later ones from a re-assembled copy that forgets the option
 'r01-later-instances-lose-the-option': [(E,'''			runRes <- instanceRunResult{id, runNewInstance(runCtx, p.log, p.ID, id, deps)}''','''			runRes <- instanceRunResult{id, runNewInstance(runCtx, p.log, p.ID, id, instanceDeps{
				newSchedule: deps.newSchedule,
				newGun:      deps.newGun,
				instanceSharedDeps: instanceSharedDeps{
					provider:   p.Provider,
					metrics:    p.metrics,
					gunDeps:    p.sharedGunDeps,
					aggregator: p.Aggregator,
				},
			})}''')],
 # order of independent-looking operations: the default block runs before the config has been read
 'r02-default-applied-before-the-config-is-read': [(C,'''	// a missing or malformed pools section is reported by DecodeAndValidate below
	if pools, ok := v.Get("pools").([]any); ok {
		for i, pool := range pools {
			poolMap, ok := pool.(map[string]any)
			if !ok {
				continue
			}
			if _, ok := poolMap["discard_overflow"]; !ok {
				poolMap["discard_overflow"] = true
			}
			pools[i] = poolMap
		}
		v.Set("pools", pools)
	}
''',''''''),(C,'''	log.Info("Pandora version", zap.String("version", Version))
''','''	log.Info("Pandora version", zap.String("version", Version))
	// a missing or malformed pools section is reported by DecodeAndValidate below
	if pools, ok := v.Get("pools").([]any); ok {
		for i, pool := range pools {
			poolMap, ok := pool.(map[string]any)
			if !ok {
				continue
			}
			if _, ok := poolMap["discard_overflow"]; !ok {
				poolMap["discard_overflow"] = true
			}
			pools[i] = poolMap
		}
		v.Set("pools", pools)
	}
''')],
 # representation: the sleep goes through an int32 count of milliseconds (wraps for a token 24.9 days ahead: fires at once)
 'r04-sleep-through-int32-milliseconds': [(W,'''	// Lazy init. We don't need timer for unlimited and once schedule.
''','''	sleepMs := int32(waitFor / time.Millisecond)
	waitFor = time.Duration(sleepMs)*time.Millisecond + waitFor%time.Millisecond
	// Lazy init. We don't need timer for unlimited and once schedule.
''')],
 # struct tag of a dependency renamed to the dash style of its neighbour `rps-per-instance`; cli still puts `discard_overflow`
 'r05-config-tag-renamed': [(E,'`config:"discard_overflow"`','`config:"discard-overflow"`')],
 # type-level: a field of the same name directly in `instance` shadows the embedded one and is never set
 'r07-shadowed-field': [(I,'''	schedule core.Schedule
	instanceSharedDeps
}''','''	schedule core.Schedule
	// discardOverflow: report late tokens as discarded instead of shooting them
	discardOverflow bool
	instanceSharedDeps
}''')],
 # cost: a pause after every discarded token ("give the target air"): the run length grows with the number of discarded tokens
 'r08-pause-after-every-discard': [(I,'''				i.aggregator.Report(netsample.DiscardedShootSample())
''','''				i.aggregator.Report(netsample.DiscardedShootSample())
				time.Sleep(20 * time.Millisecond)
'''),(I,'''	"io"
''','''	"io"
	"time"
''')],
 # the default moves from the cli block into DefaultConfig(): the decoder re-uses element 0 of a preset slice only
 'r09-default-moved-into-DefaultConfig': [(C,'''			if _, ok := poolMap["discard_overflow"]; !ok {
				poolMap["discard_overflow"] = true
			}
''',''''''),(C,'''	return &CliConfig{
		Log: logConfig{''','''	return &CliConfig{
		Engine: engine.Config{Pools: []engine.InstancePoolConfig{{DiscardOverflow: true}}},
		Log: logConfig{''')],
 # a fault at a particular point: cancelled exactly while sleeping for a FAR token, the waiter reports the token as waited for
 'r10-cancel-on-a-long-sleep-returns-true': [(W,'''	case <-ctx.Done():
		return false
	}
}''','''	case <-ctx.Done():
		// a sleep of more than a minute is not worth resuming: hand the event out
		return waitFor > time.Minute
	}
}''')],
 # the documented key is no longer accepted: both cli and the struct tag use the dash style
 'r11-key-renamed-everywhere-but-the-docs': [(E,'`config:"discard_overflow"`','`config:"discard-overflow"`'),(C,'''			if _, ok := poolMap["discard_overflow"]; !ok {
				poolMap["discard_overflow"] = true''','''			if _, ok := poolMap["discard-overflow"]; !ok {
				poolMap["discard-overflow"] = true''')],
 'h10-harmless-shared-deps-local': [(E,'''	deps := instanceDeps{
		newSchedule: newInstanceSchedule,
		newGun:      p.NewGun,
		instanceSharedDeps: instanceSharedDeps{
			provider:        p.Provider,
			metrics:         p.metrics,
			gunDeps:         p.sharedGunDeps,
			aggregator:      p.Aggregator,
			discardOverflow: p.DiscardOverflow,
		},
	}''','''	shared := instanceSharedDeps{
		aggregator:      p.Aggregator,
		discardOverflow: p.DiscardOverflow,
		gunDeps:         p.sharedGunDeps,
		metrics:         p.metrics,
		provider:        p.Provider,
	}
	deps := instanceDeps{
		newGun:             p.NewGun,
		newSchedule:        newInstanceSchedule,
		instanceSharedDeps: shared,
	}''')],
 'h11-harmless-cli-key-constant-and-renamed-local': [(C,'''			poolMap, ok := pool.(map[string]any)
			if !ok {
				continue
			}
			if _, ok := poolMap["discard_overflow"]; !ok {
				poolMap["discard_overflow"] = true
			}
			pools[i] = poolMap''','''			section, isMap := pool.(map[string]any)
			if !isMap {
				continue
			}
			const key = "discard_overflow"
			if _, given := section[key]; !given {
				section[key] = true
			}
			pools[i] = section''')],
 'h12-harmless-sample-literal-field-order': [(S,'''	sample := &Sample{
		timeStamp: time.Now(),
		tags:      DiscardedShootTag,
	}
	sample.SetUserNet(DiscardedShootCodeError)
''','''	sample := &Sample{
		tags:      DiscardedShootTag,
		timeStamp: time.Now(),
	}
	sample.SetUserNet(DiscardedShootCodeError)
''')],
})

PL='core/plugin/constructor.go'
M.update({
 # two interacting options at the cli level: no default for a pool that sets rps-per-instance
 'r12-no-default-with-rps-per-instance': [(C,'''			if _, ok := poolMap["discard_overflow"]; !ok {''','''			if _, ok := poolMap["discard_overflow"]; !ok && poolMap["rps-per-instance"] != true {''')],
 # dependency core/plugin: a factory made from a plugin constructor builds its product once and hands the same object out again
 # (with rps-per-instance every instance then runs on ONE schedule: inst x N tokens shrink to N)
 'r13-plugin-factory-memoises-its-product': [(PL,'''	return reflect.MakeFunc(factoryType, func(in []reflect.Value) []reflect.Value {
		var maybeConf []reflect.Value
		if getMaybeConf != nil {''','''	var cached []reflect.Value
	return reflect.MakeFunc(factoryType, func(in []reflect.Value) []reflect.Value {
		if cached != nil {
			return cached
		}
		var maybeConf []reflect.Value
		if getMaybeConf != nil {'''),(PL,'''		out := c.newPlugin.Call(maybeConf)
		return convertFactoryOutParams(c.pluginType, factoryType.NumOut(), out)
	}).Interface(), nil
}

// factoryConstructor use''','''		out := c.newPlugin.Call(maybeConf)
		cached = convertFactoryOutParams(c.pluginType, factoryType.NumOut(), out)
		return cached
	}).Interface(), nil
}

// factoryConstructor use''')],
})

M.update({
 'h13-harmless-later-instances-from-a-complete-copy': [(E,'''			runRes <- instanceRunResult{id, runNewInstance(runCtx, p.log, p.ID, id, deps)}''','''			runRes <- instanceRunResult{id, runNewInstance(runCtx, p.log, p.ID, id, instanceDeps{
				newSchedule: deps.newSchedule,
				newGun:      deps.newGun,
				instanceSharedDeps: instanceSharedDeps{
					provider:        p.Provider,
					metrics:         p.metrics,
					gunDeps:         p.sharedGunDeps,
					aggregator:      p.Aggregator,
					discardOverflow: p.DiscardOverflow,
				},
			})}''')],
})

M.update({
 # the default only for a config named on the command line (not for ./load.yaml found by the default search)
 'r15-no-default-for-the-config-found-by-search': [(C,'if pools, ok := v.Get("pools").([]any); ok {','if pools, ok := v.Get("pools").([]any); ok && len(args) > 0 {')],
 # ... and only for files whose type viper derives from the extension (not for a file without one)
 'r16-no-default-for-a-config-without-extension': [(C,'if pools, ok := v.Get("pools").([]any); ok {','if pools, ok := v.Get("pools").([]any); ok && (useStdinConfig || filepath.Ext(v.ConfigFileUsed()) != "") {')],
})

# ---- round 6: code the anchored files depend on (core/schedule: what the tokens ARE), judged against the configured profile
DA='core/schedule/do_at.go'; CO='core/schedule/const.go'; LI='core/schedule/line.go'; ST='core/schedule/step.go'
M.update({
 # "tidy" token times: const tokens truncated to whole milliseconds (up to 1 ms before the profile's instant)
 't01-const-tokens-truncated-to-ms': [(CO,'		return time.Duration(float64(i) * billionDivOps)\n','		return time.Duration(float64(i)*billionDivOps) / time.Millisecond * time.Millisecond\n')],
 # an exhausted leaf reports the time of its LAST operation instead of start + duration: the next part of a composite starts early
 't02-finish-time-is-last-token': [(DA,'		return s.start.Add(s.duration), false','		return s.start.Add(s.doAt(s.n - 1)), false')],
 # the start instant read into a local BEFORE the lazy start has run (hoisted read): the very first caller answers from the zero time
 't06-start-read-before-the-once': [(DA,"""	s.startOnce.Do(func() {
		// No allocations here due to benchmark.
		s.MarkStarted()
		s.start = time.Now()
	})
	i := s.i.Inc() - 1
	if i >= s.n {
		return s.start.Add(s.duration), false
	}
	return s.start.Add(s.doAt(i)), true""","""	start := s.start
	s.startOnce.Do(func() {
		// No allocations here due to benchmark.
		s.MarkStarted()
		s.start = time.Now()
	})
	i := s.i.Inc() - 1
	if i >= s.n {
		return start.Add(s.duration), false
	}
	return start.Add(s.doAt(i)), true""")],
 # step: the last level is dropped when `to` is hit exactly (boundary of a loop)
 't09-step-last-level-dropped': [(ST,'for i := from; i <= to; i += float64(step) {','for i := from; i < to; i += float64(step) {')],
 # index drawn by load-then-increment instead of one atomic increment: two instances can draw the same operation (interleaving)
 't22-index-load-then-inc': [(DA,'	i := s.i.Inc() - 1\n','	i := s.i.Load()\n	s.i.Inc()\n')],
 # line: "avoid a huge slope": a line shorter than a second gets the slope of a one-second line (unusual but valid input)
 't23-line-duration-at-least-a-second': [(LI,"""	a := (to - from) / (float64(duration) / 1e9)
	b := from
	xn := float64(duration) / 1e9""","""	xn := float64(duration) / 1e9
	if xn < 1.5 {
		xn = 1.5 // avoid a huge slope
	}
	a := (to - from) / xn
	b := from""")],
 # waiter.go: a wait below 100us is not slept but reported through a new exported flag "for the gun to take care of" (nobody does)
 't24-short-wait-delegated': [(W,"""	w.overdueDuration = 0
	// Lazy init.""","""	w.overdueDuration = 0
	if waitFor < 100*time.Microsecond {
		w.Short = true
		return true
	}
	w.Short = false
	// Lazy init."""),(W,"""	lastNow time.Time""","""	lastNow time.Time
	// Short: the last Wait returned up to 100us before the token time.
	Short bool""")],
 # harmless: the lazy start stores the instant BEFORE raising the flag (still inside the Once)
 'h14-harmless-start-stored-before-flag': [(DA,"""		s.MarkStarted()
		s.start = time.Now()""","""		s.start = time.Now()
		s.MarkStarted()""")],
 # harmless: early return for the common case in Next
 'h15-harmless-next-early-return': [(DA,"""	if i >= s.n {
		return s.start.Add(s.duration), false
	}
	return s.start.Add(s.doAt(i)), true""","""	if i < s.n {
		return s.start.Add(s.doAt(i)), true
	}
	return s.start.Add(s.duration), false""")],
 # harmless: NewLine computes the length once and uses it for the slope
 'h16-harmless-line-length-first': [(LI,"""	a := (to - from) / (float64(duration) / 1e9)
	b := from
	xn := float64(duration) / 1e9""","""	xn := float64(duration) / 1e9
	a := (to - from) / xn
	b := from""")],
 # harmless: IsSlowDown's comparison written the other way round
 'h17-harmless-isslowdown-flipped-comparison': [(W,'return w.overdueDuration >= MaxOverdueDuration','return MaxOverdueDuration <= w.overdueDuration')],
})
PK={DA:'./core/schedule/...',CO:'./core/schedule/...',LI:'./core/schedule/...',ST:'./core/schedule/...',PL:'./core/plugin/...',W:'./core/coreutil/...',I:'./core/engine/...',C:'./cli/...',S:'./core/aggregator/...',E:'./core/engine/...',P:'./core/aggregator/...'}
def main():
    names=sys.argv[2:] or sorted(M)
    tier=sys.argv[1]
    for n in names:
        sh('git checkout -- .', cwd=WT)
        pk=set()
        for f,a,b in M[n]:
            p=os.path.join(WT,f); s=open(p).read()
            assert s.count(a)==1, (n,f,s.count(a))
            open(p,'w').write(s.replace(a,b)); pk.add(PK[f])
        rc,o=sh('go build ./... 2>&1 | tail -5', cwd=WT)
        rb,ob=sh('go vet '+' '.join(pk)+' 2>&1 | tail -3', cwd=WT)
        t0=time.time()
        rt,ot=sh('go test -count=1 -timeout 120s '+' '.join(pk)+' 2>&1 | tail -8', cwd=WT, timeout=1200)
        gotest='pass' if ('FAIL' not in ot and 'panic' not in ot) else 'FAIL'
        t1=time.time()
        rc2,o2=sh('VERIF_REPO=%s ./check C04 --tier %s 2>&1 | tee %s/%s.log | grep "^VIOLATION\\|tier="' % (WT,tier,LOGDIR,n), cwd='/verif', timeout=3000)
        viol=[l for l in o2.split('\n') if l.startswith('VIOLATION')]
        detail=''
        for v in viol:
            m=re.search(r'replay=(\S+)', v)
            if m:
                try:
                    d=json.load(open('/verif/'+m.group(1)))
                    detail+=' | %s: %s ; input=%s ; broken=%s' % (d.get('kind'), d.get('spec_verdict', d.get('name')), (d.get('input') or '')[:120], str(d.get('broken_obligations'))[:300])
                except Exception as e: detail+=' | ?'+str(e)
        last=[l for l in o2.split('\n') if 'tier=' in l]
        print('=== %s: build=%s gotest=%s (%.0fs) check=%.0fs\n    %s\n    %s%s' % (n, 'ok' if 'error' not in o.lower() and o.strip()=='' else o.strip()[:200], gotest, t1-t0, time.time()-t1, '\n    '.join(viol) or 'NO VIOLATION', last[-1] if last else o2[-300:], detail), flush=True)
    sh('git checkout -- .', cwd=WT)
main()
