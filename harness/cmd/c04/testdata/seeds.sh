#!/bin/sh
# re-run every kept seeded change of C04 against the current check
export GOFLAGS=-mod=mod GOPROXY=off GOSUMDB=off GOTOOLCHAIN=local
WT=${C04_WT:-/var/tmp/wt-c04t}  # git -C /repo worktree add --detach $WT HEAD
for d in /verif/seeded/C04-*; do
  git -C $WT checkout -- . ; git -C $WT clean -fdq
  if git -C $WT apply $d/patch.diff; then
    (cd /verif && VERIF_REPO=$WT ./check C04 2>&1 | grep "^VIOLATION\|tier=" | tr '\n' ' ')
    echo " <= $(basename $d)"
  else echo "patch does not apply: $d"; fi
done
git -C $WT checkout -- . ; git -C $WT clean -fdq
