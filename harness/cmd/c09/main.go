package main

// C09: HTTP wire fidelity. The request reaching the target equals ammo plus gun config.
//
// Every case starts its own in-process target (httptest, plain or TLS, 127.0.0.1 or ::1) that records
// what arrives: method, request-URI, Host, TLS or not, header multimap, body bytes and the identity of
// the connection each request came over. The structured entries of the input line are rendered into an
// ammo file of the requested format (uri, uripost, jsonline, json array, raw) in a MemMapFs, and the case
// is driven through the REAL plugin registry: the config map {ammo:{type,file,headers,passes},
// gun:{type:http,target,ssl,disable-keep-alives}} is decoded with core/config.DecodeAndValidate exactly as
// cli does, which calls the registered provider constructor (NewProvider -> NewDecoder) and the registered
// "http" gun factory (PreResolveTargetAddr, NewHTTP1Gun, WrapGun). `inst` guns are created from the factory
// (one client each, as one Instance each would own) and shoot the acquired ammo round-robin, one at a time,
// so that the order of arrival and the number of connections are deterministic.
//
// Observation: n=<arrived> shots=<acquired> conns=<distinct connections that carried a request> run=ok|err
// reqs=<method,uri,host,tls,headers,body | ...> (hex fields). Headers the transport manages on its own are
// dropped from the observation: Content-Length, Transfer-Encoding, Connection, and User-Agent when it is the
// Go default. The compiled Lean driver predicts the same line from the model and evaluates the Spec on it.
//
// kind=canon cases compare textproto.CanonicalMIMEHeaderKey with the model function directly.

import (
	"bytes"
	"context"
	"encoding/hex"
	"encoding/json"
	"fmt"
	"io"
	"log"
	"math/rand"
	"net"
	"net/http"
	"net/http/httptest"
	"net/textproto"
	"sort"
	"strconv"
	"strings"
	"sync"
	"sync/atomic"
	"time"
	"unicode/utf8"

	"verifharness/drv"

	"github.com/spf13/afero"
	phttpimport "github.com/yandex/pandora/components/phttp/import"
	"github.com/yandex/pandora/core"
	"github.com/yandex/pandora/core/config"
	coreimport "github.com/yandex/pandora/core/import"
	"go.uber.org/zap"
)

var (
	memFS     = afero.NewMemMapFs()
	setupOnce sync.Once
	fileSeq   atomic.Int64
	haveV6    bool
	haveLocal bool
)

func setup() {
	setupOnce.Do(func() {
		coreimport.Import(memFS)
		phttpimport.Import(memFS)
		if l, err := net.Listen("tcp6", "[::1]:0"); err == nil {
			haveV6 = true
			_ = l.Close()
		}
		if addrs, err := net.LookupHost("localhost"); err == nil {
			for _, a := range addrs {
				if a == "127.0.0.1" {
					haveLocal = true
				}
			}
		}
	})
}

// ---------------------------------------------------------------- input

type hdrLine struct{ k, v string }

type entry struct {
	method, uri, host string
	hdrs              []hdrLine
	body              string
}

type caseIn struct {
	format string // uri | uripost | jsonline | jsonarr | raw
	ssl    bool
	srv    string // plain | tls
	ka     bool
	inst   int
	tgt    string // 127.0.0.1 | localhost | ::1
	passes int
	conf   []string
	ents   []entry
}

func hx(s string) string { return hex.EncodeToString([]byte(s)) }

func unhx(s string) (string, error) {
	b, err := hex.DecodeString(s)
	return string(b), err
}

func encodeEntry(e entry) string {
	hs := make([]string, len(e.hdrs))
	for i, h := range e.hdrs {
		hs[i] = hx(h.k) + ":" + hx(h.v)
	}
	return strings.Join([]string{hx(e.method), hx(e.uri), hx(e.host), strings.Join(hs, ";"), hx(e.body)}, ",")
}

func encodeCase(c caseIn) string {
	b := func(x bool) string {
		if x {
			return "1"
		}
		return "0"
	}
	cs := make([]string, len(c.conf))
	for i, s := range c.conf {
		cs[i] = hx(s)
	}
	es := make([]string, len(c.ents))
	for i, e := range c.ents {
		es[i] = encodeEntry(e)
	}
	return fmt.Sprintf("kind=run fmt=%s ssl=%s srv=%s ka=%s inst=%d tgt=%s passes=%d conf=%s ents=%s",
		c.format, b(c.ssl), c.srv, b(c.ka), c.inst, c.tgt, c.passes, strings.Join(cs, ";"), strings.Join(es, "|"))
}

func splitList(s, sep string) []string {
	if s == "" {
		return nil
	}
	return strings.Split(s, sep)
}

func parseCase(input string) (c caseIn, err error) {
	m := drv.KV(input)
	c.format = m["fmt"]
	c.ssl = m["ssl"] == "1"
	c.srv = m["srv"]
	c.ka = m["ka"] == "1"
	c.inst, _ = strconv.Atoi(m["inst"])
	c.tgt = m["tgt"]
	c.passes, _ = strconv.Atoi(m["passes"])
	for _, h := range splitList(m["conf"], ";") {
		s, e := unhx(h)
		if e != nil {
			return c, e
		}
		c.conf = append(c.conf, s)
	}
	for _, es := range splitList(m["ents"], "|") {
		f := strings.Split(es, ",")
		if len(f) != 5 {
			return c, fmt.Errorf("entry fields")
		}
		var e entry
		if e.method, err = unhx(f[0]); err != nil {
			return
		}
		if e.uri, err = unhx(f[1]); err != nil {
			return
		}
		if e.host, err = unhx(f[2]); err != nil {
			return
		}
		for _, hs := range splitList(f[3], ";") {
			kv := strings.Split(hs, ":")
			if len(kv) != 2 {
				return c, fmt.Errorf("header fields")
			}
			var h hdrLine
			if h.k, err = unhx(kv[0]); err != nil {
				return
			}
			if h.v, err = unhx(kv[1]); err != nil {
				return
			}
			e.hdrs = append(e.hdrs, h)
		}
		if e.body, err = unhx(f[4]); err != nil {
			return
		}
		c.ents = append(c.ents, e)
	}
	if c.inst < 1 || c.inst > 8 || c.passes < 1 || c.passes > 4 || len(c.ents) == 0 {
		return c, fmt.Errorf("bounds")
	}
	switch c.format {
	case "uri", "uripost", "jsonline", "jsonarr", "raw":
	default:
		return c, fmt.Errorf("format")
	}
	switch c.tgt {
	case "127.0.0.1", "localhost", "::1":
	default:
		return c, fmt.Errorf("target")
	}
	if c.srv != "plain" && c.srv != "tls" {
		return c, fmt.Errorf("srv")
	}
	return c, nil
}

// ---------------------------------------------------------------- rendering of the ammo file

func jsonStr(s string) string {
	b, _ := json.Marshal(s)
	return string(b)
}

// render returns the ammo file and whether the entries can be expressed in the format at all.
func render(c caseIn) ([]byte, bool) {
	var b bytes.Buffer
	switch c.format {
	case "uri":
		for _, e := range c.ents {
			for _, h := range e.hdrs {
				fmt.Fprintf(&b, "[%s:%s]\n", h.k, h.v)
			}
			b.WriteString(e.uri + "\n")
		}
	case "uripost":
		for _, e := range c.ents {
			for _, h := range e.hdrs {
				fmt.Fprintf(&b, "[%s:%s]\n", h.k, h.v)
			}
			fmt.Fprintf(&b, "%d %s\n", len(e.body), e.uri)
			b.WriteString(e.body)
			b.WriteString("\n")
		}
	case "jsonline", "jsonarr":
		var items []string
		for _, e := range c.ents {
			if !utf8.ValidString(e.method + e.uri + e.host + e.body) {
				return nil, false
			}
			var hs []string
			for _, h := range e.hdrs {
				if !utf8.ValidString(h.k + h.v) {
					return nil, false
				}
				hs = append(hs, jsonStr(h.k)+":"+jsonStr(h.v))
			}
			items = append(items, fmt.Sprintf(`{"host":%s,"method":%s,"uri":%s,"headers":{%s},"tag":"t","body":%s}`,
				jsonStr(e.host), jsonStr(e.method), jsonStr(e.uri), strings.Join(hs, ","), jsonStr(e.body)))
		}
		if c.format == "jsonline" {
			b.WriteString(strings.Join(items, "\n") + "\n")
		} else {
			b.WriteString("[" + strings.Join(items, ",\n") + "]\n")
		}
	case "raw":
		for _, e := range c.ents {
			var r bytes.Buffer
			fmt.Fprintf(&r, "%s %s HTTP/1.1\r\n", e.method, e.uri)
			for _, h := range e.hdrs {
				fmt.Fprintf(&r, "%s: %s\r\n", h.k, h.v)
			}
			if len(e.body) > 0 {
				fmt.Fprintf(&r, "Content-Length: %d\r\n", len(e.body))
			}
			r.WriteString("\r\n")
			r.WriteString(e.body)
			fmt.Fprintf(&b, "%d tag\n", r.Len())
			b.Write(r.Bytes())
			b.WriteString("\n")
		}
	}
	return b.Bytes(), true
}

// ---------------------------------------------------------------- recording target

type recorded struct {
	method, uri, host string
	tls               bool
	header            http.Header
	body              []byte
	conn              int64
}

type target struct {
	srv   *httptest.Server
	mu    sync.Mutex
	reqs  []recorded
	seq   atomic.Int64
	close func()
}

type connKey struct{}

func newTarget(useTLS bool, v6 bool) (*target, error) {
	t := &target{}
	h := http.HandlerFunc(func(w http.ResponseWriter, r *http.Request) {
		body, _ := io.ReadAll(r.Body)
		id, _ := r.Context().Value(connKey{}).(int64)
		t.mu.Lock()
		t.reqs = append(t.reqs, recorded{method: r.Method, uri: r.RequestURI, host: r.Host, tls: r.TLS != nil,
			header: r.Header.Clone(), body: body, conn: id})
		t.mu.Unlock()
		w.Header().Set("Content-Type", "text/plain")
		_, _ = w.Write([]byte("ok"))
	})
	srv := httptest.NewUnstartedServer(h)
	if v6 {
		l, err := net.Listen("tcp6", "[::1]:0")
		if err != nil {
			return nil, err
		}
		_ = srv.Listener.Close()
		srv.Listener = l
	}
	srv.Config.ErrorLog = log.New(io.Discard, "", 0)
	srv.Config.ConnContext = func(ctx context.Context, c net.Conn) context.Context {
		return context.WithValue(ctx, connKey{}, t.seq.Add(1))
	}
	if useTLS {
		srv.StartTLS()
	} else {
		srv.Start()
	}
	t.srv = srv
	return t, nil
}

type nullAggregator struct{}

func (nullAggregator) Run(ctx context.Context, deps core.AggregatorDeps) error { return nil }
func (nullAggregator) Report(s core.Sample)                                    {}

// ---------------------------------------------------------------- one case

var dropAlways = map[string]bool{"Content-Length": true, "Transfer-Encoding": true, "Connection": true}

func runCase(input string) string {
	setup()
	c, err := parseCase(input)
	if err != nil {
		return "BAD-INPUT " + err.Error()
	}
	if c.tgt == "::1" && !haveV6 {
		return "ENV no-ipv6-loopback"
	}
	if c.tgt == "localhost" && !haveLocal {
		return "ENV no-localhost"
	}
	file, ok := render(c)
	if !ok {
		return "BAD-INPUT not-expressible"
	}
	tg, err := newTarget(c.srv == "tls", c.tgt == "::1")
	if err != nil {
		return "ENV listen"
	}
	defer tg.srv.Close()
	_, port, _ := net.SplitHostPort(tg.srv.Listener.Addr().String())
	targetAddr := net.JoinHostPort(c.tgt, port)

	path := fmt.Sprintf("/c09/ammo-%d", fileSeq.Add(1))
	if err := afero.WriteFile(memFS, path, file, 0o644); err != nil {
		return "ENV writefile"
	}
	defer func() { _ = memFS.Remove(path) }()

	ammoType := map[string]string{"uri": "uri", "uripost": "uripost", "jsonline": "http/json", "jsonarr": "http/json", "raw": "raw"}[c.format]
	headers := make([]any, len(c.conf))
	for i, h := range c.conf {
		headers[i] = h
	}
	ammoCfg := map[string]any{"type": ammoType, "file": path, "headers": headers, "passes": c.passes}
	gunCfg := map[string]any{"type": "http", "target": targetAddr, "ssl": c.ssl}
	if !c.ka {
		gunCfg["disable-keep-alives"] = true
	}
	var pool struct {
		Provider core.Provider            `config:"ammo"`
		NewGun   func() (core.Gun, error) `config:"gun"`
	}
	if err := config.DecodeAndValidate(map[string]any{"ammo": ammoCfg, "gun": gunCfg}, &pool); err != nil {
		if strings.Contains(err.Error(), "header line wrong format") || strings.Contains(err.Error(), "missing header key") {
			return "provider-err"
		}
		return "construct-err " + drv.Trunc(err.Error(), 200)
	}

	ctx, cancel := context.WithCancel(context.Background())
	defer cancel()
	nop := zap.NewNop()
	runErr := make(chan error, 1)
	go func() { runErr <- pool.Provider.Run(ctx, core.ProviderDeps{Log: nop, PoolID: "c09"}) }()

	guns := make([]core.Gun, c.inst)
	for i := range guns {
		g, err := pool.NewGun()
		if err != nil {
			return "construct-err gun"
		}
		if err := g.Bind(nullAggregator{}, core.GunDeps{Ctx: ctx, Log: nop, PoolID: "c09", InstanceID: i}); err != nil {
			return "construct-err bind"
		}
		guns[i] = g
	}
	shots := 0
	for {
		a, ok := pool.Provider.Acquire()
		if !ok {
			break
		}
		guns[shots%c.inst].Shoot(a)
		pool.Provider.Release(a)
		shots++
		if shots > 64 {
			break
		}
	}
	cancel()
	run := "ok"
	select {
	case err := <-runErr:
		if err != nil && err != context.Canceled {
			run = "err"
		}
	case <-time.After(5 * time.Second):
		run = "hang"
	}
	for _, g := range guns {
		if cl, ok := g.(io.Closer); ok {
			_ = cl.Close()
		}
	}

	tg.mu.Lock()
	reqs := append([]recorded(nil), tg.reqs...)
	tg.mu.Unlock()
	conns := map[int64]bool{}
	rs := make([]string, len(reqs))
	for i, r := range reqs {
		conns[r.conn] = true
		host := strings.ReplaceAll(r.host, targetAddr, "TARGETADDR")
		names := make([]string, 0, len(r.header))
		for k, vv := range r.header {
			if dropAlways[k] {
				continue
			}
			if k == "User-Agent" && len(vv) == 1 && vv[0] == "Go-http-client/1.1" {
				continue
			}
			names = append(names, k)
		}
		sort.Strings(names)
		hs := make([]string, len(names))
		for j, k := range names {
			vs := []string{hx(k)}
			for _, v := range r.header[k] {
				vs = append(vs, hx(v))
			}
			hs[j] = strings.Join(vs, ":")
		}
		t := "0"
		if r.tls {
			t = "1"
		}
		rs[i] = strings.Join([]string{hx(r.method), hx(r.uri), hx(host), t, strings.Join(hs, ";"), hex.EncodeToString(r.body)}, ",")
	}
	return fmt.Sprintf("n=%d shots=%d conns=%d run=%s reqs=%s", len(reqs), shots, len(conns), run, strings.Join(rs, "|"))
}

func c09Run(input string) string {
	m := drv.KV(input)
	switch m["kind"] {
	case "canon":
		k, err := unhx(m["key"])
		if err != nil {
			return "BAD-INPUT"
		}
		return "canon=" + hx(textproto.CanonicalMIMEHeaderKey(k))
	case "run":
		return runCase(input)
	}
	return "BAD-INPUT kind"
}

// ---------------------------------------------------------------- generators

var baseNames = []string{"X-A", "X-B", "X-Req-Id", "Accept", "User-Agent", "Content-Type", "Authorization", "Cookie",
	"Accept-Language", "x_under", "x.dot", "X-1a", "Referer", "Cache-Control"}

func caseVariant(r *rand.Rand, n string) string {
	switch r.Intn(5) {
	case 0:
		return strings.ToLower(n)
	case 1:
		return strings.ToUpper(n)
	case 2:
		return textproto.CanonicalMIMEHeaderKey(n)
	case 3:
		b := []byte(n)
		for i := range b {
			if r.Intn(2) == 0 {
				b[i] = byte(strings.ToUpper(string(b[i]))[0])
			} else {
				b[i] = byte(strings.ToLower(string(b[i]))[0])
			}
		}
		return string(b)
	}
	return n
}

var valueWords = []string{"file", "conf", "v1", "v2", "a b", "with:colon", "text/plain; charset=utf-8", "Bearer xxx", "k=v; k2=v2",
	"", "x]y", "[z", "ünï", "0", "*/*"}

func genValue(r *rand.Rand, who string) string {
	w := valueWords[r.Intn(len(valueWords))]
	if r.Intn(3) == 0 {
		return w
	}
	return who + "-" + w + strconv.Itoa(r.Intn(10))
}

var hostWords = []string{"ammo.example.org", "decoy.invalid:81", "h2.example.org:8080", "UPPER.example.org", "10.255.255.1:9"}

var pathWords = []string{"/", "/a", "/a/b/c", "/p?x=1&y=2", "/%41bc", "/a.b-c_d~e", "/q?", "/x/?k=v%20w", "/very/long/" + strings.Repeat("p", 200),
	"/a;b=c", "/a:b@c", "/search?q=a+b&r=%2F", "/*", "/index.html?"}

func genURI(r *rand.Rand, allowAbs bool) string {
	p := pathWords[r.Intn(len(pathWords))]
	if allowAbs && r.Intn(4) == 0 {
		scheme := []string{"http://", "https://"}[r.Intn(2)]
		h := hostWords[r.Intn(len(hostWords))]
		if r.Intn(6) == 0 {
			return scheme + h // no path at all
		}
		return scheme + h + p
	}
	return p
}

func genBody(r *rand.Rand, text bool) string {
	switch r.Intn(7) {
	case 0:
		return ""
	case 1:
		return "class"
	case 2:
		return `{"a": "b", "n": [1,2,3]}`
	case 3:
		if text {
			return "line1\nline2\r\n\ttab \"quoted\" \\ ünïcode €"
		}
		b := make([]byte, 1+r.Intn(40))
		for i := range b {
			b[i] = byte(r.Intn(256))
		}
		return string(b)
	case 4:
		if text {
			return strings.Repeat("x", 1+r.Intn(3000))
		}
		b := make([]byte, 1+r.Intn(70000))
		for i := range b {
			b[i] = byte(i * 7)
		}
		return string(b)
	case 5:
		return "\n\n[X-A: not a header]\n5 /not-a-uri\n"
	}
	return "a=1&b=2"
}

var methods = []string{"GET", "POST", "PUT", "DELETE", "PATCH", "OPTIONS", "HEAD", "PURGE", "get", "M-SEARCH"}

func pad(r *rand.Rand, s string) string {
	switch r.Intn(4) {
	case 0:
		return " " + s
	case 1:
		return s + " "
	case 2:
		return "  " + s + "\t"
	}
	return s
}

func genCase(r *rand.Rand, malformed bool) caseIn {
	c := caseIn{}
	c.format = []string{"uri", "uripost", "jsonline", "jsonarr", "raw"}[r.Intn(5)]
	c.ssl = r.Intn(2) == 0
	c.srv = map[bool]string{true: "tls", false: "plain"}[c.ssl]
	if r.Intn(12) == 0 { // scheme/server mismatch: nothing may arrive
		c.srv = map[bool]string{true: "plain", false: "tls"}[c.ssl]
	}
	c.ka = r.Intn(3) != 0
	c.inst = 1 + r.Intn(3)
	switch r.Intn(6) {
	case 0:
		c.tgt = "localhost"
	case 1:
		c.tgt = "::1"
	default:
		c.tgt = "127.0.0.1"
	}
	c.passes = 1
	if r.Intn(5) == 0 {
		c.passes = 2
	}
	nEnt := 1 + r.Intn(4)
	if c.format == "jsonarr" && nEnt < 2 {
		nEnt = 2 // a one-element array with passes is C08's finding, not ours
	}
	// configured headers
	nConf := r.Intn(5)
	var confNames []string
	for i := 0; i < nConf; i++ {
		var name string
		switch {
		case r.Intn(4) == 0:
			name = caseVariant(r, "Host")
		case len(confNames) > 0 && r.Intn(4) == 0:
			name = caseVariant(r, confNames[r.Intn(len(confNames))]) // duplicate inside the option list
		default:
			name = caseVariant(r, baseNames[r.Intn(len(baseNames))])
		}
		confNames = append(confNames, name)
		val := genValue(r, "conf")
		if strings.EqualFold(name, "host") {
			val = "conf-" + hostWords[r.Intn(len(hostWords))]
		}
		if strings.EqualFold(name, "user-agent") && val == "" {
			val = "conf-agent"
		}
		s := "[" + pad(r, name) + ":" + pad(r, val) + "]"
		if malformed && r.Intn(6) == 0 {
			s = []string{"[nocolon]", "X-A: v", "[: v]", "[]", "[X-A: v", "[ : ]"}[r.Intn(6)]
		}
		c.conf = append(c.conf, s)
	}
	for i := 0; i < nEnt; i++ {
		e := entry{}
		isJSON := c.format == "jsonline" || c.format == "jsonarr"
		switch c.format {
		case "uri":
			e.method = "GET"
		case "uripost":
			e.method = "POST"
		default:
			e.method = methods[r.Intn(len(methods))]
		}
		e.uri = genURI(r, !isJSON)
		if isJSON && r.Intn(2) == 0 {
			e.host = hostWords[r.Intn(len(hostWords))]
		}
		if c.format != "uri" {
			e.body = genBody(r, isJSON)
		}
		nH := r.Intn(4)
		seen := map[string]bool{}
		for j := 0; j < nH; j++ {
			var name string
			switch {
			case r.Intn(5) == 0:
				name = caseVariant(r, "Host")
			case len(confNames) > 0 && r.Intn(2) == 0:
				name = caseVariant(r, strings.TrimSpace(confNames[r.Intn(len(confNames))])) // collide with the option
			default:
				name = caseVariant(r, baseNames[r.Intn(len(baseNames))])
			}
			ck := textproto.CanonicalMIMEHeaderKey(name)
			if isJSON && seen[ck] {
				continue // JSON object keys that canonicalise alike: map iteration order decides, not modelled
			}
			if c.format == "raw" && ck == "Host" && seen[ck] {
				continue
			}
			seen[ck] = true
			val := genValue(r, "file")
			if ck == "Host" {
				val = "file-" + hostWords[r.Intn(len(hostWords))]
				if r.Intn(10) == 0 {
					val = "" // empty Host given by the ammo: corner
				}
			}
			if ck == "User-Agent" && val == "" {
				val = "file-agent"
			}
			switch c.format {
			case "uri", "uripost":
				name, val = pad(r, name), pad(r, val)
				if malformed && r.Intn(8) == 0 {
					name = []string{"X A", "", "X-Ä", "sp ace"}[r.Intn(4)]
				}
			case "jsonline", "jsonarr":
				if malformed && r.Intn(8) == 0 {
					name = []string{"X A", "X-Ä", "a(b)"}[r.Intn(3)]
				}
				if malformed && ck != "Host" && r.Intn(8) == 0 { // an invalid Host is blanked by net/http, not modelled
					val = "ctl\x01char"
				}
			}
			e.hdrs = append(e.hdrs, hdrLine{name, val})
		}
		c.ents = append(c.ents, e)
	}
	return c
}

// fixed matrix: every format x {no conf, disjoint, colliding, colliding other case, duplicate conf, Host} x ssl x ka
func matrix() []string {
	var out []string
	type hc struct {
		conf []string
		file []hdrLine
	}
	combos := []hc{
		{nil, nil},
		{[]string{"[X-B: conf]"}, []hdrLine{{"X-A", "file"}}},
		{[]string{"[X-A: conf]"}, []hdrLine{{"X-A", "file"}}},
		{[]string{"[x-a: conf]"}, []hdrLine{{"X-a", "file"}}},
		{[]string{"[X-A: conf1]", "[X-A: conf2]"}, nil},
		{[]string{"[X-A: conf1]", "[x-a: conf2]"}, []hdrLine{{"X-A", "file"}}},
		{[]string{"[Host: conf.example.org]"}, nil},
		{[]string{"[Host: conf.example.org]"}, []hdrLine{{"Host", "file.example.org"}}},
		{[]string{"[host: conf1.example.org]", "[Host: conf2.example.org]"}, []hdrLine{{"X-A", "file"}}},
		{[]string{"[User-Agent: conf-agent]", "[Accept: */*]"}, []hdrLine{{"user-agent", "file-agent"}}},
	}
	for _, f := range []string{"uri", "uripost", "jsonline", "jsonarr", "raw"} {
		for ci, cb := range combos {
			for _, ssl := range []bool{false, true} {
				for _, ka := range []bool{true, false} {
					if ci > 2 && ssl != ka { // thin the matrix
						continue
					}
					c := caseIn{format: f, ssl: ssl, ka: ka, inst: 2, tgt: "127.0.0.1", passes: 1, conf: cb.conf}
					c.srv = map[bool]string{true: "tls", false: "plain"}[ssl]
					method, body := "GET", ""
					if f != "uri" {
						method, body = "POST", "class"
					}
					for i := 0; i < 3; i++ {
						e := entry{method: method, uri: "/" + strconv.Itoa(i) + "?q=" + f, body: body}
						if i > 0 || f == "uri" || f == "uripost" {
							e.hdrs = cb.file
						}
						if i == 2 && (f == "uri" || f == "uripost") {
							e.hdrs = nil // header lines persist from the entries before
						}
						c.ents = append(c.ents, e)
					}
					out = append(out, encodeCase(c))
				}
			}
		}
	}
	return out
}

func genCanonKey(r *rand.Rand) string {
	switch r.Intn(4) {
	case 0:
		return caseVariant(r, baseNames[r.Intn(len(baseNames))])
	case 1:
		n := r.Intn(12)
		b := make([]byte, n)
		const al = "abcXYZ-019_. !#$%&'*+^`|~:()ä\x00\x7f"
		for i := range b {
			b[i] = al[r.Intn(len(al))]
		}
		return string(b)
	case 2:
		n := r.Intn(6)
		b := make([]byte, n)
		for i := range b {
			b[i] = byte(r.Intn(256))
		}
		return string(b)
	}
	parts := []string{"x", "Y", "-", "--", "ab", "CD", "9", "_", " "}
	s := ""
	for i := 0; i < 1+r.Intn(6); i++ {
		s += parts[r.Intn(len(parts))]
	}
	return s
}

func c09Gen(r *rand.Rand, tier string) []string {
	out := matrix()
	n, nMal, nCanon := 700, 120, 300
	if tier == "thorough" {
		n, nMal, nCanon = 12000, 2500, 6000
	}
	for i := 0; i < n; i++ {
		out = append(out, encodeCase(genCase(r, false)))
	}
	for i := 0; i < nMal; i++ {
		out = append(out, encodeCase(genCase(r, true)))
	}
	for i := 0; i < nCanon; i++ {
		out = append(out, "kind=canon key="+hx(genCanonKey(r)))
	}
	return out
}

func c09Class(in, obs string) string {
	m := drv.KV(in)
	if m["kind"] == "canon" {
		return "canon"
	}
	if !strings.HasPrefix(obs, "n=") {
		return "rejected/" + strings.Fields(obs + " ?")[0]
	}
	o := drv.KV(obs)
	if o["n"] == "0" {
		return m["fmt"] + "/nothing-arrived"
	}
	c, err := parseCase(in)
	if err != nil {
		return ""
	}
	conf := map[string]bool{}
	for _, h := range c.conf {
		h = strings.Trim(h, "[]")
		k, _, _ := strings.Cut(h, ":")
		conf[textproto.CanonicalMIMEHeaderKey(strings.TrimSpace(k))] = true
	}
	collide := "disjoint"
	for _, e := range c.ents {
		for _, h := range e.hdrs {
			if conf[textproto.CanonicalMIMEHeaderKey(strings.TrimSpace(h.k))] {
				collide = "collide"
			}
		}
	}
	if len(conf) == 0 {
		collide = "noconf"
	}
	ka := map[bool]string{true: "ka", false: "noka"}[c.ka]
	ssl := map[bool]string{true: "https", false: "http"}[c.ssl]
	return strings.Join([]string{c.format, collide, ssl, ka}, "/")
}

func main() {
	drv.Main(&drv.Prop{
		ID:      "C09",
		Gen:     c09Gen,
		Run:     c09Run,
		Class:   c09Class,
		Workers: 8,
		Timeout: 30 * time.Second,
		Rule: "fixed matrix (5 file syntaxes x header-collision patterns x ssl x keep-alive) plus PRNG cases: 1-4 entries " +
			"(methods, origin/absolute URIs naming decoy hosts, text/binary/large bodies, 0-3 in-file headers) x 0-4 `headers` option " +
			"strings chosen to collide with in-file names (same name, other case, duplicates, Host) x ssl x plain/TLS target " +
			"(incl. mismatches) x keep-alive x 1-3 per-instance guns x target 127.0.0.1/localhost/::1 x passes 1-2; a malformed " +
			"stream (bad option strings, header names with spaces/non-token bytes, control bytes in values); plus direct " +
			"CanonicalMIMEHeaderKey comparisons. Driven through config.DecodeAndValidate -> registered provider + registered http gun " +
			"against an in-process recording server. non-trivial = at least one request arrived (or a canon comparison); " +
			"distinct = distinct input line",
	})
}
