package main

// C09: HTTP wire fidelity. The request reaching the target equals ammo plus gun config.
//
// Every case starts its own in-process target (httptest, plain or TLS, 127.0.0.1 or ::1) that records
// what arrives: method, request-URI, Host, TLS or not, header multimap, body bytes and the identity of
// the connection each request came over. The structured entries of the input line are rendered into an
// ammo file of the requested format (uri, uripost, jsonline, json array, raw) in a MemMapFs, and the case
// is driven through the REAL plugin registry: the config map {ammo:{type,file,headers,passes},
// gun:{type:http,target,ssl,disable-keep-alives}} is decoded with core/config.DecodeAndValidate exactly as
// cli does, which calls the registered provider constructor (NewProvider -> NewDecoder) and the registered
// "http" gun factory (PreResolveTargetAddr, NewHTTP1Gun, WrapGun). `inst` guns are created from the factory
// (one client each, as one Instance each would own) and shoot the acquired ammo round-robin, one at a time,
// so that the order of arrival and the number of connections are deterministic.
//
// Observation: n=<arrived> shots=<acquired> conns=<distinct connections that carried a request> run=ok|err
// reqs=<method,uri,host,tls,headers,body | ...> (hex fields). Headers the transport manages on its own are
// dropped from the observation: Content-Length, Transfer-Encoding, Connection, and User-Agent when it is the
// Go default. The compiled Lean driver predicts the same line from the model and evaluates the Spec on it.
//
// kind=canon cases compare textproto.CanonicalMIMEHeaderKey with the model function directly.
//
// Further dimensions of a case (all optional in the input line, defaults in brackets):
//   gun=http|http2|connect [http]   the registered gun plugin; http2 needs ssl (its factory refuses otherwise) and is
//                                    served by an HTTP/2 target; connect is served by a target that first answers the
//                                    gun's CONNECT request and then serves the tunnelled connection (tun=ok|bad:<authority>)
//   pre=0|1 [0]                      provider option preload
//   rsp=<n>|redir [2]                the target answers with an n-byte body, or with a 302 to a decoy server that counts
//                                    what reaches it (decoy=<hits>; the guns do not follow redirects by default)
//   sched=<i.j.k…> [round-robin]     which gun shoots the j-th acquired ammo (cyclic)
//   mode=seq|par [seq]               seq: one shot at a time in ammo order (arrival order is deterministic);
//                                    par: every gun shoots its share in its own goroutine, the recorded requests are
//                                    reported sorted (the model sorts its prediction alike)
//   6th field of an entry            minor version of the request line of a raw entry (HTTP/1.<minor>) [1]
// Round 2: time and the transport's options
//   gap=<ms> [0]                     pause before every shot but the first (seq: between consecutive shots of the case; par: between
//                                    consecutive shots of each gun)
//   idle=<ms>|- hs=<ms>|def|- rht=<ms>|- mic=<n>|- mich=<n>|-   the gun options idle-conn-timeout, tls-handshake-timeout,
//                                    response-header-timeout, max-idle-conns, max-idle-conns-per-host, set BY NAME in the gun's config
//                                    (`-` = not given; for hs `-` = the harness's generous 20s, `def` = not given: pandora's default)
//   lay=0|1|2|3 [0]                  layout of the ammo file, invisible on the wire: 1 = blank lines between the entries and blanks around
//                                    every line, 2 = no newline at the end of the file, 3 = CRLF line ends (uri, uripost, raw) resp.
//                                    pretty-printed multi-line JSON (http/json)
//   feat=<bits> [0]                  optional features of the gun that must not change the wire: 1 auto-tag, 2 answlog (filter all, written to
//                                    /dev/null), 4 httptrace.trace, 8 httptrace.dump, 16 a debug-level logger (verbose logging of every shot)
//   dns=0|1 [1]                      the dialer's dns-cache option (0: no pre-resolving, the plain net.Dialer)
//   delay=<ms> [0]                   the target waits that long before it answers
//   code=<status> [200]              status of the target's answer
// The observation carries tm=ok|late: `late` when the machine was too slow for the case's timing margins (a pause that should stay
// below the idle timeout took more than 60% of it, an answer that should beat the response-header timeout took more than 60% of it);
// such a case is inconclusive for the model driver, never a failure.
// uri/uripost entries with an odd index carry a tag after the URI (it never reaches the wire).
// Round 3:
//   shared=<n> [0]                   the gun option shared-client {enabled: true, client-number: n}; as core/engine does, one more gun is created
//                                    for WarmUp and its result handed to every Bind as GunDeps.Shared (always, also without shared clients)
//   redir=1                          the gun option redirect: true (with rsp=redir the decoy is reached at the operator's demand)
//   src=uris                         uri format: the lines of the ammo are given in the provider's `uris` option instead of a file
//   lim=<n> [0]                      the provider's `limit` option
//   late=1                           the target starts to listen only after the gun factory ran (its reachability lookup of a named target is
//                                    refused, nothing is pre-resolved, the DNS-caching dialer resolves at the first shot)
// Round 4:
//   mode=vol                         volleys: the j-th acquired ammo goes to gun j % inst; the guns of one volley (inst consecutive ammo) shoot
//                                    TOGETHER (one goroutine each, started at a barrier), the next volley starts `gap` ms after the last
//                                    answer of the volley before; recorded requests are reported sorted as with mode=par
//   ect=<ms>|- dto=<ms>|-            the gun options expect-continue-timeout and dial.timeout, by name (`-` = not given; for dto `-` = the
//                                    harness's generous 20s)
//   shoff=<n>                        the gun option shared-client {enabled: false, client-number: n} (the combination printed in
//                                    docs/eng/http-generator.md): per-instance clients whatever the number says
//   doc=1                            every transport / dialer / shared-client option that the "full config" of docs/eng/http-generator.md
//                                    prints is written into the gun section with the value printed there, unless the case gives another
// All byte strings of the line protocol are hex with run-length segments (see hx): bodies beyond 1 MiB, URIs and header values beyond
// 4 KiB stay short.

import (
	"bufio"
	"bytes"
	"context"
	"crypto/tls"
	"encoding/hex"
	"encoding/json"
	"fmt"
	"io"
	"log"
	"math/rand"
	"net"
	"net/http"
	"net/http/httptest"
	"net/textproto"
	"os"
	"sort"
	"strconv"
	"strings"
	"sync"
	"sync/atomic"
	"time"
	"unicode/utf8"

	"verifharness/drv"

	"github.com/spf13/afero"
	phttpimport "github.com/yandex/pandora/components/phttp/import"
	"github.com/yandex/pandora/core"
	"github.com/yandex/pandora/core/aggregator/netsample"
	"github.com/yandex/pandora/core/config"
	coreimport "github.com/yandex/pandora/core/import"
	"github.com/yandex/pandora/core/warmup"
	"go.uber.org/zap"
	"go.uber.org/zap/zapcore"
)

var (
	memFS     = afero.NewMemMapFs()
	setupOnce sync.Once
	fileSeq   atomic.Int64
	haveV6    bool
	haveLocal bool
)

func setup() {
	setupOnce.Do(func() {
		coreimport.Import(memFS)
		phttpimport.Import(memFS)
		if l, err := net.Listen("tcp6", "[::1]:0"); err == nil {
			haveV6 = true
			_ = l.Close()
		}
		if addrs, err := net.LookupHost("localhost"); err == nil {
			for _, a := range addrs {
				if a == "127.0.0.1" {
					haveLocal = true
				}
			}
		}
	})
}

// ---------------------------------------------------------------- input

type hdrLine struct{ k, v string }

type entry struct {
	method, uri, host string
	hdrs              []hdrLine
	body              string
	minor             int // raw: HTTP/1.<minor>
}

type caseIn struct {
	format string // uri | uripost | jsonline | jsonarr | raw
	ssl    bool
	srv    string // plain | tls
	ka     bool
	inst   int
	tgt    string // 127.0.0.1 | localhost | ::1
	passes int
	conf   []string
	ents   []entry

	gun     string // http | http2 | connect
	preload bool
	rsp     string // response body size, or "redir"
	mode    string // seq | par
	sched   []int

	gap, delay    int    // ms
	idle, hs, rht string // ms | "-" (hs also "def")
	mic, mich     string // n | "-"
	code          int
	lay           int
	feat          int
	nodns         bool

	// round 3
	shared int  // shared-client: 0 = off, n = enabled with client-number n
	redir  bool // the gun option redirect: true
	uris   bool // uri format: the ammo stands in the provider's `uris` option, not in a file
	lim    int  // the provider's `limit` option (0 = none)
	late   bool // the target starts listening only AFTER the gun factory ran (its reachability lookup fails)

	// round 4
	ect, dto string // expect-continue-timeout, dial.timeout: ms | "-"
	shoff    string // shared-client {enabled: false, client-number: n}: n | "-"
	doc      bool   // the documented full config
}

func optOr(s string) string {
	if s == "" {
		return "-"
	}
	return s
}

// hx: hex with run-length segments, so that megabyte bodies and kilobyte URIs stay short in the line protocol: segments
// joined by `_`, a segment is plain hex or `<n>*<hh>` for a run of n >= 16 equal bytes (every maximal run of that length
// is written so, everything else is plain: the rendering is canonical and the Lean driver produces the same one).
func hx(s string) string {
	var out strings.Builder
	var plain []byte
	flush := func() {
		if len(plain) > 0 {
			if out.Len() > 0 {
				out.WriteByte('_')
			}
			out.WriteString(hex.EncodeToString(plain))
			plain = plain[:0]
		}
	}
	for i := 0; i < len(s); {
		j := i
		for j < len(s) && s[j] == s[i] {
			j++
		}
		if j-i >= 16 {
			flush()
			if out.Len() > 0 {
				out.WriteByte('_')
			}
			fmt.Fprintf(&out, "%d*%02x", j-i, s[i])
		} else {
			plain = append(plain, s[i:j]...)
		}
		i = j
	}
	flush()
	return out.String()
}

func unhx(s string) (string, error) {
	if !strings.ContainsAny(s, "_*") {
		b, err := hex.DecodeString(s)
		return string(b), err
	}
	var out []byte
	for _, seg := range strings.Split(s, "_") {
		if n, h, ok := strings.Cut(seg, "*"); ok {
			k, err := strconv.Atoi(n)
			if err != nil || k < 0 || k > 8<<20 {
				return "", fmt.Errorf("run length")
			}
			b, err := hex.DecodeString(h)
			if err != nil {
				return "", err
			}
			out = append(out, bytes.Repeat(b, k)...)
			continue
		}
		b, err := hex.DecodeString(seg)
		if err != nil {
			return "", err
		}
		out = append(out, b...)
	}
	return string(out), nil
}

func encodeEntry(e entry) string {
	hs := make([]string, len(e.hdrs))
	for i, h := range e.hdrs {
		hs[i] = hx(h.k) + ":" + hx(h.v)
	}
	return strings.Join([]string{hx(e.method), hx(e.uri), hx(e.host), strings.Join(hs, ";"), hx(e.body), strconv.Itoa(e.minor)}, ",")
}

func encodeCase(c caseIn) string {
	b := func(x bool) string {
		if x {
			return "1"
		}
		return "0"
	}
	cs := make([]string, len(c.conf))
	for i, s := range c.conf {
		cs[i] = hx(s)
	}
	es := make([]string, len(c.ents))
	for i, e := range c.ents {
		es[i] = encodeEntry(e)
	}
	sc := make([]string, len(c.sched))
	for i, g := range c.sched {
		sc[i] = strconv.Itoa(g)
	}
	gun, rsp, mode := c.gun, c.rsp, c.mode
	if gun == "" {
		gun = "http"
	}
	if rsp == "" {
		rsp = "2"
	}
	if mode == "" {
		mode = "seq"
	}
	timing := ""
	if c.gap != 0 || c.delay != 0 || optOr(c.idle) != "-" || optOr(c.hs) != "-" || optOr(c.rht) != "-" || optOr(c.mic) != "-" ||
		optOr(c.mich) != "-" || (c.code != 0 && c.code != 200) {
		code := c.code
		if code == 0 {
			code = 200
		}
		timing = fmt.Sprintf(" gap=%d idle=%s hs=%s rht=%s mic=%s mich=%s delay=%d code=%d", c.gap, optOr(c.idle), optOr(c.hs), optOr(c.rht),
			optOr(c.mic), optOr(c.mich), c.delay, code)
	}
	if c.lay != 0 {
		timing += fmt.Sprintf(" lay=%d", c.lay)
	}
	if c.feat != 0 {
		timing += fmt.Sprintf(" feat=%d", c.feat)
	}
	if c.nodns {
		timing += " dns=0"
	}
	if c.shared != 0 {
		timing += fmt.Sprintf(" shared=%d", c.shared)
	}
	if c.redir {
		timing += " redir=1"
	}
	if c.uris {
		timing += " src=uris"
	}
	if c.lim != 0 {
		timing += fmt.Sprintf(" lim=%d", c.lim)
	}
	if c.late {
		timing += " late=1"
	}
	if optOr(c.ect) != "-" {
		timing += " ect=" + c.ect
	}
	if optOr(c.dto) != "-" {
		timing += " dto=" + c.dto
	}
	if optOr(c.shoff) != "-" {
		timing += " shoff=" + c.shoff
	}
	if c.doc {
		timing += " doc=1"
	}
	return fmt.Sprintf("kind=run gun=%s fmt=%s ssl=%s srv=%s ka=%s inst=%d tgt=%s passes=%d pre=%s rsp=%s mode=%s sched=%s%s conf=%s ents=%s",
		gun, c.format, b(c.ssl), c.srv, b(c.ka), c.inst, c.tgt, c.passes, b(c.preload), rsp, mode, strings.Join(sc, "."), timing,
		strings.Join(cs, ";"), strings.Join(es, "|"))
}

func splitList(s, sep string) []string {
	if s == "" {
		return nil
	}
	return strings.Split(s, sep)
}

func parseCase(input string) (c caseIn, err error) {
	m := drv.KV(input)
	c.format = m["fmt"]
	c.ssl = m["ssl"] == "1"
	c.srv = m["srv"]
	c.ka = m["ka"] == "1"
	c.inst, _ = strconv.Atoi(m["inst"])
	c.tgt = m["tgt"]
	c.passes, _ = strconv.Atoi(m["passes"])
	c.gun, c.rsp, c.mode = m["gun"], m["rsp"], m["mode"]
	if c.gun == "" {
		c.gun = "http"
	}
	if c.rsp == "" {
		c.rsp = "2"
	}
	if c.mode == "" {
		c.mode = "seq"
	}
	c.preload = m["pre"] == "1"
	c.idle, c.hs, c.rht, c.mic, c.mich = optOr(m["idle"]), optOr(m["hs"]), optOr(m["rht"]), optOr(m["mic"]), optOr(m["mich"])
	c.code = 200
	for _, f := range []struct {
		key string
		dst *int
		max int
	}{{"gap", &c.gap, 5000}, {"delay", &c.delay, 5000}, {"code", &c.code, 599}, {"lay", &c.lay, 3}, {"feat", &c.feat, 31},
		{"shared", &c.shared, 8}, {"lim", &c.lim, 64}} {
		if v, ok := m[f.key]; ok {
			n, e := strconv.Atoi(v)
			if e != nil || n < 0 || n > f.max {
				return c, fmt.Errorf("%s", f.key)
			}
			*f.dst = n
		}
	}
	if c.code < 200 {
		return c, fmt.Errorf("code")
	}
	c.nodns = m["dns"] == "0"
	c.redir = m["redir"] == "1"
	c.uris = m["src"] == "uris"
	c.late = m["late"] == "1"
	c.doc = m["doc"] == "1"
	c.ect, c.dto, c.shoff = optOr(m["ect"]), optOr(m["dto"]), optOr(m["shoff"])
	if c.dto != "-" {
		if n, e := strconv.Atoi(c.dto); e != nil || n < 1 || n > 1000000 {
			return c, fmt.Errorf("dto")
		}
	}
	if c.shoff != "-" {
		if n, e := strconv.Atoi(c.shoff); e != nil || n < -8 || n > 8 {
			return c, fmt.Errorf("shoff")
		}
		if c.shared != 0 {
			return c, fmt.Errorf("shared and shoff")
		}
	}
	for _, o := range []string{c.idle, c.rht, c.mic, c.mich, c.ect} {
		if o != "-" {
			if n, e := strconv.Atoi(o); e != nil || n < -100000 || n > 1000000 {
				return c, fmt.Errorf("option value")
			}
		}
	}
	if c.hs != "-" && c.hs != "def" {
		if n, e := strconv.Atoi(c.hs); e != nil || n < 1 || n > 1000000 {
			return c, fmt.Errorf("hs")
		}
	}
	for _, g := range splitList(m["sched"], ".") {
		n, e := strconv.Atoi(g)
		if e != nil || n < 0 {
			return c, fmt.Errorf("sched")
		}
		c.sched = append(c.sched, n)
	}
	for _, h := range splitList(m["conf"], ";") {
		s, e := unhx(h)
		if e != nil {
			return c, e
		}
		c.conf = append(c.conf, s)
	}
	for _, es := range splitList(m["ents"], "|") {
		f := strings.Split(es, ",")
		if len(f) != 5 && len(f) != 6 {
			return c, fmt.Errorf("entry fields")
		}
		var e entry
		e.minor = 1
		if len(f) == 6 {
			if f[5] != "0" && f[5] != "1" {
				return c, fmt.Errorf("minor")
			}
			e.minor, _ = strconv.Atoi(f[5])
		}
		if e.method, err = unhx(f[0]); err != nil {
			return
		}
		if e.uri, err = unhx(f[1]); err != nil {
			return
		}
		if e.host, err = unhx(f[2]); err != nil {
			return
		}
		for _, hs := range splitList(f[3], ";") {
			kv := strings.Split(hs, ":")
			if len(kv) != 2 {
				return c, fmt.Errorf("header fields")
			}
			var h hdrLine
			if h.k, err = unhx(kv[0]); err != nil {
				return
			}
			if h.v, err = unhx(kv[1]); err != nil {
				return
			}
			e.hdrs = append(e.hdrs, h)
		}
		if e.body, err = unhx(f[4]); err != nil {
			return
		}
		c.ents = append(c.ents, e)
	}
	if c.inst < 1 || c.inst > 8 || c.passes < 1 || c.passes > 4 || len(c.ents) == 0 {
		return c, fmt.Errorf("bounds")
	}
	switch c.format {
	case "uri", "uripost", "jsonline", "jsonarr", "raw":
	default:
		return c, fmt.Errorf("format")
	}
	switch c.tgt {
	case "127.0.0.1", "localhost", "::1":
	default:
		return c, fmt.Errorf("target")
	}
	if c.srv != "plain" && c.srv != "tls" {
		return c, fmt.Errorf("srv")
	}
	switch c.gun {
	case "http", "http2", "connect":
	default:
		return c, fmt.Errorf("gun")
	}
	if c.mode != "seq" && c.mode != "par" && c.mode != "vol" {
		return c, fmt.Errorf("mode")
	}
	if c.mode == "vol" && len(c.sched) != 0 {
		return c, fmt.Errorf("sched in volleys")
	}
	if c.rsp != "redir" {
		if n, e := strconv.Atoi(strings.TrimPrefix(c.rsp, "s")); e != nil || n < 0 || n > 4<<20 {
			return c, fmt.Errorf("rsp")
		}
	}
	for _, g := range c.sched {
		if g >= c.inst {
			return c, fmt.Errorf("sched")
		}
	}
	if c.uris && c.format != "uri" {
		return c, fmt.Errorf("src") // the provider accepts `uris` for the uri decoder only
	}
	return c, nil
}

// ---------------------------------------------------------------- rendering of the ammo file

func jsonStr(s string) string {
	b, _ := json.Marshal(s)
	return string(b)
}

// tagOf: uri/uripost entries with an odd index carry a tag
func tagOf(i int) string {
	switch i % 4 {
	case 1:
		return " tag" + strconv.Itoa(i)
	case 3:
		return " tag" + strconv.Itoa(i) + " with /blanks and?more" // the tag is the rest of the line
	}
	return ""
}

// render returns the ammo file and whether the entries can be expressed in the format at all.
func render(c caseIn) ([]byte, bool) {
	var b bytes.Buffer
	nl := "\n"
	if c.lay == 3 {
		nl = "\r\n"
	}
	// line writes one line of the file in the case's layout
	line := func(l string) {
		if c.lay == 1 {
			l = "  " + l + " \t"
		}
		b.WriteString(l + nl)
	}
	between := func(i int) {
		if c.lay == 1 && i > 0 {
			b.WriteString(nl + "   " + nl)
		}
	}
	switch c.format {
	case "uri":
		for i, e := range c.ents {
			between(i)
			for _, h := range e.hdrs {
				line(fmt.Sprintf("[%s:%s]", h.k, h.v))
			}
			line(e.uri + tagOf(i))
		}
	case "uripost":
		for i, e := range c.ents {
			between(i)
			for _, h := range e.hdrs {
				line(fmt.Sprintf("[%s:%s]", h.k, h.v))
			}
			line(fmt.Sprintf("%d %s%s", len(e.body), e.uri, tagOf(i)))
			b.WriteString(e.body)
			b.WriteString(nl)
		}
	case "jsonline", "jsonarr":
		var items []string
		for _, e := range c.ents {
			if !utf8.ValidString(e.method + e.uri + e.host + e.body) {
				return nil, false
			}
			var hs []string
			for _, h := range e.hdrs {
				if !utf8.ValidString(h.k + h.v) {
					return nil, false
				}
				hs = append(hs, jsonStr(h.k)+":"+jsonStr(h.v))
			}
			item := fmt.Sprintf(`{"host":%s,"method":%s,"uri":%s,"headers":{%s},"tag":"t","body":%s}`,
				jsonStr(e.host), jsonStr(e.method), jsonStr(e.uri), strings.Join(hs, ","), jsonStr(e.body))
			if c.lay == 3 { // one entry over several lines
				var ind bytes.Buffer
				if json.Indent(&ind, []byte(item), "", "  ") == nil {
					item = ind.String()
				}
			}
			items = append(items, item)
		}
		sep := "\n"
		if c.lay == 1 {
			sep = "\n\n  \n"
		}
		if c.format == "jsonline" {
			b.WriteString(strings.Join(items, sep) + "\n")
		} else {
			b.WriteString("[" + strings.Join(items, ","+sep) + "]\n")
		}
	case "raw":
		for i, e := range c.ents {
			between(i)
			var r bytes.Buffer
			fmt.Fprintf(&r, "%s %s HTTP/1.%d\r\n", e.method, e.uri, e.minor)
			for _, h := range e.hdrs {
				fmt.Fprintf(&r, "%s: %s\r\n", h.k, h.v)
			}
			if len(e.body) > 0 {
				fmt.Fprintf(&r, "Content-Length: %d\r\n", len(e.body))
			}
			r.WriteString("\r\n")
			r.WriteString(e.body)
			line(fmt.Sprintf("%d tag", r.Len()))
			b.Write(r.Bytes())
			b.WriteString(nl)
		}
	}
	out := b.Bytes()
	if c.lay == 2 {
		out = bytes.TrimRight(out, "\r\n")
		if c.format == "uripost" || c.format == "raw" {
			// the body of the last entry may itself end in line ends: keep them, drop only the file's own last line end
			out = b.Bytes()[:b.Len()-len(nl)]
		}
	}
	return out, true
}

// ---------------------------------------------------------------- recording target

type recorded struct {
	method, uri, host string
	tls               bool
	major             int
	header            http.Header
	body              []byte
	conn              int64
}

type target struct {
	srv     *httptest.Server
	mu      sync.Mutex
	reqs    []recorded
	tunnels []string // authorities of the CONNECT requests answered (connect gun)
	seq     atomic.Int64
	decoy   *httptest.Server
	decoyN  atomic.Int64
	// late start (round 3): the address is fixed, nobody listens there until start() is called
	addr    string
	started bool
	useTLS  bool
	isConn  bool
}

type connKey struct{}

// connectListener answers the connect gun's `CONNECT <authority>` on every accepted connection and hands the
// tunnelled connection to the HTTP server (under TLS when the case says so).
type connectListener struct {
	net.Listener
	ch   chan net.Conn
	done chan struct{}
	once sync.Once
	t    *target
}

func (l *connectListener) loop() {
	for {
		c, err := l.Listener.Accept()
		if err != nil {
			return
		}
		go l.handshake(c)
	}
}

func (l *connectListener) handshake(c net.Conn) {
	_ = c.SetDeadline(time.Now().Add(10 * time.Second))
	br := bufio.NewReader(c)
	if _, err := br.Peek(1); err != nil {
		_ = c.Close() // closed without a byte: the factory's reachability probe of a named target
		return
	}
	req, err := http.ReadRequest(br)
	if err != nil || req.Method != "CONNECT" || br.Buffered() != 0 {
		why := "!not-a-connect"
		if err != nil {
			why = "!read-error " + err.Error()
		} else if req.Method != "CONNECT" {
			why = "!method " + req.Method
		}
		l.t.mu.Lock()
		l.t.tunnels = append(l.t.tunnels, why)
		l.t.mu.Unlock()
		_ = c.Close()
		return
	}
	l.t.mu.Lock()
	l.t.tunnels = append(l.t.tunnels, req.RequestURI)
	l.t.mu.Unlock()
	if _, err := io.WriteString(c, "HTTP/1.1 200 OK\r\n\r\n"); err != nil {
		_ = c.Close()
		return
	}
	_ = c.SetDeadline(time.Time{})
	select {
	case l.ch <- c:
	case <-l.done:
		_ = c.Close()
	}
}

func (l *connectListener) Accept() (net.Conn, error) {
	select {
	case c := <-l.ch:
		return c, nil
	case <-l.done:
		return nil, net.ErrClosed
	}
}

func (l *connectListener) Close() error {
	l.once.Do(func() { close(l.done) })
	return l.Listener.Close()
}

// listenLoopback listens on a loopback port OUTSIDE the kernel's ephemeral range (32768-60999). A port handed out by bind(0) may
// just have been released by the server of another process on this machine whose clients keep reconnecting to it (seen: the
// `PRI * HTTP/2.0` preface of a foreign HTTP/2 client recorded as a third request of a two-entry case); nobody reconnects to a
// port that bind(0) never hands out. The port number never shows in an observation.
var (
	portMu  sync.Mutex
	portRnd = rand.New(rand.NewSource(time.Now().UnixNano() ^ int64(os.Getpid())<<20))
)

func listenLoopback(v6 bool) (net.Listener, error) {
	network, host := "tcp4", "127.0.0.1"
	if v6 {
		network, host = "tcp6", "::1"
	}
	var lastErr error
	for i := 0; i < 200; i++ {
		portMu.Lock()
		port := 10240 + portRnd.Intn(32000-10240)
		portMu.Unlock()
		l, err := net.Listen(network, net.JoinHostPort(host, strconv.Itoa(port)))
		if err == nil {
			return l, nil
		}
		lastErr = err
	}
	return nil, lastErr
}

func newTarget(c caseIn) (*target, error) {
	t := &target{}
	useTLS, v6 := c.srv == "tls", c.tgt == "::1"
	rspN := 0
	if c.rsp == "redir" {
		dl, err := listenLoopback(false)
		if err != nil {
			return nil, err
		}
		t.decoy = &httptest.Server{Listener: dl, Config: &http.Server{Handler: http.HandlerFunc(func(w http.ResponseWriter, r *http.Request) {
			t.decoyN.Add(1)
		})}}
		t.decoy.Start()
	} else {
		rspN, _ = strconv.Atoi(strings.TrimPrefix(c.rsp, "s"))
	}
	// round 6: rsp=s<n> — the answer is STREAMED: three pieces, flushed, 25 ms apart (chunked transfer coding; the header
	// arrives long before the end of the body)
	streamed := strings.HasPrefix(c.rsp, "s")
	rspBody := bytes.Repeat([]byte("r"), rspN)
	h := http.HandlerFunc(func(w http.ResponseWriter, r *http.Request) {
		if r.URL.Path == controlPath {
			return // the harness's own reachability probe (see target.control): not a request of the case
		}
		body, _ := io.ReadAll(r.Body)
		id, _ := r.Context().Value(connKey{}).(int64)
		t.mu.Lock()
		t.reqs = append(t.reqs, recorded{method: r.Method, uri: r.RequestURI, host: r.Host, tls: r.TLS != nil,
			major: r.ProtoMajor, header: r.Header.Clone(), body: body, conn: id})
		t.mu.Unlock()
		if c.delay > 0 {
			time.Sleep(time.Duration(c.delay) * time.Millisecond)
		}
		if t.decoy != nil {
			http.Redirect(w, r, t.decoy.URL+"/decoy", http.StatusFound)
			return
		}
		w.Header().Set("Content-Type", "text/plain")
		if c.code != 200 && c.code != 0 {
			w.WriteHeader(c.code)
		}
		if streamed && len(rspBody) >= 3 {
			third := len(rspBody) / 3
			for i, piece := range [][]byte{rspBody[:third], rspBody[third : 2*third], rspBody[2*third:]} {
				if i > 0 {
					time.Sleep(25 * time.Millisecond)
				}
				_, _ = w.Write(piece)
				if f, ok := w.(http.Flusher); ok {
					f.Flush()
				}
			}
			return
		}
		_, _ = w.Write(rspBody) // refused by net/http for the statuses that carry no body
	})
	l, err := listenLoopback(v6)
	if err != nil {
		if t.decoy != nil {
			t.decoy.Close()
		}
		return nil, err
	}
	srv := &httptest.Server{Listener: l, Config: &http.Server{Handler: h}}
	srv.EnableHTTP2 = c.gun == "http2"
	srv.Config.ErrorLog = log.New(io.Discard, "", 0)
	srv.Config.ConnContext = func(ctx context.Context, c net.Conn) context.Context {
		return context.WithValue(ctx, connKey{}, t.seq.Add(1))
	}
	t.srv = srv
	t.addr = l.Addr().String()
	t.useTLS, t.isConn = useTLS, c.gun == "connect"
	if c.late {
		// the port is chosen, but nothing listens there yet: the gun factory's reachability lookup will be refused
		_ = l.Close()
		srv.Listener = nil
		return t, nil
	}
	return t, t.start()
}

// start lets the target listen (again, at the address chosen before, when the case starts it late) and serve.
func (t *target) start() error {
	if t.started {
		return nil
	}
	if t.srv.Listener == nil {
		network := "tcp4"
		if strings.HasPrefix(t.addr, "[") {
			network = "tcp6"
		}
		var l net.Listener
		var err error
		for i := 0; i < 20; i++ {
			if l, err = net.Listen(network, t.addr); err == nil {
				break
			}
			time.Sleep(50 * time.Millisecond)
		}
		if err != nil {
			return err
		}
		t.srv.Listener = l
	}
	if t.isConn {
		cl := &connectListener{Listener: t.srv.Listener, ch: make(chan net.Conn), done: make(chan struct{}), t: t}
		go cl.loop()
		t.srv.Listener = cl
	}
	if t.useTLS {
		t.srv.StartTLS()
	} else {
		t.srv.Start()
	}
	t.started = true
	return nil
}

const controlPath = "/__c09_control"

// persistedFailures counts the cases of this run whose shots kept failing below HTTP while the control probe reached the target
var persistedFailures atomic.Int64

// control answers: can this target be reached right now from this process, without any pandora code? A raw TCP dial, the
// CONNECT exchange when the target is a tunnel end, a TLS handshake when it speaks TLS, one HTTP/1.1 request. When a shot of
// the case failed below HTTP although the scheme fits and the control fails as well, the trouble is the machine's (a loaded
// machine drops connections in bursts); when the control succeeds the failure is the code's and is reported.
func (t *target) control(c caseIn) error {
	addr := t.addr
	d := net.Dialer{Timeout: 5 * time.Second}
	conn, err := d.Dial("tcp", addr)
	if err != nil {
		return err
	}
	defer conn.Close()
	_ = conn.SetDeadline(time.Now().Add(10 * time.Second))
	if c.gun == "connect" {
		if _, err := fmt.Fprintf(conn, "CONNECT %s HTTP/1.1\r\nHost: %s\r\n\r\n", addr, addr); err != nil {
			return err
		}
		br := bufio.NewReader(conn)
		res, err := http.ReadResponse(br, nil)
		if err != nil {
			return err
		}
		if res.StatusCode != http.StatusOK || br.Buffered() != 0 {
			return fmt.Errorf("control: CONNECT answered %d", res.StatusCode)
		}
	}
	var rw io.ReadWriter = conn
	if c.srv == "tls" {
		tc := tls.Client(conn, &tls.Config{InsecureSkipVerify: true, NextProtos: []string{"http/1.1"}})
		if err := tc.Handshake(); err != nil {
			return err
		}
		rw = tc
	}
	if _, err := io.WriteString(rw, "GET "+controlPath+" HTTP/1.1\r\nHost: control\r\nConnection: close\r\n\r\n"); err != nil {
		return err
	}
	res, err := http.ReadResponse(bufio.NewReader(rw), nil)
	if err != nil {
		return err
	}
	_ = res.Body.Close()
	if res.StatusCode != http.StatusOK {
		return fmt.Errorf("control: status %d", res.StatusCode)
	}
	return nil
}

func (t *target) Close() {
	if t.started {
		t.srv.Close()
	}
	if t.decoy != nil {
		t.decoy.Close()
	}
}

// errAggregator remembers whether a shot failed for a reason that is the machine's, not the code's (ephemeral ports
// or descriptors exhausted, a handshake that timed out on a loaded machine): such a case is run again, and reported as
// ENV (skipped by the model driver) when it keeps happening.
type errAggregator struct {
	mu  sync.Mutex
	env string
	// net: a shot failed below HTTP (dial, reset, EOF, TLS) — expected when the scheme does not fit the target, otherwise
	// the case is run again: a transient trouble of the machine disappears, a defect of the code does not
	net string
	// the case asks for it: response-header-timeout shorter than the target's delay
	expectRHT bool
	// a response-header-timeout is configured at all (only then can a slow machine run into it)
	haveRHT bool
	// outcome of the control probe of the target, run when a shot failed below HTTP: "" (not run), "ok", or the error
	control string
}

const rhtMsg = "timeout awaiting response headers"

var envErrors = []string{"cannot assign requested address", "too many open files", "i/o timeout", "handshake timeout",
	"context deadline exceeded", "no buffer space", "connection timed out", "Timeout exceeded"}

func (a *errAggregator) Run(ctx context.Context, deps core.AggregatorDeps) error { return nil }
func (a *errAggregator) Report(s core.Sample) {
	ns, ok := s.(*netsample.Sample)
	if !ok || ns.Err() == nil {
		return
	}
	msg := ns.Err().Error()
	if os.Getenv("C09_DEBUG_ERRS") != "" {
		fmt.Fprintln(os.Stderr, "shot error:", msg)
	}
	if strings.Contains(msg, rhtMsg) {
		if a.expectRHT {
			return
		}
		if a.haveRHT {
			a.mu.Lock()
			a.env = "response-header-timeout"
			a.mu.Unlock()
		}
		// without a configured timeout the error is no trouble of the machine: it is reported like any other failed shot
	}
	if !strings.HasPrefix(msg, "net/http: invalid header field") {
		a.mu.Lock()
		a.net = msg
		a.mu.Unlock()
	}
	for _, e := range envErrors {
		if strings.Contains(msg, e) {
			a.mu.Lock()
			a.env = strings.ReplaceAll(e, " ", "-")
			a.mu.Unlock()
		}
	}
}

// ---------------------------------------------------------------- one case

var dropAlways = map[string]bool{"Content-Length": true, "Transfer-Encoding": true, "Connection": true}

func runCase(input string) string {
	setup()
	c, perr := parseCase(input)
	expectNetErrors := perr == nil && (c.srv == "tls") != c.ssl
	obs := ""
	attempts := 5
	if perr == nil && (c.gap > 0 || c.delay > 0) {
		attempts = 3 // the cases that pause are slow already
	}
	if persistedFailures.Load() > 20 {
		attempts = 2 // the tree is broken beyond doubt: do not spend minutes on confirming every case five times
	}
	best, extra := "", 0
	for attempt := 0; attempt < attempts; attempt++ {
		agg := &errAggregator{}
		if perr == nil && c.rht != "-" {
			if v, _ := strconv.Atoi(c.rht); v > 0 {
				agg.haveRHT = true
				agg.expectRHT = c.delay >= v
			}
		}
		obs = runWith(input, agg)
		agg.mu.Lock()
		env, neterr, control := agg.env, agg.net, agg.control
		agg.mu.Unlock()
		unexpectedNet := neterr != "" && !expectNetErrors
		if env == "" && unexpectedNet && control != "" && control != "ok" {
			env = "target-unreachable-for-the-control-probe"
		}
		if os.Getenv("C09_DEBUG_ERRS") != "" && (env != "" || unexpectedNet) {
			fmt.Fprintf(os.Stderr, "retry %d: env=%q net=%q control=%q obs=%s\n", attempt, env, neterr, control, drv.Trunc(obs, 80))
		}
		if env == "" && !unexpectedNet && !strings.Contains(obs, "tun=bad:21") {
			// More connections than transports although keep-alives are on and the case does not pause: either the case asks for it
			// (Connection: close, idle limits: the same at every attempt), or the code does not reuse (the same at every attempt), or
			// the machine starved net/http's write loop for more than the 50 ms the transport waits before it gives a connection up
			// (maxWriteWaitBeforeConnReuse; seen once in 75000 cases under load average 100). The case is run up to two more
			// times and the attempt with the fewest connections is reported: what is deterministic stays, what the machine did goes.
			if perr == nil && reuseSuspect(c, obs) && extra < 2 && attempt < attempts-1 {
				if best == "" || connsOf(obs) < connsOf(best) {
					best = obs
				}
				extra++
				continue
			}
			if best != "" && connsOf(best) <= connsOf(obs) {
				return best
			}
			return obs
		}
		if attempt == attempts-1 {
			if env != "" {
				return "ENV " + env
			}
			persistedFailures.Add(1)
			return obs // it persists while the control probe reaches the target: not the machine
		}
		time.Sleep(time.Duration(200<<attempt) * time.Millisecond)
	}
	return obs
}

func connsOf(obs string) int {
	n, _ := strconv.Atoi(drv.KV(obs)["conns"])
	return n
}

// reuseSuspect: keep-alives on, nothing in the case's own options or timing stands against reuse (no pauses at all, or pauses and
// delays at least five times below the idle / response-header timeout in force, no idle limits given), and the target saw more
// connections than the case has transports
func reuseSuspect(c caseIn, obs string) bool {
	if !c.ka || !strings.HasPrefix(obs, "n=") {
		return false
	}
	if c.gap != 0 || c.delay != 0 {
		if c.mic != "-" || c.mich != "-" {
			return false
		}
		idle := 90000
		if c.idle != "-" {
			idle, _ = strconv.Atoi(c.idle)
		}
		if idle > 0 && 5*c.gap*maxInt(1, c.inst) > idle {
			return false
		}
		if c.rht != "-" {
			if rht, _ := strconv.Atoi(c.rht); rht > 0 && 5*c.delay > rht {
				return false
			}
		}
	}
	pools := c.inst
	if c.shared > 0 && c.shared < pools {
		pools = c.shared
	}
	if c.shared > 0 && c.mode != "seq" {
		return false // several guns on one transport at a time: more connections than transports is what net/http does
	}
	return connsOf(obs) > pools
}

func maxInt(a, b int) int {
	if a > b {
		return a
	}
	return b
}

func runWith(input string, agg *errAggregator) string {
	c, err := parseCase(input)
	if err != nil {
		return "BAD-INPUT " + err.Error()
	}
	if c.tgt == "::1" && !haveV6 {
		return "ENV no-ipv6-loopback"
	}
	if c.tgt == "localhost" && !haveLocal {
		return "ENV no-localhost"
	}
	file, ok := render(c)
	if !ok {
		return "BAD-INPUT not-expressible"
	}
	tg, err := newTarget(c)
	if err != nil {
		return "ENV listen"
	}
	defer tg.Close()
	_, port, _ := net.SplitHostPort(tg.addr)
	targetAddr := net.JoinHostPort(c.tgt, port)

	path := fmt.Sprintf("/c09/ammo-%d", fileSeq.Add(1))
	if err := afero.WriteFile(memFS, path, file, 0o644); err != nil {
		return "ENV writefile"
	}
	defer func() { _ = memFS.Remove(path) }()

	ammoType := map[string]string{"uri": "uri", "uripost": "uripost", "jsonline": "http/json", "jsonarr": "http/json", "raw": "raw"}[c.format]
	headers := make([]any, len(c.conf))
	for i, h := range c.conf {
		headers[i] = h
	}
	ammoCfg := map[string]any{"type": ammoType, "file": path, "headers": headers, "passes": c.passes}
	if c.preload {
		ammoCfg["preload"] = true
	}
	if c.uris {
		// the same lines, given in the config instead of a file (provider.go uriReadSeekCloser)
		delete(ammoCfg, "file")
		var lines []any
		for _, l := range strings.Split(strings.TrimSuffix(string(file), "\n"), "\n") {
			lines = append(lines, l)
		}
		ammoCfg["uris"] = lines
	}
	if c.lim > 0 {
		ammoCfg["limit"] = c.lim
	}
	// generous timeouts (not part of the property): a TLS handshake may take long on a loaded machine
	gunCfg := map[string]any{"type": c.gun, "target": targetAddr, "ssl": c.ssl, "tls-handshake-timeout": "20s",
		"dial": map[string]any{"timeout": "20s"}}
	if !c.ka {
		gunCfg["disable-keep-alives"] = true
	}
	if c.nodns {
		gunCfg["dial"] = map[string]any{"timeout": "20s", "dns-cache": false}
	}
	if c.feat&1 != 0 {
		gunCfg["auto-tag"] = map[string]any{"enabled": true, "uri-elements": 2, "no-tag-only": false}
	}
	if c.feat&2 != 0 {
		gunCfg["answlog"] = map[string]any{"enabled": true, "path": "/dev/null", "filter": "all"}
	}
	if c.feat&12 != 0 {
		gunCfg["httptrace"] = map[string]any{"trace": c.feat&4 != 0, "dump": c.feat&8 != 0}
	}
	if c.shared > 0 {
		gunCfg["shared-client"] = map[string]any{"enabled": true, "client-number": c.shared}
	}
	if c.redir {
		gunCfg["redirect"] = true
	}
	// round 2: the transport's options, by their documented names
	ms := func(v string) string { return v + "ms" }
	switch c.hs {
	case "-":
	case "def":
		delete(gunCfg, "tls-handshake-timeout")
	default:
		gunCfg["tls-handshake-timeout"] = ms(c.hs)
	}
	if c.idle != "-" {
		gunCfg["idle-conn-timeout"] = ms(c.idle)
	}
	if c.rht != "-" {
		gunCfg["response-header-timeout"] = ms(c.rht)
	}
	if c.mic != "-" {
		gunCfg["max-idle-conns"], _ = strconv.Atoi(c.mic)
	}
	if c.mich != "-" {
		gunCfg["max-idle-conns-per-host"], _ = strconv.Atoi(c.mich)
	}
	// round 4
	if c.ect != "-" {
		gunCfg["expect-continue-timeout"] = ms(c.ect)
	}
	if c.dto != "-" {
		d, _ := gunCfg["dial"].(map[string]any)
		d["timeout"] = ms(c.dto)
	}
	if c.shoff != "-" {
		n, _ := strconv.Atoi(c.shoff)
		gunCfg["shared-client"] = map[string]any{"enabled": false, "client-number": n}
	}
	if c.doc {
		// the "full config" of docs/eng/http-generator.md, value by value; what the case itself says stands
		def := func(k string, v any) {
			if _, ok := gunCfg[k]; !ok {
				gunCfg[k] = v
			}
		}
		if c.hs == "-" {
			gunCfg["tls-handshake-timeout"] = "1s"
		}
		def("connect-ssl", false)
		def("disable-keep-alives", false)
		def("disable-compression", true)
		def("max-idle-conns", 0)
		def("max-idle-conns-per-host", 2)
		def("idle-conn-timeout", "90s")
		def("response-header-timeout", 0)
		def("expect-continue-timeout", "1s")
		def("shared-client", map[string]any{"enabled": false, "client-number": 1})
		d, _ := gunCfg["dial"].(map[string]any)
		if c.dto == "-" {
			d["timeout"] = "1s"
		}
		if _, ok := d["dns-cache"]; !ok {
			d["dns-cache"] = true
		}
		d["dual-stack"], d["fallback-delay"], d["keep-alive"] = true, "300ms", "120s"
		def("answlog", map[string]any{"enabled": true, "path": "/dev/null", "filter": "all"})
		def("auto-tag", map[string]any{"enabled": true, "uri-elements": 2, "no-tag-only": true})
		def("httptrace", map[string]any{"dump": true, "trace": true})
	}
	var pool struct {
		Provider core.Provider            `config:"ammo"`
		NewGun   func() (core.Gun, error) `config:"gun"`
	}
	if err := config.DecodeAndValidate(map[string]any{"ammo": ammoCfg, "gun": gunCfg}, &pool); err != nil {
		if strings.Contains(err.Error(), "header line wrong format") || strings.Contains(err.Error(), "missing header key") {
			return "provider-err"
		}
		return "construct-err " + drv.Trunc(err.Error(), 200)
	}
	if err := tg.start(); err != nil { // late=1: the target comes up after the gun factory ran
		return "ENV listen-late"
	}

	ctx, cancel := context.WithCancel(context.Background())
	defer cancel()
	nop := zap.NewNop()
	gunLog := nop
	if c.feat&16 != 0 {
		gunLog = zap.New(zapcore.NewCore(zapcore.NewJSONEncoder(zap.NewProductionEncoderConfig()), zapcore.AddSync(io.Discard), zapcore.DebugLevel))
	}
	runErr := make(chan error, 1)
	go func() { runErr <- pool.Provider.Run(ctx, core.ProviderDeps{Log: nop, PoolID: "c09"}) }()

	// as core/engine does (instancePool.warmUpGun): one more gun is created for the warm-up only, its result is handed to
	// every instance's Bind as GunDeps.Shared (the shared-client pool lives there), then it is closed
	var sharedDeps any
	{
		wg, err := pool.NewGun()
		if err != nil {
			return "construct-err gun"
		}
		if w, ok := wg.(warmup.WarmedUp); ok {
			sharedDeps, err = w.WarmUp(&warmup.Options{Log: nop, Ctx: ctx})
			if err != nil {
				return "construct-err warmup"
			}
		}
		if cl, ok := wg.(io.Closer); ok {
			_ = cl.Close()
		}
	}
	guns := make([]core.Gun, c.inst)
	for i := range guns {
		g, err := pool.NewGun()
		if err != nil {
			return "construct-err gun"
		}
		if err := g.Bind(agg, core.GunDeps{Ctx: ctx, Log: gunLog, PoolID: "c09", InstanceID: i, Shared: sharedDeps}); err != nil {
			return "construct-err bind"
		}
		guns[i] = g
	}
	gunOf := func(j int) int {
		if len(c.sched) == 0 {
			return j % c.inst
		}
		return c.sched[j%len(c.sched)]
	}
	shots := 0
	gunPanic := ""
	// timing margins (tm=late): see the head comment
	idleMs, rhtMs := 90000, 0
	if c.idle != "-" {
		idleMs, _ = strconv.Atoi(c.idle)
	}
	if c.rht != "-" {
		rhtMs, _ = strconv.Atoi(c.rht)
	}
	var late atomic.Bool
	prevEnd := make([]time.Time, c.inst)
	prevIdx := make([]int, c.inst)
	for i := range prevIdx {
		prevIdx[i] = -1
	}
	gap := time.Duration(c.gap) * time.Millisecond
	// timedShoot: gun g shoots its shot number idx (seq: index in the case, par: index among the gun's own shots)
	timedShoot := func(g, idx int, a core.Ammo) {
		start := time.Now()
		if prevIdx[g] >= 0 && idleMs > 0 {
			// the connection was idle since the gun's previous shot was ANSWERED
			nominal := (idx - prevIdx[g]) * c.gap
			if c.mode == "seq" {
				nominal += (idx - prevIdx[g] - 1) * c.delay // the shots of the other guns in between are answered late as well
			}
			if nominal < idleMs && start.Sub(prevEnd[g]) > time.Duration(idleMs)*time.Millisecond*6/10 {
				late.Store(true)
			}
		}
		prevIdx[g] = idx
		guns[g].Shoot(a)
		prevEnd[g] = time.Now()
		if rhtMs > 0 && c.delay < rhtMs && time.Since(start) > time.Duration(rhtMs)*time.Millisecond*6/10 {
			late.Store(true)
		}
	}
	if c.mode == "seq" {
		for {
			a, ok := pool.Provider.Acquire()
			if !ok {
				break
			}
			if shots > 0 && gap > 0 {
				time.Sleep(gap)
			}
			timedShoot(gunOf(shots), shots, a)
			pool.Provider.Release(a)
			shots++
			if shots > 64 {
				break
			}
		}
	} else if c.mode == "vol" {
		// volleys: gun j % inst takes the j-th ammo; the guns of a volley start together and the next volley waits for all answers
		var all []core.Ammo
		for {
			a, ok := pool.Provider.Acquire()
			if !ok {
				break
			}
			all = append(all, a)
			shots++
			if shots > 64 {
				break
			}
		}
		var pmu sync.Mutex
		for v := 0; v*c.inst < len(all); v++ {
			if v > 0 && gap > 0 {
				time.Sleep(gap)
			}
			volley := all[v*c.inst:]
			if len(volley) > c.inst {
				volley = volley[:c.inst]
			}
			start := make(chan struct{})
			var wg sync.WaitGroup
			for i, a := range volley {
				wg.Add(1)
				go func(i, v int, a core.Ammo) {
					defer wg.Done()
					defer func() {
						if r := recover(); r != nil {
							pmu.Lock()
							gunPanic = drv.Clean(fmt.Sprint(r))
							pmu.Unlock()
						}
					}()
					<-start
					timedShoot(i, v, a)
					pool.Provider.Release(a)
				}(i, v, a)
			}
			close(start)
			wg.Wait()
		}
	} else {
		share := make([][]core.Ammo, c.inst)
		for {
			a, ok := pool.Provider.Acquire()
			if !ok {
				break
			}
			share[gunOf(shots)] = append(share[gunOf(shots)], a)
			shots++
			if shots > 64 {
				break
			}
		}
		var wg sync.WaitGroup
		var pmu sync.Mutex
		for i := range guns {
			wg.Add(1)
			go func(i int) {
				defer wg.Done()
				defer func() {
					if r := recover(); r != nil {
						pmu.Lock()
						gunPanic = drv.Clean(fmt.Sprint(r))
						pmu.Unlock()
					}
				}()
				for k, a := range share[i] {
					if k > 0 && gap > 0 {
						time.Sleep(gap)
					}
					timedShoot(i, k, a)
					pool.Provider.Release(a)
				}
			}(i)
		}
		wg.Wait()
	}
	if gunPanic != "" {
		return "PANIC in gun goroutine: " + drv.Trunc(gunPanic, 200)
	}
	cancel()
	run := "ok"
	select {
	case err := <-runErr:
		if err != nil && err != context.Canceled {
			run = "err"
		}
	case <-time.After(5 * time.Second):
		run = "hang"
	}
	agg.mu.Lock()
	failedBelowHTTP := agg.net != ""
	agg.mu.Unlock()
	if failedBelowHTTP && (c.srv == "tls") == c.ssl {
		res := "ok"
		if err := tg.control(c); err != nil {
			res = drv.Trunc(drv.Clean(err.Error()), 120)
		}
		agg.mu.Lock()
		agg.control = res
		agg.mu.Unlock()
	}
	// the target hangs up first: the TIME_WAIT state then lies with the target's port, not with the ephemeral ports of
	// the guns (tens of thousands of cases would exhaust them)
	tg.srv.CloseClientConnections()
	for _, g := range guns {
		if cl, ok := g.(io.Closer); ok {
			_ = cl.Close()
		}
	}

	tg.mu.Lock()
	reqs := append([]recorded(nil), tg.reqs...)
	tunnels := append([]string(nil), tg.tunnels...)
	tg.mu.Unlock()
	conns := map[int64]bool{}
	rs := make([]string, len(reqs))
	defaultUA := "Go-http-client/1.1"
	if c.gun == "http2" {
		defaultUA = "Go-http-client/2.0"
	}
	for i, r := range reqs {
		conns[r.conn] = true
		host := strings.ReplaceAll(r.host, targetAddr, "TARGETADDR")
		names := make([]string, 0, len(r.header))
		for k, vv := range r.header {
			if dropAlways[k] {
				continue
			}
			if k == "User-Agent" && len(vv) == 1 && vv[0] == defaultUA {
				continue
			}
			names = append(names, k)
		}
		sort.Strings(names)
		hs := make([]string, len(names))
		for j, k := range names {
			vs := []string{hx(k)}
			for _, v := range r.header[k] {
				vs = append(vs, hx(v))
			}
			hs[j] = strings.Join(vs, ":")
		}
		t := "0"
		if r.tls {
			t = "1"
		}
		rs[i] = strings.Join([]string{hx(r.method), hx(r.uri), hx(host), t, strings.Join(hs, ";"), hx(string(r.body)), strconv.Itoa(r.major)}, ",")
	}
	if c.mode == "par" || c.mode == "vol" {
		sort.Strings(rs)
	}
	// the CONNECT authority must be the gun's (resolved) target
	tun := "-"
	if c.gun == "connect" {
		tun = "ok"
		if len(tunnels) == 0 && len(reqs) > 0 {
			tun = "bad:none"
		}
		for _, a := range tunnels {
			h, p, err := net.SplitHostPort(a)
			okHost := h == c.tgt || (c.tgt == "localhost" && (h == "127.0.0.1" || h == "::1"))
			if err != nil || p != port || !okHost {
				tun = "bad:" + hx(a)
			}
		}
	}
	tm := "ok"
	if late.Load() {
		tm = "late"
	}
	return fmt.Sprintf("n=%d shots=%d conns=%d run=%s tun=%s decoy=%d tm=%s reqs=%s", len(reqs), shots, len(conns), run, tun,
		tg.decoyN.Load(), tm, strings.Join(rs, "|"))
}

func c09Run(input string) string {
	m := drv.KV(input)
	switch m["kind"] {
	case "canon":
		k, err := unhx(m["key"])
		if err != nil {
			return "BAD-INPUT"
		}
		return "canon=" + hx(textproto.CanonicalMIMEHeaderKey(k))
	case "run":
		return runCase(input)
	}
	return "BAD-INPUT kind"
}

// ---------------------------------------------------------------- generators

var baseNames = []string{"X-A", "X-B", "X-Req-Id", "Accept", "User-Agent", "Content-Type", "Authorization", "Cookie",
	"Accept-Language", "x_under", "x.dot", "X-1a", "Referer", "Cache-Control"}

func caseVariant(r *rand.Rand, n string) string {
	switch r.Intn(5) {
	case 0:
		return strings.ToLower(n)
	case 1:
		return strings.ToUpper(n)
	case 2:
		return textproto.CanonicalMIMEHeaderKey(n)
	case 3:
		b := []byte(n)
		for i := range b {
			if r.Intn(2) == 0 {
				b[i] = byte(strings.ToUpper(string(b[i]))[0])
			} else {
				b[i] = byte(strings.ToLower(string(b[i]))[0])
			}
		}
		return string(b)
	}
	return n
}

var valueWords = []string{"file", "conf", "v1", "v2", "a b", "with:colon", "text/plain; charset=utf-8", "Bearer xxx", "k=v; k2=v2",
	"", "x]y", "[z", "ünï", "0", "*/*", "two  blanks", "tab\tin  side", "a   b  :  c"} // round 4: runs of blanks / a tab INSIDE a value stay

func genValue(r *rand.Rand, who string) string {
	w := valueWords[r.Intn(len(valueWords))]
	if r.Intn(3) == 0 {
		return w
	}
	return who + "-" + w + strconv.Itoa(r.Intn(10))
}

var hostWords = []string{"ammo.example.org", "decoy.invalid:81", "h2.example.org:8080", "UPPER.example.org", "10.255.255.1:9"}

var pathWords = []string{"/", "/a", "/a/b/c", "/p?x=1&y=2", "/%41bc", "/a.b-c_d~e", "/q?", "/x/?k=v%20w", "/very/long/" + strings.Repeat("p", 200),
	"/a;b=c", "/a:b@c", "/search?q=a+b&r=%2F", "/*", "/index.html?"}

// network-path references: `//authority/path` — url.Parse (uri, uripost) takes the authority as Host, ParseRequestURI (raw)
// and the "http://"+host+uri of http/json keep everything as path
var netPathWords = []string{"//decoy.invalid/x", "//double/slash?x=1", "//h2.example.org:8080", "///triple/slash", "//"}

var connWords = []string{"close", "keep-alive", "Close", "Keep-Alive", "CLOSE"}

func genURI(r *rand.Rand, allowAbs bool) string {
	if r.Intn(14) == 0 {
		return netPathWords[r.Intn(len(netPathWords))]
	}
	p := pathWords[r.Intn(len(pathWords))]
	if allowAbs && r.Intn(4) == 0 {
		scheme := []string{"http://", "https://"}[r.Intn(2)]
		h := hostWords[r.Intn(len(hostWords))]
		if r.Intn(6) == 0 {
			return scheme + h // no path at all
		}
		return scheme + h + p
	}
	return p
}

// bigBody: more than 1 MiB (the decoders read bodies in chunks of 1 MiB: readSized), different bytes either side of the boundary
func bigBody(r *rand.Rand) string {
	return strings.Repeat("A", 600000+r.Intn(400000)) + "-mid-" + strings.Repeat("B", 448576+r.Intn(300000)) + "end"
}

func genBody(r *rand.Rand, text bool) string {
	if r.Intn(500) == 0 {
		return bigBody(r)
	}
	switch r.Intn(7) {
	case 0:
		return ""
	case 1:
		return "class"
	case 2:
		return `{"a": "b", "n": [1,2,3]}`
	case 3:
		if text {
			return "line1\nline2\r\n\ttab \"quoted\" \\ ünïcode €"
		}
		b := make([]byte, 1+r.Intn(40))
		for i := range b {
			b[i] = byte(r.Intn(256))
		}
		return string(b)
	case 4:
		if text {
			return strings.Repeat("x", 1+r.Intn(3000))
		}
		n := 1 + r.Intn(5000)
		if r.Intn(10) == 0 {
			n = 1 + r.Intn(70000) // beyond the 64 KiB of a bufio.Scanner token
		}
		b := make([]byte, n)
		for i := range b {
			b[i] = byte(i * 7)
		}
		return string(b)
	case 5:
		return "\n\n[X-A: not a header]\n5 /not-a-uri\n"
	}
	return "a=1&b=2"
}

var methods = []string{"GET", "POST", "PUT", "DELETE", "PATCH", "OPTIONS", "HEAD", "PURGE", "get", "M-SEARCH"}

func pad(r *rand.Rand, s string) string {
	switch r.Intn(4) {
	case 0:
		return " " + s
	case 1:
		return s + " "
	case 2:
		return "  " + s + "\t"
	}
	return s
}

func genCase(r *rand.Rand, malformed bool) caseIn {
	c := caseIn{}
	c.format = []string{"uri", "uripost", "jsonline", "jsonarr", "raw"}[r.Intn(5)]
	c.ssl = r.Intn(2) == 0
	c.srv = map[bool]string{true: "tls", false: "plain"}[c.ssl]
	if r.Intn(12) == 0 { // scheme/server mismatch: nothing may arrive
		c.srv = map[bool]string{true: "plain", false: "tls"}[c.ssl]
	}
	c.ka = r.Intn(3) != 0
	c.inst = 1 + r.Intn(4)
	switch r.Intn(10) {
	case 0, 1:
		c.gun = "connect"
	case 2, 3:
		c.gun = "http2"
		if r.Intn(8) != 0 { // the http2 gun needs ssl; now and then ask for it without
			c.ssl = true
			c.srv = "tls"
		}
	default:
		c.gun = "http"
	}
	c.preload = r.Intn(8) == 0
	c.rsp = []string{"0", "2", "2", "700", "5000", "5000", "70000", "redir", "s9000", "s300"}[r.Intn(10)]
	if r.Intn(60) == 0 {
		c.rsp = []string{"1600000", "s2400000"}[r.Intn(2)] // round 6: answers beyond a megabyte (read to the end or the connection is lost)
	}
	c.mode = "seq"
	if c.inst > 1 && r.Intn(5) == 0 {
		c.mode = "par"
	}
	if r.Intn(3) == 0 {
		n := 1 + r.Intn(6)
		for i := 0; i < n; i++ {
			c.sched = append(c.sched, r.Intn(c.inst))
		}
	}
	switch r.Intn(6) {
	case 0:
		c.tgt = "localhost"
	case 1:
		c.tgt = "::1"
	default:
		c.tgt = "127.0.0.1"
	}
	c.passes = 1
	if r.Intn(5) == 0 {
		c.passes = 2
	}
	if r.Intn(3) == 0 {
		c.lay = 1 + r.Intn(3)
	}
	if r.Intn(5) == 0 {
		c.feat = 1 << r.Intn(5)
		if r.Intn(3) == 0 {
			c.feat = 1 + r.Intn(31)
		}
	}
	if c.tgt != "localhost" && r.Intn(12) == 0 {
		c.nodns = true
	}
	// round 2: answer status and transport options (no pauses here: see timedCases)
	if c.rsp != "redir" && r.Intn(4) == 0 {
		c.code = []int{404, 500, 201, 204, 304, 503, 400}[r.Intn(7)]
	}
	if r.Intn(6) == 0 {
		switch r.Intn(6) {
		case 0:
			c.idle = []string{"60000", "0", "-1000", "5000"}[r.Intn(4)]
			if c.gun == "http2" && c.idle == "-1000" {
				c.idle = "45000" // x/net/http2 arms its idle timer with a negative timeout too: outside
			}
		case 1:
			if c.gun != "http2" { // x/net/http2 arms its timers with negative timeouts too: outside
				c.rht = []string{"20000", "0", "-5"}[r.Intn(3)]
			}
		case 2:
			if c.gun != "http2" {
				c.mich = []string{"-1", "1", "5", "0"}[r.Intn(4)]
			}
		case 3:
			if c.gun != "http2" {
				c.mic = []string{"-1", "1", "7", "0"}[r.Intn(4)]
			}
		case 4:
			if c.srv == "plain" {
				c.hs = []string{"def", "1", "250"}[r.Intn(3)]
			}
		case 5:
			c.idle, c.hs = "30000", "20000"
		}
	}
	// round 6: SEVERAL options of the client at once (two to five of them), each with a value that leaves reuse standing: the
	// connections must be what they are without them (an option that leaks into another one's field shows here)
	if r.Intn(7) == 0 {
		c.idle, c.rht, c.mic, c.mich, c.hs = "", "", "", "", ""
		k := 2 + r.Intn(4)
		for _, o := range r.Perm(7)[:k] {
			switch o {
			case 0:
				c.idle = []string{"30000", "60000", "0", "45000"}[r.Intn(4)]
			case 1:
				if c.gun != "http2" {
					c.rht = []string{"20000", "0", "15000"}[r.Intn(3)]
				}
			case 2:
				if c.gun != "http2" {
					c.mich = []string{"1", "5", "0", "3"}[r.Intn(4)]
				}
			case 3:
				if c.gun != "http2" {
					c.mic = []string{"0", "7", "4"}[r.Intn(3)]
				}
			case 4:
				if c.srv == "plain" {
					c.hs = []string{"def", "250", "1"}[r.Intn(3)]
				}
			case 5:
				c.ect = []string{"0", "1", "700", "3000"}[r.Intn(4)]
			case 6:
				c.dto = []string{"3000", "10000"}[r.Intn(2)]
			}
		}
	}
	// round 3: shared clients, followed redirects, inline `uris`, ammo limit, a target that comes up late, a third pass
	if c.mode == "seq" && r.Intn(10) == 0 {
		c.shared = 1 + r.Intn(3)
	}
	if r.Intn(12) == 0 && (c.gun == "http" || c.rsp != "redir") {
		c.redir = true // http2: the answer of the plain decoy is no HTTP/2 answer (the gun panics); connect: the tunnel end is asked for the decoy
	}
	if c.format == "uri" && r.Intn(5) == 0 {
		c.uris = true
	}
	if r.Intn(12) == 0 {
		c.lim = 1 + r.Intn(6)
	}
	if r.Intn(10) == 0 {
		c.late = true
	}
	if r.Intn(12) == 0 {
		c.passes = 3
	}
	// round 4: shared-client {enabled: false, client-number: n}, expect-continue / dial timeouts, volleys, the documented full config
	if c.shared == 0 && r.Intn(12) == 0 {
		c.shoff = strconv.Itoa(r.Intn(4))
	}
	if r.Intn(20) == 0 {
		c.ect = []string{"0", "1", "700", "3000"}[r.Intn(4)]
	}
	if r.Intn(20) == 0 {
		c.dto = []string{"3000", "10000"}[r.Intn(2)]
	}
	if c.inst > 1 && c.shared == 0 && len(c.sched) == 0 && r.Intn(12) == 0 {
		c.mode = "vol"
	}
	if c.srv == "plain" && r.Intn(25) == 0 {
		c.doc = true
	}
	nEnt := 1 + r.Intn(4)
	if r.Intn(40) == 0 {
		nEnt = 5 + r.Intn(8)
	}
	if c.format == "jsonarr" && nEnt < 2 {
		nEnt = 2 // a one-element array with passes is C08's finding, not ours
	}
	// configured headers
	nConf := r.Intn(5)
	var confNames []string
	for i := 0; i < nConf; i++ {
		var name string
		switch {
		case r.Intn(4) == 0:
			name = caseVariant(r, "Host")
		case c.gun != "http2" && r.Intn(16) == 0:
			name = caseVariant(r, "Connection")
		case len(confNames) > 0 && r.Intn(4) == 0:
			name = caseVariant(r, confNames[r.Intn(len(confNames))]) // duplicate inside the option list
		default:
			name = caseVariant(r, baseNames[r.Intn(len(baseNames))])
		}
		confNames = append(confNames, name)
		val := genValue(r, "conf")
		if strings.EqualFold(name, "host") {
			val = "conf-" + hostWords[r.Intn(len(hostWords))]
		}
		if strings.EqualFold(name, "user-agent") && val == "" {
			val = "conf-agent"
		}
		if strings.EqualFold(strings.TrimSpace(name), "connection") {
			val = connWords[r.Intn(len(connWords))]
		}
		s := "[" + pad(r, name) + ":" + pad(r, val) + "]"
		if malformed && r.Intn(6) == 0 {
			s = []string{"[nocolon]", "X-A: v", "[: v]", "[]", "[X-A: v", "[ : ]"}[r.Intn(6)]
		}
		c.conf = append(c.conf, s)
	}
	for i := 0; i < nEnt; i++ {
		e := entry{}
		isJSON := c.format == "jsonline" || c.format == "jsonarr"
		switch c.format {
		case "uri":
			e.method = "GET"
		case "uripost":
			e.method = "POST"
		default:
			e.method = methods[r.Intn(len(methods))]
			if isJSON && r.Intn(12) == 0 {
				e.method = "" // http.NewRequest: GET
			}
		}
		e.minor = 1
		if c.format == "raw" && r.Intn(3) == 0 {
			e.minor = 0
		}
		e.uri = genURI(r, !isJSON)
		if r.Intn(30) == 0 && strings.HasPrefix(e.uri, "/") && !strings.HasPrefix(e.uri, "//") {
			// longer than the 4096-byte buffers of bufio.Scanner / bufio.Reader (uri lines stay below the scanner's 64 KiB limit)
			e.uri = "/" + strings.Repeat("u", 4000+r.Intn(8000)) + e.uri
		}
		if isJSON && r.Intn(2) == 0 {
			e.host = hostWords[r.Intn(len(hostWords))]
		}
		if c.format != "uri" {
			e.body = genBody(r, isJSON)
		}
		nH := r.Intn(4)
		many := r.Intn(40) == 0
		if many {
			nH = 20 + r.Intn(30)
		}
		seen := map[string]bool{}
		for j := 0; j < nH; j++ {
			var name string
			switch {
			case many && j >= 3:
				name = "X-Many-" + strconv.Itoa(j)
			case r.Intn(5) == 0:
				name = caseVariant(r, "Host")
			case c.gun != "http2" && r.Intn(14) == 0:
				name = caseVariant(r, "Connection")
			case len(confNames) > 0 && r.Intn(2) == 0:
				name = caseVariant(r, strings.TrimSpace(confNames[r.Intn(len(confNames))])) // collide with the option
			default:
				name = caseVariant(r, baseNames[r.Intn(len(baseNames))])
			}
			ck := textproto.CanonicalMIMEHeaderKey(name)
			if isJSON && seen[ck] {
				continue // JSON object keys that canonicalise alike: map iteration order decides, not modelled
			}
			if c.format == "raw" && ck == "Host" && seen[ck] {
				continue
			}
			seen[ck] = true
			val := genValue(r, "file")
			if r.Intn(50) == 0 {
				val = "long-" + strings.Repeat("v", 4090+r.Intn(9000)) + "-end"
			}
			if ck == "Host" {
				val = "file-" + hostWords[r.Intn(len(hostWords))]
				if r.Intn(10) == 0 {
					val = "" // empty Host given by the ammo: corner
				}
			}
			if ck == "User-Agent" && val == "" {
				val = "file-agent"
			}
			if ck == "Connection" {
				val = connWords[r.Intn(len(connWords))]
			}
			switch c.format {
			case "uri", "uripost":
				name, val = pad(r, name), pad(r, val)
				if malformed && r.Intn(8) == 0 {
					name = []string{"X A", "", "X-Ä", "sp ace"}[r.Intn(4)]
				}
			case "jsonline", "jsonarr":
				if malformed && r.Intn(8) == 0 {
					name = []string{"X A", "X-Ä", "a(b)"}[r.Intn(3)]
				}
				if malformed && ck != "Host" && r.Intn(8) == 0 { // an invalid Host is blanked by net/http, not modelled
					val = "ctl\x01char"
				}
			}
			e.hdrs = append(e.hdrs, hdrLine{name, val})
		}
		c.ents = append(c.ents, e)
	}
	return c
}

// fixed matrix: every format x {no conf, disjoint, colliding, colliding other case, duplicate conf, Host} x ssl x ka
func matrix() []string {
	var out []string
	type hc struct {
		conf []string
		file []hdrLine
	}
	combos := []hc{
		{nil, nil},
		{[]string{"[X-B: conf]"}, []hdrLine{{"X-A", "file"}}},
		{[]string{"[X-A: conf]"}, []hdrLine{{"X-A", "file"}}},
		{[]string{"[x-a: conf]"}, []hdrLine{{"X-a", "file"}}},
		{[]string{"[X-A: conf1]", "[X-A: conf2]"}, nil},
		{[]string{"[X-A: conf1]", "[x-a: conf2]"}, []hdrLine{{"X-A", "file"}}},
		{[]string{"[Host: conf.example.org]"}, nil},
		{[]string{"[Host: conf.example.org]"}, []hdrLine{{"Host", "file.example.org"}}},
		{[]string{"[host: conf1.example.org]", "[Host: conf2.example.org]"}, []hdrLine{{"X-A", "file"}}},
		{[]string{"[User-Agent: conf-agent]", "[Accept: */*]"}, []hdrLine{{"user-agent", "file-agent"}}},
	}
	for _, f := range []string{"uri", "uripost", "jsonline", "jsonarr", "raw"} {
		for ci, cb := range combos {
			for _, ssl := range []bool{false, true} {
				for _, ka := range []bool{true, false} {
					if ci > 2 && ssl != ka { // thin the matrix
						continue
					}
					c := caseIn{format: f, ssl: ssl, ka: ka, inst: 2, tgt: "127.0.0.1", passes: 1, conf: cb.conf}
					c.srv = map[bool]string{true: "tls", false: "plain"}[ssl]
					c.gun = []string{"http", "connect", "http2"}[(ci+len(out))%3]
					if ci <= 2 {
						c.gun = "http"
					}
					if ci == 9 && c.gun == "http2" {
						c.gun = "connect"
					}
					if c.gun != "http" && len(out)%2 == 0 {
						c.tgt = "localhost" // named target: pre-resolve, Host defaults to the NAME
					}
					method, body := "GET", ""
					if f != "uri" {
						method, body = "POST", "class"
					}
					for i := 0; i < 3; i++ {
						e := entry{method: method, uri: "/" + strconv.Itoa(i) + "?q=" + f, body: body, minor: (i + ci) % 2}
						if i > 0 || f == "uri" || f == "uripost" {
							e.hdrs = cb.file
						}
						if i == 2 && (f == "uri" || f == "uripost") {
							e.hdrs = nil // header lines persist from the entries before
						}
						c.ents = append(c.ents, e)
					}
					out = append(out, encodeCase(c))
				}
			}
		}
	}
	return out
}

func genCanonKey(r *rand.Rand) string {
	switch r.Intn(4) {
	case 0:
		return caseVariant(r, baseNames[r.Intn(len(baseNames))])
	case 1:
		n := r.Intn(12)
		b := make([]byte, n)
		const al = "abcXYZ-019_. !#$%&'*+^`|~:()ä\x00\x7f"
		for i := range b {
			b[i] = al[r.Intn(len(al))]
		}
		return string(b)
	case 2:
		n := r.Intn(6)
		b := make([]byte, n)
		for i := range b {
			b[i] = byte(r.Intn(256))
		}
		return string(b)
	}
	parts := []string{"x", "Y", "-", "--", "ab", "CD", "9", "_", " "}
	s := ""
	for i := 0; i < 1+r.Intn(6); i++ {
		s += parts[r.Intn(len(parts))]
	}
	return s
}

// enumHeaders: EXHAUSTIVE over a small alphabet — every `headers` option list and every in-file header list of length
// <= 2 over the names {X-A, x-a, Host} (13 x 13 lists) in every file syntax; ssl / keep-alive / gun vary with the index.
func enumHeaders() []string {
	names := []string{"X-A", "x-a", "Host"}
	var lists [][]string
	lists = append(lists, nil)
	for _, a := range names {
		lists = append(lists, []string{a})
	}
	for _, a := range names {
		for _, b := range names {
			lists = append(lists, []string{a, b})
		}
	}
	var out []string
	i := 0
	for _, f := range []string{"uri", "uripost", "jsonline", "jsonarr", "raw"} {
		for _, cl := range lists {
			for _, fl := range lists {
				i++
				c := caseIn{format: f, ssl: i%3 == 0, ka: i%2 == 0, inst: 1 + i%2, tgt: "127.0.0.1", passes: 1,
					gun: []string{"http", "http", "connect", "http2"}[i%4], rsp: "2", mode: "seq"}
				if c.gun == "http2" {
					c.ssl = true
				}
				c.srv = map[bool]string{true: "tls", false: "plain"}[c.ssl]
				for j, n := range cl {
					v := "conf" + strconv.Itoa(j)
					if n == "Host" {
						v += ".example.org"
					}
					c.conf = append(c.conf, "["+n+": "+v+"]")
				}
				var hs []hdrLine
				seen := map[string]bool{}
				for j, n := range fl {
					ck := textproto.CanonicalMIMEHeaderKey(n)
					if (f == "jsonline" || f == "jsonarr" || (f == "raw" && ck == "Host")) && seen[ck] {
						continue // not expressible / order not defined
					}
					seen[ck] = true
					v := "file" + strconv.Itoa(j)
					if n == "Host" {
						v += ".example.org"
					}
					hs = append(hs, hdrLine{n, v})
				}
				method, body := "GET", ""
				if f != "uri" {
					method, body = "POST", "b"
				}
				c.ents = []entry{{method: method, uri: "/e", body: body, hdrs: hs, minor: 1}, {method: method, uri: "/f", body: body, minor: i % 2}}
				out = append(out, encodeCase(c))
			}
		}
	}
	return out
}

// enumConns: EXHAUSTIVE small connection histories — `inst` guns, every schedule of `length` shots over them, every
// subset of the shots asking `Connection: close`, keep-alive on/off (raw entries, HTTP/1.0 and 1.1 alternating).
func enumConns(inst, length int) []string {
	var out []string
	total := 1
	for i := 0; i < length; i++ {
		total *= inst
	}
	for sc := 0; sc < total; sc++ {
		for mask := 0; mask < 1<<length; mask++ {
			for _, ka := range []bool{true, false} {
				c := caseIn{format: "raw", ka: ka, inst: inst, tgt: "127.0.0.1", passes: 1, gun: "http", rsp: "700", mode: "seq", srv: "plain"}
				x := sc
				for j := 0; j < length; j++ {
					c.sched = append(c.sched, x%inst)
					x /= inst
					e := entry{method: "GET", uri: "/" + strconv.Itoa(j), minor: (j + mask) % 2}
					if mask&(1<<j) != 0 {
						e.hdrs = []hdrLine{{"Connection", "close"}}
					}
					c.ents = append(c.ents, e)
				}
				out = append(out, encodeCase(c))
			}
		}
	}
	return out
}

// timedCases: the TIME dimension and the transport's options. Every case pauses between the shots of a gun (or lets the target
// answer late), so that the transport's timeouts decide about connection reuse: with nothing configured the idle connections live
// 90s and a pause of a second changes nothing; idle-conn-timeout below the pause costs a connection per request;
// tls-handshake-timeout (alone or together with the others) has no say; response-header-timeout below the target's delay loses the
// answer and the connection. The margins are a factor >= 2.5 either side; n cases, templates cycled, the rest random.
func timedCases(r *rand.Rand, n int) []string {
	type tpl struct {
		gap, delay    int
		idle, hs, rht string
		mic, mich     string
		inst, shots   int
		mode          string
		plainOnly     bool
	}
	tpls := []tpl{
		{gap: 1200, hs: "def", inst: 1, shots: 2, plainOnly: true},              // all defaults: 1s < pause < 90s
		{gap: 800, hs: "300", inst: 1, shots: 2, plainOnly: true},               // short handshake timeout, default idle timeout
		{gap: 800, idle: "300", inst: 1, shots: 3},                              // the operator's own short idle timeout
		{gap: 150, idle: "2000", inst: 2, shots: 4},                             // idle timeout well above the pauses
		{delay: 900, rht: "300", inst: 1, shots: 2},                             // answers later than response-header-timeout
		{delay: 100, rht: "2500", inst: 1, shots: 3},                            // answers in time
		{gap: 700, hs: "250", inst: 2, shots: 4, mode: "par", plainOnly: true},  // parallel instances, each pausing
		{gap: 600, idle: "0", hs: "200", inst: 1, shots: 2, plainOnly: true},    // idle timeout 0 = no limit
		{gap: 500, idle: "200", rht: "5000", inst: 2, shots: 4},                 // both timeouts given
		{gap: 400, idle: "-1000", inst: 1, shots: 2},                            // negative = no limit
		{gap: 900, hs: "300", rht: "20000", inst: 1, shots: 2, plainOnly: true}, // three different timeouts
		{gap: 300, mich: "-1", inst: 1, shots: 3},                               // no idle connections kept
		{gap: 300, mic: "-1", inst: 1, shots: 3},
		{gap: 700, mich: "1", mic: "1", hs: "300", inst: 2, shots: 4, plainOnly: true},
		{gap: 1300, hs: "def", inst: 2, shots: 4, mode: "par", plainOnly: true}, // defaults again, parallel
		{gap: 450, delay: 450, idle: "300", rht: "150", inst: 1, shots: 2},      // both bite
		{delay: 1250, hs: "def", inst: 1, shots: 2, plainOnly: true},            // a slow target, all defaults: no timeout applies
		{gap: 900, rht: "300", inst: 1, shots: 3},                               // round 4: a response-header timeout well below the pauses has no say
		{gap: 750, rht: "250", hs: "def", inst: 2, shots: 4, mode: "par", plainOnly: true},
	}
	var out []string
	for i := 0; i < n; i++ {
		t := tpls[i%len(tpls)]
		c := caseIn{ka: true, inst: t.inst, tgt: "127.0.0.1", passes: 1, mode: t.mode, gap: t.gap, delay: t.delay,
			idle: t.idle, hs: t.hs, rht: t.rht, mic: t.mic, mich: t.mich, rsp: []string{"2", "700", "5000"}[r.Intn(3)]}
		c.format = []string{"uri", "uripost", "jsonline", "jsonarr", "raw"}[r.Intn(5)]
		c.gun = []string{"http", "http", "connect", "http2"}[r.Intn(4)]
		if t.mic != "" || t.mich != "" || t.rht != "" || strings.HasPrefix(t.idle, "-") {
			if c.gun == "http2" {
				c.gun = "http"
			}
		}
		c.ssl = !t.plainOnly && r.Intn(2) == 0
		if c.gun == "http2" {
			if t.plainOnly {
				c.gun = "http"
			} else {
				c.ssl = true
			}
		}
		c.srv = map[bool]string{true: "tls", false: "plain"}[c.ssl]
		if i >= len(tpls) && r.Intn(6) == 0 {
			c.ka = false
		}
		if i >= len(tpls) && r.Intn(4) == 0 {
			c.code = []int{404, 500, 204}[r.Intn(3)]
		}
		if t.inst > 1 && t.mode == "" && r.Intn(2) == 0 {
			for j := 0; j < t.shots; j++ {
				c.sched = append(c.sched, r.Intn(t.inst))
			}
		}
		for j := 0; j < t.shots; j++ {
			e := entry{method: "GET", uri: "/t" + strconv.Itoa(i) + "/" + strconv.Itoa(j), minor: j % 2}
			switch c.format {
			case "uri":
			case "uripost":
				e.method, e.body = "POST", "b"+strconv.Itoa(j)
			default:
				if j%2 == 1 {
					e.method, e.body = "POST", "body"
				}
			}
			c.ents = append(c.ents, e)
		}
		out = append(out, encodeCase(c))
	}
	return out
}

// sizeCases (round 3): the SIZE dimension — bodies beyond the decoders' 1 MiB read chunk, URIs and header values beyond the 4096-byte
// buffers of bufio.Scanner / bufio.Reader, dozens of header lines, a dozen entries, three passes; n cases, templates cycled.
func sizeCases(r *rand.Rand, n int) []string {
	var out []string
	for i := 0; i < n; i++ {
		c := caseIn{ka: true, inst: 1 + r.Intn(2), tgt: "127.0.0.1", passes: 1 + r.Intn(2), mode: "seq", rsp: "2", gun: "http"}
		c.ssl = r.Intn(4) == 0
		c.srv = map[bool]string{true: "tls", false: "plain"}[c.ssl]
		c.preload = r.Intn(3) == 0
		if r.Intn(3) == 0 {
			c.lay = 1 + r.Intn(3)
		}
		if r.Intn(4) == 0 {
			c.gun = "connect"
		}
		mk := func(format, uri, body string, hdrs []hdrLine) entry {
			m := map[string]string{"uri": "GET", "uripost": "POST"}[format]
			if m == "" {
				m = []string{"POST", "PUT"}[r.Intn(2)]
			}
			if format == "uri" {
				body = ""
			}
			return entry{method: m, uri: uri, body: body, hdrs: hdrs, minor: r.Intn(2)}
		}
		small := func(j int) entry { return mk(c.format, "/small/"+strconv.Itoa(j), "b"+strconv.Itoa(j), nil) }
		longV := "tok-" + strings.Repeat("w", 4090+r.Intn(20000)) + "-end"
		longU := "/" + strings.Repeat("p", 4000+r.Intn(5000)) + "/x?q=" + strings.Repeat("q", 1+r.Intn(3000))
		switch i % 8 {
		case 0: // a body of more than 1 MiB between two small entries
			c.format = []string{"uripost", "raw", "jsonline"}[(i/8)%3]
			c.ents = []entry{small(0), mk(c.format, "/big", bigBody(r), []hdrLine{{"X-A", "file"}}), small(2)}
			c.conf = []string{"[X-A: conf]", "[X-B: conf]"}
		case 1: // a long URI
			c.format = []string{"uri", "uripost", "raw", "jsonline", "jsonarr"}[(i/8)%5]
			c.ents = []entry{mk(c.format, longU, "body", nil), small(1)}
			if c.format == "jsonarr" {
				c.ents = append(c.ents, small(2))
			}
		case 2: // a long header value in the file and one in the option
			c.format = []string{"uri", "uripost", "raw", "jsonline"}[(i/8)%4]
			c.ents = []entry{mk(c.format, "/lv", "body", []hdrLine{{"X-Long", longV}, {"X-A", "file"}}), small(1)}
			c.conf = []string{"[X-Conf-Long: " + longV + "]", "[X-Long: conf]"}
		case 3: // dozens of header lines, some of them colliding with the option
			c.format = []string{"raw", "uri", "jsonline", "uripost"}[(i/8)%4]
			var hs []hdrLine
			for j := 0; j < 24+r.Intn(30); j++ {
				hs = append(hs, hdrLine{"X-H" + strconv.Itoa(j), "file" + strconv.Itoa(j)})
			}
			c.ents = []entry{mk(c.format, "/many", "body", hs), small(1)}
			c.conf = []string{"[X-H3: conf]", "[x-h40: conf]", "[X-Other: conf]"}
		case 4: // a dozen entries over three passes, limited
			c.format = []string{"uri", "uripost", "raw", "jsonline", "jsonarr"}[(i/8)%5]
			c.passes = 3
			for j := 0; j < 9+r.Intn(6); j++ {
				e := small(j)
				if j%4 == 1 {
					e.hdrs = []hdrLine{{"X-J", "file" + strconv.Itoa(j)}}
				}
				c.ents = append(c.ents, e)
			}
			if r.Intn(2) == 0 {
				c.lim = 5 + r.Intn(30)
			}
			c.conf = []string{"[X-J: conf]"}
		case 5: // a body of exactly the chunk size, one byte less, one byte more
			c.format = []string{"uripost", "raw"}[(i/8)%2]
			n := 1<<20 + []int{0, -1, 1}[r.Intn(3)]
			c.ents = []entry{mk(c.format, "/edge", strings.Repeat("E", n-7)+"-edge-!", nil), small(1)}
		case 6: // bodies around the 4096-byte buffer of bufio.Reader, with line ends inside
			c.format = []string{"uripost", "raw", "jsonline"}[(i/8)%3]
			n := 4096 + []int{-1, 0, 1, 4096}[r.Intn(4)]
			c.ents = []entry{mk(c.format, "/buf", strings.Repeat("z", n-4)+"\n\r\n!", nil), small(1), small(2)}
		case 7: // the inline `uris` list with header lines, two passes
			c.format, c.uris, c.passes = "uri", true, 2
			c.ents = []entry{mk("uri", "/u0", "", []hdrLine{{"X-A", "file"}, {"Host", "file.example.org"}}), mk("uri", longU, "", nil),
				mk("uri", "/u2", "", []hdrLine{{"X-B", "late"}})}
			c.conf = []string{"[X-A: conf]", "[X-B: conf]"}
		}
		out = append(out, encodeCase(c))
	}
	return out
}

// r3Cases (round 3): shared clients, followed redirects, a limit, a target that comes up after the gun factory ran; templates cycled.
func r3Cases(r *rand.Rand, n int) []string {
	var out []string
	for i := 0; i < n; i++ {
		c := caseIn{ka: true, inst: 2 + r.Intn(3), tgt: "127.0.0.1", passes: 1 + r.Intn(2), mode: "seq", rsp: []string{"2", "700", "5000"}[r.Intn(3)], gun: "http"}
		c.format = []string{"uri", "uripost", "jsonline", "jsonarr", "raw"}[r.Intn(5)]
		c.ssl = r.Intn(3) == 0
		switch i % 6 {
		case 0: // shared clients, fewer than instances
			c.shared = 1 + r.Intn(2)
			c.gun = []string{"http", "connect", "http2"}[r.Intn(3)]
		case 1: // shared clients, as many as or more than instances; keep-alive off now and then
			c.shared = c.inst + r.Intn(2)
			c.ka = r.Intn(3) != 0
		case 2: // redirects followed at the operator's demand: the decoy is reached, the target sees every request as it is
			c.redir, c.rsp = true, "redir"
		case 3: // redirect: true against a target that does not redirect
			c.redir = true
			c.gun = []string{"http", "connect", "http2"}[r.Intn(3)]
		case 4: // a named target that comes up after the factory ran: nothing pre-resolved, the DNS-caching dialer is used
			c.late, c.tgt = true, "localhost"
			c.gun = []string{"http", "connect", "http2"}[r.Intn(3)]
		case 5: // the same with a limit and preload
			c.late, c.lim, c.preload = true, 1+r.Intn(5), r.Intn(2) == 0
			c.tgt = []string{"localhost", "127.0.0.1"}[r.Intn(2)]
		}
		if c.gun == "http2" {
			c.ssl = true
		}
		c.srv = map[bool]string{true: "tls", false: "plain"}[c.ssl]
		if r.Intn(3) == 0 {
			for j := 0; j < 2+r.Intn(4); j++ {
				c.sched = append(c.sched, r.Intn(c.inst))
			}
		}
		nE := 2 + r.Intn(3)
		for j := 0; j < nE; j++ {
			e := entry{method: "GET", uri: "/r3/" + strconv.Itoa(i) + "/" + strconv.Itoa(j), minor: 1}
			switch c.format {
			case "uri":
			case "uripost":
				e.method, e.body = "POST", "b"+strconv.Itoa(j)
			default:
				e.method = []string{"GET", "POST", "PUT", "HEAD", "DELETE"}[r.Intn(5)]
				if e.method == "POST" || e.method == "PUT" {
					e.body = "body" + strconv.Itoa(j)
				}
			}
			if j == 1 {
				e.hdrs = []hdrLine{{"X-A", "file"}}
			}
			c.ents = append(c.ents, e)
		}
		c.conf = []string{"[X-A: conf]"}
		out = append(out, encodeCase(c))
	}
	return out
}

// pacedCases (round 4): PACED shooting under the client's timeout options. Every case gives ALL five timeouts of the gun by name
// (idle-conn-timeout, response-header-timeout, tls-handshake-timeout, expect-continue-timeout, dial.timeout) with distinct values;
// one of them is SHORT (300-400 ms; the dial timeout 600-800 ms), the others are seconds, and the case probes with pauses between the shots of an
// instance (or with a target that answers late) three times as long as the short one. The property lets only a short
// idle-conn-timeout (against pauses) or a short response-header-timeout (against late answers) cost connections: every other
// combination must keep one connection per instance. n cases, the combinations cycled.
func pacedCases(r *rand.Rand, n int) []string {
	type combo struct {
		short string // which option is the short one
		probe string // gap | delay
		gun   string // "" = any
	}
	// the dial timeout bounds the DIAL (for the connect gun: of the tunnel end); a connection that stands has nothing to do with it,
	// however long the instance pauses afterwards
	combos := []combo{{"rht", "gap", ""}, {"ect", "gap", ""}, {"hs", "gap", ""}, {"idle", "delay", ""}, {"ect", "delay", ""},
		{"hs", "delay", ""}, {"dto", "gap", "connect"}, {"dto", "gap", "http"},
		{"rht", "delay", ""}, {"idle", "gap", ""}} // the last two: the operator's own demand (predicted, not judged)
	var out []string
	for i := 0; i < n; i++ {
		cb := combos[i%len(combos)]
		short := 300 + 50*r.Intn(3)
		long := []int{2500, 3000, 3500, 4000, 5000, 7000}
		r.Shuffle(len(long), func(a, b int) { long[a], long[b] = long[b], long[a] })
		val := map[string]int{"idle": long[0], "rht": long[1], "hs": long[2], "ect": long[3], "dto": long[4] + 3000}
		val[cb.short] = short
		if cb.short == "dto" {
			val["dto"] = 2 * short // 600-800 ms: generous for a loopback dial, well below the pauses of 900-1200 ms
		}
		c := caseIn{ka: true, inst: 1 + r.Intn(2), tgt: "127.0.0.1", passes: 1, mode: "seq", rsp: []string{"2", "700"}[r.Intn(2)],
			idle: strconv.Itoa(val["idle"]), rht: strconv.Itoa(val["rht"]), hs: strconv.Itoa(val["hs"]), ect: strconv.Itoa(val["ect"]),
			dto: strconv.Itoa(val["dto"])}
		if cb.probe == "gap" {
			c.gap = 3 * short
		} else {
			c.delay = 3 * short
		}
		if c.inst == 2 && r.Intn(2) == 0 {
			c.mode = "par"
		}
		c.format = []string{"uri", "uripost", "jsonline", "jsonarr", "raw"}[r.Intn(5)]
		c.gun = []string{"http", "http", "connect"}[r.Intn(3)] // http2: response-header-timeout is outside (x/net/http2's own timers)
		if cb.gun != "" {
			c.gun = cb.gun
		}
		c.ssl = cb.short != "hs" && r.Intn(3) == 0           // a short handshake timeout with a TLS target is the machine's lottery
		c.srv = map[bool]string{true: "tls", false: "plain"}[c.ssl]
		if i >= len(combos) && r.Intn(5) == 0 {
			c.doc = true
		}
		shots := 2 + c.inst
		if cb.probe == "delay" {
			shots = 2 * c.inst
		}
		for j := 0; j < shots; j++ {
			e := entry{method: "GET", uri: "/paced" + strconv.Itoa(i) + "/" + strconv.Itoa(j), minor: 1}
			switch c.format {
			case "uri":
			case "uripost":
				e.method, e.body = "POST", "b"+strconv.Itoa(j)
			default:
				if j%2 == 1 {
					e.method, e.body = "PUT", "body"
				}
			}
			c.ents = append(c.ents, e)
		}
		out = append(out, encodeCase(c))
	}
	return out
}

// volleyCases (round 4): instances that shoot in VOLLEYS with idle gaps in between (what a rate-limited schedule does to a pool of
// instances): `inst` >= 3 guns fire together, the target answers after 120-200 ms so that all requests of a volley are in flight at
// once, then everybody is idle for a while. With per-instance clients the target must never see more connections than instances,
// whatever `shared-client.client-number` says while `enabled` is false, whatever the idle limits per host (one idle connection per
// transport is all an instance needs). With shared clients ENABLED the count is the transport's own affair (predicted as a range).
func volleyCases(r *rand.Rand, n int) []string {
	var out []string
	for i := 0; i < n; i++ {
		c := caseIn{ka: true, inst: 3 + r.Intn(3), tgt: "127.0.0.1", passes: 1, mode: "vol", rsp: []string{"2", "700", "5000"}[r.Intn(3)],
			gun: "http", delay: 120 + 40*r.Intn(3), gap: 60 + 50*r.Intn(3)}
		c.format = []string{"uri", "uripost", "jsonline", "jsonarr", "raw"}[r.Intn(5)]
		volleys := 3
		switch i % 8 {
		case 0: // the documented combination: enabled false, client-number 1
			c.shoff = "1"
		case 1:
			c.shoff = strconv.Itoa(2 + r.Intn(2))
			c.inst = 5 + r.Intn(2)
		case 2: // the whole documented config
			c.doc = true
		case 3: // no shared-client section; one idle connection per host is enough for an instance
			c.mich = "1"
			c.gun = []string{"http", "connect"}[r.Intn(2)]
		case 4: // shared clients enabled: several instances on one transport (two idle connections per host by default)
			c.shared = 1 + r.Intn(2)
		case 5: // keep-alives off: one connection per request
			c.ka = false
			c.shoff = strconv.Itoa(r.Intn(2))
			volleys = 2
		case 6: // client-number 0 / negative with enabled false
			c.shoff = strconv.Itoa(-r.Intn(2))
			c.gun = []string{"http", "connect", "http2"}[r.Intn(3)]
		case 7: // a partial last volley, two passes
			c.shoff = "1"
			c.passes = 2
			volleys = 2
		}
		c.ssl = c.gun == "http2" || (!c.doc && r.Intn(4) == 0)
		c.srv = map[bool]string{true: "tls", false: "plain"}[c.ssl]
		nE := volleys * c.inst
		if i%8 == 7 {
			nE = c.inst + 1 + r.Intn(c.inst-1)
		}
		if c.format == "jsonarr" && nE < 2 {
			nE = 2
		}
		for j := 0; j < nE; j++ {
			e := entry{method: "GET", uri: "/vol" + strconv.Itoa(i) + "/" + strconv.Itoa(j), minor: 1}
			switch c.format {
			case "uri":
			case "uripost":
				e.method, e.body = "POST", "b"+strconv.Itoa(j)
			default:
				if j%3 == 1 {
					e.method, e.body = "POST", "body"+strconv.Itoa(j)
				}
			}
			c.ents = append(c.ents, e)
		}
		out = append(out, encodeCase(c))
	}
	return out
}

// every k-th element, starting at off
func sample(l []string, k, off int) []string {
	var out []string
	for i := off % k; i < len(l); i += k {
		out = append(out, l[i])
	}
	return out
}

func c09Gen(r *rand.Rand, tier string) []string {
	// the cases that pause come first: they cost wall time, not CPU, and overlap with everything after them
	nTimed := 23
	if tier == "thorough" {
		nTimed = 240
	}
	out := timedCases(r, nTimed)
	nSize, nR3 := 16, 24
	if tier == "thorough" {
		nSize, nR3 = 96, 360
	}
	nPaced, nVol := 10, 8
	if tier == "thorough" {
		nPaced, nVol = 100, 96
	}
	out = append(out, pacedCases(r, nPaced)...)
	out = append(out, volleyCases(r, nVol)...)
	out = append(out, sizeCases(r, nSize)...)
	out = append(out, r3Cases(r, nR3)...)
	out = append(out, matrix()...)
	n, nMal, nCanon := 2200, 300, 500
	if tier == "thorough" {
		n, nMal, nCanon = 50000, 6000, 15000
		out = append(out, enumHeaders()...)
		out = append(out, enumConns(2, 4)...)
		out = append(out, enumConns(3, 3)...)
		out = append(out, enumConns(2, 5)...)
	} else {
		off := r.Intn(1 << 20)
		out = append(out, sample(enumHeaders(), 6, off)...)
		out = append(out, sample(enumConns(2, 4), 8, off)...)
		out = append(out, sample(enumConns(3, 3), 8, off)...)
	}
	for i := 0; i < n; i++ {
		out = append(out, encodeCase(genCase(r, false)))
	}
	for i := 0; i < nMal; i++ {
		out = append(out, encodeCase(genCase(r, true)))
	}
	for i := 0; i < nCanon; i++ {
		out = append(out, "kind=canon key="+hx(genCanonKey(r)))
	}
	c09WriteDims(out)
	return out
}

// c09WriteDims (round 6) writes the distribution of the generated inputs, dimension by dimension, to <out>/stats-dims.json (next
// to the framework's stats.json, which counts coverage classes): for every key of the input line the number of cases per value
// (sizes and lists are bucketed), so that a dimension that is constant or nearly so is visible at a glance.
func c09WriteDims(inputs []string) {
	dir := ""
	for i, a := range os.Args {
		if (a == "-out" || a == "--out") && i+1 < len(os.Args) {
			dir = os.Args[i+1]
		} else if strings.HasPrefix(a, "-out=") || strings.HasPrefix(a, "--out=") {
			dir = a[strings.Index(a, "=")+1:]
		}
	}
	if dir == "" {
		return
	}
	bucket := func(n int) string {
		switch {
		case n == 0:
			return "0"
		case n <= 2:
			return strconv.Itoa(n)
		case n <= 4:
			return "3-4"
		case n <= 16:
			return "5-16"
		case n <= 4096:
			return "17-4096"
		case n <= 1<<20:
			return "4097-1MiB"
		}
		return ">1MiB"
	}
	dims := map[string]map[string]int{}
	add := func(k, v string) {
		if dims[k] == nil {
			dims[k] = map[string]int{}
		}
		dims[k][v]++
	}
	for _, in := range inputs {
		m := drv.KV(in)
		if m["kind"] != "run" {
			add("kind", m["kind"])
			continue
		}
		c, err := parseCase(in)
		if err != nil {
			add("kind", "unparsable")
			continue
		}
		add("kind", "run")
		add("fmt", c.format)
		add("gun", c.gun)
		add("ssl", strconv.FormatBool(c.ssl))
		add("target-kind", c.srv)
		add("keep-alive", strconv.FormatBool(c.ka))
		add("instances", strconv.Itoa(c.inst))
		add("target", c.tgt)
		add("passes", strconv.Itoa(c.passes))
		add("preload", strconv.FormatBool(c.preload))
		add("mode", c.mode)
		add("schedule-given", strconv.FormatBool(len(c.sched) > 0))
		add("answer", c.rsp)
		add("status", strconv.Itoa(c.code))
		add("layout", strconv.Itoa(c.lay))
		add("features", strconv.Itoa(c.feat))
		add("entries", bucket(len(c.ents)))
		add("option-headers", bucket(len(c.conf)))
		nOpt := 0
		for k, o := range map[string]string{"idle": c.idle, "hs": c.hs, "rht": c.rht, "mic": c.mic, "mich": c.mich, "ect": c.ect, "dto": c.dto} {
			if o != "-" && o != "" {
				nOpt++
				add("option:"+k, o)
			}
		}
		add("client-options-given", strconv.Itoa(nOpt))
		add("pauses", strconv.FormatBool(c.gap > 0))
		add("late-answers", strconv.FormatBool(c.delay > 0))
		add("shared-client", strconv.Itoa(c.shared)+"/"+c.shoff)
		add("redirect-option", strconv.FormatBool(c.redir))
		add("uris-option", strconv.FormatBool(c.uris))
		add("limit", bucket(c.lim))
		add("late-target", strconv.FormatBool(c.late))
		add("dns-cache-off", strconv.FormatBool(c.nodns))
		add("documented-config", strconv.FormatBool(c.doc))
		for _, e := range c.ents {
			add("entry:method", e.method)
			add("entry:body-bytes", bucket(len(e.body)))
			add("entry:uri-bytes", bucket(len(e.uri)))
			add("entry:header-lines", bucket(len(e.hdrs)))
			add("entry:raw-minor", strconv.Itoa(e.minor))
			kind := "origin"
			switch {
			case strings.HasPrefix(e.uri, "http"):
				kind = "absolute"
			case strings.HasPrefix(e.uri, "//"):
				kind = "network-path"
			}
			add("entry:uri-kind", kind)
		}
	}
	b, err := json.MarshalIndent(map[string]any{"inputs": len(inputs), "dimensions": dims}, "", " ")
	if err == nil {
		_ = os.MkdirAll(dir, 0o755)
		_ = os.WriteFile(dir+"/stats-dims.json", b, 0o644)
	}
}

func c09Class(in, obs string) string {
	m := drv.KV(in)
	if m["kind"] == "canon" {
		return "canon"
	}
	if !strings.HasPrefix(obs, "n=") {
		return "rejected/" + strings.Fields(obs + " ?")[0]
	}
	o := drv.KV(obs)
	if o["n"] == "0" {
		return m["fmt"] + "/nothing-arrived"
	}
	c, err := parseCase(in)
	if err != nil {
		return ""
	}
	conf := map[string]bool{}
	for _, h := range c.conf {
		h = strings.Trim(h, "[]")
		k, _, _ := strings.Cut(h, ":")
		conf[textproto.CanonicalMIMEHeaderKey(strings.TrimSpace(k))] = true
	}
	collide := "disjoint"
	for _, e := range c.ents {
		for _, h := range e.hdrs {
			if conf[textproto.CanonicalMIMEHeaderKey(strings.TrimSpace(h.k))] {
				collide = "collide"
			}
		}
	}
	if len(conf) == 0 {
		collide = "noconf"
	}
	ka := map[bool]string{true: "ka", false: "noka"}[c.ka]
	ssl := map[bool]string{true: "https", false: "http"}[c.ssl]
	cl := strings.Join([]string{c.gun, c.format, collide, ssl, ka, c.mode}, "/")
	if c.gap > 0 || c.delay > 0 {
		cl += "/timed"
	}
	if c.idle != "-" || c.hs != "-" || c.rht != "-" || c.mic != "-" || c.mich != "-" {
		cl += "/transport-options"
	}
	nOpt := 0
	for _, o := range []string{c.idle, c.hs, c.rht, c.mic, c.mich, c.ect, c.dto} {
		if o != "-" && o != "" {
			nOpt++
		}
	}
	if nOpt >= 2 {
		cl += "/option-combo"
	}
	if strings.HasPrefix(c.rsp, "s") {
		cl += "/streamed-answer"
	} else if n, _ := strconv.Atoi(c.rsp); n > 1<<20 {
		cl += "/megabyte-answer"
	}
	if c.code != 200 {
		cl += "/status-" + strconv.Itoa(c.code/100) + "xx"
	}
	if c.lay != 0 {
		cl += "/layout" + strconv.Itoa(c.lay)
	}
	if c.feat != 0 {
		cl += "/features"
	}
	if c.nodns {
		cl += "/no-dns-cache"
	}
	if c.shared != 0 {
		cl += "/shared-client"
	}
	if c.redir {
		cl += "/redirect-on"
	}
	if c.uris {
		cl += "/inline-uris"
	}
	if c.lim != 0 {
		cl += "/limit"
	}
	if c.late {
		cl += "/late-target"
	}
	if c.shoff != "-" {
		cl += "/shared-client-disabled-with-number"
	}
	if c.ect != "-" || c.dto != "-" {
		cl += "/more-timeouts"
	}
	if c.doc {
		cl += "/documented-full-config"
	}
	big := false
	for _, e := range c.ents {
		if len(e.body) > 1<<20 || len(e.uri) > 4096 || len(e.hdrs) > 16 {
			big = true
		}
		for _, h := range e.hdrs {
			if len(h.v) > 4096 {
				big = true
			}
		}
	}
	if big {
		cl += "/big"
	}
	return cl
}

func main() {
	drv.Main(&drv.Prop{
		ID:      "C09",
		Gen:     c09Gen,
		Run:     c09Run,
		Class:   c09Class,
		Workers: 8,
		Timeout: 30 * time.Second,
		Rule: "fixed matrix (5 file syntaxes x header-collision patterns x ssl x keep-alive x http/http2/connect gun) plus exhaustive small " +
			"enumerations (all option/in-file header lists of length <=2 over {X-A,x-a,Host} per syntax; all schedules x close-subsets of " +
			"short connection histories; sampled in quick, complete in thorough) plus PRNG cases: 1-4 entries " +
			"(methods, origin/absolute/network-path URIs naming decoy hosts, text/binary/large bodies, raw HTTP/1.0 and 1.1, 0-3 in-file headers " +
			"incl. Connection) x 0-4 `headers` option " +
			"strings chosen to collide with in-file names (same name, other case, duplicates, Host) x ssl x plain/TLS target " +
			"(incl. mismatches) x keep-alive x 1-4 per-instance guns of the http, http2 or connect plugin x gun schedule x sequential/parallel " +
			"shooting x response body 0-70000 bytes or a redirect to a decoy x preload x target 127.0.0.1/localhost/::1 x passes 1-2; a malformed " +
			"stream (bad option strings, header names with spaces/non-token bytes, control bytes in values); round 2: cases that PAUSE " +
			"(0.15-1.3 s between the shots of an instance, or a target answering up to 1.25 s late) under the transport options " +
			"idle-conn-timeout / tls-handshake-timeout / response-header-timeout / max-idle-conns(-per-host) given by name or left at " +
			"their defaults (margins >= 2.5x, a slow machine is reported as tm=late and skipped); answer status 2xx-5xx with bodies; " +
			"file layout (blank lines, blanks around lines, multi-word tags, no final newline, CRLF, multi-line JSON); the gun's optional " +
			"features (auto-tag, answlog, httptrace trace/dump, debug logging) and dns-cache off; plus direct " +
			"CanonicalMIMEHeaderKey comparisons; round 3: shared-client pools of 1-3 clients (sequential shooting), redirect: true with and " +
			"without a redirecting target, the inline `uris` option, the provider's limit, a target that comes up after the gun factory ran, " +
			"sizes (bodies beyond the decoders' 1 MiB read chunk and around the 4096-byte bufio buffers, URIs up to 12 KB, header values up " +
			"to 24 KB, dozens of header lines, a dozen entries, three passes); round 4: PACED shooting with all five timeouts of the client " +
			"(idle-conn / response-header / tls-handshake / expect-continue / dial) given with distinct values, one of them short against pauses or " +
			"late answers three times as long; VOLLEYS of 3-6 instances shooting together with idle gaps under shared-client {enabled: false, " +
			"client-number: n}, the documented full config, one idle connection per host, shared clients enabled. Driven through config.DecodeAndValidate -> registered provider + registered http gun " +
			"against an in-process recording server. non-trivial = at least one request arrived (or a canon comparison); " +
			"distinct = distinct input line",
	})
}
