package main

// C14: preload is behaviour-preserving; chosencases selects exactly the listed tags.
//
// One cell = the SAME generated ammo file run through two real http providers (components/providers/http
// NewProvider), preload off and on, with one consumer:
//   fmt=uri tags=a,b,c cases=b,c limit=2 passes=0 cap=8 junk=0
// `cases=-` = no chosencases; `tags=-` = a file without entries; tags are drawn from a small alphabet so that subsets
// match several, one or no entry.
// Observation: for each side (s = streaming, p = preload) the delivered entry ids, whether the harness had to cut
// the run at `cap`, what Run returned and what the consumer saw at the end; tagsok = every delivered ammo carried
// the tag of its entry.
//   s.seq=1,2 s.cut=0 s.run=nil s.end=closed p.seq=1,2 p.cut=0 p.run=nil p.end=closed tagsok=1
// A file that NewProvider rejects is observed as run=construct end=norun on that side.

import (
	"fmt"
	"math/rand"
	"strconv"
	"strings"
	"time"

	"verifharness/drv"
	"verifharness/provcell"
)

var formats = []string{provcell.KURI, provcell.KURIPost, provcell.KRaw, provcell.KJSONLine, provcell.KJSONArr}

func chosenCount(tags, cases []string) int {
	if len(cases) == 0 {
		return len(tags)
	}
	n := 0
	for _, t := range tags {
		for _, c := range cases {
			if c == t {
				n++
				break
			}
		}
	}
	return n
}

func capFor(limit, passes, f, n int) int {
	if limit == 0 && passes == 0 {
		return 3*n + 5
	}
	m := limit
	if passes*f > m {
		m = passes * f
	}
	return m + n + 3
}

func line(format string, tags, cases []string, limit, passes int, junk bool) string {
	cs := "-"
	if len(cases) > 0 {
		cs = strings.Join(cases, ",")
	}
	j := 0
	if junk {
		j = 1
	}
	ts := "-"
	if len(tags) > 0 {
		ts = strings.Join(tags, ",")
	}
	return fmt.Sprintf("fmt=%s tags=%s cases=%s limit=%d passes=%d cap=%d junk=%d", format, ts, cs,
		limit, passes, capFor(limit, passes, chosenCount(tags, cases), len(tags)), j)
}

func gen(r *rand.Rand, tier string) []string {
	var out []string
	// exhaustive small part: fixed files x all subsets of {a,b,c} plus a subset matching nothing
	files := [][]string{{"a"}, {"a", "b"}, {"a", "b", "c"}, {"b", "a", "b"}, {"a", "a", "c", "b"}, {}}
	subsets := [][]string{nil, {"a"}, {"b"}, {"c"}, {"a", "b"}, {"b", "c"}, {"a", "c"}, {"a", "b", "c"}, {"zz"}, {"c", "zz"}}
	for _, f := range formats {
		for fi, tags := range files {
			for si, cases := range subsets {
				for limit := 0; limit <= 4; limit++ {
					for passes := 0; passes <= 3; passes++ {
						if len(tags) == 0 && si > 1 && si < 8 {
							continue // the empty file: no filter, one filter, the filters with zz
						}
						// nothing chosen and passes = 0 is where a broken streaming path never ends (watchdog
						// time on such a tree): limits 0 and 1 only
						if len(tags) > 0 && chosenCount(tags, cases) == 0 && passes == 0 && limit > 1 {
							continue
						}
						out = append(out, line(f, tags, cases, limit, passes, (fi+si+limit+passes)%2 == 1))
					}
				}
			}
		}
	}
	extra := 4000
	maxN := 9
	if tier == "thorough" {
		extra = 80000
		maxN = 30
	}
	// tags that are prefixes / case variants of each other: the filter must compare whole tags exactly
	alphabet := []string{"a", "b", "c", "ab", "B"}
	for i := 0; i < extra; i++ {
		n := 1 + r.Intn(maxN)
		if r.Intn(40) == 0 {
			n = 0
		}
		tags := make([]string, n)
		for j := range tags {
			tags[j] = alphabet[r.Intn(len(alphabet))]
		}
		var cases []string
		switch r.Intn(6) {
		case 0: // none
		case 1: // matches nothing
			cases = []string{"zz"}
		default:
			for _, a := range alphabet {
				if r.Intn(3) == 0 {
					cases = append(cases, a)
				}
			}
			if r.Intn(4) == 0 {
				cases = append(cases, "zz")
			}
		}
		limit, passes := 0, 0
		switch r.Intn(5) {
		case 0:
			limit = 1 + r.Intn(3*n+1)
		case 1:
			passes = 1 + r.Intn(4)
		case 2, 3:
			passes = 1 + r.Intn(4)
			limit = 1 + r.Intn(passes*n+2)
		}
		if n > 0 && chosenCount(tags, cases) == 0 && passes == 0 && r.Intn(4) != 0 {
			passes = 1 + r.Intn(3) // see above: a quarter of these cells keeps passes = 0
		}
		out = append(out, line(formats[r.Intn(len(formats))], tags, cases, limit, passes, r.Intn(2) == 0))
	}
	return out
}

func atoi(s string) int {
	n, _ := strconv.Atoi(s)
	return n
}

func side(prefix string, o provcell.Obs) string {
	ids := make([]string, len(o.Seq))
	for i, v := range o.Seq {
		ids[i] = strconv.Itoa(v)
	}
	seq := strings.Join(ids, ",")
	if seq == "" {
		seq = "-"
	}
	cut := 0
	if o.Cut {
		cut = 1
	}
	if o.Construct != "" {
		return fmt.Sprintf("%s.seq=- %s.cut=0 %s.run=construct %s.end=norun", prefix, prefix, prefix, prefix)
	}
	return fmt.Sprintf("%s.seq=%s %s.cut=%d %s.run=%s %s.end=%s", prefix, seq, prefix, cut, prefix, o.Run, prefix, o.End)
}

func tagsOf(kv map[string]string) []string {
	if kv["tags"] == "-" || kv["tags"] == "" {
		return nil
	}
	return strings.Split(kv["tags"], ",")
}

// runCell: provcell.Run already repeats a cell that looks stuck once; a cell that still looks stuck is run a third
// time with a slower watchdog (600 ms ticks), so that a stall of a loaded machine is never reported as a hang.
func runCell(c provcell.Cell) provcell.Obs {
	o := provcell.Run(c)
	if o.Construct == "" && (o.End != "closed" || o.Run == "noreturn") {
		c.Tick = 600 * time.Millisecond
		o = provcell.Run(c)
	}
	return o
}

func run(input string) string {
	kv := drv.KV(input)
	tags := tagsOf(kv)
	var cases []string
	if kv["cases"] != "-" && kv["cases"] != "" {
		cases = strings.Split(kv["cases"], ",")
	}
	mk := func(preload bool) provcell.Cell {
		return provcell.Cell{
			Kind: kv["fmt"], Preload: preload, Limit: atoi(kv["limit"]), Passes: atoi(kv["passes"]),
			Tags: tags, Chosen: cases, Cons: 1, Cap: atoi(kv["cap"]), Junk: kv["junk"] == "1",
		}
	}
	s := runCell(mk(false))
	p := runCell(mk(true))
	tagsok := 1
	for _, o := range []provcell.Obs{s, p} {
		for i, id := range o.Seq {
			if id < 0 || id >= len(tags) || o.SeqTags[i] != tags[id] {
				tagsok = 0
			}
		}
	}
	return fmt.Sprintf("%s %s tagsok=%d", side("s", s), side("p", p), tagsok)
}

func class(input, obs string) string {
	kv := drv.KV(input)
	tags := tagsOf(kv)
	var cases []string
	if kv["cases"] != "-" {
		cases = strings.Split(kv["cases"], ",")
	}
	f := chosenCount(tags, cases)
	sel := "some"
	switch {
	case len(tags) == 0:
		sel = "emptyfile"
	case len(cases) == 0:
		sel = "nofilter"
	case f == 0:
		sel = "nomatch"
	case f == len(tags):
		sel = "all"
	}
	b := "unbounded"
	l, p := kv["limit"] != "0", kv["passes"] != "0"
	switch {
	case l && p:
		b = "limit+passes"
	case l:
		b = "limit"
	case p:
		b = "passes"
	}
	return kv["fmt"] + "/" + sel + "/" + b
}

func main() {
	drv.Main(&drv.Prop{
		ID:      "C14",
		Gen:     gen,
		Run:     run,
		Class:   class,
		Workers: 24,
		Timeout: 40 * time.Second,
		Rule: "the same generated ammo file (uri, uripost, raw, jsonline objects, jsonline array) through the real http provider with preload off and on: " +
			"5 fixed files and the empty file x every subset of the tags {a,b,c} plus subsets matching nothing x limit 0..4 x passes 0..3, plus random files (tags from {a,b,c,ab,B}), " +
			"random chosencases subsets (incl. nothing-matching) and bounds; class = format / filter shape / bound shape",
	})
}
