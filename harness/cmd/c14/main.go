package main

// C14: preload is behaviour-preserving; chosencases selects exactly the listed tags.
//
// One cell = the SAME generated ammo source run through two real http providers, preload off and on, with one
// consumer:
//   fmt=uri tags=a,b,c cases=b,c limit=2 passes=0 cap=8 junk=0 [src=uris] [via=yaml]
// `cases=-` = no chosencases; `tags=-` = a file without entries.  In tags / cases a token `_` is the empty tag (an
// entry without a tag; chosencases [""]) and `~` inside a token is a space.  `junk` = layout of the file (0..3, see
// harness/c14cell: headers, blank lines, CRLF, missing final newline, pretty-printed multi-line JSON objects, all
// objects on one line, indented array).  `src=uris`: uri entries given inline in the config (`uris:`) instead of a
// file (round 3: also with the other formats and with no entries — NewProvider must reject / accept it alike in both
// modes; `src=both`: a file AND uris).  `via=yaml`: the providers are built by the plugin registry from a config map (type/file/uris/limit/passes/
// chosencases/preload keys) as when pandora reads a config file; otherwise by http.NewProvider.
// `cap` = the harness cancels the context when `cap` ammo have been acquired: greater than the number of ammo a
// bounded cell delivers (never reached then), or smaller (the run is cancelled in the middle of a pass).
// `pre=1`: the context is already cancelled when Run is called (outside the property; compared with the model only).
// Headers (round 2): `fh=0:X-A:1;2:x-a:2` = the source declares header X-A: 1 at position 0 and x-a: 2 at position 2
// (uri / uripost: a `[Key: val]` line before that entry, position n = after the last entry; http/json: a member of
// that entry's "headers"; raw: a header line of that entry's request); `ch=X-C:c1;Host:cfg.example` = the provider's
// `headers:` option.  Absent = none.
// Observation: for each side (s = streaming, p = preload) the delivered entry ids, whether the harness cut the run at
// `cap`, what Run returned and what the consumer saw at the end; tagsok = every delivered ammo carried the tag of its
// entry; reqok = every delivered request had the method and body of its entry; s.hd / p.hd = for every delivered
// entry id the Host and headers its requests carried (`*:` = the same for all delivered entries; several different
// ones for the same entry are joined by `/`).
//   s.seq=1,2 s.cut=0 s.run=nil s.end=closed p.seq=1,2 p.cut=0 p.run=nil p.end=closed tagsok=1 reqok=1 s.hd=*:^ p.hd=*:^
// A source that the constructor rejects is observed as run=construct end=norun on that side.
//
// Round 3: `cf=1` = closing the ammo file fails (file sources; observed: `X.closed` = number of Close calls on the file,
// `-` without a file, and run=closeerr / run=<class>+closeerr / run=other when Run's own error and the close error were
// made into one in which errors.Is finds neither); limit / passes are any uint64 (`limit=18446744073709551615`);
// `pad=N` = every entry's URI carries a query of N bytes (files larger than the decoders' buffers; invisible to the
// model); `big=i:size[,j:size2]` = entry i is `size` bytes big (uripost, http/json: its body; raw: its request — sizes around the
// 1 MiB chunk of decoders.readSized).  The consumer treats every delivered request like a gun (sets scheme, target,
// Host if empty, Set/Add on its headers, reads its body) AFTER looking at it: a request must be the consumer's own.
// Before the first cell side of a format and mode in a child process (hence in every replay) and before every eighth
// cell the child runs a PRELUDE provider of the same format and mode with another configuration (c14cell.Prelude);
// every other cell follows whatever cell the child ran before: what an earlier provider of the process left behind
// must not matter.
//
// Every cell runs in a CHILD process (this binary with C14_CHILD=1, a pool of them, one line per request on
// stdin/stdout): a fatal runtime error of the code under test (`fatal error: concurrent map read and map write`
// cannot be recovered) kills only the child and becomes the observation of that side: run=fatal:<class> end=crashed.

import (
	"bufio"
	"encoding/json"
	"fmt"
	"hash/fnv"
	"io"
	"math/rand"
	"os"
	"os/exec"
	"sort"
	"strconv"
	"strings"
	"sync"
	"time"

	"verifharness/c14cell"
	"verifharness/drv"
)

var formats = c14cell.Kinds

func tok(s string) string {
	if s == "" {
		return "_"
	}
	return strings.ReplaceAll(s, " ", "~")
}

func untok(s string) string {
	if s == "_" {
		return ""
	}
	return strings.ReplaceAll(s, "~", " ")
}

func chosenCount(tags, cases []string) int {
	if len(cases) == 0 {
		return len(tags)
	}
	n := 0
	for _, t := range tags {
		for _, c := range cases {
			if c == t {
				n++
				break
			}
		}
	}
	return n
}

// expected number of deliveries of a bounded cell (ok = false: unbounded)
func expectedM(limit, passes, f int) (int, bool) {
	switch {
	case limit == 0 && passes == 0:
		return 0, false
	case passes == 0:
		return limit, true
	case limit == 0:
		return satMul(passes, f), true
	}
	if limit < satMul(passes, f) {
		return limit, true
	}
	return satMul(passes, f), true
}

const huge = 1 << 40 // "more than any cell delivers"

func satMul(a, b int) int {
	if a != 0 && b != 0 && (a >= huge || b >= huge || a*b >= huge) {
		return huge
	}
	return a * b
}

func capFor(limit, passes, f, n int) int {
	if limit == 0 && passes == 0 {
		return 3*n + 5
	}
	m := limit
	if satMul(passes, f) > m {
		m = satMul(passes, f)
	}
	return m + n + 3
}

type cellSpec struct {
	format        string
	tags, cases   []string // cases nil = none
	limit, passes int
	cap           int // 0 = capFor
	layout        int
	uris, yaml    bool
	fh            []c14cell.HdrAt
	ch            []c14cell.Hdr
	pre           bool
	// round 3
	limitS, passesS string // when set: the decimal text of a limit / passes beyond int (the cell must have a cap)
	cf              bool
	pad             int
	big             [][2]int // (entry, size) of the big entries
	srcS            string   // "uris" / "both": forced source kind, whatever the format and the number of entries
	// round 6
	rc   int  // the context is cancelled inside the rc-th Read of the ammo file (file sources only)
	noCE bool // never give the explicitly empty chosencases list
}

func (c cellSpec) line() string {
	cs := "-"
	if len(c.cases) > 0 {
		ts := make([]string, len(c.cases))
		for i, s := range c.cases {
			ts[i] = tok(s)
		}
		cs = strings.Join(ts, ",")
	}
	ts := "-"
	if len(c.tags) > 0 {
		tt := make([]string, len(c.tags))
		for i, s := range c.tags {
			tt[i] = tok(s)
		}
		ts = strings.Join(tt, ",")
	}
	cp := c.cap
	if cp == 0 {
		cp = capFor(c.limit, c.passes, chosenCount(c.tags, c.cases), len(c.tags))
	}
	ls, ps := strconv.Itoa(c.limit), strconv.Itoa(c.passes)
	if c.limitS != "" {
		ls = c.limitS
	}
	if c.passesS != "" {
		ps = c.passesS
	}
	s := fmt.Sprintf("fmt=%s tags=%s cases=%s limit=%s passes=%s cap=%d junk=%d", c.format, ts, cs, ls, ps, cp,
		c.layout%c14cell.Layouts(c.format))
	if c.srcS != "" {
		s += " src=" + c.srcS
	} else if c.uris && c.format == c14cell.KURI && len(c.tags) > 0 { // an empty `uris:` list is no source at all
		s += " src=uris"
	}
	if c.yaml {
		// round 4: a third of the registry cells goes through the generic plugin type `http` + `decoder: <kind>`
		if (len(c.tags)+c.limit+c.passes+c.layout+len(c.cases))%3 == 0 {
			s += " via=http"
		} else {
			s += " via=yaml"
		}
	}
	if c.pre {
		s += " pre=1"
	}
	// round 6: half of the cells without chosencases GIVE the list, empty (`chosencases: []`, ChosenCases: []string{}) —
	// no filter, exactly like the absent key
	if len(c.cases) == 0 && !c.noCE && (len(c.tags)+c.limit+2*c.passes+c.layout)%2 == 0 {
		s += " ce=1"
	}
	if c.rc > 0 {
		s += fmt.Sprintf(" rc=%d", c.rc)
	}
	// round 4: a fifth of the cells has one or two middlewares (c14cell.Cell.MW)
	if h := len(c.tags) + 3*c.limit + 2*c.passes + c.layout + 2*len(c.cases) + len(c.ch); h%5 == 2 {
		s += fmt.Sprintf(" mw=%d", 1+h/5%2)
	}
	// round 4: a quarter of the cells is consumed the way two instances consume one provider (c14cell.Cell.Hold)
	if (len(c.tags)+2*c.limit+3*c.passes+c.layout+len(c.cases)+len(c.fh))%4 == 1 {
		s += " hold=1"
	}
	if len(c.fh) > 0 {
		ps := make([]string, len(c.fh))
		for i, h := range c.fh {
			ps[i] = fmt.Sprintf("%d:%s:%s", h.Pos, h.Key, h.Val)
		}
		s += " fh=" + strings.Join(ps, ";")
	}
	if len(c.ch) > 0 {
		ps := make([]string, len(c.ch))
		for i, h := range c.ch {
			ps[i] = h.Key + ":" + h.Val
		}
		s += " ch=" + strings.Join(ps, ";")
	}
	if c.cf {
		s += " cf=1"
	}
	if c.pad > 0 {
		s += fmt.Sprintf(" pad=%d", c.pad)
	}
	if len(c.big) > 0 {
		ps := make([]string, len(c.big))
		for i, b := range c.big {
			ps[i] = fmt.Sprintf("%d:%d", b[0], b[1])
		}
		s += " big=" + strings.Join(ps, ",")
	}
	return s
}

func parseFH(s string) []c14cell.HdrAt {
	var out []c14cell.HdrAt
	if s == "" || s == "-" {
		return nil
	}
	for _, p := range strings.Split(s, ";") {
		f := strings.SplitN(p, ":", 3)
		if len(f) == 3 {
			out = append(out, c14cell.HdrAt{Pos: atoi(f[0]), Key: f[1], Val: f[2]})
		}
	}
	return out
}

func parseCH(s string) []c14cell.Hdr {
	var out []c14cell.Hdr
	if s == "" || s == "-" {
		return nil
	}
	for _, p := range strings.Split(s, ";") {
		f := strings.SplitN(p, ":", 2)
		if len(f) == 2 {
			out = append(out, c14cell.Hdr{Key: f[0], Val: f[1]})
		}
	}
	return out
}

// perEntry: the format declares headers per entry (no two declarations of the same header for one entry)
func perEntry(format string) bool {
	return format == c14cell.KRaw || format == c14cell.KJSONLine || format == c14cell.KJSONArr
}

// randFH: header declarations for a source of n entries.  uri / uripost: lines anywhere, also after the last entry,
// the same header redeclared later (also spelled in another case), Host; the other formats: per entry, each header at
// most once.
func randFH(r *rand.Rand, format string, n int) []c14cell.HdrAt {
	keys := []string{"X-A", "X-B", "x-a", "X-Long-Name"}
	var out []c14cell.HdrAt
	if n == 0 {
		return nil
	}
	k := 1 + r.Intn(4)
	seen := map[string]bool{}
	for j := 0; j < k; j++ {
		key := keys[r.Intn(len(keys))]
		pos := r.Intn(n)
		if perEntry(format) {
			id := fmt.Sprintf("%d/%s", pos, strings.ToLower(key))
			if seen[id] {
				continue
			}
			seen[id] = true
		} else {
			pos = r.Intn(n + 1)
			if r.Intn(3) == 0 {
				pos = 1 + r.Intn(n) // after the first entry
			}
			if r.Intn(6) == 0 {
				key = "Host"
			}
		}
		out = append(out, c14cell.HdrAt{Pos: pos, Key: key, Val: fmt.Sprintf("v%d", j+1)})
	}
	sort.SliceStable(out, func(i, j int) bool { return out[i].Pos < out[j].Pos })
	return out
}

func randCH(r *rand.Rand) []c14cell.Hdr {
	switch r.Intn(6) {
	case 0:
		return []c14cell.Hdr{{Key: "X-A", Val: "c"}}
	case 1:
		return []c14cell.Hdr{{Key: "X-C", Val: "c1"}, {Key: "x-c", Val: "c2"}, {Key: "Host", Val: "cfg.example"}}
	case 2:
		return []c14cell.Hdr{{Key: "x-b", Val: "c"}, {Key: "Host", Val: "cfg.example"}}
	}
	return nil // half of the cells: no `headers` option
}

func gen(r *rand.Rand, tier string) []string {
	var out []string
	add := func(c cellSpec) { out = append(out, c.line()) }
	thorough := tier == "thorough"

	// (A) exhaustive small part: fixed files x all subsets of {a,b,c} plus subsets matching nothing
	files := [][]string{{"a"}, {"a", "b"}, {"a", "b", "c"}, {"b", "a", "b"}, {"a", "a", "c", "b"}, {}}
	subsets := [][]string{nil, {"a"}, {"b"}, {"c"}, {"a", "b"}, {"b", "c"}, {"a", "c"}, {"a", "b", "c"}, {"zz"}, {"c", "zz"}}
	for _, f := range formats {
		for fi, tags := range files {
			for si, cases := range subsets {
				for limit := 0; limit <= 4; limit++ {
					for passes := 0; passes <= 3; passes++ {
						if len(tags) == 0 && si > 1 && si < 8 {
							continue // the empty file: no filter, one filter, the filters with zz
						}
						// nothing chosen and passes = 0 is where a broken streaming path never ends (watchdog
						// time on such a tree): limits 0 and 1 only
						if len(tags) > 0 && chosenCount(tags, cases) == 0 && passes == 0 && limit > 1 {
							continue
						}
						h := fi + si + limit + passes
						add(cellSpec{format: f, tags: tags, cases: cases, limit: limit, passes: passes, layout: h,
							uris: h%3 == 0, yaml: h%4 == 1})
					}
				}
			}
		}
	}

	// (B) every layout x source x construction route on two files with untagged entries ("" chosen explicitly too)
	bfiles := [][]string{{"a", "", "b", "a"}, {"", "a b", "a"}}
	bsubsets := [][]string{nil, {"a"}, {""}, {"a", ""}, {"a b"}, {"zz"}, {"b", "a b"}}
	bbounds := [][2]int{{0, 0}, {3, 0}, {0, 2}, {5, 2}, {2, 3}}
	for _, f := range formats {
		for lay := 0; lay < c14cell.Layouts(f); lay++ {
			for _, tags := range bfiles {
				for _, cases := range bsubsets {
					for bi, b := range bbounds {
						for route := 0; route < 4; route++ {
							uris, yaml := route&1 == 1, route&2 == 2
							if uris && f != c14cell.KURI {
								continue
							}
							if !thorough && (lay+bi+route)%2 == 1 && f != c14cell.KURI {
								continue
							}
							add(cellSpec{format: f, tags: tags, cases: cases, limit: b[0], passes: b[1], layout: lay, uris: uris, yaml: yaml})
						}
					}
				}
			}
		}
	}

	// (C) the run is cancelled in the middle: every cap below the number of ammo a bounded cell delivers
	cfiles := [][]string{{"a", "b", "c"}, {"b", "a", "b", "c"}}
	csubsets := [][]string{nil, {"b"}, {"a", "c"}, {"b", "c"}}
	for fi, f := range formats {
		for _, tags := range cfiles {
			for si, cases := range csubsets {
				for _, b := range [][2]int{{4, 0}, {0, 2}, {5, 3}, {7, 2}} {
					m, _ := expectedM(b[0], b[1], chosenCount(tags, cases))
					for cp := 1; cp < m; cp++ {
						if !thorough && (cp+fi+si)%2 == 1 {
							continue
						}
						add(cellSpec{format: f, tags: tags, cases: cases, limit: b[0], passes: b[1], cap: cp, layout: cp + si,
							uris: cp%2 == 0, yaml: cp%3 == 0})
					}
				}
			}
		}
	}

	// (D) thorough: every file of up to 5 entries over the tags {a, b, none} x every chosencases subset of
	// {a, b, "", zz} x limit 0..4 x passes 0..2, every format
	if thorough {
		alpha := []string{"a", "b", ""}
		var all [][]string
		var rec func(cur []string, n int)
		rec = func(cur []string, n int) {
			if n == 0 {
				all = append(all, append([]string(nil), cur...))
				return
			}
			for _, a := range alpha {
				rec(append(cur, a), n-1)
			}
		}
		for n := 1; n <= 5; n++ {
			rec(nil, n)
		}
		calpha := []string{"a", "b", "", "zz"}
		for fi, f := range formats {
			for ti, tags := range all {
				for mask := 0; mask < 16; mask++ {
					var cases []string
					for j, a := range calpha {
						if mask&(1<<j) != 0 {
							cases = append(cases, a)
						}
					}
					for limit := 0; limit <= 4; limit++ {
						for passes := 0; passes <= 2; passes++ {
							if chosenCount(tags, cases) == 0 && passes == 0 && limit > 0 {
								continue
							}
							h := fi + ti + mask + limit + passes
							add(cellSpec{format: f, tags: tags, cases: cases, limit: limit, passes: passes, layout: h,
								uris: h%2 == 0, yaml: h%5 == 0})
						}
					}
				}
			}
		}
	}

	// (F) headers: sources that declare headers before, between and after their entries (uri / uripost: the decoder's
	// accumulator; a header redeclared later, also in another spelling; Host) or per entry (http/json, raw), with
	// and without a `headers` option, over several passes and with a filter; every layout, source and route
	type hcase struct {
		fh []c14cell.HdrAt
		ch []c14cell.Hdr
	}
	at := func(pos int, k, v string) c14cell.HdrAt { return c14cell.HdrAt{Pos: pos, Key: k, Val: v} }
	lineCases := []hcase{
		{fh: []c14cell.HdrAt{at(1, "X-A", "one")}},
		{fh: []c14cell.HdrAt{at(0, "X-A", "one"), at(2, "X-A", "two"), at(3, "X-B", "end")}},
		{fh: []c14cell.HdrAt{at(0, "Host", "f.example"), at(1, "x-a", "low"), at(2, "X-A", "up")}},
		{fh: []c14cell.HdrAt{at(3, "X-B", "end")}},
		{fh: []c14cell.HdrAt{at(1, "X-A", "one")}, ch: []c14cell.Hdr{{Key: "X-A", Val: "c"}, {Key: "X-C", Val: "c1"}, {Key: "x-c", Val: "c2"}}},
		{fh: []c14cell.HdrAt{at(2, "Host", "f.example")}, ch: []c14cell.Hdr{{Key: "Host", Val: "cfg.example"}}},
		{ch: []c14cell.Hdr{{Key: "x-b", Val: "c"}, {Key: "Host", Val: "cfg.example"}}},
	}
	entryCases := []hcase{
		{fh: []c14cell.HdrAt{at(1, "X-A", "one")}},
		{fh: []c14cell.HdrAt{at(0, "X-A", "one"), at(0, "X-B", "b"), at(2, "x-a", "two")}},
		{fh: []c14cell.HdrAt{at(1, "X-A", "one")}, ch: []c14cell.Hdr{{Key: "X-A", Val: "c"}, {Key: "X-C", Val: "c1"}, {Key: "x-c", Val: "c2"}}},
		{ch: []c14cell.Hdr{{Key: "x-b", Val: "c"}, {Key: "Host", Val: "cfg.example"}}},
	}
	htags := []string{"a", "b", "a"}
	hsubsets := [][]string{nil, {"a"}, {"b"}, {"zz"}}
	hbounds := [][2]int{{0, 2}, {4, 0}, {5, 3}, {0, 0}}
	for _, f := range formats {
		hc := lineCases
		if perEntry(f) {
			hc = entryCases
		}
		for hi, h := range hc {
			for si, cases := range hsubsets {
				for bi, b := range hbounds {
					for lay := 0; lay < c14cell.Layouts(f); lay++ {
						k := hi + si + bi + lay
						add(cellSpec{format: f, tags: htags, cases: cases, limit: b[0], passes: b[1], layout: lay,
							uris: k%3 == 0, yaml: k%4 == 1, fh: h.fh, ch: h.ch})
					}
				}
			}
		}
	}

	// (G) outside the property's quantifier, for the model only: the context is cancelled BEFORE Run is called
	// (`pre=1`).  Nothing may be delivered; how Run ends is what the model says (streaming: context.Canceled at once;
	// preload: LoadAmmo of uri / uripost / raw looks at the context, http/json does not and may end with "no ammo").
	for fi, f := range formats {
		for ti, tags := range [][]string{{"a", "b", "a"}, {"b"}, {}} {
			for si, cases := range [][]string{nil, {"a"}, {"zz"}} {
				for bi, b := range [][2]int{{0, 0}, {2, 0}, {0, 2}} {
					k := fi + ti + si + bi
					add(cellSpec{format: f, tags: tags, cases: cases, limit: b[0], passes: b[1], layout: k, uris: k%3 == 0,
						yaml: k%2 == 0, pre: true})
				}
			}
		}
	}

	// ---- round 3 ------------------------------------------------------------------------------------------------
	// (H) bounds beyond int32 / int64 (the provider's Limit and Passes are uint): cut by the cap, or — a huge bound
	// next to a small one — ended by the small one
	// 2^32, 2^32+1, 2^62 (x4 = 2^64), ceil(2^64/3) (x3 = 2^64+2), 2^63-1, 2^63 (x2 = 2^64), 2^64-1: a product with the
	// number of chosen entries (2, 3, 4) that does not fit uint wraps to 0, 2, …
	hugeVals := []string{"4294967296", "4294967297", "4611686018427387904", "6148914691236517206", "9223372036854775807",
		"9223372036854775808", "18446744073709551615"}
	type hfile struct{ tags, cases []string }
	hfiles := []hfile{{[]string{"a", "b", "a"}, nil}, {[]string{"a", "b", "a"}, []string{"a"}}, {[]string{"a", "b", "a", "b"}, nil},
		{[]string{"a", "b", "a"}, []string{"zz"}}}
	for fi, f := range formats {
		for si, hf := range hfiles {
			for hi, hv := range hugeVals {
				k := fi + si + hi
				tags, cases := hf.tags, hf.cases
				// huge limit, cut at the cap; huge passes, cut at the cap; both huge; huge limit with 2 passes; 5 with huge passes
				add(cellSpec{format: f, tags: tags, cases: cases, limit: huge, limitS: hv, cap: 7, layout: k, yaml: k%2 == 0, uris: k%3 == 0})
				add(cellSpec{format: f, tags: tags, cases: cases, passes: huge, passesS: hv, cap: 9, layout: k, yaml: k%2 == 1})
				if thorough || k%2 == 0 {
					add(cellSpec{format: f, tags: tags, cases: cases, limit: huge, limitS: hv, passes: huge, passesS: hugeVals[(hi+1)%len(hugeVals)], cap: 5, layout: k})
					add(cellSpec{format: f, tags: tags, cases: cases, limit: huge, limitS: hv, passes: 2, layout: k, yaml: k%2 == 0})
					add(cellSpec{format: f, tags: tags, cases: cases, limit: 5, passes: huge, passesS: hv, layout: k, uris: k%2 == 0})
				}
			}
		}
	}

	// (I) closing the ammo file fails: alone (the run ends by a bound, by "no ammo"), together with a cancellation in the
	// middle, together with a constructor-level rejection; every format, both routes
	for fi, f := range formats {
		for ti, tags := range [][]string{{"a", "b", "a"}, {"b"}, {}} {
			for si, cases := range [][]string{nil, {"a"}, {"zz"}} {
				for bi, b := range [][2]int{{0, 0}, {2, 0}, {0, 2}, {5, 3}} {
					k := fi + ti + si + bi
					add(cellSpec{format: f, tags: tags, cases: cases, limit: b[0], passes: b[1], layout: k, yaml: k%2 == 0, cf: true})
					if m, ok := expectedM(b[0], b[1], chosenCount(tags, cases)); ok && m >= 2 {
						add(cellSpec{format: f, tags: tags, cases: cases, limit: b[0], passes: b[1], cap: 1 + k%(m-1), layout: k, yaml: k%2 == 1, cf: true})
					}
				}
			}
		}
	}

	// (J) sources larger than the decoders' buffers (bufio 4 KiB, bufio.Scanner 64 KiB): every entry's URI is padded
	for fi, f := range formats {
		pads := []int{700, 5000, 60000, 70000} // 70000: a line longer than bufio.MaxScanTokenSize (uri: /repo 66b1841)
		for pi, pad := range pads {
			for si, cases := range [][]string{nil, {"a"}, {"c", "zz"}} {
				for bi, b := range [][2]int{{0, 2}, {5, 0}, {6, 3}} {
					k := fi + pi + si + bi
					if !thorough && pad >= 60000 && (si+bi)%3 != 0 {
						continue
					}
					add(cellSpec{format: f, tags: []string{"a", "b", "a", "c"}, cases: cases, limit: b[0], passes: b[1], layout: k,
						uris: k%3 == 0, yaml: k%4 == 1, pad: pad})
				}
			}
		}
	}

	// (K) one entry around the 1 MiB chunk of decoders.readSized (uripost: body; raw: request; http/json: body)
	for fi, f := range []string{c14cell.KURIPost, c14cell.KRaw, c14cell.KJSONLine} {
		sizes := []int{1<<20 - 1, 1 << 20, 1<<20 + 1, 2<<20 + 5}
		if thorough {
			sizes = append(sizes, 2<<20, 3<<20+1, 1<<19)
		}
		for zi, size := range sizes {
			for si, cases := range [][]string{nil, {"a"}} {
				k := fi + zi + si
				add(cellSpec{format: f, tags: []string{"a", "b", "a"}, cases: cases, passes: 2, layout: k, yaml: k%2 == 0,
					big: [][2]int{{2 * (k % 2), size}}})
				if zi%2 == 0 { // two big entries of different sizes in one source (each must keep its own bytes)
					add(cellSpec{format: f, tags: []string{"a", "b", "a"}, cases: cases, limit: 5, layout: k + 1, yaml: k%2 == 1,
						big: [][2]int{{0, size}, {2, 1<<20 + 9 + zi}}})
				}
			}
		}
	}

	// (L) NewProvider's source switch: inline uris with a decoder other than uri, a file AND uris, an empty uris list
	// (no source at all, or — with a layout that starts with a blank line — an empty source): rejected / accepted alike
	// with preload off and on
	for fi, f := range formats {
		for ti, tags := range [][]string{{"a", "b"}, {}} {
			for si, src := range []string{"uris", "both"} {
				for lay := 0; lay < 4; lay++ {
					k := fi + ti + si + lay
					if !thorough && f != c14cell.KURI && k%2 == 1 {
						continue
					}
					add(cellSpec{format: f, tags: tags, cases: [][]string{nil, {"a"}}[k%2], limit: k % 3, passes: 1 + k%2, layout: lay,
						yaml: k%2 == 0, srcS: src})
				}
			}
		}
	}

	// (F) round 6: the context is cancelled INSIDE a Read of the ammo file, while the decoder is in the middle of its first
	// Scan call (rc=1: the first Read of the run; rc=2 on sources padded beyond the read buffer: the second Read, still the
	// first entry).  Something is always chosen; the first entry is chosen or not; header lines / blank lines before the
	// first entry (uri / uripost `fh=0:…`, layouts 1 and 3) make that Scan call go round its loop once more.
	for _, f := range formats {
		if f == c14cell.KJSONArr {
			continue // the constructor has decoded the whole array: Run never reads the file
		}
		for _, tags := range [][]string{{"a"}, {"a", "b"}, {"b", "a", "a"}, {"a", "b", "c", "a"}} {
			for ci, cases := range [][]string{nil, {"a"}, {"a", "b"}} {
				for bi, b := range [][2]int{{0, 0}, {1, 0}, {0, 1}, {3, 2}, {0, 2}} {
					for lay := 0; lay < 4; lay++ {
						c := cellSpec{format: f, tags: tags, cases: cases, limit: b[0], passes: b[1], cap: 50, layout: lay,
							yaml: (lay+bi+ci)%2 == 1, rc: 1}
						if (f == c14cell.KURI || f == c14cell.KURIPost) && (lay+bi)%2 == 0 {
							c.fh = []c14cell.HdrAt{{Pos: 0, Key: "X-First", Val: "v" + strconv.Itoa(bi)}}
						}
						if (len(tags)+ci+bi+lay)%5 == 0 {
							c.pad, c.rc = 5000, 2
						}
						add(c)
					}
				}
			}
		}
	}

	// (E) random cells
	extra := 8000
	maxN := 9
	if thorough {
		extra = 300000
		maxN = 40
	}
	// tags that are prefixes / case variants of each other, contain a space, or are absent: the filter must compare
	// whole tags exactly
	alphabet := []string{"a", "b", "c", "ab", "B", "", "a b"}
	for i := 0; i < extra; i++ {
		n := 1 + r.Intn(maxN)
		if thorough && r.Intn(50) == 0 {
			n = maxN + r.Intn(200)
		}
		if r.Intn(40) == 0 {
			n = 0
		}
		tags := make([]string, n)
		for j := range tags {
			tags[j] = alphabet[r.Intn(len(alphabet))]
		}
		var cases []string
		switch r.Intn(6) {
		case 0: // none
		case 1: // matches nothing
			cases = []string{"zz"}
		default:
			for _, a := range alphabet {
				if r.Intn(3) == 0 {
					cases = append(cases, a)
				}
			}
			if r.Intn(4) == 0 {
				cases = append(cases, "zz")
			}
			if r.Intn(8) == 0 && len(cases) > 0 {
				cases = append(cases, cases[0]) // a tag listed twice
			}
		}
		limit, passes := 0, 0
		switch r.Intn(5) {
		case 0:
			limit = 1 + r.Intn(3*n+1)
		case 1:
			passes = 1 + r.Intn(4)
		case 2, 3:
			passes = 1 + r.Intn(4)
			limit = 1 + r.Intn(passes*n+2)
		}
		f := chosenCount(tags, cases)
		if n > 0 && f == 0 && passes == 0 && r.Intn(4) != 0 {
			passes = 1 + r.Intn(3) // see above: a quarter of these cells keeps passes = 0
		}
		c := cellSpec{format: formats[r.Intn(len(formats))], tags: tags, cases: cases, limit: limit, passes: passes,
			layout: r.Intn(4), uris: r.Intn(3) == 0, yaml: r.Intn(4) == 0}
		// a third of the random cells declares headers
		if r.Intn(3) == 0 {
			c.fh = randFH(r, c.format, n)
			c.ch = randCH(r)
		}
		// a fifth of the bounded cells is cancelled somewhere before its end
		if m, ok := expectedM(limit, passes, f); ok && m >= 2 && r.Intn(5) == 0 {
			c.cap = 1 + r.Intn(m-1)
		}
		// round 3: a tenth with a failing Close, a twelfth padded beyond the buffers
		if r.Intn(10) == 0 {
			c.cf = true
			c.uris = false
		}
		if r.Intn(12) == 0 {
			c.pad = 300 + r.Intn(2700)
		}
		add(c)
	}
	return out
}

// atoi: a number beyond int counts as `huge`
func atoi(s string) int {
	n, err := strconv.Atoi(s)
	if err != nil && u64(s) > 0 {
		return huge
	}
	if n > huge {
		return huge
	}
	return n
}

func u64(s string) uint64 {
	n, _ := strconv.ParseUint(s, 10, 64)
	return n
}

func side(prefix string, o c14cell.Obs) string {
	ids := make([]string, len(o.Seq))
	for i, v := range o.Seq {
		ids[i] = strconv.Itoa(v)
	}
	seq := strings.Join(ids, ",")
	if seq == "" {
		seq = "-"
	}
	cut := 0
	if o.Cut {
		cut = 1
	}
	if o.Construct != "" {
		return fmt.Sprintf("%s.seq=- %s.cut=0 %s.run=construct %s.end=norun %s.closed=-", prefix, prefix, prefix, prefix, prefix)
	}
	closed := "-"
	if o.Closed >= 0 && o.End != "crashed" {
		closed = strconv.Itoa(o.Closed)
	}
	return fmt.Sprintf("%s.seq=%s %s.cut=%d %s.run=%s %s.end=%s %s.closed=%s", prefix, seq, prefix, cut, prefix, o.Run, prefix, o.End, prefix, closed)
}

// hdOf: for every delivered entry id (ascending) the distinct Host/header strings its requests carried; `*:` when
// they are the same for all delivered entries, `-` when nothing was delivered.
func hdOf(o c14cell.Obs) string {
	per := map[int]map[string]bool{}
	for i, id := range o.Seq {
		if per[id] == nil {
			per[id] = map[string]bool{}
		}
		h := ""
		if i < len(o.SeqHdr) {
			h = o.SeqHdr[i]
		}
		per[id][h] = true
	}
	if len(per) == 0 {
		return "-"
	}
	ids := make([]int, 0, len(per))
	for id := range per {
		ids = append(ids, id)
	}
	sort.Ints(ids)
	strs := make([]string, len(ids))
	same := true
	for i, id := range ids {
		var hs []string
		for h := range per[id] {
			hs = append(hs, h)
		}
		sort.Strings(hs)
		strs[i] = strings.Join(hs, "/")
		if strs[i] != strs[0] {
			same = false
		}
	}
	if same {
		return "*:" + strs[0]
	}
	parts := make([]string, len(ids))
	for i, id := range ids {
		parts[i] = strconv.Itoa(id) + ":" + strs[i]
	}
	return strings.Join(parts, "|")
}

func listOf(s string) []string {
	if s == "-" || s == "" {
		return nil
	}
	ps := strings.Split(s, ",")
	for i := range ps {
		ps[i] = untok(ps[i])
	}
	return ps
}

func cellOf(input string, preload bool) c14cell.Cell {
	kv := drv.KV(input)
	c := c14cell.Cell{
		Kind: kv["fmt"], Preload: preload, Limit: u64(kv["limit"]), Passes: u64(kv["passes"]),
		Tags: listOf(kv["tags"]), Chosen: listOf(kv["cases"]), Cap: atoi(kv["cap"]), Layout: atoi(kv["junk"]),
		Uris: kv["src"] == "uris", YAML: kv["via"] == "yaml" || kv["via"] == "http", Generic: kv["via"] == "http", FH: parseFH(kv["fh"]), CH: parseCH(kv["ch"]),
		Pre: kv["pre"] == "1", Hold: kv["hold"] == "1", MW: atoi(kv["mw"]), CloseFail: kv["cf"] == "1", Pad: atoi(kv["pad"]), Both: kv["src"] == "both",
		EmptyCases: kv["ce"] == "1", ReadCancel: atoi(kv["rc"]),
	}
	if kv["big"] != "" {
		c.Big = map[int]int{}
		for _, e := range strings.Split(kv["big"], ",") {
			if b := strings.SplitN(e, ":", 2); len(b) == 2 {
				c.Big[atoi(b[0])] = atoi(b[1])
			}
		}
	}
	return c
}

// runCell (in the child): c14cell.Run already repeats a cell that looks stuck once; a cell that still looks stuck is
// run a third time with a slower watchdog (600 ms ticks), so that a stall of a loaded machine is never reported as a hang.
func runCell(c c14cell.Cell) c14cell.Obs {
	o := c14cell.Run(c)
	if o.Construct == "" && (o.End != "closed" || o.Run == "noreturn") {
		c.Tick = 600 * time.Millisecond
		o = c14cell.Run(c)
	}
	return o
}

// ---------------------------------------------------------------- child processes

const childEnv = "C14_CHILD"
const obsPrefix = "C14OBS "

// childMain: one request per line (`s <input>` / `p <input>`), one answer per line.
func childMain() {
	preluded := map[string]bool{}
	in := bufio.NewReaderSize(os.Stdin, 1<<20)
	out := bufio.NewWriter(os.Stdout)
	for {
		line, err := in.ReadString('\n')
		line = strings.TrimRight(line, "\r\n")
		if len(line) > 2 {
			c := cellOf(line[2:], line[0] == 'p')
			// the prelude provider: before the first cell of this format and mode in this process (so always in a
			// replay, which starts a fresh child) and before every eighth cell (by a hash of the input)
			key := c.Kind + string(line[0])
			h := fnv.New32a()
			h.Write([]byte(line[2:]))
			if !preluded[key] || h.Sum32()%8 == 0 {
				preluded[key] = true
				c14cell.Prelude(c.Kind, c.Preload)
			}
			o := runCell(c)
			b, _ := json.Marshal(o)
			out.WriteString(obsPrefix)
			out.Write(b)
			out.WriteString("\n")
			out.Flush()
		}
		if err != nil {
			return
		}
	}
}

type tailBuf struct {
	mu sync.Mutex
	b  []byte
}

func (t *tailBuf) Write(p []byte) (int, error) {
	t.mu.Lock()
	defer t.mu.Unlock()
	t.b = append(t.b, p...)
	if len(t.b) > 1<<16 { // the head of a crash report names the error
		t.b = t.b[:1<<16]
	}
	return len(p), nil
}

func (t *tailBuf) String() string {
	t.mu.Lock()
	defer t.mu.Unlock()
	return string(t.b)
}

type child struct {
	cmd  *exec.Cmd
	in   io.WriteCloser
	out  *bufio.Reader
	errs *tailBuf
}

var pool = make(chan *child, 256)

func spawn() (*child, error) {
	exe, err := os.Executable()
	if err != nil {
		return nil, err
	}
	cmd := exec.Command(exe)
	cmd.Env = append(os.Environ(), childEnv+"=1", "GOMAXPROCS=4", "GOTRACEBACK=single")
	in, err := cmd.StdinPipe()
	if err != nil {
		return nil, err
	}
	outp, err := cmd.StdoutPipe()
	if err != nil {
		return nil, err
	}
	c := &child{cmd: cmd, in: in, out: bufio.NewReaderSize(outp, 1<<20), errs: &tailBuf{}}
	cmd.Stderr = c.errs
	if err := cmd.Start(); err != nil {
		return nil, err
	}
	return c, nil
}

func (c *child) kill() {
	_ = c.in.Close()
	_ = c.cmd.Process.Kill()
	_ = c.cmd.Wait()
}

// crashClass: what killed the child, from the head of its stderr
func crashClass(stderr string) string {
	switch {
	case strings.Contains(stderr, "concurrent map"):
		return "concurrent-map"
	case strings.Contains(stderr, "out of memory") || strings.Contains(stderr, "cannot allocate memory") ||
		strings.Contains(stderr, "newosproc") || strings.Contains(stderr, "resource temporarily unavailable") ||
		strings.Contains(stderr, "failed to create new OS thread"):
		return "infra" // the machine, not the code under test
	case strings.Contains(stderr, "fatal error:"):
		return "fatal-error"
	case strings.Contains(stderr, "panic:"):
		return "panic"
	}
	return "infra" // died without a runtime report (killed from outside)
}

// ask runs one side of a cell in a child.  crash = "" or the class of the crash that killed the child.
func ask(side byte, input string) (o c14cell.Obs, crash string, detail string) {
	var c *child
	select {
	case c = <-pool:
	default:
		var err error
		if c, err = spawn(); err != nil {
			return o, "spawn", err.Error()
		}
	}
	type ans struct {
		line string
		err  error
	}
	ch := make(chan ans, 1)
	go func() {
		if _, err := io.WriteString(c.in, string(side)+" "+input+"\n"); err != nil {
			ch <- ans{"", err}
			return
		}
		for {
			l, err := c.out.ReadString('\n')
			if strings.HasPrefix(l, obsPrefix) {
				ch <- ans{strings.TrimSpace(l[len(obsPrefix):]), nil}
				return
			}
			if err != nil {
				ch <- ans{"", err}
				return
			}
		}
	}()
	select {
	case a := <-ch:
		if a.err != nil {
			_ = c.in.Close()
			done := make(chan struct{})
			go func() { _ = c.cmd.Wait(); close(done) }()
			select {
			case <-done:
			case <-time.After(5 * time.Second):
				_ = c.cmd.Process.Kill()
				<-done
			}
			e := c.errs.String()
			return o, crashClass(e), e
		}
		if err := json.Unmarshal([]byte(a.line), &o); err != nil {
			c.kill()
			return o, "protocol", a.line
		}
		pool <- c
		return o, "", ""
	case <-time.After(36 * time.Second):
		c.kill()
		return c14cell.Obs{Run: "noreturn", End: "blocked"}, "", ""
	}
}

// runSide: a child that dies of a data race is reported at once (the race need not repeat); any other death is
// reported only if a fresh child dies of the same cell again; a child that dies without a runtime report or of resource
// exhaustion (killed from outside, no memory, no threads) is retried and, if that persists, observed as run=infra:…
// (the judge skips the cell: not a finding).
func runSide(side byte, input string) c14cell.Obs {
	o, crash, detail := ask(side, input)
	if crash != "" && crash != "concurrent-map" {
		o, crash, detail = ask(side, input)
	}
	for try := 0; try < 3 && (crash == "infra" || crash == "spawn" || crash == "protocol"); try++ {
		time.Sleep(300 * time.Millisecond)
		o, crash, detail = ask(side, input)
	}
	if crash == "infra" || crash == "spawn" || crash == "protocol" {
		// the child could not be run at all: the cell is skipped by the judge, never a finding
		return c14cell.Obs{Run: "infra:" + crash, End: "crashed"}
	}
	if crash != "" {
		if os.Getenv("C14_DEBUG") != "" {
			fmt.Fprintf(os.Stderr, "child crashed on %c %s:\n%s\n", side, input, drv.Trunc(detail, 3000))
		}
		return c14cell.Obs{Run: "fatal:" + crash, End: "crashed"}
	}
	return o
}

func run(input string) string {
	tags := listOf(drv.KV(input)["tags"])
	s := runSide('s', input)
	p := runSide('p', input)
	tagsok, reqok := 1, "1"
	for k, o := range []c14cell.Obs{s, p} {
		for i, id := range o.Seq {
			if id < 0 || id >= len(tags) || o.SeqTags[i] != tags[id] {
				tagsok = 0
			}
		}
		if o.ReqBad != "" && reqok == "1" {
			reqok = "0(" + "sp"[k:k+1] + ":" + strings.Map(func(r rune) rune {
				if r == ' ' || r == '\t' || r == '=' {
					return '_'
				}
				return r
			}, o.ReqBad) + ")"
		}
	}
	return fmt.Sprintf("%s %s tagsok=%d reqok=%s s.hd=%s p.hd=%s", side("s", s), side("p", p), tagsok, reqok, hdOf(s), hdOf(p))
}

func class(input, obs string) string {
	kv := drv.KV(input)
	tags := listOf(kv["tags"])
	cases := listOf(kv["cases"])
	f := chosenCount(tags, cases)
	sel := "some"
	switch {
	case len(tags) == 0:
		sel = "emptyfile"
	case len(cases) == 0:
		sel = "nofilter"
	case f == 0:
		sel = "nomatch"
	case f == len(tags):
		sel = "all"
	}
	b := "unbounded"
	l, p := kv["limit"] != "0", kv["passes"] != "0"
	switch {
	case l && p:
		b = "limit+passes"
	case l:
		b = "limit"
	case p:
		b = "passes"
	}
	if m, ok := expectedM(atoi(kv["limit"]), atoi(kv["passes"]), f); ok && f > 0 && atoi(kv["cap"]) < m {
		b += "+cancelled"
	}
	src := kv["fmt"]
	if kv["src"] == "uris" {
		src += "(uris)"
	}
	if kv["fh"] != "" || kv["ch"] != "" {
		b += "+headers"
	}
	if kv["pre"] == "1" {
		b = "precancelled"
	}
	if kv["rc"] != "" {
		b = "cancelled-inside-scan"
		if strings.HasPrefix(kv["fh"], "0:") || kv["junk"] == "1" || kv["junk"] == "3" {
			b += "+loops-again"
		}
	}
	if kv["ce"] == "1" {
		sel = "emptylist"
	}
	if kv["cf"] == "1" {
		b += "+closefault"
	}
	if atoi(kv["limit"]) >= huge || atoi(kv["passes"]) >= huge {
		b += "+hugebound"
	}
	if kv["pad"] != "" {
		b += "+padded"
	}
	if kv["big"] != "" {
		b += "+bigentry"
	}
	return src + "/" + sel + "/" + b
}

func main() {
	if os.Getenv(childEnv) != "" {
		childMain()
		return
	}
	drv.Main(&drv.Prop{
		ID:      "C14",
		Gen:     gen,
		Run:     run,
		Class:   class,
		Workers: 32,
		Timeout: 40 * time.Second,
		Rule: "the same generated ammo source (uri file or inline uris, uripost, raw, http/json objects, http/json array; 3-4 layouts each: headers, blank lines, CRLF, " +
			"missing final newline, pretty-printed / one-line JSON) through the real http provider with preload off and on, built by NewProvider or by the plugin registry from a config map: " +
			"fixed files and the empty file x every subset of the tags {a,b,c} plus subsets matching nothing x limit 0..4 x passes 0..3; layouts x sources x routes on files with untagged entries; " +
			"every cancellation point below the end of bounded cells; thorough: every file of <= 5 entries over {a,b,untagged} x every chosencases subset of {a,b,\"\",zz} x limit 0..4 x passes 0..2; " +
			"header declarations of the source (uri/uripost: [K: v] lines before, between and after the entries, redeclared, other spelling, Host; http/json, raw: per entry) x `headers` option x filter x bounds x layouts; " +
			"plus random files (tags from {a,b,c,ab,B,untagged,'a b'}), random chosencases subsets (incl. nothing-matching, duplicates), bounds and (a third) random header declarations; " +
			"round 3: a failing Close of the ammo file (alone, with a cancellation in the middle, with nothing chosen), bounds up to 2^64-1, sources padded beyond the decoders' buffers (4 KiB, 64 KiB), one entry around the 1 MiB read chunk; " +
			"the consumer treats every request like a gun (mutates it after looking at it); every cell side follows other providers in its process (a prelude provider with another configuration at the start of a child and before every eighth cell); " +
			"round 6: half of the cells without chosencases give the list explicitly empty (ce=1); cells whose context is cancelled inside the first / second Read of the ammo file, i.e. in the middle of the first Scan call (rc=K; header lines or blank lines first make that call go round its loop again) — both modes must end the same way as core/engine sees it (canceledw = a cancellation errutil.IsCtxError does not recognise); " +
			"every cell runs in a child process (a fatal runtime error of the code under test is the observation run=fatal:<class>); class = format(source) / filter shape / bound shape [+headers]",
	})
}
