package main

// C14: preload is behaviour-preserving; chosencases selects exactly the listed tags.
//
// One cell = the SAME generated ammo source run through two real http providers, preload off and on, with one
// consumer:
//   fmt=uri tags=a,b,c cases=b,c limit=2 passes=0 cap=8 junk=0 [src=uris] [via=yaml]
// `cases=-` = no chosencases; `tags=-` = a file without entries.  In tags / cases a token `_` is the empty tag (an
// entry without a tag; chosencases [""]) and `~` inside a token is a space.  `junk` = layout of the file (0..3, see
// harness/c14cell: headers, blank lines, CRLF, missing final newline, pretty-printed multi-line JSON objects, all
// objects on one line, indented array).  `src=uris`: uri entries given inline in the config (`uris:`) instead of a
// file.  `via=yaml`: the providers are built by the plugin registry from a config map (type/file/uris/limit/passes/
// chosencases/preload keys) as when pandora reads a config file; otherwise by http.NewProvider.
// `cap` = the harness cancels the context when `cap` ammo have been acquired: greater than the number of ammo a
// bounded cell delivers (never reached then), or smaller (the run is cancelled in the middle of a pass).
// Observation: for each side (s = streaming, p = preload) the delivered entry ids, whether the harness cut the run at
// `cap`, what Run returned and what the consumer saw at the end; tagsok = every delivered ammo carried the tag of its
// entry.
//   s.seq=1,2 s.cut=0 s.run=nil s.end=closed p.seq=1,2 p.cut=0 p.run=nil p.end=closed tagsok=1
// A source that the constructor rejects is observed as run=construct end=norun on that side.

import (
	"fmt"
	"math/rand"
	"strconv"
	"strings"
	"time"

	"verifharness/c14cell"
	"verifharness/drv"
)

var formats = c14cell.Kinds

func tok(s string) string {
	if s == "" {
		return "_"
	}
	return strings.ReplaceAll(s, " ", "~")
}

func untok(s string) string {
	if s == "_" {
		return ""
	}
	return strings.ReplaceAll(s, "~", " ")
}

func chosenCount(tags, cases []string) int {
	if len(cases) == 0 {
		return len(tags)
	}
	n := 0
	for _, t := range tags {
		for _, c := range cases {
			if c == t {
				n++
				break
			}
		}
	}
	return n
}

// expected number of deliveries of a bounded cell (ok = false: unbounded)
func expectedM(limit, passes, f int) (int, bool) {
	switch {
	case limit == 0 && passes == 0:
		return 0, false
	case passes == 0:
		return limit, true
	case limit == 0:
		return passes * f, true
	}
	if limit < passes*f {
		return limit, true
	}
	return passes * f, true
}

func capFor(limit, passes, f, n int) int {
	if limit == 0 && passes == 0 {
		return 3*n + 5
	}
	m := limit
	if passes*f > m {
		m = passes * f
	}
	return m + n + 3
}

type cellSpec struct {
	format        string
	tags, cases   []string // cases nil = none
	limit, passes int
	cap           int // 0 = capFor
	layout        int
	uris, yaml    bool
}

func (c cellSpec) line() string {
	cs := "-"
	if len(c.cases) > 0 {
		ts := make([]string, len(c.cases))
		for i, s := range c.cases {
			ts[i] = tok(s)
		}
		cs = strings.Join(ts, ",")
	}
	ts := "-"
	if len(c.tags) > 0 {
		tt := make([]string, len(c.tags))
		for i, s := range c.tags {
			tt[i] = tok(s)
		}
		ts = strings.Join(tt, ",")
	}
	cp := c.cap
	if cp == 0 {
		cp = capFor(c.limit, c.passes, chosenCount(c.tags, c.cases), len(c.tags))
	}
	s := fmt.Sprintf("fmt=%s tags=%s cases=%s limit=%d passes=%d cap=%d junk=%d", c.format, ts, cs, c.limit, c.passes, cp,
		c.layout%c14cell.Layouts(c.format))
	if c.uris && c.format == c14cell.KURI && len(c.tags) > 0 { // an empty `uris:` list is no source at all
		s += " src=uris"
	}
	if c.yaml {
		s += " via=yaml"
	}
	return s
}

func gen(r *rand.Rand, tier string) []string {
	var out []string
	add := func(c cellSpec) { out = append(out, c.line()) }
	thorough := tier == "thorough"

	// (A) exhaustive small part: fixed files x all subsets of {a,b,c} plus subsets matching nothing
	files := [][]string{{"a"}, {"a", "b"}, {"a", "b", "c"}, {"b", "a", "b"}, {"a", "a", "c", "b"}, {}}
	subsets := [][]string{nil, {"a"}, {"b"}, {"c"}, {"a", "b"}, {"b", "c"}, {"a", "c"}, {"a", "b", "c"}, {"zz"}, {"c", "zz"}}
	for _, f := range formats {
		for fi, tags := range files {
			for si, cases := range subsets {
				for limit := 0; limit <= 4; limit++ {
					for passes := 0; passes <= 3; passes++ {
						if len(tags) == 0 && si > 1 && si < 8 {
							continue // the empty file: no filter, one filter, the filters with zz
						}
						// nothing chosen and passes = 0 is where a broken streaming path never ends (watchdog
						// time on such a tree): limits 0 and 1 only
						if len(tags) > 0 && chosenCount(tags, cases) == 0 && passes == 0 && limit > 1 {
							continue
						}
						h := fi + si + limit + passes
						add(cellSpec{format: f, tags: tags, cases: cases, limit: limit, passes: passes, layout: h,
							uris: h%3 == 0, yaml: h%4 == 1})
					}
				}
			}
		}
	}

	// (B) every layout x source x construction route on two files with untagged entries ("" chosen explicitly too)
	bfiles := [][]string{{"a", "", "b", "a"}, {"", "a b", "a"}}
	bsubsets := [][]string{nil, {"a"}, {""}, {"a", ""}, {"a b"}, {"zz"}, {"b", "a b"}}
	bbounds := [][2]int{{0, 0}, {3, 0}, {0, 2}, {5, 2}, {2, 3}}
	for _, f := range formats {
		for lay := 0; lay < c14cell.Layouts(f); lay++ {
			for _, tags := range bfiles {
				for _, cases := range bsubsets {
					for bi, b := range bbounds {
						for route := 0; route < 4; route++ {
							uris, yaml := route&1 == 1, route&2 == 2
							if uris && f != c14cell.KURI {
								continue
							}
							if !thorough && (lay+bi+route)%2 == 1 && f != c14cell.KURI {
								continue
							}
							add(cellSpec{format: f, tags: tags, cases: cases, limit: b[0], passes: b[1], layout: lay, uris: uris, yaml: yaml})
						}
					}
				}
			}
		}
	}

	// (C) the run is cancelled in the middle: every cap below the number of ammo a bounded cell delivers
	cfiles := [][]string{{"a", "b", "c"}, {"b", "a", "b", "c"}}
	csubsets := [][]string{nil, {"b"}, {"a", "c"}, {"b", "c"}}
	for fi, f := range formats {
		for _, tags := range cfiles {
			for si, cases := range csubsets {
				for _, b := range [][2]int{{4, 0}, {0, 2}, {5, 3}, {7, 2}} {
					m, _ := expectedM(b[0], b[1], chosenCount(tags, cases))
					for cp := 1; cp < m; cp++ {
						if !thorough && (cp+fi+si)%2 == 1 {
							continue
						}
						add(cellSpec{format: f, tags: tags, cases: cases, limit: b[0], passes: b[1], cap: cp, layout: cp + si,
							uris: cp%2 == 0, yaml: cp%3 == 0})
					}
				}
			}
		}
	}

	// (D) thorough: every file of up to 5 entries over the tags {a, b, none} x every chosencases subset of
	// {a, b, "", zz} x limit 0..4 x passes 0..2, every format
	if thorough {
		alpha := []string{"a", "b", ""}
		var all [][]string
		var rec func(cur []string, n int)
		rec = func(cur []string, n int) {
			if n == 0 {
				all = append(all, append([]string(nil), cur...))
				return
			}
			for _, a := range alpha {
				rec(append(cur, a), n-1)
			}
		}
		for n := 1; n <= 5; n++ {
			rec(nil, n)
		}
		calpha := []string{"a", "b", "", "zz"}
		for fi, f := range formats {
			for ti, tags := range all {
				for mask := 0; mask < 16; mask++ {
					var cases []string
					for j, a := range calpha {
						if mask&(1<<j) != 0 {
							cases = append(cases, a)
						}
					}
					for limit := 0; limit <= 4; limit++ {
						for passes := 0; passes <= 2; passes++ {
							if chosenCount(tags, cases) == 0 && passes == 0 && limit > 0 {
								continue
							}
							h := fi + ti + mask + limit + passes
							add(cellSpec{format: f, tags: tags, cases: cases, limit: limit, passes: passes, layout: h,
								uris: h%2 == 0, yaml: h%5 == 0})
						}
					}
				}
			}
		}
	}

	// (E) random cells
	extra := 5000
	maxN := 9
	if thorough {
		extra = 400000
		maxN = 40
	}
	// tags that are prefixes / case variants of each other, contain a space, or are absent: the filter must compare
	// whole tags exactly
	alphabet := []string{"a", "b", "c", "ab", "B", "", "a b"}
	for i := 0; i < extra; i++ {
		n := 1 + r.Intn(maxN)
		if thorough && r.Intn(50) == 0 {
			n = maxN + r.Intn(200)
		}
		if r.Intn(40) == 0 {
			n = 0
		}
		tags := make([]string, n)
		for j := range tags {
			tags[j] = alphabet[r.Intn(len(alphabet))]
		}
		var cases []string
		switch r.Intn(6) {
		case 0: // none
		case 1: // matches nothing
			cases = []string{"zz"}
		default:
			for _, a := range alphabet {
				if r.Intn(3) == 0 {
					cases = append(cases, a)
				}
			}
			if r.Intn(4) == 0 {
				cases = append(cases, "zz")
			}
			if r.Intn(8) == 0 && len(cases) > 0 {
				cases = append(cases, cases[0]) // a tag listed twice
			}
		}
		limit, passes := 0, 0
		switch r.Intn(5) {
		case 0:
			limit = 1 + r.Intn(3*n+1)
		case 1:
			passes = 1 + r.Intn(4)
		case 2, 3:
			passes = 1 + r.Intn(4)
			limit = 1 + r.Intn(passes*n+2)
		}
		f := chosenCount(tags, cases)
		if n > 0 && f == 0 && passes == 0 && r.Intn(4) != 0 {
			passes = 1 + r.Intn(3) // see above: a quarter of these cells keeps passes = 0
		}
		c := cellSpec{format: formats[r.Intn(len(formats))], tags: tags, cases: cases, limit: limit, passes: passes,
			layout: r.Intn(4), uris: r.Intn(3) == 0, yaml: r.Intn(4) == 0}
		// a fifth of the bounded cells is cancelled somewhere before its end
		if m, ok := expectedM(limit, passes, f); ok && m >= 2 && r.Intn(5) == 0 {
			c.cap = 1 + r.Intn(m-1)
		}
		add(c)
	}
	return out
}

func atoi(s string) int {
	n, _ := strconv.Atoi(s)
	return n
}

func side(prefix string, o c14cell.Obs) string {
	ids := make([]string, len(o.Seq))
	for i, v := range o.Seq {
		ids[i] = strconv.Itoa(v)
	}
	seq := strings.Join(ids, ",")
	if seq == "" {
		seq = "-"
	}
	cut := 0
	if o.Cut {
		cut = 1
	}
	if o.Construct != "" {
		return fmt.Sprintf("%s.seq=- %s.cut=0 %s.run=construct %s.end=norun", prefix, prefix, prefix, prefix)
	}
	return fmt.Sprintf("%s.seq=%s %s.cut=%d %s.run=%s %s.end=%s", prefix, seq, prefix, cut, prefix, o.Run, prefix, o.End)
}

func listOf(s string) []string {
	if s == "-" || s == "" {
		return nil
	}
	ps := strings.Split(s, ",")
	for i := range ps {
		ps[i] = untok(ps[i])
	}
	return ps
}

// runCell: c14cell.Run already repeats a cell that looks stuck once; a cell that still looks stuck is run a third
// time with a slower watchdog (600 ms ticks), so that a stall of a loaded machine is never reported as a hang.
func runCell(c c14cell.Cell) c14cell.Obs {
	o := c14cell.Run(c)
	if o.Construct == "" && (o.End != "closed" || o.Run == "noreturn") {
		c.Tick = 600 * time.Millisecond
		o = c14cell.Run(c)
	}
	return o
}

func run(input string) string {
	kv := drv.KV(input)
	tags := listOf(kv["tags"])
	cases := listOf(kv["cases"])
	mk := func(preload bool) c14cell.Cell {
		return c14cell.Cell{
			Kind: kv["fmt"], Preload: preload, Limit: atoi(kv["limit"]), Passes: atoi(kv["passes"]),
			Tags: tags, Chosen: cases, Cap: atoi(kv["cap"]), Layout: atoi(kv["junk"]),
			Uris: kv["src"] == "uris", YAML: kv["via"] == "yaml",
		}
	}
	s := runCell(mk(false))
	p := runCell(mk(true))
	tagsok := 1
	for _, o := range []c14cell.Obs{s, p} {
		for i, id := range o.Seq {
			if id < 0 || id >= len(tags) || o.SeqTags[i] != tags[id] {
				tagsok = 0
			}
		}
	}
	return fmt.Sprintf("%s %s tagsok=%d", side("s", s), side("p", p), tagsok)
}

func class(input, obs string) string {
	kv := drv.KV(input)
	tags := listOf(kv["tags"])
	cases := listOf(kv["cases"])
	f := chosenCount(tags, cases)
	sel := "some"
	switch {
	case len(tags) == 0:
		sel = "emptyfile"
	case len(cases) == 0:
		sel = "nofilter"
	case f == 0:
		sel = "nomatch"
	case f == len(tags):
		sel = "all"
	}
	b := "unbounded"
	l, p := kv["limit"] != "0", kv["passes"] != "0"
	switch {
	case l && p:
		b = "limit+passes"
	case l:
		b = "limit"
	case p:
		b = "passes"
	}
	if m, ok := expectedM(atoi(kv["limit"]), atoi(kv["passes"]), f); ok && f > 0 && atoi(kv["cap"]) < m {
		b += "+cancelled"
	}
	src := kv["fmt"]
	if kv["src"] == "uris" {
		src += "(uris)"
	}
	return src + "/" + sel + "/" + b
}

func main() {
	drv.Main(&drv.Prop{
		ID:      "C14",
		Gen:     gen,
		Run:     run,
		Class:   class,
		Workers: 24,
		Timeout: 40 * time.Second,
		Rule: "the same generated ammo source (uri file or inline uris, uripost, raw, http/json objects, http/json array; 3-4 layouts each: headers, blank lines, CRLF, " +
			"missing final newline, pretty-printed / one-line JSON) through the real http provider with preload off and on, built by NewProvider or by the plugin registry from a config map: " +
			"fixed files and the empty file x every subset of the tags {a,b,c} plus subsets matching nothing x limit 0..4 x passes 0..3; layouts x sources x routes on files with untagged entries; " +
			"every cancellation point below the end of bounded cells; thorough: every file of <= 5 entries over {a,b,untagged} x every chosencases subset of {a,b,\"\",zz} x limit 0..4 x passes 0..2; " +
			"plus random files (tags from {a,b,c,ab,B,untagged,'a b'}), random chosencases subsets (incl. nothing-matching, duplicates) and bounds; class = format(source) / filter shape / bound shape",
	})
}
