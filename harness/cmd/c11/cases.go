package main

import (
	"bytes"
	"context"
	"fmt"
	"math/rand"
	"os"
	"os/exec"
	"path/filepath"
	"reflect"
	"regexp"
	"runtime"
	"sort"
	"strconv"
	"strings"
	"sync"
	"sync/atomic"
	"time"

	"github.com/yandex/pandora/core"
	"github.com/yandex/pandora/core/engine"
	"github.com/yandex/pandora/core/warmup"
	"go.uber.org/zap"
	"verifharness/c11lib"
	"verifharness/drv"
)

// config decoding is a start-up API of pandora (one goroutine, lazily compiled hook table): the workers of this driver
// take turns
var setupMu sync.Mutex

var kinds = []string{"uri", "uripost", "raw", "httpjson", "httpscen", "grpcscen", "grpcjson"}

// ---------------------------------------------------------------- mode=alias

func identity(x any) uintptr {
	v := reflect.ValueOf(x)
	switch v.Kind() {
	case reflect.Ptr, reflect.Map, reflect.Chan, reflect.Func, reflect.UnsafePointer:
		return v.Pointer()
	}
	return 0
}

func sameObj(a, b any) string {
	ia, ib := identity(a), identity(b)
	if ia == 0 || ib == 0 {
		// value types (http GunAmmo is a struct value): compare the first pointer inside
		return "value"
	}
	if ia == ib {
		return "same"
	}
	return "distinct"
}

func runAlias(kv map[string]string) string {
	kind := kv["kind"]
	t, addr, err := newTarget(kind)
	if err != nil {
		return "ENV " + err.Error()
	}
	defer t.stop()
	y := poolYAML(kind, addr, kv, 2, map[string]any{"type": "once", "times": 1})
	setupMu.Lock()
	m, err := c11lib.NewManual(y, 2)
	setupMu.Unlock()
	if err != nil {
		return "setup=" + c11lib.Enc(c11lib.Trunc(err.Error(), 200))
	}
	defer m.Close()
	a1, ok1, h1 := m.Acquire(5 * time.Second)
	a2, ok2, h2 := m.Acquire(5 * time.Second)
	if h1 || h2 || !ok1 || !ok2 {
		return fmt.Sprintf("acquire=failed ok=%v,%v hang=%v,%v", ok1, ok2, h1, h2)
	}
	// a third ammo while the first two are outstanding: a provider that cycles through a list of definitions (scenario
	// providers) comes back to the first definition
	a3, ok3, h3 := m.Acquire(5 * time.Second)
	if h3 || !ok3 {
		return fmt.Sprintf("acquire=failed ok=%v hang=%v", ok3, h3)
	}
	ammoRel := sameObj(a1, a2)
	if sameObj(a1, a3) == "same" || sameObj(a2, a3) == "same" {
		ammoRel = "same"
	}
	g1 := c11lib.Walk(m.Guns[0], a1)
	g2 := c11lib.Walk(m.Guns[1], a2)
	shared := c11lib.Shared(g1, g2)
	before := make([]uint64, len(shared))
	okb := make([]bool, len(shared))
	for i, u := range shared {
		before[i], okb[i] = c11lib.Snapshot(u)
	}
	served0 := t.served()
	m.Guns[0].Shoot(a1)
	var mutated []*c11lib.Unit
	for i, u := range shared {
		after, ok := c11lib.Snapshot(u)
		if ok && okb[i] && after != before[i] {
			mutated = append(mutated, u)
		}
	}
	// a second look after instance 2 shoots too: anything instance 1 reads that instance 2 altered
	for i, u := range shared {
		before[i], okb[i] = c11lib.Snapshot(u)
	}
	m.Guns[1].Shoot(a2)
	for i, u := range shared {
		after, ok := c11lib.Snapshot(u)
		if ok && okb[i] && after != before[i] {
			mutated = append(mutated, u)
		}
	}
	served := t.served() - served0
	// what the two instances have in common AFTER they shot: whatever the shots cached in shared objects (templates, parsed
	// values, compiled expressions …) is reachable by both from then on
	after := c11lib.Shared(c11lib.Walk(m.Guns[0], a1), c11lib.Walk(m.Guns[1], a2))
	plain, closures := splitClosures(shared)
	plainAfter, closuresAfter := splitClosures(after)
	late := c11lib.NotIn(plainAfter, plain)
	// second round: each instance shoots once more; a unit published by the first round (or an old one) that changes now
	// is written by instances while the other one can reach it
	var lateMut []*c11lib.Unit
	a4, ok4, h4 := m.Acquire(5 * time.Second)
	a5, ok5, h5 := m.Acquire(5 * time.Second)
	if ok4 && ok5 && !h4 && !h5 {
		all := append(append([]*c11lib.Unit(nil), plain...), late...)
		for gi, am := range []core.Ammo{a4, a5} {
			b4 := make([]uint64, len(all))
			ok := make([]bool, len(all))
			for i, u := range all {
				b4[i], ok[i] = c11lib.Snapshot(u)
			}
			m.Guns[gi].Shoot(am)
			for i, u := range all {
				h, k := c11lib.Snapshot(u)
				if k && ok[i] && h != b4[i] {
					if i < len(plain) {
						mutated = append(mutated, u)
					} else {
						lateMut = append(lateMut, u)
					}
				}
			}
		}
		m.Provider.Release(a4)
		m.Provider.Release(a5)
	}
	m.Provider.Release(a1)
	m.Provider.Release(a2)
	m.Provider.Release(a3)
	return fmt.Sprintf("guns=%s ammo=%s served=%s shared=%s mutated=%s late=%s latemut=%s closures=%s", sameObj(m.Guns[0], m.Guns[1]), ammoRel,
		pos(served), orDash(strings.Join(c11lib.Labels(plain), ",")), orDash(strings.Join(c11lib.Labels(mutated), ",")),
		orDash(strings.Join(c11lib.Labels(late), ",")), orDash(strings.Join(c11lib.Labels(lateMut), ",")),
		orDash(strings.Join(c11lib.Labels(append(closures, closuresAfter...)), ",")))
}

// splitClosures: closure objects (func values with captured variables) apart from data units
func splitClosures(us []*c11lib.Unit) (plain, closures []*c11lib.Unit) {
	for _, u := range us {
		if u.IsClosure() {
			closures = append(closures, u)
		} else {
			plain = append(plain, u)
		}
	}
	return
}

func pos(n int64) string {
	if n > 0 {
		return "yes"
	}
	return "no"
}

func orDash(s string) string {
	if s == "" {
		return "-"
	}
	return strings.ReplaceAll(s, " ", "")
}

// ---------------------------------------------------------------- mode=handover

// runHandover: ONE goroutine. A real gun bound to a recording aggregator fires `shots` real Shoot calls (ammo from the
// real provider) at an in-process target; the scenario kinds take a scenario whose step `failat` carries a fault
// (see pools.go). A sample handed to the aggregator belongs to the aggregator: the observation is, per sample object,
// the word of what the gun did with it (T take, W write, G give = Report; see c11lib.RecAggr.Words).
func runHandover(kv map[string]string) string {
	kind := kv["kind"]
	shots, _ := strconv.Atoi(kv["shots"])
	if shots < 1 {
		shots = 1
	}
	t, addr, err := newTarget(kind)
	if err != nil {
		return "ENV " + err.Error()
	}
	defer t.stop()
	y := poolYAML(kind, addr, kv, 1, map[string]any{"type": "once", "times": 1})
	rec := &c11lib.RecAggr{}
	setupMu.Lock()
	m, err := c11lib.NewManualAggr(y, 1, rec)
	setupMu.Unlock()
	if err != nil {
		return "setup=" + c11lib.Enc(c11lib.Trunc(err.Error(), 200))
	}
	defer m.Close()
	if kv["fail"] == "conn" {
		t.refuse()
	}
	done := 0
	for i := 0; i < shots; i++ {
		a, ok, hang := m.Acquire(5 * time.Second)
		if hang || !ok {
			return fmt.Sprintf("acquire=failed ok=%v hang=%v", ok, hang)
		}
		m.Guns[0].Shoot(a)
		m.Provider.Release(a)
		done++
	}
	reports, words := rec.Words()
	return fmt.Sprintf("shots=%d reports=%d words=%s", done, reports, words)
}

// ---------------------------------------------------------------- mode=guns

type probe struct {
	mu       sync.Mutex
	created  int
	objs     map[uintptr]bool
	keep     []core.Gun // every gun stays reachable until the case ends: an address is never reused for another gun
	maxOver  int32
	maxGoros int
}

type probeGun struct {
	p      *probe
	inner  core.Gun
	active atomic.Int32
	mu     sync.Mutex
	goros  map[string]bool
}

func goroutineID() string {
	var buf [64]byte
	n := runtime.Stack(buf[:], false)
	f := strings.Fields(string(buf[:n]))
	if len(f) >= 2 {
		return f[1]
	}
	return "?"
}

func (g *probeGun) Bind(a core.Aggregator, d core.GunDeps) error { return g.inner.Bind(a, d) }

func (g *probeGun) Shoot(a core.Ammo) {
	n := g.active.Add(1)
	id := goroutineID()
	g.mu.Lock()
	g.goros[id] = true
	ng := len(g.goros)
	g.mu.Unlock()
	g.p.mu.Lock()
	if n > g.p.maxOver {
		g.p.maxOver = n
	}
	if ng > g.p.maxGoros {
		g.p.maxGoros = ng
	}
	g.p.mu.Unlock()
	g.inner.Shoot(a)
	g.active.Add(-1)
}

func (g *probeGun) WarmUp(o *warmup.Options) (any, error) {
	if w, ok := g.inner.(warmup.WarmedUp); ok {
		return w.WarmUp(o)
	}
	return nil, nil
}

func (g *probeGun) Close() error {
	if c, ok := g.inner.(interface{ Close() error }); ok {
		return c.Close()
	}
	return nil
}

func runGuns(kv map[string]string) string {
	kind := kv["kind"]
	n, _ := strconv.Atoi(kv["n"])
	if n < 1 {
		n = 1
	}
	t, addr, err := newTarget(kind)
	if err != nil {
		return "ENV " + err.Error()
	}
	defer t.stop()
	y := poolYAML(kind, addr, kv, n, map[string]any{"type": "once", "times": 40 * n})
	setupMu.Lock()
	conf, err := c11lib.DecodePool(y)
	setupMu.Unlock()
	if err != nil {
		return "setup=" + c11lib.Enc(c11lib.Trunc(err.Error(), 200))
	}
	p := &probe{objs: map[uintptr]bool{}}
	inner := conf.Engine.Pools[0].NewGun
	conf.Engine.Pools[0].NewGun = func() (core.Gun, error) {
		g, err := inner()
		if err != nil {
			return nil, err
		}
		p.mu.Lock()
		p.created++
		p.objs[identity(g)] = true
		p.keep = append(p.keep, g)
		p.mu.Unlock()
		return &probeGun{p: p, inner: g, goros: map[string]bool{}}, nil
	}
	conf.Engine.Pools[0].Aggregator = &c11lib.Aggr{}
	eng := engine.New(zap.NewNop(), c11lib.NewMetrics(), conf.Engine)
	ctx, cancel := context.WithTimeout(context.Background(), 60*time.Second)
	defer cancel()
	err = eng.Run(ctx)
	eng.Wait()
	res := "-"
	if err != nil {
		res = "err:" + c11lib.Enc(c11lib.Trunc(err.Error(), 100))
	}
	p.mu.Lock()
	defer p.mu.Unlock()
	return fmt.Sprintf("run=%s created=%d distinct=%d maxoverlap=%d maxgoroutines=%d served=%s", res, p.created, len(p.objs), p.maxOver, p.maxGoros, pos(t.served()))
}

// ---------------------------------------------------------------- mode=race (child process)

const childEnv = "VERIF_C11_CHILD"

var phoutDest = regexp.MustCompile(`destination: (\S+)`)

func runRaceInProc(kv map[string]string) string {
	kind := kv["kind"]
	n, _ := strconv.Atoi(kv["n"])
	k, _ := strconv.Atoi(kv["shots"])
	t, addr, err := newTarget(kind)
	if err != nil {
		return "ENV " + err.Error()
	}
	defer t.stop()
	rps := map[string]any{"type": "once", "times": k}
	if kv["do"] == "1" {
		// a schedule the instances cannot keep up with (the target answers after 40 ms): after two seconds of growing lag
		// the rest of the schedule is discarded — thousands of "discarded" samples reported by all instances at once
		t.delayMs.Store(40)
		rps = map[string]any{"type": "const", "ops": 2000, "duration": "2600ms"}
	}
	y := poolYAML(kind, addr, kv, n, rps)
	if kv["fail"] == "conn" {
		t.refuse() // every shot fails (the gRPC guns' start-up reflection is a stream and still answered)
	}
	if kv["agg"] == "phout" {
		res := c11lib.RunEngine(y, nil, 100*time.Second)
		var size int64
		if m := phoutDest.FindStringSubmatch(y); m != nil {
			if st, err := c11lib.FS.Stat(m[1]); err == nil {
				size = st.Size()
			}
		}
		return fmt.Sprintf("run=%s served=%s samples=%s", orDash(res), pos(t.served()), pos(size))
	}
	aggr := &c11lib.Aggr{}
	res := c11lib.RunEngine(y, aggr, 100*time.Second)
	return fmt.Sprintf("run=%s served=%s samples=%s", orDash(res), pos(t.served()), pos(aggr.Count()))
}

func childMain() bool {
	in := os.Getenv(childEnv)
	if in == "" {
		return false
	}
	kv := drv.KV(in)
	switch kv["mode"] {
	case "hammer":
		fmt.Println("OBS " + runHammerInProc(kv))
	case "race":
		fmt.Println("OBS " + runRaceInProc(kv))
	default:
		fmt.Println("OBS " + runLocal(kv))
	}
	return true
}

func shortFunc(f string) string {
	f = strings.TrimSpace(f)
	if i := strings.LastIndex(f, "("); i > 0 && strings.HasSuffix(f, ")") {
		// strip the argument list "()"
		if j := strings.LastIndex(f, ")"); j == len(f)-1 {
			k := strings.LastIndex(f[:j], "(")
			if k >= 0 && k == i {
				f = f[:i]
			}
		}
	}
	f = strings.ReplaceAll(f, "github.com/yandex/pandora/", "")
	return f
}

// parseRaces extracts from a Go race-detector log the pair of innermost pandora frames of every report.
func parseRaces(text string) []string {
	seen := map[string]bool{}
	for _, block := range strings.Split(text, "WARNING: DATA RACE")[1:] {
		if i := strings.Index(block, "=================="); i >= 0 {
			block = block[:i]
		}
		// stacks are separated by blank lines; the first two are the two accesses
		var sites []string
		for _, stack := range strings.Split(block, "\n\n") {
			if len(sites) >= 2 {
				break
			}
			head := strings.TrimSpace(strings.SplitN(strings.TrimSpace(stack), "\n", 2)[0])
			if !(strings.HasPrefix(head, "Read at") || strings.HasPrefix(head, "Write at") || strings.HasPrefix(head, "Previous") ||
				strings.HasPrefix(head, "Atomic") || strings.HasPrefix(head, "Previous atomic")) {
				continue
			}
			site := ""
			first := ""
			for _, l := range strings.Split(stack, "\n")[1:] {
				if !strings.HasPrefix(l, "  ") || strings.HasPrefix(l, "      ") {
					continue
				}
				fn := shortFunc(l)
				if first == "" {
					first = fn
				}
				if strings.Contains(l, "github.com/yandex/pandora/") {
					site = fn
					break
				}
			}
			if site == "" {
				site = first
			}
			sites = append(sites, site)
		}
		sort.Strings(sites)
		seen[strings.Join(sites, "~")] = true
	}
	out := make([]string, 0, len(seen))
	for s := range seen {
		out = append(out, siteEnc(s))
	}
	sort.Strings(out)
	return out
}

// runChild runs one case in a child process with the race-detector log redirected to a file (never halting, exit
// code unaffected). Returns the child's observation, the first fatal runtime error, the race report sites, and a
// non-empty `bad` when the child could not be run at all.
func runChild(input string) (obs, fatal, races, detector, bad string) {
	dir, err := os.MkdirTemp("", "c11race")
	if err != nil {
		return "", "", "", "", "ENV " + err.Error()
	}
	defer os.RemoveAll(dir)
	bin, detector := childBinary()
	cmd := exec.Command(bin)
	cmd.Env = append(os.Environ(), childEnv+"="+input, "GORACE=log_path="+filepath.Join(dir, "race")+" halt_on_error=0 exitcode=0 history_size=3 atexit_sleep_ms=10")
	var out bytes.Buffer
	cmd.Stdout = &out
	cmd.Stderr = &out
	done := make(chan error, 1)
	if err := cmd.Start(); err != nil {
		return "", "", "", detector, "ENV " + err.Error()
	}
	go func() { done <- cmd.Wait() }()
	select {
	case <-done:
	case <-time.After(120 * time.Second):
		_ = cmd.Process.Kill()
		<-done
		return "", "", "", detector, "HANG"
	}
	text := out.String()
	var raceText strings.Builder
	files, _ := filepath.Glob(filepath.Join(dir, "race*"))
	for _, f := range files {
		b, _ := os.ReadFile(f)
		raceText.Write(b)
	}
	races = strings.Join(parseRaces(raceText.String()+text), ",")
	for _, l := range strings.Split(text, "\n") {
		if strings.HasPrefix(l, "OBS ") {
			obs = strings.TrimPrefix(l, "OBS ")
		}
	}
	fatal = "-"
	// a fatal runtime error (concurrent map access …) or an unrecovered panic (e.g. index out of range inside a
	// random source used by two goroutines) kills the child
	for _, mark := range []string{"fatal error:", "\npanic:"} {
		if i := strings.Index("\n"+text, mark); i >= 0 && fatal == "-" {
			fatal = c11lib.Enc(c11lib.Trunc(strings.TrimSpace(strings.SplitN(("\n" + text)[i+len(mark):], "\n", 2)[0]), 80))
		}
	}
	if obs == "" && fatal == "-" {
		return "", fatal, races, detector, "CHILD-FAILED " + c11lib.Enc(c11lib.Trunc(text, 200))
	}
	if obs == "" {
		obs = "run=died"
	}
	return obs, fatal, races, detector, ""
}

// runRace: modes whose subject is concurrency (race, hammer): always in a child.
// siteEnc keeps a race site readable but a single token without the list separators of the line protocol
func siteEnc(s string) string {
	return strings.Map(func(r rune) rune {
		switch r {
		case ' ', '\t', ',', ';', '=':
			return '_'
		}
		return r
	}, s)
}

func runRace(input string) string {
	obs, fatal, races, detector, bad := runChild(input)
	if bad != "" {
		return bad
	}
	return fmt.Sprintf("%s fatal=%s detector=%s races=%s", obs, fatal, detector, orDash(races))
}

// runDeterministic: alias and guns. mode=alias is one goroutine: the plain build runs it in this process. mode=guns
// runs the real engine with n instances: always in a child (the -race sibling when there is one, see childBinary), so
// that a race report becomes part of the observation — and of the replay — instead of the exit code of the driver.
// The -race build runs every case in a child: its own process stays free of pandora code. Without a report the
// observation is the same in all builds.
func runDeterministic(input string, kv map[string]string) string {
	if !raceEnabled && kv["mode"] != "guns" {
		return runLocal(kv)
	}
	obs, fatal, races, _, bad := runChild(input)
	if bad != "" {
		return bad
	}
	if fatal != "-" {
		obs += " fatal=" + fatal
	}
	if races != "" {
		obs += " races=" + races
	}
	return obs
}

func runLocal(kv map[string]string) string {
	switch kv["mode"] {
	case "alias":
		return runAlias(kv)
	case "handover":
		return runHandover(kv)
	case "guns":
		return runGuns(kv)
	case "isolate":
		return runIsolate(kv)
	case "ammo":
		return runAmmo(kv)
	case "wrap":
		return runWrap(kv)
	case "retain":
		return runRetain(kv)
	case "pools":
		return runPools(kv)
	}
	return "ENV unknown mode"
}

// childBinary: the process that runs the concurrent part. The -race build of this driver runs itself; the plain
// build uses its -race sibling (`check` builds `drive-C11-race<tag>` next to `drive-C11<tag>` before any case runs,
// also for --replay) and falls back to itself (detector=off: only fatal runtime errors are visible).
func childBinary() (string, string) {
	if raceEnabled {
		return os.Args[0], "on"
	}
	self, err := os.Executable()
	if err != nil {
		self = os.Args[0]
	}
	dir, base := filepath.Split(self)
	const stem = "drive-C11"
	if strings.HasPrefix(base, stem) && !strings.HasPrefix(base, stem+"-race") {
		sib := filepath.Join(dir, stem+"-race"+strings.TrimPrefix(base, stem))
		if st, err := os.Stat(sib); err == nil && !st.IsDir() {
			return sib, "on"
		}
	}
	return self, "off"
}

// ---------------------------------------------------------------- dispatch, generation

func run(input string) string {
	kv := drv.KV(input)
	switch kv["mode"] {
	case "alias", "guns", "handover", "isolate", "ammo", "retain", "wrap", "pools":
		return runDeterministic(input, kv)
	case "race", "hammer":
		return runRace(input)
	case "locks":
		// nothing is executed: the observation judged for this case is the lock-facts table that `gen -area locks`
		// re-extracted from the source of this tree and that is compiled into the model driver
		return "static"
	}
	return "ENV unknown mode"
}

func class(input, obs string) string {
	kv := drv.KV(input)
	if kv["mode"] == "locks" {
		return "locks"
	}
	if kv["mode"] == "hammer" {
		if !strings.HasPrefix(obs, "run=-") {
			return ""
		}
		return "hammer/" + kv["obj"]
	}
	if kv["mode"] == "pools" {
		if !strings.HasPrefix(obs, "sent=") {
			return ""
		}
		c := fmt.Sprintf("pools/%d", len(strings.Split(kv["tags"], ";")))
		if kv["par"] == "1" {
			c += "/par"
		}
		return c
	}
	if kv["mode"] == "isolate" {
		if !strings.HasPrefix(obs, "together=") {
			return ""
		}
		return "isolate/" + kv["kind"]
	}
	if kv["mode"] == "wrap" {
		if !strings.HasPrefix(obs, "idx=") {
			return ""
		}
		return "wrap/" + kv["obj"]
	}
	if kv["mode"] == "retain" {
		if !strings.HasPrefix(obs, "calls=") {
			return ""
		}
		return "retain/" + kv["obj"]
	}
	if kv["mode"] == "ammo" {
		if !strings.HasPrefix(obs, "served=yes") {
			return ""
		}
		c := "ammo/" + kv["kind"]
		if kv["pre"] == "1" || kv["arr"] == "1" {
			c += "/reuse"
		}
		if kv["mw"] != "" {
			c += "/mw"
		}
		return c
	}
	if kv["mode"] == "handover" {
		if !strings.Contains(obs, "reports=") || strings.Contains(obs, "reports=0 ") {
			return ""
		}
		f := kv["fail"]
		if f == "" {
			f = "none"
		}
		return "handover/" + kv["kind"] + "/" + f
	}
	if strings.HasPrefix(obs, "ENV") || !(strings.Contains(obs, "served=yes") || (kv["mode"] == "race" && strings.Contains(obs, "samples=yes"))) {
		return ""
	}
	c := kv["mode"] + "/" + kv["kind"]
	if kv["fail"] != "" {
		c += "/fail-" + kv["fail"]
	}
	if kv["pre"] == "1" {
		c += "/preload"
	}
	if kv["sc"] != "" && kv["sc"] != "0" {
		c += "/shared-client"
	}
	if kv["agg"] != "" {
		c += "/" + kv["agg"]
	}
	return c
}

// ---------------------------------------------------------------- generation
//
// `check` runs this driver twice: the plain build and the -race build. The plain build already sends every concurrent
// case (race, hammer, guns) to a -race child, so the -race build does not repeat the list: it draws OTHER instance
// counts, shot counts and variants, and runs the single-goroutine cases (alias, handover) in -race children, where the
// detector sees the provider goroutine handing ammo to the shooting goroutine.

var httpKinds = []string{"uri", "uripost", "raw", "httpjson"}

var scenFails = map[string][]string{
	"httpscen": {"none", "status", "conn", "post", "postbody", "postjson", "posthdr", "postxpath", "tmpl", "pre", "body"},
	"grpcscen": {"none", "conn", "post", "postbody", "tmpl", "pre", "call", "payload"},
}

func aliasCases() []string {
	var out []string
	for _, k := range kinds {
		out = append(out, "mode=alias kind="+k)
		switch k {
		case "uri", "uripost", "raw", "httpjson":
			out = append(out, "mode=alias kind="+k+" pre=1")
		}
		if k == "grpcjson" || k == "uri" {
			out = append(out, "mode=alias kind="+k+" sc=2", "mode=alias kind="+k+" sc=1")
		}
	}
	return out
}

// handoverCases: every gun kind, every failure path of a scenario step (random length and position), plain guns with
// and without a reachable target.
func handoverCases(r *rand.Rand, rounds int) []string {
	var out []string
	for i := 0; i < rounds; i++ {
		for _, k := range httpKinds {
			out = append(out, fmt.Sprintf("mode=handover kind=%s shots=%d", k, 1+r.Intn(4)))
			if i == 0 || r.Intn(3) == 0 {
				out = append(out, fmt.Sprintf("mode=handover kind=%s shots=%d fail=conn", k, 1+r.Intn(3)))
			}
		}
		out = append(out, fmt.Sprintf("mode=handover kind=uri shots=%d fail=status", 1+r.Intn(3)))
		out = append(out, fmt.Sprintf("mode=handover kind=uri shots=%d fail=body", 1+r.Intn(3)))
		out = append(out, fmt.Sprintf("mode=handover kind=grpcjson shots=%d", 1+r.Intn(8)))
		out = append(out, fmt.Sprintf("mode=handover kind=grpcjson shots=%d fail=conn", 1+r.Intn(3)))
		for _, k := range []string{"httpscen", "grpcscen"} {
			for _, f := range scenFails[k] {
				steps := 1 + r.Intn(4)
				out = append(out, fmt.Sprintf("mode=handover kind=%s shots=%d steps=%d failat=%d fail=%s", k, 1+r.Intn(3), steps, 1+r.Intn(steps), f))
			}
		}
	}
	return out
}

// handoverExhaustive: every scenario length 1..4, every position of the failing step, every fault, both scenario guns.
func handoverExhaustive() []string {
	var out []string
	for _, k := range []string{"httpscen", "grpcscen"} {
		for _, f := range scenFails[k] {
			for steps := 1; steps <= 4; steps++ {
				for failat := 1; failat <= steps; failat++ {
					out = append(out, fmt.Sprintf("mode=handover kind=%s shots=2 steps=%d failat=%d fail=%s", k, steps, failat, f))
				}
			}
		}
	}
	return out
}

func pick(r *rand.Rand, xs []string) string { return xs[r.Intn(len(xs))] }

// isolateCase: 2..4 instances shooting in a random order; every shot's first response carries an X-Tok header of its own
// random length (0..14 characters; sometimes no header at all); the scenario extracts it through 2..5 random modifier
// chains (lower, upper, replace, substr with negative / omitted / out-of-range bounds).
func isolateCase(r *rand.Rand) string {
	const letters = "ABabCDcdEFefXYxyz0123456789"
	word := func(n int) string {
		b := make([]byte, n)
		for i := range b {
			b[i] = letters[r.Intn(len(letters))]
		}
		return string(b)
	}
	n := 2 + r.Intn(3)
	shots := 3 + r.Intn(4)
	order := make([]byte, shots)
	for i := range order {
		order[i] = byte('0' + r.Intn(n))
	}
	order[0], order[1] = '0', '1'
	toks := make([]string, shots)
	for i := range toks {
		switch r.Intn(8) {
		case 0:
			toks[i] = "_"
		default:
			toks[i] = word(1 + r.Intn(14))
		}
	}
	mod := func() string {
		switch r.Intn(6) {
		case 0:
			return "lower"
		case 1:
			return "upper"
		case 2:
			return fmt.Sprintf("replace(%s,%s)", word(1+r.Intn(2)), word(r.Intn(3)))
		case 3:
			return fmt.Sprintf("substr(%d)", r.Intn(13)-6)
		default:
			return fmt.Sprintf("substr(%d,%d)", r.Intn(13)-6, r.Intn(19)-6)
		}
	}
	chains := make([]string, 2+r.Intn(4))
	for i := range chains {
		ms := make([]string, 1+r.Intn(3))
		for j := range ms {
			ms[j] = mod()
		}
		chains[i] = strings.Join(ms, "|")
	}
	// always one chain that counts from the end: the commonest way to cut a token out of a header
	chains[0] = fmt.Sprintf("substr(%d)", -1-r.Intn(6))
	if r.Intn(4) == 0 {
		// the gRPC scenario gun: the greeting of its first answer comes back in the metadata and the payload of its second call
		return fmt.Sprintf("mode=isolate kind=grpcscen n=%d order=%s toks=%s chains=-", n, order, strings.Join(toks, ";"))
	}
	return fmt.Sprintf("mode=isolate kind=httpscen n=%d order=%s toks=%s chains=%s", n, order, strings.Join(toks, ";"), strings.Join(chains, ";"))
}

// httpAmmoOpts: a random configuration of an http provider — preload / JSON array (decoded ammo delivered again on
// every pass), request middlewares, which headers the ammo file and the `headers` option give (with / without Host, none
// at all, a Date header of the ammo's own, one key with several values), number of ammo in the file.
func httpAmmoOpts(r *rand.Rand, k string, reuse bool) string {
	c := ""
	if reuse {
		if k == "httpjson" && r.Intn(2) == 0 {
			c += " arr=1"
		} else {
			c += " pre=1"
		}
	}
	mw := pick(r, []string{"date", "date", "date", "datex", "date2", "datem", ""})
	if mw != "" {
		c += " mw=" + mw
	}
	hdr := pick(r, []string{"", "nohost", "none", "date"})
	if hdr != "" {
		c += " hdr=" + hdr
	}
	ch := pick(r, []string{"", "nohost", "none", "multi"})
	if mw == "datem" {
		ch = "multi"
	}
	if ch != "" {
		c += " chdr=" + ch
	}
	if hdr != "" || strings.Contains(c, "arr=1") || r.Intn(2) == 0 {
		c += fmt.Sprintf(" am=%d", 1+r.Intn(4))
	}
	return c
}

// ammoOrder: every instance acquires once, then random turns; half of the time instance 0 never gets another turn (it
// holds its first ammo through everything the others do)
func ammoOrder(r *rand.Rand, n int) string {
	steps := n + 3 + r.Intn(7)
	order := make([]byte, steps)
	holder := r.Intn(2) == 0
	for i := range order {
		switch {
		case i < n:
			order[i] = byte('0' + i)
		case holder:
			order[i] = byte('1' + r.Intn(n-1))
		default:
			order[i] = byte('0' + r.Intn(n))
		}
	}
	return string(order)
}

// ammoCase: the provider's side of a pool on one goroutine (mode=ammo).
func ammoCase(r *rand.Rand) string {
	n := 2 + r.Intn(3)
	if r.Intn(6) == 0 {
		return fmt.Sprintf("mode=ammo kind=%s n=%d order=%s", pick(r, []string{"grpcjson", "httpscen", "grpcscen"}), n, ammoOrder(r, n))
	}
	k := pick(r, httpKinds)
	return fmt.Sprintf("mode=ammo kind=%s n=%d order=%s%s", k, n, ammoOrder(r, n), httpAmmoOpts(r, k, r.Intn(3) > 0))
}

// ammoMatrix: every http kind with a provider that delivers its decoded ammo again (preload; JSON array), middlewares,
// fewer ammo than instances, headers without Host — and the plain configuration of every kind
func ammoMatrix() []string {
	var out []string
	for _, k := range httpKinds {
		out = append(out, "mode=ammo kind="+k+" n=2 order=010101")
		out = append(out, "mode=ammo kind="+k+" n=3 order=01212121 pre=1 mw=date hdr=nohost chdr=nohost am=2")
		out = append(out, "mode=ammo kind="+k+" n=2 order=0101011 pre=1 mw=date2 hdr=none chdr=multi am=1")
	}
	out = append(out, "mode=ammo kind=uri n=2 order=010101 mw=datem chdr=multi", "mode=ammo kind=uripost n=3 order=0121212 pre=1 mw=datem hdr=nohost chdr=multi am=2")
	out = append(out, "mode=ammo kind=httpjson n=3 order=012012012 arr=1 mw=date hdr=date chdr=none am=2")
	out = append(out, "mode=ammo kind=httpjson n=2 order=01111111 arr=1 mw=datex hdr=nohost chdr=nohost am=3")
	out = append(out, "mode=ammo kind=grpcjson n=3 order=0120120120", "mode=ammo kind=httpscen n=3 order=0121212121", "mode=ammo kind=grpcscen n=4 order=01231231231")
	return out
}

// gunOptLetters (round 4): a random non-empty subset of the gun options of pools.go (gunOptions)
func gunOptLetters(r *rand.Rand, k string) string {
	if strings.HasPrefix(k, "grpc") {
		return "a"
	}
	out := ""
	for _, c := range "tdag" {
		if r.Intn(2) == 0 {
			out += string(c)
		}
	}
	if out == "" {
		out = string("tdag"[r.Intn(4)])
	}
	return out
}

// wrapCounters: counter values around the points where an integer representation of some width turns over
var wrapCounters = []uint64{1<<7 - 3, 1<<8 - 3, 1<<15 - 3, 1<<16 - 3, 1<<31 - 3, 1<<32 - 3, 1<<62 - 3}

func wrapCase(r *rand.Rand, obj string) string {
	c := wrapCounters[r.Intn(len(wrapCounters))]
	if r.Intn(4) == 0 {
		c = uint64(r.Int63n(1 << 62))
	}
	return fmt.Sprintf("mode=wrap obj=%s ctr=%d len=%d calls=%d", obj, c, 1+r.Intn(9), 4+r.Intn(6))
}

func wrapCases(r *rand.Rand, rounds int) []string {
	var out []string
	for i := 0; i < rounds; i++ {
		out = append(out, wrapCase(r, "nextiter"), wrapCase(r, "clientpool"))
		idx := pick(r, []string{"last", "0", "nosuch", strconv.Itoa(r.Intn(40) - 20), strconv.FormatInt(r.Int63()-r.Int63(), 10)})
		out = append(out, fmt.Sprintf("mode=wrap obj=index idx=%s len=%d", idx, 1+r.Intn(9)))
	}
	return out
}

// raceVariant: one whole-pool case with a random supported variant of the kind.
func raceVariant(r *rand.Rand, k string, n, shots int) string {
	// round 4: a scenario shot is three serialised calls; few instances with thousands of shots ran into the engine's
	// time limit on a loaded machine (an inconclusive `run=timeout`, reported as a mismatch): at most 250 shots per instance
	if (k == "grpcscen" || k == "httpscen") && shots > 250*n {
		shots = 250 * n
	}
	c := fmt.Sprintf("mode=race kind=%s n=%d shots=%d", k, n, shots)
	if r.Intn(3) == 0 {
		c += " go=" + gunOptLetters(r, k)
	}
	switch k {
	case "uri", "uripost", "raw", "httpjson":
		switch r.Intn(4) {
		case 0:
			c += httpAmmoOpts(r, k, true)
		case 1:
			if k == "uri" {
				c += fmt.Sprintf(" sc=%d", 1+r.Intn(3))
			}
		case 2:
			c += httpAmmoOpts(r, k, false)
		}
	case "grpcjson":
		if r.Intn(2) == 0 {
			c += fmt.Sprintf(" sc=%d", 1+r.Intn(3))
		}
	case "httpscen", "grpcscen":
		// a scenario with a failing step: the error paths of the gun run concurrently too
		if r.Intn(2) == 0 {
			steps := 2 + r.Intn(3)
			f := pick(r, scenFails[k])
			c += fmt.Sprintf(" steps=%d failat=%d fail=%s", steps, 1+r.Intn(steps), f)
		}
	}
	if r.Intn(2) == 0 {
		c += " agg=phout"
	}
	return c
}

// poolsCase (round 6): 2..3 pools built from one skeleton (equal scenario / request names, different template texts),
// 2..7 shots; every pool shoots at least once; `par` = one goroutine per pool instead of one goroutine for all
func poolsCase(r *rand.Rand, par bool) string {
	const letters = "abcdefghkmnpqrstuvwxyz0123456789"
	np := 2 + r.Intn(2)
	seen := map[string]bool{}
	var tags []string
	for len(tags) < np {
		b := make([]byte, 2+r.Intn(5))
		for i := range b {
			b[i] = letters[r.Intn(len(letters))]
		}
		if !seen[string(b)] {
			seen[string(b)] = true
			tags = append(tags, string(b))
		}
	}
	n := np + r.Intn(5)
	ord := make([]byte, n)
	for i := range ord {
		if i < np {
			ord[i] = byte('A' + i)
		} else {
			ord[i] = byte('A' + r.Intn(np))
		}
	}
	r.Shuffle(n, func(i, j int) { ord[i], ord[j] = ord[j], ord[i] })
	c := fmt.Sprintf("mode=pools kind=httpscen order=%s tags=%s nm=%08x", ord, strings.Join(tags, ";"), r.Uint32())
	if par {
		c += " par=1"
	}
	return c
}

func poolsCases(r *rand.Rand, k int) []string {
	var out []string
	for i := 0; i < k; i++ {
		out = append(out, poolsCase(r, i%3 == 2))
	}
	return out
}

func genPlain(r *rand.Rand, tier string) []string {
	out := []string{"mode=locks"}
	out = append(out, aliasCases()...)
	out = append(out, handoverCases(r, 1)...)
	for i := 0; i < 6; i++ {
		out = append(out, isolateCase(r))
	}
	out = append(out, ammoMatrix()...)
	for i := 0; i < 12; i++ {
		out = append(out, ammoCase(r))
	}
	for _, o := range retainObjs {
		out = append(out, fmt.Sprintf("mode=retain obj=%s n=%d calls=%d", o, 2+r.Intn(3), 6+r.Intn(20)))
	}
	for _, k := range []string{"uri", "httpscen", "grpcjson", "grpcscen"} {
		for _, n := range []int{1, 2, 4, 8} {
			out = append(out, fmt.Sprintf("mode=guns kind=%s n=%d", k, n))
		}
	}
	for _, o := range hammerObjs {
		out = append(out, fmt.Sprintf("mode=hammer obj=%s n=8 calls=%d", o, 1500+r.Intn(1000)))
	}
	raceCase := func(k string, n, lo, span int, extra string) string {
		return fmt.Sprintf("mode=race kind=%s n=%d shots=%d%s", k, n, lo+r.Intn(span), extra)
	}
	for _, k := range kinds {
		out = append(out, raceCase(k, 8, 200, 200, ""))
		if k == "uri" || k == "grpcscen" || k == "httpscen" {
			out = append(out, raceCase(k, 8, 200, 200, " agg=phout"))
		}
		switch k {
		case "uri", "httpjson":
			// a provider that delivers its decoded ammo again on every pass, with request middlewares
			out = append(out, raceCase(k, 8, 200, 200, httpAmmoOpts(r, k, true)))
		case "uripost", "raw":
			out = append(out, raceCase(k, 4+r.Intn(8), 150, 200, " pre=1 mw=date hdr=none chdr=nohost am=2"))
		case "grpcjson":
			out = append(out, raceCase(k, 8, 200, 200, " sc=2"))
		case "httpscen", "grpcscen":
			// the error paths under concurrency, with the pooling aggregator: a failing postprocessor, a random fault
			out = append(out, raceCase(k, 8, 200, 200, " steps=3 failat=2 fail=post agg=phout"))
			steps := 2 + r.Intn(3)
			out = append(out, raceCase(k, 4+r.Intn(8), 150, 200, fmt.Sprintf(" steps=%d failat=%d fail=%s agg=phout", steps, 1+r.Intn(steps), pick(r, scenFails[k][2:]))))
		}
	}
	// round 4: the gun's options (trace / dump / answlog / auto-tag, alone and together, with the shared client), the
	// instance loop's discard branch, and the shared counters at extreme values
	r4 := rand.New(rand.NewSource(r.Int63()))
	out = append(out, "mode=alias kind=uri sc=2 go=tdag", "mode=alias kind=httpscen go=ta", "mode=alias kind=grpcjson sc=2 go=a",
		"mode=handover kind=uri shots=3 go="+gunOptLetters(r4, "uri"), "mode=handover kind=httpscen shots=2 steps=2 failat=2 fail=post go="+gunOptLetters(r4, "httpscen"),
		fmt.Sprintf("mode=race kind=uri n=8 shots=%d sc=%d go=t", 200+r4.Intn(200), 1+r4.Intn(3)),
		fmt.Sprintf("mode=race kind=uripost n=6 shots=%d go=%s agg=phout", 200+r4.Intn(200), gunOptLetters(r4, "uripost")),
		fmt.Sprintf("mode=race kind=httpscen n=6 shots=%d go=a", 150+r4.Intn(100)),
		fmt.Sprintf("mode=race kind=grpcjson n=6 shots=%d go=a", 150+r4.Intn(100)),
		fmt.Sprintf("mode=race kind=uri n=%d shots=0 do=1 agg=phout", 2+r4.Intn(3)))
	out = append(out, "mode=wrap obj=nextiter ctr=2147483645 len=7 calls=6", "mode=wrap obj=clientpool ctr=2147483645 len=3 calls=6")
	out = append(out, wrapCases(r4, 3)...)
	if tier == "thorough" {
		out = append(out, wrapCases(r4, 40)...)
		for _, k := range []string{"uri", "raw", "httpscen"} {
			out = append(out, fmt.Sprintf("mode=race kind=%s n=%d shots=0 do=1 agg=phout go=%s", k, 2+r4.Intn(6), gunOptLetters(r4, k)))
		}
		for _, k := range kinds {
			out = append(out, "mode=alias kind="+k+" go="+gunOptLetters(r4, k))
		}
		out = append(out, handoverCases(r, 6)...)
		out = append(out, handoverExhaustive()...)
		for i := 0; i < 60; i++ {
			out = append(out, isolateCase(r))
		}
		for i := 0; i < 150; i++ {
			out = append(out, ammoCase(r))
		}
		for i := 0; i < 6; i++ {
			for _, o := range retainObjs {
				out = append(out, fmt.Sprintf("mode=retain obj=%s n=%d calls=%d", o, 1+r.Intn(5), 2+r.Intn(60)))
			}
		}
		for i := 0; i < 12; i++ {
			for _, o := range hammerObjs {
				out = append(out, fmt.Sprintf("mode=hammer obj=%s n=%d calls=%d", o, 2+r.Intn(15), 1000+r.Intn(11000)))
			}
		}
		for _, k := range kinds {
			for i := 0; i < 6; i++ {
				out = append(out, fmt.Sprintf("mode=guns kind=%s n=%d", k, 1+r.Intn(12)))
			}
		}
		for i := 0; i < 26; i++ {
			for _, k := range kinds {
				out = append(out, raceVariant(r, k, 2+r.Intn(15), 300+r.Intn(2500)))
			}
		}
		// every failure path of both scenario guns, concurrently, with the pooling aggregator
		for _, k := range []string{"httpscen", "grpcscen"} {
			for _, f := range scenFails[k] {
				for i := 0; i < 3; i++ {
					steps := 1 + r.Intn(4)
					out = append(out, fmt.Sprintf("mode=race kind=%s n=%d shots=%d steps=%d failat=%d fail=%s agg=phout", k, 2+r.Intn(15),
						200+r.Intn(600), steps, 1+r.Intn(steps), f))
				}
			}
		}
	}
	if tier == "thorough" {
		out = append(out, poolsCases(r, 40)...)
	} else {
		out = append(out, poolsCases(r, 6)...)
	}
	return out
}

// genRace: the list of the -race build (every case runs in a -race child).
func genRace(r *rand.Rand, tier string) []string {
	// other draws than the plain build makes from the same seed
	for i := 0; i < 97; i++ {
		r.Int63()
	}
	out := []string{"mode=locks"}
	for _, k := range []string{"uri", "httpjson", "httpscen", "grpcscen", "grpcjson"} {
		out = append(out, "mode=alias kind="+k)
	}
	out = append(out, handoverCases(r, 1)...)
	for i := 0; i < 3; i++ {
		out = append(out, isolateCase(r))
	}
	for i := 0; i < 8; i++ {
		out = append(out, ammoCase(r))
	}
	for _, o := range hammerObjs {
		out = append(out, fmt.Sprintf("mode=hammer obj=%s n=%d calls=%d", o, 2+r.Intn(5), 2000+r.Intn(2000)))
	}
	for _, k := range []string{"uripost", "raw", "httpjson", "httpscen", "grpcscen"} {
		out = append(out, fmt.Sprintf("mode=guns kind=%s n=%d", k, 3+r.Intn(4)))
	}
	for _, k := range kinds {
		out = append(out, raceVariant(r, k, 2+r.Intn(15), 150+r.Intn(250)))
	}
	// round 4 (see genPlain)
	out = append(out, "mode=alias kind=uri sc=1 go=t", "mode=alias kind=uripost go="+gunOptLetters(r, "uripost"),
		fmt.Sprintf("mode=race kind=httpjson n=%d shots=%d sc=2 go=%s", 3+r.Intn(6), 150+r.Intn(150), gunOptLetters(r, "httpjson")),
		fmt.Sprintf("mode=race kind=grpcscen n=%d shots=%d go=a", 3+r.Intn(6), 100+r.Intn(100)),
		fmt.Sprintf("mode=race kind=httpscen n=%d shots=0 do=1 agg=phout", 2+r.Intn(3)))
	out = append(out, wrapCases(r, 2)...)
	if tier == "thorough" {
		out = append(out, wrapCases(r, 20)...)
		out = append(out, aliasCases()...)
		out = append(out, handoverCases(r, 6)...)
		for i := 0; i < 30; i++ {
			out = append(out, isolateCase(r))
		}
		for i := 0; i < 60; i++ {
			out = append(out, ammoCase(r))
		}
		for i := 0; i < 10; i++ {
			for _, o := range hammerObjs {
				out = append(out, fmt.Sprintf("mode=hammer obj=%s n=%d calls=%d", o, 2+r.Intn(31), 500+r.Intn(12000)))
			}
		}
		for _, k := range kinds {
			for i := 0; i < 4; i++ {
				out = append(out, fmt.Sprintf("mode=guns kind=%s n=%d", k, 1+r.Intn(16)))
			}
		}
		for i := 0; i < 30; i++ {
			for _, k := range kinds {
				out = append(out, raceVariant(r, k, 2+r.Intn(23), 200+r.Intn(3000)))
			}
		}
	}
	if tier == "thorough" {
		out = append(out, poolsCases(r, 20)...)
	} else {
		out = append(out, poolsCases(r, 3)...)
	}
	return out
}

func gen(r *rand.Rand, tier string) []string {
	if raceEnabled {
		return genRace(r, tier)
	}
	return genPlain(r, tier)
}
