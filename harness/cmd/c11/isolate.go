package main

// mode=isolate kind=httpscen n=<instances> order=<digits> toks=<t0;t1;…> chains=<c0;c1;…>
//
// "The … variables seen by one instance are never altered by another", as a differential observation on ONE goroutine.
// A pool of n real guns behind the real scenario provider; shot j is fired by instance order[j] and its first step is
// answered with the response header X-Tok: toks[j] ("_" = no such header). The scenario extracts variables from that
// header with a var/header postprocessor (one variable per modifier chain of `chains`, plus the unmodified header), a
// variable from the JSON body, and in its second step one from the HTML body; every later step sends what the instance
// extracted back to the target ("/echo" requests), which records it. Observation:
//
//	together=  what each shot echoed when the instances shot one after the other in the given order
//	solo=      what the same shot echoes in a fresh pool in which it is the only shot ever fired (same response)
//
// An instance's variables are a function of ITS responses: together and solo must agree shot by shot (Spec), and both
// are what the Lean model of the modifiers computes from (chain, token).

import (
	"fmt"
	"strings"
	"time"

	"gopkg.in/yaml.v2"
	"verifharness/c11lib"
)

func isolateScenarioFile(chains []string) string {
	mapping := map[string]string{"raw": "X-Tok"}
	echo := map[string]string{"X-V-raw": "{{.request.r1.postprocessor.raw}}"}
	for i, c := range chains {
		v := fmt.Sprintf("v%d", i)
		mapping[v] = "X-Tok|" + c
		echo["X-V-"+v] = "{{.request.r1.postprocessor." + v + "}}"
	}
	cfg := map[string]any{
		"variable_sources": []any{
			map[string]any{"name": "global", "type": "variables", "variables": map[string]any{"g": "gg"}},
		},
		"requests": []any{
			map[string]any{
				"name": "r1", "method": "GET", "tag": "t1", "uri": "/tok/a",
				"headers": map[string]string{"X-Const": "c"},
				"postprocessors": []any{
					map[string]any{"type": "var/header", "mapping": mapping},
					map[string]any{"type": "var/jsonpath", "mapping": map[string]string{"token": "$.auth_key"}},
				},
			},
			map[string]any{
				"name": "r2", "method": "POST", "tag": "t2", "uri": "/echo/html",
				"headers": echo,
				"body":    `{"k":"{{.request.r1.postprocessor.token}}","g":"{{.source.global.g}}"}`,
				"postprocessors": []any{
					map[string]any{"type": "var/xpath", "mapping": map[string]string{"title": "//title"}},
				},
			},
			map[string]any{
				"name": "r3", "method": "GET", "tag": "t3", "uri": "/echo/last",
				"headers": map[string]string{"X-V-title": "{{.request.r2.postprocessor.title}}", "X-V-raw": "{{.request.r1.postprocessor.raw}}"},
			},
		},
		"scenarios": []any{
			map[string]any{"name": "s1", "weight": 1, "min_waiting_time": 0, "requests": []string{"r1", "r2", "r3"}},
		},
	}
	b, _ := yaml.Marshal(cfg)
	return c11lib.WriteFile(".yaml", string(b))
}

func grpcIsolateScenarioFile() string {
	cfg := map[string]any{
		"variable_sources": []any{
			map[string]any{"name": "global", "type": "variables", "variables": map[string]any{"g": "gg"}},
		},
		"calls": []any{
			map[string]any{
				"name": "h1", "tag": "t1", "call": "target.TargetService.Hello",
				"metadata": map[string]string{"x-const": "c"},
				"payload":  `{"name":"n"}`,
			},
			map[string]any{
				"name": "h2", "tag": "t2", "call": "target.TargetService.Hello",
				"metadata": map[string]string{"x-echo": "{{.request.h1.postprocessor.hello}}", "x-g": "{{.source.global.g}}"},
				"payload":  `{"name":"{{.request.h1.postprocessor.hello}}"}`,
			},
		},
		"scenarios": []any{
			map[string]any{"name": "s1", "weight": 1, "min_waiting_time": 0, "requests": []string{"h1", "h2"}},
		},
	}
	b, _ := yaml.Marshal(cfg)
	return c11lib.WriteFile(".yaml", string(b))
}

// isolateRun: one pool of n guns, the shots of `order` (instance index per shot) answered with `toks`; returns what
// each shot echoed (the echoes of one shot joined with "/").
func isolateRun(kind string, n int, order []int, toks []string, chains []string) ([]string, string) {
	t, addr, err := newTarget(kind)
	if err != nil {
		return nil, "ENV " + err.Error()
	}
	defer t.stop()
	t.script = append([]string{}, toks...)
	if t.grpc != nil {
		t.grpc.Script = t.script
	}
	kv := map[string]string{"isolate": strings.Join(chains, ";")}
	y := poolYAML(kind, addr, kv, n, map[string]any{"type": "once", "times": 1})
	setupMu.Lock()
	m, err := c11lib.NewManual(y, n)
	setupMu.Unlock()
	if err != nil {
		return nil, "setup=" + c11lib.Enc(c11lib.Trunc(err.Error(), 200))
	}
	defer m.Close()
	var out []string
	for _, gi := range order {
		a, ok, hang := m.Acquire(5 * time.Second)
		if hang || !ok {
			return nil, fmt.Sprintf("acquire=failed ok=%v hang=%v", ok, hang)
		}
		before := len(t.echoList())
		m.Guns[gi].Shoot(a)
		m.Provider.Release(a)
		out = append(out, strings.Join(t.echoList()[before:], "/"))
	}
	return out, ""
}

func runIsolate(kv map[string]string) string {
	n := 0
	fmt.Sscanf(kv["n"], "%d", &n)
	if n < 1 {
		n = 1
	}
	var order []int
	for _, c := range kv["order"] {
		gi := int(c - '0')
		if gi < 0 || gi >= n {
			return "ENV bad order"
		}
		order = append(order, gi)
	}
	var toks []string
	for _, tk := range strings.Split(kv["toks"], ";") {
		if tk == "_" {
			tk = ""
		}
		toks = append(toks, tk)
	}
	if len(toks) != len(order) || len(order) == 0 {
		return "ENV toks/order"
	}
	chains := strings.Split(kv["chains"], ";")
	kind := kv["kind"]
	together, bad := isolateRun(kind, n, order, toks, chains)
	if bad != "" {
		return bad
	}
	var solo []string
	for j := range order {
		s, bad := isolateRun(kind, 1, []int{0}, toks[j:j+1], chains)
		if bad != "" {
			return bad
		}
		solo = append(solo, s[0])
	}
	return fmt.Sprintf("together=%s solo=%s", strings.Join(together, ";"), strings.Join(solo, ";"))
}
