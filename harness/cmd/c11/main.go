// Driver for C11 (instance isolation and data-race freedom).
//
//	mode=locks
//	    nothing runs: the judged observation is the lock-facts table regenerated from this tree (gen area `locks`).
//	mode=alias kind=<pool kind> [pre=1] [sc=<clients>]
//	    one goroutine: build the pool through the registered plugin factories, create two guns the way instancePool
//	    does, acquire one ammo for each, walk everything reachable from (gun1, ammo1) and from (gun2, ammo2) and print
//	    the labels of the allocation units reachable from BOTH; snapshot those units, fire ONE real Shoot per gun at an
//	    in-process target and print the labels of the shared units whose content changed; then walk again: `late` = units
//	    both instances reach now but did not before (what the shots cached in shared objects: a sync.Map is entered through
//	    Range), `latemut` = late units a second round of shots changed, `closures` = closure objects (func values with
//	    captured variables, named by the canonical name of their code) both instances reach.
//	mode=isolate kind=httpscen n=<instances> order=<digits> toks=<t0;t1;…> chains=<c0;c1;…>
//	    one goroutine: shot j is fired by instance order[j] and answered with header X-Tok: toks[j] ("_" = none); the
//	    scenario extracts variables through the var/header modifier chains, a jsonpath and an xpath, and echoes them to the
//	    target in its later steps. together= what each shot echoed; solo= what the same shot echoes as the only shot of a
//	    fresh pool.
//	mode=ammo kind=<http kind | grpcjson | scenario kind> n=<instances> order=<digits> [pre=1] [arr=1] [mw=…] [hdr=…] [chdr=…] [am=<k>]
//	    one goroutine, the provider's side (ammo.go): instances take turns (shoot and release the ammo held, acquire the
//	    next); per delivery what the ammo is at Acquire / at Shoot / on the first pass of a fresh one-instance pool; units of
//	    the ammo OTHER instances hold that a step (Acquire with the provider's middlewares, Shoot, Release) changed; units two
//	    outstanding ammo share. http pools take: pre=1 preload, arr=1 JSON-array file, mw= request middlewares, hdr= / chdr=
//	    which headers the file / the `headers` option give (with or without Host, none, a Date of the ammo's own, one key with
//	    three values), am= number of ammo in the file (pools.go: httpAmmoFile). These options also apply to alias / race / guns.
//	mode=retain obj=<component> n=<instances> calls=<K>
//	    one goroutine (retain.go): K calls of ONE real templater / preprocessor / postprocessor, every result kept and read
//	    again after every later call (a result that aliases recycled memory changes during the next call).
//	mode=handover kind=<pool kind> shots=<K> [steps=<N> failat=<K> fail=<fault>]
//	    one goroutine: a real gun bound to a recording aggregator fires K real shots; per sample object the word of what
//	    the gun did with it (T take from the pool, W write, G give to the aggregator). Scenario kinds take a scenario of
//	    N steps whose step `failat` carries the fault (pools.go: none status conn post postbody postjson posthdr
//	    postxpath tmpl pre call payload).
//	mode=guns kind=<pool kind> n=<instances>
//	    the real engine with a probing gun factory (child process): guns created, distinct gun objects, maximal number
//	    of overlapping Shoot calls on one gun object, maximal number of goroutines calling one gun.
//	mode=race kind=<pool kind> n=<instances> shots=<K> [pre=1] [sc=<clients>] [agg=phout] [steps= failat= fail=]
//	    the real engine in a child process (GORACE log to a file, never halting); observation = race report sites
//	    (only a -race build can see any) and fatal runtime errors / panics.
//	mode=pools kind=httpscen order=<letters> tags=<tA;tB…> nm=<nonce> [par=1]
//	    (round 6) several pools in ONE process, built from one skeleton: what each shot sends must be what its own pool's
//	    ammo file says (twopools.go).
//	mode=hammer obj=<shared object> n=<goroutines> calls=<K>
//	    n goroutines call the instance-facing API of ONE real shared object (child process, race detector).
//
// Child processes are the -race build of this driver whenever it exists next to the plain build (`check` builds
// both), so replays reproduce race reports.
//
// pool kinds: uri uripost raw httpjson httpscen grpcscen grpcjson
package main

import (
	"os"
	"time"

	"verifharness/drv"
)

// the -race build keeps this (parent) process free of pandora code: every case runs in a child
// (6 children at a time in the quick tier, 12 in the thorough one: a child runs up to 24 instance goroutines)
func workers() int {
	for i, a := range os.Args {
		if (a == "-tier" || a == "--tier") && i+1 < len(os.Args) && os.Args[i+1] == "thorough" {
			return 12
		}
		if a == "-tier=thorough" || a == "--tier=thorough" {
			return 12
		}
	}
	return 6
}

func main() {
	if childMain() {
		return
	}
	drv.Main(&drv.Prop{
		ID:      "C11",
		Gen:     gen,
		Run:     run,
		Class:   class,
		Workers: workers(),
		Timeout: 150 * time.Second,
		Rule: "the regenerated lock-facts, closure and hand-over-site tables; every built-in pool kind (http uri/uripost/raw/json with and without preload and " +
			"shared client, http/scenario, grpc/scenario, grpc/json with and without shared client): aliasing graph of two " +
			"instances + write set of two real Shoots each + units and closure objects shared after the shots (sync.Map caches entered); " +
			"variables of 2..4 instances shooting in random order against the same shots alone (random var/header modifier chains incl. " +
			"substr with negative/omitted/out-of-range bounds, header values of random length 0..14 or absent); the provider's side on one goroutine: " +
			"2..4 instances taking turns in a random order (one of them often keeping its ammo through whole passes of the others) behind http providers " +
			"with random preload / JSON-array file / request middlewares / ammo and option headers with and without Host / 1..4 ammo in the file, the grpc/json " +
			"and the scenario providers (content of every delivery at Acquire, at Shoot and on a fresh pool's first pass; units of other instances' ammo changed by a step); " +
			"results of every templater / preprocessor / postprocessor kept across 6..60 later calls; 2..3 pools in one process built from one skeleton " +
			"(equal scenario / request names, different template texts and variables; sequential in a random order, and one goroutine per pool): what every shot sends against its own pool's file; per-sample hand-over word (take/write/give) of real shots of every gun " +
			"kind on every failure path of a scenario step (random scenario length and failing step); gun identity/overlap probe " +
			"through the real engine with 1..16 instances; race-detector sweep of whole pools with 2..24 instances (discard and " +
			"phout aggregators, scenarios with a failing step) and of each shared object (iterator, random sources, template " +
			"caches, client pool, ammo id counter (ids pairwise distinct), sample pool, DNS cache, shared schedules, the four http postprocessors with responses of changing header " +
			"length, the http preprocessor) hammered by 2..32 goroutines; the -race build draws " +
			"other cases than the plain build; non-trivial = shots reached the in-process target / samples reported / all calls done",
	})
}
