package main

// mode=ammo kind=<http kind | grpcjson> n=<instances> order=<digits> [pre=1] [arr=1] [mw=…] [hdr=…] [chdr=…] [am=<k>]
//
// "The ammo … seen by one instance are never altered by another", on ONE goroutine, for the provider's side of a pool:
// Provider.Acquire runs in the goroutine of the instance that asks (for the http providers: BuildRequest from the
// decoded ammo, then the provider's MIDDLEWARES on the request), and a preloading provider — or one that reads a JSON
// array — delivers the same decoded ammo again on every pass, to whichever instance asks.
//
// n real guns behind the real provider. Step t belongs to instance order[t]: it shoots and releases the ammo it holds
// (if any) and acquires its next one; at the end every instance shoots what it still holds. So an instance keeps its
// ammo while the others acquire, shoot and release theirs — for as long as the order says, e.g. a whole pass or two.
//
//	acq=     per delivered ammo (in order of delivery) what it is when Acquire returns it
//	shot=    what the same ammo is when its instance shoots it (after the other instances' steps in between)
//	solo=    what the ammo of the same file position is in a fresh pool with ONE instance on its first pass
//	altered= units reachable from the ammo the OTHER instances hold whose content changed during a step (Acquire with its
//	         middlewares, Shoot, Release) of an instance
//	shared=  units reachable from the ammo two instances hold at the same time (not for scenario kinds: see mode=alias)
//
// The three lists are printed as indices into tab= (the distinct contents, in order of first appearance).
//
// "What an ammo is": method, path, Host, every header with its values (only the NUMBER of values for the headers the
// middlewares of the case add: their values are time stamps), body length; for grpc/json ammo tag, call, metadata,
// payload.

import (
	"fmt"
	"net/http"
	"reflect"
	"sort"
	"strings"
	"time"

	phttp "github.com/yandex/pandora/components/guns/http"
	"github.com/yandex/pandora/core"
	"verifharness/c11lib"
)

func ammoContent(a core.Ammo, mw map[string]bool) string {
	if ha, ok := a.(phttp.Ammo); ok {
		req, _ := ha.Request()
		if req == nil {
			return "nil"
		}
		return reqContent(req, mw)
	}
	// grpc/json: exported fields of the ammo struct
	v := reflect.ValueOf(a)
	for v.Kind() == reflect.Ptr && !v.IsNil() {
		v = v.Elem()
	}
	if v.Kind() != reflect.Struct {
		return "?"
	}
	var fs []string
	for i := 0; i < v.NumField(); i++ {
		f := v.Type().Field(i)
		if !f.IsExported() {
			continue
		}
		switch f.Type.Kind() {
		case reflect.String, reflect.Bool, reflect.Map, reflect.Int, reflect.Int64, reflect.Uint64, reflect.Uint:
			// scalars and maps of the ammo itself (a scenario's steps belong to the shared definition: mode=alias)
			fs = append(fs, strings.ToLower(f.Name)+":"+c11lib.Enc(canonValue(v.Field(i))))
		}
	}
	return strings.Join(fs, "|")
}

func canonValue(v reflect.Value) string {
	switch v.Kind() {
	case reflect.Map:
		var rows []string
		it := v.MapRange()
		for it.Next() {
			rows = append(rows, fmt.Sprint(it.Key().Interface())+":"+canonValue(it.Value()))
		}
		sort.Strings(rows)
		return "{" + strings.Join(rows, " ") + "}"
	case reflect.Interface, reflect.Ptr:
		if v.IsNil() {
			return "nil"
		}
		return canonValue(v.Elem())
	case reflect.Slice:
		var rows []string
		for i := 0; i < v.Len(); i++ {
			rows = append(rows, canonValue(v.Index(i)))
		}
		return "[" + strings.Join(rows, " ") + "]"
	}
	return fmt.Sprint(v.Interface())
}

func reqContent(req *http.Request, mw map[string]bool) string {
	var hs []string
	for k, vs := range req.Header {
		if mw[k] {
			hs = append(hs, fmt.Sprintf("%s#%d", k, len(vs)))
		} else {
			hs = append(hs, k+":"+c11lib.Enc(strings.Join(vs, "&")))
		}
	}
	sort.Strings(hs)
	path := ""
	if req.URL != nil {
		path = req.URL.Path
	}
	return fmt.Sprintf("%s|%s|host:%s|%s|len:%d", req.Method, c11lib.Enc(path), c11lib.Enc(req.Host), strings.Join(hs, "|"), req.ContentLength)
}

type heldAmmo struct {
	a   core.Ammo
	idx int // delivery index
}

// ammoRun: the steps of `order` on a pool of n guns; per delivery the content at Acquire and at Shoot.
func ammoRun(kind string, kv map[string]string, n int, order []int, probe bool) (acq, shot []string, shared, altered []string, served int64, bad string) {
	t, addr, err := newTarget(kind)
	if err != nil {
		return nil, nil, nil, nil, 0, "ENV " + err.Error()
	}
	defer t.stop()
	y := poolYAML(kind, addr, kv, n, map[string]any{"type": "once", "times": 1})
	setupMu.Lock()
	m, err := c11lib.NewManual(y, n)
	setupMu.Unlock()
	if err != nil {
		return nil, nil, nil, nil, 0, "setup=" + c11lib.Enc(c11lib.Trunc(err.Error(), 200))
	}
	defer m.Close()
	mw := mwHeaders(kv["mw"])
	held := make([]*heldAmmo, n)
	sharedSet := map[string]bool{}
	alteredSet := map[string]bool{}

	// what the OTHER instances hold, as a list of units with their snapshots
	type snap struct {
		u  *c11lib.Unit
		h  uint64
		ok bool
	}
	others := func(me int) []snap {
		if !probe {
			return nil
		}
		var roots []any
		for j, h := range held {
			if j != me && h != nil {
				roots = append(roots, h.a)
			}
		}
		if len(roots) == 0 {
			return nil
		}
		g := c11lib.Walk(roots...)
		var out []snap
		for _, u := range c11lib.Units(g) {
			h, ok := c11lib.Snapshot(u)
			out = append(out, snap{u, h, ok})
		}
		return out
	}
	diff := func(before []snap) {
		for _, s := range before {
			h, ok := c11lib.Snapshot(s.u)
			if ok && s.ok && h != s.h {
				alteredSet[s.u.Label()] = true
			}
		}
	}
	noteShared := func() {
		// what the clones of a scenario have in common is the definition: the subject of mode=alias
		if !probe || kind == "httpscen" || kind == "grpcscen" {
			return
		}
		var gs []*c11lib.Graph
		for _, h := range held {
			if h != nil {
				gs = append(gs, c11lib.Walk(h.a))
			}
		}
		for i := range gs {
			for j := i + 1; j < len(gs); j++ {
				for _, u := range c11lib.Shared(gs[i], gs[j]) {
					if u.IsClosure() {
						continue
					}
					sharedSet[u.Label()] = true
				}
			}
		}
	}
	shootHeld := func(i int) {
		h := held[i]
		if h == nil {
			return
		}
		shot[h.idx] = ammoContent(h.a, mw)
		before := others(i)
		m.Guns[i].Shoot(h.a)
		m.Provider.Release(h.a)
		held[i] = nil
		diff(before)
	}
	for _, i := range order {
		shootHeld(i)
		before := others(i)
		a, ok, hang := m.Acquire(20 * time.Second)
		if hang {
			// a provider goroutine that did not get to run in 20 s (loaded machine): nothing was observed
			return nil, nil, nil, nil, 0, "ENV acquire timed out"
		}
		if !ok {
			return nil, nil, nil, nil, 0, "acquire=failed"
		}
		diff(before)
		held[i] = &heldAmmo{a: a, idx: len(acq)}
		acq = append(acq, ammoContent(a, mw))
		shot = append(shot, "")
		noteShared()
	}
	for i := range held {
		shootHeld(i)
	}
	return acq, shot, setList(sharedSet), setList(alteredSet), t.served(), ""
}

func setList(m map[string]bool) []string {
	var out []string
	for k := range m {
		out = append(out, k)
	}
	sort.Strings(out)
	return out
}

func runAmmo(kv map[string]string) string {
	kind := kv["kind"]
	n := 0
	fmt.Sscanf(kv["n"], "%d", &n)
	if n < 1 {
		n = 1
	}
	var order []int
	for _, c := range kv["order"] {
		i := int(c - '0')
		if i < 0 || i >= n {
			return "ENV bad order"
		}
		order = append(order, i)
	}
	if len(order) == 0 {
		return "ENV order"
	}
	acq, shot, shared, altered, served, bad := ammoRun(kind, kv, n, order, true)
	if bad != "" {
		return bad
	}
	if kind == "httpscen" || kind == "grpcscen" {
		// scenario ammo carry a running id: what Acquire returned is the reference
		return ammoObs(served, acq, shot, acq, altered, shared)
	}
	// the same file positions in a fresh pool: one instance, first pass, nobody else
	k := ammoEntries(kind, kv)
	if k > len(order) {
		k = len(order)
	}
	soloOrder := make([]int, k)
	sa, ss, _, _, _, bad := ammoRun(kind, kv, 1, soloOrder, false)
	if bad != "" {
		return bad
	}
	for j := range sa {
		if sa[j] != ss[j] {
			// an ammo that changes between Acquire and Shoot with nobody else around: not an isolation matter, but the
			// reference is no reference then
			return "ENV solo ammo unstable"
		}
	}
	solo := make([]string, len(acq))
	for j := range acq {
		solo[j] = sa[j%k]
	}
	return ammoObs(served, acq, shot, solo, altered, shared)
}

func ammoObs(served int64, acq, shot, solo, altered, shared []string) string {
	var tab []string
	index := map[string]int{}
	ref := func(xs []string) string {
		out := make([]string, len(xs))
		for i, x := range xs {
			k, ok := index[x]
			if !ok {
				k = len(tab)
				index[x] = k
				tab = append(tab, x)
			}
			out[i] = fmt.Sprint(k)
		}
		return strings.Join(out, ".")
	}
	so, ac, sh := ref(solo), ref(acq), ref(shot)
	return fmt.Sprintf("served=%s tab=%s acq=%s shot=%s solo=%s altered=%s shared=%s", pos(served), strings.Join(tab, ";"), ac, sh, so,
		orDash(strings.Join(altered, ",")), orDash(strings.Join(shared, ",")))
}
