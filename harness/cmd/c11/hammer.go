package main

// mode=hammer obj=<object> n=<goroutines> calls=<K>
//
// The objects the sharing model classes as sharedSync (and the frozen client pool), taken one at a time: n goroutines
// call the instance-facing API of ONE real object K times each, released together by a barrier, in a child process
// whose race-detector log is collected (same plumbing as mode=race). Only exported constructors and methods of the
// repo are used. Observation: calls done, fatal runtime error, race report sites.

import (
	"context"
	"fmt"
	"net/http"
	"strconv"
	"strings"
	"sync"
	"sync/atomic"
	"time"

	"github.com/spf13/afero"
	grpcscen "github.com/yandex/pandora/components/guns/grpc/scenario"
	httpscen "github.com/yandex/pandora/components/guns/http_scenario"
	"github.com/yandex/pandora/components/providers/base"
	httppost "github.com/yandex/pandora/components/providers/scenario/http/postprocessor"
	httppre "github.com/yandex/pandora/components/providers/scenario/http/preprocessor"
	httptempl "github.com/yandex/pandora/components/providers/scenario/http/templater"
	scenimport "github.com/yandex/pandora/components/providers/scenario/import"
	scentempl "github.com/yandex/pandora/components/providers/scenario/templater"
	"github.com/yandex/pandora/core"
	"github.com/yandex/pandora/core/aggregator/netsample"
	"github.com/yandex/pandora/core/clientpool"
	"github.com/yandex/pandora/core/coreutil"
	"github.com/yandex/pandora/core/schedule"
	"github.com/yandex/pandora/lib/mp"
	"github.com/yandex/pandora/lib/netutil"
	"github.com/yandex/pandora/lib/str"
)

var hammerObjs = []string{"mpnext", "mprand", "mpboth", "strrand", "tmplfuncs", "tmplhttp", "tmplhtml", "tmplgrpc", "clientpool",
	"nextid", "samplepool", "dnscache", "schedonce", "schedline", "schedunlim", "schedcomp", "posthdr", "postbody", "preproc"}

// hammerVerdict: set by an object whose calls have a joint result to check when all goroutines are done ("" = fine);
// a child process runs one case
var hammerVerdict func() string

// hammerBody returns the operation goroutine g performs at its i-th call (the shared object is created once, here).
func hammerBody(obj string) (body func(g, i int) error, cleanup func()) {
	cleanup = func() {}
	body = hammerBody1(obj, &cleanup)
	return
}

func hammerBody1(obj string, cleanup *func()) func(g, i int) error {
	switch obj {
	case "mpnext":
		// new segments keep being reached for the first time (a scenario with many `[next]` paths) while the older ones
		// are being counted: an insert into the counter map is always in flight
		it := mp.NewNextIterator(1)
		return func(g, i int) error { it.Next(hammerSegment(i)); return nil }
	case "mprand":
		it := mp.NewNextIterator(1)
		return func(g, i int) error { it.Rand(7 + i%5); return nil }
	case "mpboth":
		it := mp.NewNextIterator(1)
		return func(g, i int) error {
			if (g+i)%2 == 0 {
				it.Next(hammerSegment(i))
			} else {
				it.Rand(5)
			}
			return nil
		}
	case "strrand":
		return func(g, i int) error { _ = str.RandStringRunes(int64(4+i%4), "abcd"); return nil }
	case "tmplfuncs":
		return func(g, i int) error {
			if _, err := scentempl.RandInt(1, 9); err != nil {
				return err
			}
			if _, err := scentempl.RandString(5, "xyz"); err != nil {
				return err
			}
			_, err := scentempl.UUID()
			return err
		}
	case "tmplhttp", "tmplhtml":
		var t httptempl.Templater
		if obj == "tmplhttp" {
			t = httptempl.NewTextTemplater()
		} else {
			t = httptempl.NewHTMLTemplater()
		}
		return func(g, i int) error {
			// what the http scenario gun does per step: fresh RequestParts (headers copied from the definition)
			parts := &httpscen.RequestParts{
				URL:     `/a/{{.u}}?x={{randString 3 "ab"}}`,
				Method:  "GET",
				Body:    []byte(`{"n":{{randInt 1 9}},"u":"{{.u}}"}`),
				Headers: map[string]string{"X-U": "u-{{.u}}", "X-C": "c"},
			}
			return t.Apply(parts, map[string]any{"u": g}, "sc"+strconv.Itoa(i%2), "step"+strconv.Itoa(i%3))
		}
	case "tmplgrpc":
		t := grpcscen.NewTextTemplater()
		return func(g, i int) error {
			md := map[string]string{"x-u": "u-{{.u}}", "x-c": "c"}
			_, err := t.Apply([]byte(`{"name":"{{.u}}-{{randString 3 "xy"}}"}`), md, map[string]any{"u": g}, "sc"+strconv.Itoa(i%2), "step"+strconv.Itoa(i%3))
			return err
		}
	case "clientpool":
		p, err := clientpool.New[int](4)
		if err != nil {
			return func(g, i int) error { return err }
		}
		for k := 0; k < 4; k++ {
			p.Add(k)
		}
		return func(g, i int) error { _ = p.Next(); return nil }
	case "nextid":
		// the ammo id counter of a provider: every Acquire of every instance takes the next id; no two ammo may get the same
		// one (an id is what ties a sample to its ammo), however the increments interleave
		b := &base.ProviderBase{}
		ids := make([][]uint64, 64)
		hammerVerdict = func() string {
			seen := map[uint64]bool{}
			dup := 0
			for _, l := range ids {
				for _, id := range l {
					if seen[id] {
						dup++
					}
					seen[id] = true
				}
			}
			if dup > 0 {
				return fmt.Sprintf("dup:%d", dup)
			}
			return ""
		}
		return func(g, i int) error { ids[g%64] = append(ids[g%64], b.NextID()); return nil }
	case "samplepool":
		// Acquire takes a sample from the package pool; the real phout aggregator puts every reported sample back
		a, err := netsample.NewPhout(afero.NewMemMapFs(), netsample.PhoutConfig{Destination: "phout.log", SampleQueueSize: 1024})
		if err != nil {
			return func(g, i int) error { return err }
		}
		ctx, cancel := context.WithCancel(context.Background())
		fin := make(chan error, 1)
		go func() { fin <- a.Run(ctx, core.AggregatorDeps{}) }()
		*cleanup = func() { cancel(); <-fin }
		return func(g, i int) error {
			s := netsample.Acquire("t" + strconv.Itoa(g))
			s.SetProtoCode(200 + i%3)
			s.SetID(uint64(i))
			a.Report(s)
			return nil
		}
	case "schedonce", "schedline", "schedunlim", "schedcomp":
		// ONE schedule object shared by all instances (the engine's default: no rps-per-instance), behind the engine's
		// finish callback; the instances' waiters call Next and Left. Sized so that it finishes while being hammered.
		var sch core.Schedule
		switch obj {
		case "schedonce":
			sch = schedule.NewOnce(4000)
		case "schedline":
			sch = schedule.NewLine(1e6, 2e6, 3*time.Millisecond)
		case "schedunlim":
			sch = schedule.NewUnlimited(2 * time.Millisecond)
		default:
			sch = schedule.NewComposite(schedule.NewOnce(1500), schedule.NewConst(1e6, time.Millisecond), schedule.NewOnce(1500),
				schedule.NewUnlimited(time.Millisecond), schedule.NewOnce(100))
		}
		var finished atomic.Int64
		sch = coreutil.NewCallbackOnFinishSchedule(sch, func() { finished.Add(1) })
		return func(g, i int) error {
			if (g+i)%3 == 0 {
				_ = sch.Left()
			} else {
				_, _ = sch.Next()
			}
			if finished.Load() > 1 {
				return fmt.Errorf("finish callback ran %d times", finished.Load())
			}
			return nil
		}
	case "posthdr":
		// ONE var/header postprocessor (part of the scenario definition: every instance calls it for its own responses);
		// the header it reads differs in length from response to response
		pp := scenimport.NewVarHeaderPostprocessor(httppost.Config{Mapping: headerMapping()})
		return func(g, i int) error {
			resp := &http.Response{StatusCode: 200, Header: http.Header{"X-Tok": {tokAlphabet[:1+(g*7+i*3)%15]}, "Content-Type": {"application/json"}}}
			vars, err := pp.Process(resp, nil)
			if err != nil {
				return err
			}
			if tb, _ := vars["tb"].(string); tb != resp.Header.Get("X-Tok") {
				return fmt.Errorf("substr(-20,40) of %q gave %q", resp.Header.Get("X-Tok"), tb)
			}
			return nil
		}
	case "postbody":
		// the postprocessors that read the body, one object each for all goroutines
		pj := scenimport.NewVarJsonpathPostprocessor(httppost.Config{Mapping: map[string]string{"token": "$.auth_key", "first": "$.items[0]"}})
		px := scenimport.NewVarXpathPostprocessor(httppost.Config{Mapping: map[string]string{"title": "//title", "links": "//a/@href"}})
		pa, err := scenimport.NewAssertResponsePostprocessor(httppost.AssertResponse{Headers: map[string]string{"Content-Type": "json"}, Body: []string{"auth_key"},
			StatusCode: 200, Size: &httppost.AssertSize{Val: 5, Op: ">"}})
		if err != nil {
			return func(g, i int) error { return err }
		}
		return func(g, i int) error {
			resp := &http.Response{StatusCode: 200, Header: http.Header{"Content-Type": {"application/json"}}}
			key := "k" + strconv.Itoa(g) + "x" + strconv.Itoa(i%5)
			js := `{"auth_key":"` + key + `","items":[` + strconv.Itoa(g) + `,2,3]}`
			vars, err := pj.Process(resp, strings.NewReader(js))
			if err != nil {
				return err
			}
			if vars["token"] != key {
				return fmt.Errorf("jsonpath gave %v, want %s", vars["token"], key)
			}
			if _, err := pa.Process(resp, strings.NewReader(js)); err != nil {
				return err
			}
			vars, err = px.Process(resp, strings.NewReader("<html><head><title>"+key+"</title></head><body><a href=\"/1\">a</a><a href=\"/2\">b</a></body></html>"))
			if err != nil {
				return err
			}
			if vars["title"] != key {
				return fmt.Errorf("xpath gave %v, want %s", vars["title"], key)
			}
			return nil
		}
	case "preproc":
		// ONE http preprocessor with `[next]` / `[rand]` paths and a template function, as all instances of a scenario use it
		pre := &httppre.Preprocessor{Mapping: map[string]string{"u": "source.users[next]", "r": "source.users[rand]", "n": "randInt(1,9)", "c": "source.global.g"}}
		pre.InitIterator(mp.NewNextIterator(1))
		users := []map[string]any{{"login": "a"}, {"login": "b"}, {"login": "c"}}
		src := map[string]any{"users": users, "global": map[string]any{"g": "gg"}}
		return func(g, i int) error {
			vars, err := pre.Process(map[string]any{"source": src})
			if err != nil {
				return err
			}
			if vars["c"] != "gg" {
				return fmt.Errorf("preprocessor gave %v for a constant", vars["c"])
			}
			return nil
		}
	case "dnscache":
		c := &netutil.SimpleDNSCache{}
		return func(g, i int) error {
			if (g+i)%4 == 0 {
				c.Add("host"+strconv.Itoa(i%3), "127.0.0.1:80")
			} else {
				_, _ = c.Get("host" + strconv.Itoa(i%3))
			}
			return nil
		}
	}
	return nil
}

// hammerSegment: call i uses one of the three newest segments; a new segment appears every 25 calls.
func hammerSegment(i int) string {
	k := i/25 - i%3
	if k < 0 {
		k = 0
	}
	return "seg" + strconv.Itoa(k)
}

func runHammerInProc(kv map[string]string) string {
	n, _ := strconv.Atoi(kv["n"])
	k, _ := strconv.Atoi(kv["calls"])
	if n < 1 {
		n = 1
	}
	body, cleanup := hammerBody(kv["obj"])
	if body == nil {
		return "unknown-object"
	}
	var wg sync.WaitGroup
	start := make(chan struct{})
	errs := make([]error, n)
	done := make([]int, n)
	for g := 0; g < n; g++ {
		wg.Add(1)
		go func(g int) {
			defer wg.Done()
			<-start
			for i := 0; i < k; i++ {
				if err := body(g, i); err != nil {
					errs[g] = err
					return
				}
				done[g]++
			}
		}(g)
	}
	close(start)
	wg.Wait()
	cleanup()
	total := 0
	for g := 0; g < n; g++ {
		total += done[g]
	}
	res := "-"
	for _, e := range errs {
		if e != nil {
			res = "err"
		}
	}
	if res == "-" && hammerVerdict != nil {
		if v := hammerVerdict(); v != "" {
			res = v
		}
	}
	return fmt.Sprintf("run=%s calls=%d", res, total)
}
