package main

import (
	"fmt"
	"html"
	"io"
	"net/http"
	"net/http/httptest"
	"sort"
	"strconv"
	"strings"
	"sync"
	"sync/atomic"
	"time"

	"gopkg.in/yaml.v2"
	"verifharness/c11lib"
)

type target struct {
	http   *httptest.Server
	grpc   *c11lib.Server
	hits   atomic.Int64
	broken atomic.Bool
	// delayMs (round 4, do=1): every request is answered after this many milliseconds — instances fall behind the
	// schedule, and with `discard_overflow` the instance loop reports "discarded" samples instead of shooting
	delayMs atomic.Int64

	// script (mode=isolate): the X-Tok values served to the successive requests of a path containing "/tok", in order of
	// arrival ("" = no X-Tok header at all); echoes: what the requests of a path containing "/echo" carried
	mu     sync.Mutex
	script []string
	next   int
	echoes []string
}

// tokAlphabet: the X-Tok response header outside mode=isolate is a prefix of it whose length changes from response to
// response (3..13 characters): header-derived variables differ in length between the responses an instance — and its
// neighbours — see
const tokAlphabet = "AbCdEfGhIjKlMnOp"

func (t *target) tokFor(hit int64, path string) (string, bool) {
	if t.script != nil {
		if !strings.Contains(path, "/tok") {
			return "", false
		}
		t.mu.Lock()
		defer t.mu.Unlock()
		if t.next >= len(t.script) {
			return "", false
		}
		v := t.script[t.next]
		t.next++
		return v, v != ""
	}
	return tokAlphabet[:3+int(hit*5%11)], true
}

func (t *target) echoList() []string {
	if t.grpc != nil {
		return t.grpc.Echoes()
	}
	t.mu.Lock()
	defer t.mu.Unlock()
	return append([]string(nil), t.echoes...)
}

// refuse: from now on no request is answered — the http target drops every connection without a response, the gRPC
// target answers Unavailable. The listeners stay open: a closed port could be taken over by the target of another
// case running in this process.
func (t *target) refuse() {
	t.broken.Store(true)
	if t.grpc != nil {
		t.grpc.Refuse.Store(true)
	}
}

func (t *target) stop() {
	if t.http != nil {
		t.http.Close()
	}
	if t.grpc != nil {
		t.grpc.Stop()
	}
}

func (t *target) served() int64 {
	if t.grpc != nil {
		return t.grpc.Calls()
	}
	return t.hits.Load()
}

func newTarget(kind string) (*target, string, error) {
	t := &target{}
	if strings.HasPrefix(kind, "grpc") {
		s, err := c11lib.StartServer()
		if err != nil {
			return nil, "", err
		}
		t.grpc = s
		return t, s.Addr, nil
	}
	t.http = httptest.NewServer(http.HandlerFunc(func(w http.ResponseWriter, r *http.Request) {
		if t.broken.Load() {
			if hj, ok := w.(http.Hijacker); ok {
				if c, _, err := hj.Hijack(); err == nil {
					_ = c.Close()
					return
				}
			}
			panic(http.ErrAbortHandler)
		}
		hit := t.hits.Add(1)
		if d := t.delayMs.Load(); d > 0 {
			time.Sleep(time.Duration(d) * time.Millisecond)
		}
		if tok, ok := t.tokFor(hit, r.URL.Path); ok {
			w.Header().Set("X-Tok", tok)
		}
		if strings.Contains(r.URL.Path, "/echo") {
			// what the instance made of the variables it extracted from ITS earlier responses
			var hs []string
			for k, v := range r.Header {
				if strings.HasPrefix(k, "X-V-") {
					hs = append(hs, strings.ToLower(strings.TrimPrefix(k, "X-V-"))+":"+c11lib.Enc(strings.Join(v, "&")))
				}
			}
			if strings.Contains(r.URL.Path, "/p-") || strings.Contains(r.URL.Path, "/q-") {
				// mode=pools: which pool's uri template the request was rendered from
				hs = append(hs, "path:"+c11lib.Enc(r.URL.Path))
			}
			sort.Strings(hs)
			b, _ := io.ReadAll(r.Body)
			t.mu.Lock()
			t.echoes = append(t.echoes, strings.Join(hs, ",")+",body:"+c11lib.Enc(string(b)))
			t.mu.Unlock()
		}
		if strings.Contains(r.URL.Path, "/html") {
			w.Header().Set("Content-Type", "text/html")
			title := "T" + strconv.FormatInt(hit%7, 10)
			if raw := r.Header.Get("X-V-raw"); raw != "" {
				title = "T-" + html.EscapeString(raw) // a function of the instance's own data
			}
			_, _ = w.Write([]byte("<html><head><title>" + title + "</title></head><body><p id=\"x\">px</p><a href=\"/l1\">one</a><a href=\"/l2\">two</a></body></html>"))
			return
		}
		w.Header().Set("Content-Type", "application/json")
		if strings.Contains(r.URL.Path, "e500") {
			w.WriteHeader(http.StatusInternalServerError)
		}
		if strings.Contains(r.URL.Path, "ebody") {
			// a response whose body breaks off: status line and headers are fine, the body is shorter than announced
			if hj, ok := w.(http.Hijacker); ok {
				if c, _, err := hj.Hijack(); err == nil {
					_, _ = c.Write([]byte("HTTP/1.1 200 OK\r\nContent-Type: application/json\r\nContent-Length: 100\r\n\r\n{\"auth_key\":"))
					_ = c.Close()
					return
				}
			}
		}
		_, _ = w.Write([]byte(`{"auth_key":"k123","items":[1,2,3]}`))
	}))
	return t, strings.TrimPrefix(t.http.URL, "http://"), nil
}

func usersCSV() string {
	var b strings.Builder
	b.WriteString("login,pass\n")
	for i := 1; i <= 7; i++ {
		fmt.Fprintf(&b, "%d,%d\n", i, i)
	}
	return c11lib.WriteFile(".csv", b.String())
}

func httpScenarioFile() string {
	cfg := map[string]any{
		"variable_sources": []any{
			map[string]any{"name": "users", "type": "file/csv", "file": usersCSV(), "fields": []string{"login", "pass"},
				"ignore_first_line": true, "delimiter": ","},
			map[string]any{"name": "global", "type": "variables", "variables": map[string]any{"g": "gg"}},
		},
		"requests": []any{
			map[string]any{
				"name": "r1", "method": "POST", "tag": "t1",
				"uri":          `/a/{{.request.r1.preprocessor.u.login}}?x={{randString 4 "ab"}}`,
				"headers":      map[string]string{"X-User": "u-{{.request.r1.preprocessor.u.login}}", "X-G": "{{.source.global.g}}"},
				"body":         `{"l":"{{.request.r1.preprocessor.r.login}}","n":{{randInt 1 9}}}`,
				"preprocessor": map[string]any{"mapping": map[string]string{"u": "source.users[next]", "r": "source.users[rand]"}},
				"templater":    map[string]any{"type": "text"},
				"postprocessors": []any{
					map[string]any{"type": "var/jsonpath", "mapping": map[string]string{"token": "$.auth_key"}},
					map[string]any{"type": "var/header", "mapping": headerMapping()},
					map[string]any{"type": "assert/response", "headers": map[string]string{"Content-Type": "json"}, "body": []string{"auth_key"},
						"status_code": 200, "size": map[string]any{"val": 5, "op": ">"}},
				},
			},
			map[string]any{
				"name": "r2", "method": "GET", "tag": "t2", "uri": "/b/html",
				"headers":   map[string]string{"Authorization": "Bearer {{.request.r1.postprocessor.token}}", "X-Const": "c", "X-T": "{{.request.r1.postprocessor.tok}}"},
				"templater": map[string]any{"type": "html"},
				"postprocessors": []any{
					map[string]any{"type": "var/xpath", "mapping": map[string]string{"title": "//title", "links": "//a/@href"}},
				},
			},
			// a step whose headers are all constants (nothing to render) and that reads what the earlier steps extracted
			map[string]any{
				"name": "r3", "method": "POST", "tag": "t3", "uri": "/c",
				"headers": map[string]string{"X-Const": "c", "X-Other": "o"},
				"body":    `{"t":"{{.request.r1.postprocessor.tl}}","x":"{{.request.r2.postprocessor.title}}"}`,
			},
		},
		"scenarios": []any{
			map[string]any{"name": "s1", "weight": 1, "min_waiting_time": 0, "requests": []string{"r1", "r2", "r3"}},
			map[string]any{"name": "s2", "weight": 1, "min_waiting_time": 0, "requests": []string{"r2", "r1", "r3"}},
		},
	}
	b, _ := yaml.Marshal(cfg)
	return c11lib.WriteFile(".yaml", string(b))
}

// headerMapping: a var/header postprocessor with every modifier and every way of giving substr its bounds (negative
// start, omitted end, negative end, explicit bounds, bounds beyond the value), on a header whose length changes from
// response to response
func headerMapping() map[string]string {
	return map[string]string{
		"tok": "X-Tok|substr(-4)",
		"tl":  "X-Tok|lower|substr(2)",
		"tu":  "X-Tok|upper|substr(1,-1)|replace(B,x)",
		"te":  "X-Tok|substr(1,3)",
		"tb":  "X-Tok|substr(-20,40)",
		"ct":  "Content-Type",
	}
}

func grpcScenarioFile() string {
	cfg := map[string]any{
		"variable_sources": []any{
			map[string]any{"name": "users", "type": "file/csv", "file": usersCSV(), "fields": []string{"login", "pass"},
				"ignore_first_line": true, "delimiter": ","},
			map[string]any{"name": "global", "type": "variables", "variables": map[string]any{"g": "gg"}},
		},
		"calls": []any{
			map[string]any{
				"name": "h", "tag": "th", "call": "target.TargetService.Hello",
				"metadata": map[string]string{"x-user": "u-{{.request.h.preprocessor.u.login}}", "x-g": "{{.source.global.g}}"},
				"payload":  `{"name":"{{.request.h.preprocessor.r.login}}-{{randString 3 "xy"}}"}`,
				"preprocessors": []any{
					map[string]any{"type": "prepare", "mapping": map[string]string{"u": "source.users[next]", "r": "source.users[rand]"}},
				},
			},
			map[string]any{
				"name": "auth", "tag": "tauth", "call": "target.TargetService.Auth",
				"payload": `{"login":"{{.request.auth.preprocessor.u.login}}","pass":"{{.request.auth.preprocessor.u.pass}}"}`,
				"preprocessors": []any{
					map[string]any{"type": "prepare", "mapping": map[string]string{"u": "source.users[next]"}},
				},
			},
			map[string]any{
				"name": "list", "tag": "tlist", "call": "target.TargetService.List",
				"metadata": map[string]string{"authorization": "Bearer {{.request.auth.postprocessor.token}}"},
				"payload":  `{"user_id":{{.request.auth.postprocessor.userId}},"token":"{{.request.auth.postprocessor.token}}"}`,
			},
		},
		"scenarios": []any{
			map[string]any{"name": "s1", "weight": 1, "min_waiting_time": 0, "requests": []string{"h", "auth", "list"}},
			map[string]any{"name": "s2", "weight": 1, "min_waiting_time": 0, "requests": []string{"h(2)"}},
		},
	}
	b, _ := yaml.Marshal(cfg)
	return c11lib.WriteFile(".yaml", string(b))
}

// ---------------------------------------------------------------- scenarios with a failing step
//
// steps=<N> failat=<K> fail=<what>: one scenario of N steps; step K (1-based) carries the fault, every other step is a
// plain templated request that uses the shared `[next]` iterator and a postprocessor.
//
//	none      no fault
//	status    the target answers 500 (not an error for the gun)
//	conn      the target is stopped before the shot (every step fails to connect)
//	body      the response body breaks off before its announced length (http only)
//	post      the step's second postprocessor (assert/response status_code) rejects the normal response
//	postbody  assert/response body pattern not found
//	postjson  var/jsonpath path not found (http only)
//	posthdr   var/header with an unknown modifier (http only)
//	postxpath var/xpath with a path that does not compile (http only)
//	tmpl      the step's template fails to execute
//	pre       the step's preprocessor refers to an unknown variable source
//	call      unknown gRPC method (grpc only)
//	payload   payload does not fit the method's input message (grpc only)

func faultParams(kv map[string]string) (steps, failat int, fail string) {
	steps, _ = strconv.Atoi(kv["steps"])
	failat, _ = strconv.Atoi(kv["failat"])
	fail = kv["fail"]
	if fail == "" {
		fail = "none"
	}
	if steps < 1 {
		steps = 1
	}
	if failat < 1 || failat > steps {
		failat = steps
	}
	return
}

func faultSources() []any {
	return []any{
		map[string]any{"name": "users", "type": "file/csv", "file": usersCSV(), "fields": []string{"login", "pass"},
			"ignore_first_line": true, "delimiter": ","},
		map[string]any{"name": "global", "type": "variables", "variables": map[string]any{"g": "gg"}},
	}
}

func httpFaultScenarioFile(kv map[string]string) string {
	steps, failat, fail := faultParams(kv)
	var reqs []any
	var names []string
	for i := 1; i <= steps; i++ {
		name := "r" + strconv.Itoa(i)
		names = append(names, name)
		uri := "/s" + strconv.Itoa(i) + "/{{.request." + name + ".preprocessor.u.login}}"
		mapping := map[string]string{"u": "source.users[next]"}
		posts := []any{map[string]any{"type": "var/jsonpath", "mapping": map[string]string{"token": "$.auth_key"}},
			map[string]any{"type": "var/header", "mapping": headerMapping()},
			map[string]any{"type": "var/xpath", "mapping": map[string]string{"p": "//p"}}}
		if i == failat {
			switch fail {
			case "status":
				uri = "/e500" + uri
			case "body":
				uri = "/ebody" + uri
			case "post":
				posts = append(posts, map[string]any{"type": "assert/response", "status_code": 201})
			case "postbody":
				posts = append(posts, map[string]any{"type": "assert/response", "body": []string{"no-such-text"}})
			case "postjson":
				posts = append(posts, map[string]any{"type": "var/jsonpath", "mapping": map[string]string{"x": "$.no.such.key"}})
			case "posthdr":
				posts = append(posts, map[string]any{"type": "var/header", "mapping": map[string]string{"x": "X-Tok|nosuchmodifier(1)"}})
			case "postxpath":
				posts = append(posts, map[string]any{"type": "var/xpath", "mapping": map[string]string{"x": "//["}})
			case "tmpl":
				uri += "/{{index .source.global.g 99}}"
			case "pre":
				mapping["x"] = "source.nosuch[next]"
			}
		}
		hdrs := map[string]string{"X-G": "{{.source.global.g}}", "X-Const": "c"}
		if i > 1 {
			// what the previous step extracted from its response's headers
			prev := "r" + strconv.Itoa(i-1)
			hdrs["X-T"] = "{{.request." + prev + ".postprocessor.tok}}-{{.request." + prev + ".postprocessor.tu}}"
		}
		reqs = append(reqs, map[string]any{
			"name": name, "method": "GET", "tag": "t" + strconv.Itoa(i), "uri": uri,
			"headers":        hdrs,
			"preprocessor":   map[string]any{"mapping": mapping},
			"templater":      map[string]any{"type": "text"},
			"postprocessors": posts,
		})
	}
	cfg := map[string]any{
		"variable_sources": faultSources(),
		"requests":         reqs,
		"scenarios":        []any{map[string]any{"name": "s1", "weight": 1, "min_waiting_time": 0, "requests": names}},
	}
	b, _ := yaml.Marshal(cfg)
	return c11lib.WriteFile(".yaml", string(b))
}

func grpcFaultScenarioFile(kv map[string]string) string {
	steps, failat, fail := faultParams(kv)
	var calls []any
	var names []string
	for i := 1; i <= steps; i++ {
		name := "c" + strconv.Itoa(i)
		names = append(names, name)
		call := "target.TargetService.Hello"
		payload := `{"name":"{{.request.` + name + `.preprocessor.u.login}}"}`
		mapping := map[string]string{"u": "source.users[next]"}
		posts := []any{map[string]any{"type": "assert/response", "payload": []string{"Hello"}}}
		if i == failat {
			switch fail {
			case "post":
				posts = append(posts, map[string]any{"type": "assert/response", "status_code": 201})
			case "postbody":
				posts = append(posts, map[string]any{"type": "assert/response", "payload": []string{"no-such-text"}})
			case "tmpl":
				payload = `{"name":"{{index .source.global.g 99}}"}`
			case "pre":
				mapping["x"] = "source.nosuch[next]"
			case "call":
				call = "target.TargetService.Nope"
			case "payload":
				payload = `{"nosuchfield":1}`
			}
		}
		calls = append(calls, map[string]any{
			"name": name, "tag": "t" + strconv.Itoa(i), "call": call,
			"metadata":       map[string]string{"x-g": "{{.source.global.g}}", "x-const": "c"},
			"payload":        payload,
			"preprocessors":  []any{map[string]any{"type": "prepare", "mapping": mapping}},
			"postprocessors": posts,
		})
	}
	cfg := map[string]any{
		"variable_sources": faultSources(),
		"calls":            calls,
		"scenarios":        []any{map[string]any{"name": "s1", "weight": 1, "min_waiting_time": 0, "requests": names}},
	}
	b, _ := yaml.Marshal(cfg)
	return c11lib.WriteFile(".yaml", string(b))
}

func rawAmmo() string {
	var b strings.Builder
	for i, r := range []string{
		"GET /raw1 HTTP/1.1\r\nHost: example.org\r\nX-A: a\r\n\r\n",
		"POST /raw2 HTTP/1.1\r\nHost: example.org\r\nContent-Length: 5\r\n\r\nhello",
		"GET /raw3 HTTP/1.1\r\nHost: example.org\r\n\r\n",
	} {
		fmt.Fprintf(&b, "%d t%d\n%s\n", len(r), i, r)
	}
	return b.String()
}

// middlewares: the provider's request middlewares (run by Provider.Acquire in the instance's goroutine, after
// BuildRequest): date = header/date with its defaults, datex = another header name and location, date2 = both
func middlewares(mw string) []any {
	switch mw {
	case "date":
		return []any{map[string]any{"type": "header/date"}}
	case "datex":
		return []any{map[string]any{"type": "header/date", "location": "EST", "headerName": "X-Date"}}
	case "date2":
		return []any{map[string]any{"type": "header/date"}, map[string]any{"type": "header/date", "headerName": "X-Date"}}
	case "datem":
		// the middleware's header is one the ammo has values for already (chdr=multi: three of them)
		return []any{map[string]any{"type": "header/date", "headerName": "X-Multi"}}
	}
	return nil
}

// mwHeaders: the header names the middlewares of a case add (their values are time stamps)
func mwHeaders(mw string) map[string]bool {
	switch mw {
	case "date":
		return map[string]bool{"Date": true}
	case "datex":
		return map[string]bool{"X-Date": true}
	case "date2":
		return map[string]bool{"Date": true, "X-Date": true}
	case "datem":
		return map[string]bool{"X-Multi": true}
	}
	return map[string]bool{}
}

const fixedDate = "Thu, 01 Jan 1970 00:00:00 GMT"

// ammoEntries: the number of ammo in the file of an http / grpc-json pool
func ammoEntries(kind string, kv map[string]string) int {
	if k, err := strconv.Atoi(kv["am"]); err == nil && k > 0 && kind != "grpcjson" {
		return k
	}
	switch kind {
	case "uri", "grpcjson":
		return 4
	}
	return 3
}

// httpAmmoFile: the ammo file of an http pool.
//
//	hdr=   the headers the FILE gives its ammo: "" = the historic files of this driver (with a Host header), nohost =
//	       headers but no Host, none = no header at all, date = a Date header of the ammo's own (and no Host)
//	am=<k> number of ammo in the file (with fewer ammo than instances — or with an instance that keeps its ammo while
//	       the others go through a whole pass — two outstanding requests come from ONE decoded ammo when the provider
//	       preloads, or reads a JSON array)
//	arr=1  http/json: the file is one JSON array instead of one object per line
func httpAmmoFile(kind string, kv map[string]string) string {
	hdr, legacy := kv["hdr"], kv["hdr"] == "" && kv["am"] == "" && kv["arr"] == ""
	k := ammoEntries(kind, kv)
	var hs [][2]string
	switch hdr {
	case "":
		hs = [][2]string{{"Host", "example.org"}, {"X-A", "a"}}
	case "nohost":
		hs = [][2]string{{"X-A", "a"}}
	case "date":
		hs = [][2]string{{"Date", fixedDate}, {"X-A", "a"}}
	}
	var b strings.Builder
	switch kind {
	case "uri":
		if legacy {
			pre := ""
			switch kv["fail"] {
			case "status":
				pre = "/e500"
			case "body":
				pre = "/ebody"
			}
			return c11lib.WriteFile(".uri", "[Host: example.org]\n[X-A: a]\n"+pre+"/one t1\n"+pre+"/two t2\n[X-B: b]\n"+pre+"/three\n"+pre+"/four t4\n")
		}
		for _, h := range hs {
			fmt.Fprintf(&b, "[%s: %s]\n", h[0], h[1])
		}
		for i := 1; i <= k; i++ {
			if i == 3 {
				b.WriteString("[X-B: b]\n")
			}
			fmt.Fprintf(&b, "/u%d t%d\n", i, i)
		}
		return c11lib.WriteFile(".uri", b.String())
	case "uripost":
		if legacy {
			return c11lib.WriteFile(".uripost", "[X-A: a]\n5 /p1 t1\nhello\n7 /p2 t2\nworld!!\n[X-B: b]\n3 /p3\nabc\n")
		}
		for _, h := range hs {
			fmt.Fprintf(&b, "[%s: %s]\n", h[0], h[1])
		}
		for i := 1; i <= k; i++ {
			if i == 3 {
				b.WriteString("[X-B: b]\n")
			}
			body := strings.Repeat("x", 2+i)
			fmt.Fprintf(&b, "%d /p%d t%d\n%s\n", len(body), i, i, body)
		}
		return c11lib.WriteFile(".uripost", b.String())
	case "raw":
		if legacy {
			return c11lib.WriteFile(".raw", rawAmmo())
		}
		for i := 1; i <= k; i++ {
			r := fmt.Sprintf("GET /raw%d HTTP/1.1\r\n", i)
			body := ""
			if i%2 == 0 && hdr != "none" {
				body = strings.Repeat("y", i)
				r = fmt.Sprintf("POST /raw%d HTTP/1.1\r\nContent-Length: %d\r\n", i, len(body))
			}
			if hdr == "none" {
				// the request's own header block holds the Host line only: the built request has no headers of its own
				r += "Host: example.org\r\n"
			}
			for _, h := range hs {
				r += h[0] + ": " + h[1] + "\r\n"
			}
			r += "\r\n" + body
			fmt.Fprintf(&b, "%d t%d\n%s\n", len(r), i, r)
		}
		return c11lib.WriteFile(".raw", b.String())
	case "httpjson":
		if legacy {
			return c11lib.WriteFile(".jsonl",
				`{"host":"example.org","method":"GET","uri":"/j1","tag":"t1","headers":{"X-A":"a","X-B":"b"}}`+"\n"+
					`{"host":"example.org","method":"POST","uri":"/j2","tag":"t2","headers":{"X-A":"a"},"body":"hello"}`+"\n"+
					`{"host":"example.org","method":"GET","uri":"/j3","tag":"t3"}`+"\n")
		}
		var rows []string
		for i := 1; i <= k; i++ {
			var hj []string
			for _, h := range hs {
				hj = append(hj, fmt.Sprintf("%q:%q", h[0], h[1]))
			}
			if i >= 3 {
				hj = append(hj, `"X-B":"b"`)
			}
			row := fmt.Sprintf(`{"host":"example.org","method":"GET","uri":"/j%d","tag":"t%d"`, i, i)
			if i%2 == 0 {
				row = fmt.Sprintf(`{"host":"example.org","method":"POST","uri":"/j%d","tag":"t%d","body":"%s"`, i, i, strings.Repeat("z", i))
			}
			if len(hj) > 0 {
				row += `,"headers":{` + strings.Join(hj, ",") + `}`
			}
			rows = append(rows, row+"}")
		}
		if kv["arr"] == "1" {
			return c11lib.WriteFile(".json", "[\n"+strings.Join(rows, ",\n")+"\n]\n")
		}
		return c11lib.WriteFile(".jsonl", strings.Join(rows, "\n")+"\n")
	}
	return ""
}

// gunOptions (round 4): go=<letters> switches on options of the gun that change what a Shoot does with the request, the
// response and the sample — and that interact with each other and with the shared client:
//
//	t  httptrace.trace   (per-shot ClientTrace whose hooks run on transport goroutines; four more sample fields)
//	d  httptrace.dump    (request and response dumped, two more sample fields)
//	a  answlog, filter all (the request body is read and replaced before the shot, both sides dumped to ONE log file
//	   that every gun of the pool writes)
//	g  auto-tag for every ammo (the sample's tag is extended from the request's URL)
//
// http guns (http, http/scenario) take all of them, the gRPC guns `a` only.
func gunOptions(kind, letters string, gun map[string]any) {
	if letters == "" {
		return
	}
	isHTTP := !strings.HasPrefix(kind, "grpc")
	trace := map[string]any{}
	for _, c := range letters {
		switch c {
		case 't':
			if isHTTP {
				trace["trace"] = true
			}
		case 'd':
			if isHTTP {
				trace["dump"] = true
			}
		case 'a':
			gun["answlog"] = map[string]any{"enabled": true, "filter": "all", "path": c11lib.WriteFile(".answ", "")}
		case 'g':
			if isHTTP {
				gun["auto-tag"] = map[string]any{"enabled": true, "uri-elements": 1, "no-tag-only": false}
			}
		}
	}
	if len(trace) > 0 {
		gun["httptrace"] = trace
	}
}

// poolYAML builds the pool description for one kind.
func poolYAML(kind, addr string, kv map[string]string, n int, rps map[string]any) string {
	gun := map[string]any{"target": addr}
	ammo := map[string]any{}
	sc, _ := strconv.Atoi(kv["sc"])
	switch kind {
	case "uri", "uripost", "raw", "httpjson":
		gun["type"] = "http"
		if sc > 0 {
			gun["shared-client"] = map[string]any{"enabled": true, "client-number": sc}
		}
		switch kv["chdr"] {
		case "":
			ammo["headers"] = []string{"[X-Conf: conf]", "[Host: conf.example.org]"}
		case "nohost":
			ammo["headers"] = []string{"[X-Conf: conf]"}
		case "multi":
			// one key with three values (the decoded value slice has spare capacity where it was built by appending)
			ammo["headers"] = []string{"[X-Multi: a]", "[X-Multi: b]", "[X-Multi: c]", "[X-Conf: conf]"}
		case "none":
		}
		if kv["pre"] == "1" {
			ammo["preload"] = true
		}
		if mws := middlewares(kv["mw"]); mws != nil {
			ammo["middlewares"] = mws
		}
		switch kind {
		case "uri":
			ammo["type"] = "uri"
		case "uripost":
			ammo["type"] = "uripost"
		case "raw":
			ammo["type"] = "raw"
		case "httpjson":
			ammo["type"] = "http/json"
		}
		ammo["file"] = httpAmmoFile(kind, kv)
	case "httpscen":
		gun["type"] = "http/scenario"
		ammo["type"] = "http/scenario"
		if kv["pools"] != "" {
			ammo["file"] = poolsScenarioFile(kv["pools"], kv["nm"])
		} else if kv["isolate"] != "" {
			ammo["file"] = isolateScenarioFile(strings.Split(kv["isolate"], ";"))
		} else if kv["steps"] != "" {
			ammo["file"] = httpFaultScenarioFile(kv)
		} else {
			ammo["file"] = httpScenarioFile()
		}
	case "grpcscen":
		gun["type"] = "grpc/scenario"
		ammo["type"] = "grpc/scenario"
		if kv["isolate"] != "" {
			ammo["file"] = grpcIsolateScenarioFile()
		} else if kv["steps"] != "" {
			ammo["file"] = grpcFaultScenarioFile(kv)
		} else {
			ammo["file"] = grpcScenarioFile()
		}
	case "grpcjson":
		gun["type"] = "grpc"
		if sc > 0 {
			gun["shared-client"] = map[string]any{"enabled": true, "client-number": sc}
		}
		ammo["type"] = "grpc/json"
		ammo["file"] = c11lib.WriteFile(".jsonl",
			`{"tag":"a","call":"target.TargetService.Hello","metadata":{"k":"v","auth":"Bearer x"},"payload":{"name":"bob"}}`+"\n"+
				`{"tag":"b","call":"target.TargetService.Auth","metadata":{"k":"w"},"payload":{"login":"1","pass":"1"}}`+"\n"+
				`{"tag":"c","call":"target.TargetService.Nope","metadata":{},"payload":{}}`+"\n"+
				`{"tag":"d","call":"target.TargetService.List","metadata":{"k":"v"},"payload":{"user_id":5,"token":"x"}}`+"\n")
	}
	gunOptions(kind, kv["go"], gun)
	result := map[string]any{"type": "discard"}
	if kv["agg"] == "phout" {
		// the real phout aggregator: reported samples go back to the package-level sample pool
		result = map[string]any{"type": "phout", "destination": c11lib.WriteFile(".phout", "")}
	}
	pool := map[string]any{
		"id": "P", "gun": gun, "ammo": ammo,
		"result":  result,
		"rps":     []any{rps},
		"startup": map[string]any{"type": "once", "times": n},
	}
	if kv["do"] == "1" {
		// round 4: the instance loop's other branch — an instance that is more than two seconds behind the schedule
		// reports a "discarded" sample instead of shooting
		pool["discard_overflow"] = true
	}
	b, _ := yaml.Marshal(map[string]any{"pools": []any{pool}, "log": map[string]any{"level": "error"}})
	return string(b)
}
