package main

// mode=pools kind=httpscen order=<letters> tags=<tA;tB[;tC]> nm=<nonce> [par=1]            (round 6)
//
// SEVERAL pools in one process. Every pool of the case has its own ammo file, its own target, its own provider and gun
// (built by the registered plugin factories, as a run with several `pools:` entries builds them), and the files are
// derived from ONE skeleton: the scenario is called "s<nm>" and its requests "r<nm>" / "q<nm>" in all of them, while
// the TEXT of the uri / header / body templates and the value of the variable they use differ by the pool's tag:
//
//	r<nm>:  POST /echo/p-<tag>/{{.source.global.g}}    X-V-pool: <tag>-{{.source.global.g}}    body b-<tag>-{{.source.global.g}}
//	q<nm>:  GET  /echo/q-<tag>                         X-V-two: <tag>                           (global.g = "v<tag>")
//
// "The ammo, scenario definition, request templates … seen by one instance are never altered by another" — instances of
// different pools included: whatever a pool sends is a function of ITS file. Sequential form (ONE goroutine): shot j is
// fired by the pool order[j] names; observation = what each shot sent (path, X-V-* headers, body of both requests, as the
// pool's target received them). Concurrent form (par=1): one goroutine per pool fires as many shots as `order` names it;
// observation = per pool (A, B, …) the distinct things its shots sent. Prediction (Lean): the pool's own templates filled
// with the pool's own variable. Names are unique per case (`nm`), so cases running in one process do not meet.

import (
	"sort"
	"strings"
	"sync"
	"time"

	"gopkg.in/yaml.v2"
	"verifharness/c11lib"
)

func poolsScenarioFile(tag, nm string) string {
	cfg := map[string]any{
		"variable_sources": []any{
			map[string]any{"name": "global", "type": "variables", "variables": map[string]any{"g": "v" + tag}},
		},
		"requests": []any{
			map[string]any{
				"name": "r" + nm, "method": "POST", "tag": "t1", "uri": "/echo/p-" + tag + "/{{.source.global.g}}",
				"headers": map[string]string{"X-V-pool": tag + "-{{.source.global.g}}"},
				"body":    "b-" + tag + "-{{.source.global.g}}",
			},
			map[string]any{
				"name": "q" + nm, "method": "GET", "tag": "t2", "uri": "/echo/q-" + tag,
				"headers": map[string]string{"X-V-two": tag},
			},
		},
		"scenarios": []any{
			map[string]any{"name": "s" + nm, "weight": 1, "min_waiting_time": 0, "requests": []string{"r" + nm, "q" + nm}},
		},
	}
	b, _ := yaml.Marshal(cfg)
	return c11lib.WriteFile(".yaml", string(b))
}

type poolsPool struct {
	t *target
	m *c11lib.Manual
}

func (p *poolsPool) shoot() (string, string) {
	a, ok, hang := p.m.Acquire(20 * time.Second)
	if hang {
		// a provider goroutine that did not get the CPU for five seconds (loaded machine): inconclusive, not a verdict
		return "", "ENV acquire timed out"
	}
	if !ok {
		return "", "acquire=failed ok=false"
	}
	before := len(p.t.echoList())
	p.m.Guns[0].Shoot(a)
	p.m.Provider.Release(a)
	got := p.t.echoList()[before:]
	if len(got) != 2 {
		// a request that did not reach the pool's target (gun timeout on a loaded machine): inconclusive — the case is about
		// WHAT a pool sends, not whether the loopback connection was served in time
		return "", "ENV shot not served"
	}
	return strings.Join(got, "/"), ""
}

func runPools(kv map[string]string) string {
	kind := kv["kind"]
	if kind != "httpscen" {
		return "ENV kind"
	}
	tags := strings.Split(kv["tags"], ";")
	nm := kv["nm"]
	if len(tags) < 1 || nm == "" || kv["order"] == "" {
		return "ENV tags/nm/order"
	}
	var order []int
	for _, c := range kv["order"] {
		pi := int(c - 'A')
		if pi < 0 || pi >= len(tags) {
			return "ENV bad order"
		}
		order = append(order, pi)
	}
	pools := make([]*poolsPool, len(tags))
	for i, tag := range tags {
		t, addr, err := newTarget(kind)
		if err != nil {
			return "ENV " + err.Error()
		}
		defer t.stop()
		y := poolYAML(kind, addr, map[string]string{"pools": tag, "nm": nm}, 1, map[string]any{"type": "once", "times": 1})
		setupMu.Lock()
		m, err := c11lib.NewManual(y, 1)
		setupMu.Unlock()
		if err != nil {
			return "setup=" + c11lib.Enc(c11lib.Trunc(err.Error(), 200))
		}
		defer m.Close()
		pools[i] = &poolsPool{t: t, m: m}
	}
	if kv["par"] != "1" {
		var out []string
		for _, pi := range order {
			s, bad := pools[pi].shoot()
			if bad != "" {
				return bad
			}
			out = append(out, s)
		}
		return "sent=" + strings.Join(out, ";")
	}
	counts := make([]int, len(tags))
	for _, pi := range order {
		counts[pi]++
	}
	sets := make([]map[string]bool, len(tags))
	bads := make([]string, len(tags))
	var wg sync.WaitGroup
	for i := range pools {
		sets[i] = map[string]bool{}
		wg.Add(1)
		go func(i int) {
			defer wg.Done()
			for k := 0; k < counts[i]; k++ {
				s, bad := pools[i].shoot()
				if bad != "" {
					bads[i] = bad
					return
				}
				sets[i][s] = true
			}
		}(i)
	}
	wg.Wait()
	var out []string
	for i := range pools {
		if bads[i] != "" {
			return bads[i]
		}
		var xs []string
		for s := range sets[i] {
			xs = append(xs, s)
		}
		sort.Strings(xs)
		if len(xs) == 0 {
			xs = []string{"-"}
		}
		out = append(out, strings.Join(xs, "+"))
	}
	return "sent=" + strings.Join(out, ";")
}
