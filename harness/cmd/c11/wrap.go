package main

// mode=wrap (round 4): the shared counters at extreme values.
//
//	mode=wrap obj=nextiter ctr=<c> len=<n> calls=<k>
//	    ONE real mp.NextIterator behind `rows[next]` (mp.GetMapValue over a slice of n rows). The first use creates the
//	    segment's counter; the counter is then fast-forwarded to c — the state c uses of that segment leave behind,
//	    stored THROUGH the counter's own type (whatever integer width the source gives it: the value wraps the way
//	    c increments would) — and k more uses follow. Observation: the row every use got.
//	mode=wrap obj=clientpool ctr=<c> len=<n> calls=<k>
//	    the same for the cursor of a real clientpool.Pool with n clients.
//	mode=wrap obj=index idx=<index string> len=<n>
//	    `rows[<idx>]` for a number of either sign / last / an unknown word: the row, or `err`.
//
// An index outside the slice panics in the real code ("index out of range"): recorded as `panic:<text>` in place of
// the row. One goroutine; nothing here depends on a schedule.

import (
	"fmt"
	"reflect"
	"strconv"
	"strings"
	"unsafe"

	"github.com/yandex/pandora/core/clientpool"
	"github.com/yandex/pandora/lib/mp"
	"verifharness/c11lib"
)

// storeAtomics stores c into every sync/atomic integer found in v (a struct's fields, the values of its maps, through
// pointers), converting to the parameter type of its Store method. Returns how many were set.
func storeAtomics(v reflect.Value, c uint64, depth int) int {
	if depth > 4 || !v.IsValid() {
		return 0
	}
	switch v.Kind() {
	case reflect.Ptr:
		if v.IsNil() {
			return 0
		}
		if v.Elem().Kind() == reflect.Struct && v.Elem().Type().PkgPath() == "sync/atomic" {
			m := v.MethodByName("Store")
			if !m.IsValid() || m.Type().NumIn() != 1 {
				return 0
			}
			pt := m.Type().In(0)
			switch pt.Kind() {
			case reflect.Int32, reflect.Int64, reflect.Uint32, reflect.Uint64, reflect.Uintptr:
				m.Call([]reflect.Value{reflect.ValueOf(c).Convert(pt)})
				return 1
			}
			return 0
		}
		return storeAtomics(v.Elem(), c, depth+1)
	case reflect.Struct:
		if v.Type().PkgPath() == "sync/atomic" {
			if v.CanAddr() {
				return storeAtomics(v.Addr(), c, depth)
			}
			return 0
		}
		if strings.HasPrefix(v.Type().PkgPath(), "sync") || strings.HasPrefix(v.Type().PkgPath(), "math/rand") {
			return 0
		}
		n := 0
		for i := 0; i < v.NumField(); i++ {
			f := v.Field(i)
			if f.CanAddr() {
				f = reflect.NewAt(f.Type(), unsafe.Pointer(f.UnsafeAddr())).Elem()
			}
			n += storeAtomics(f, c, depth+1)
		}
		return n
	case reflect.Map:
		n := 0
		it := v.MapRange()
		for it.Next() {
			n += storeAtomics(it.Value(), c, depth+1)
		}
		return n
	}
	return 0
}

func guarded(f func() string) (out string) {
	defer func() {
		if r := recover(); r != nil {
			out = "panic:" + c11lib.Enc(c11lib.Trunc(fmt.Sprint(r), 80))
		}
	}()
	return f()
}

func runWrap(kv map[string]string) string {
	n, _ := strconv.Atoi(kv["len"])
	k, _ := strconv.Atoi(kv["calls"])
	c, _ := strconv.ParseUint(kv["ctr"], 10, 64)
	if n < 1 {
		return "ENV bad len"
	}
	switch kv["obj"] {
	case "nextiter", "index":
		rows := make([]string, n)
		for i := range rows {
			rows[i] = "r" + strconv.Itoa(i)
		}
		m := map[string]any{"rows": rows}
		iter := mp.NewNextIterator(1)
		get := func(idx string) string {
			return guarded(func() string {
				v, err := mp.GetMapValue(m, "rows["+idx+"]", iter)
				if err != nil {
					return "err"
				}
				s, ok := v.(string)
				if !ok || !strings.HasPrefix(s, "r") {
					return "other"
				}
				return s[1:]
			})
		}
		if kv["obj"] == "index" {
			return "idx=" + get(kv["idx"])
		}
		out := []string{get("next")}
		if storeAtomics(reflect.ValueOf(iter), c, 0) == 0 {
			return "ENV no counter to fast-forward"
		}
		for j := 0; j < k; j++ {
			out = append(out, get("next"))
		}
		return "idx=" + strings.Join(out, ",")
	case "clientpool":
		p, err := clientpool.New[int](n)
		if err != nil {
			return "ENV " + err.Error()
		}
		for i := 0; i < n; i++ {
			p.Add(i)
		}
		next := func() string { return guarded(func() string { return strconv.Itoa(p.Next()) }) }
		out := []string{next()}
		if storeAtomics(reflect.ValueOf(p), c, 0) == 0 {
			return "ENV no counter to fast-forward"
		}
		for j := 0; j < k; j++ {
			out = append(out, next())
		}
		return "idx=" + strings.Join(out, ",")
	}
	return "ENV unknown obj"
}
