package main

// mode=retain obj=<component> n=<instances> calls=<K>
//
// What a shared component of a scenario definition hands to an instance belongs to that instance: the rendered request
// parts (URL, headers, BODY BYTES), the variables a preprocessor / postprocessor returns. ONE goroutine: K calls of ONE
// real object, call i made on behalf of instance i mod n with data of its own; every result is kept — as an instance
// keeps a rendered body while its request is on the wire — and read again after every later call.
//
//	calls=   calls made
//	drift=   the calls whose result was no longer what it was when the call returned, with the call after which it
//	         changed ("3@4": the result of call 3 changed during call 4), "-" = none
//
// The component may recycle memory it gave out (a buffer pool, a reused map) only if nothing refers to it any more; on
// one goroutine a sync.Pool hands the buffer just put back to the very next Get, so a result that aliases recycled memory
// changes during the next call — whatever instance makes it.

import (
	"fmt"
	"net/http"
	"reflect"
	"sort"
	"strconv"
	"strings"

	grpcscen "github.com/yandex/pandora/components/guns/grpc/scenario"
	httpscen "github.com/yandex/pandora/components/guns/http_scenario"
	httppost "github.com/yandex/pandora/components/providers/scenario/http/postprocessor"
	httppre "github.com/yandex/pandora/components/providers/scenario/http/preprocessor"
	httptempl "github.com/yandex/pandora/components/providers/scenario/http/templater"
	scenimport "github.com/yandex/pandora/components/providers/scenario/import"
	"github.com/yandex/pandora/lib/mp"
	"verifharness/c11lib"
)

var retainObjs = []string{"tmplhttp", "tmplhtml", "tmplgrpc", "stepparts", "preproc", "posthdr", "postbody"}

// deepStr: the content of a value, references followed (maps sorted, byte slices as text)
func deepStr(v reflect.Value, depth int) string {
	if !v.IsValid() || depth > 12 {
		return "_"
	}
	switch v.Kind() {
	case reflect.Ptr, reflect.Interface:
		if v.IsNil() {
			return "nil"
		}
		return deepStr(v.Elem(), depth+1)
	case reflect.Map:
		var rows []string
		it := v.MapRange()
		for it.Next() {
			rows = append(rows, deepStr(it.Key(), depth+1)+":"+deepStr(it.Value(), depth+1))
		}
		sort.Strings(rows)
		return "{" + strings.Join(rows, ",") + "}"
	case reflect.Slice, reflect.Array:
		if v.Type().Elem().Kind() == reflect.Uint8 {
			b := make([]byte, v.Len())
			for i := range b {
				b[i] = byte(v.Index(i).Uint())
			}
			return strconv.Quote(string(b))
		}
		var rows []string
		for i := 0; i < v.Len(); i++ {
			rows = append(rows, deepStr(v.Index(i), depth+1))
		}
		return "[" + strings.Join(rows, ",") + "]"
	case reflect.Struct:
		var rows []string
		for i := 0; i < v.NumField(); i++ {
			rows = append(rows, v.Type().Field(i).Name+"="+deepStr(v.Field(i), depth+1))
		}
		return "<" + strings.Join(rows, ",") + ">"
	case reflect.String:
		return strconv.Quote(v.String())
	case reflect.Bool:
		return fmt.Sprint(v.Bool())
	case reflect.Int, reflect.Int8, reflect.Int16, reflect.Int32, reflect.Int64:
		return fmt.Sprint(v.Int())
	case reflect.Uint, reflect.Uint8, reflect.Uint16, reflect.Uint32, reflect.Uint64, reflect.Uintptr:
		return fmt.Sprint(v.Uint())
	case reflect.Float32, reflect.Float64:
		return fmt.Sprint(v.Float())
	}
	return v.Kind().String()
}

// retainBody: the call instance g makes as call number i; the result is what the instance keeps
func retainBody(obj string) func(g, i int) (any, error) {
	own := func(g, i int) string { return fmt.Sprintf("i%d-c%d-%s", g, i, strings.Repeat("w", 1+(g*5+i*3)%9)) }
	switch obj {
	case "tmplhttp", "tmplhtml":
		var t httptempl.Templater
		if obj == "tmplhttp" {
			t = httptempl.NewTextTemplater()
		} else {
			t = httptempl.NewHTMLTemplater()
		}
		return func(g, i int) (any, error) {
			parts := &httpscen.RequestParts{
				URL:     `/a/{{.u}}`,
				Method:  "POST",
				Body:    []byte(`{"user":"{{.u}}","token":"t-{{.u}}"}`),
				Headers: map[string]string{"X-U": "u-{{.u}}", "X-C": "c"},
			}
			err := t.Apply(parts, map[string]any{"u": own(g, i)}, "sc", "step"+strconv.Itoa(i%2))
			return parts, err
		}
	case "stepparts":
		// the way the http scenario gun prepares a step: the parts come from the step of the shared definition
		body := `{"user":"{{.u}}","pad":"{{.u}}{{.u}}"}`
		step := &httpscen.Request{Method: "POST", URI: "/s/{{.u}}", Body: &body, Headers: map[string]string{"X-U": "u-{{.u}}", "X-C": "c"}}
		t := httptempl.NewTextTemplater()
		return func(g, i int) (any, error) {
			parts := &httpscen.RequestParts{URL: step.URI, Method: step.Method, Body: step.GetBody(), Headers: step.GetHeaders()}
			err := t.Apply(parts, map[string]any{"u": own(g, i)}, "sc", "st")
			return parts, err
		}
	case "tmplgrpc":
		t := grpcscen.NewTextTemplater()
		return func(g, i int) (any, error) {
			md := map[string]string{"x-u": "u-{{.u}}", "x-c": "c"}
			payload, err := t.Apply([]byte(`{"name":"{{.u}}","pad":"{{.u}}"}`), md, map[string]any{"u": own(g, i)}, "sc", "step"+strconv.Itoa(i%2))
			return []any{payload, md}, err
		}
	case "preproc":
		pre := &httppre.Preprocessor{Mapping: map[string]string{"u": "source.users[next]", "c": "source.global.g", "o": "request.own"}}
		pre.InitIterator(mp.NewNextIterator(1))
		users := []map[string]any{{"login": "a"}, {"login": "b"}, {"login": "c"}}
		src := map[string]any{"users": users, "global": map[string]any{"g": "gg"}}
		return func(g, i int) (any, error) {
			return pre.Process(map[string]any{"source": src, "request": map[string]any{"own": own(g, i)}})
		}
	case "posthdr":
		pp := scenimport.NewVarHeaderPostprocessor(httppost.Config{Mapping: headerMapping()})
		return func(g, i int) (any, error) {
			resp := &http.Response{StatusCode: 200, Header: http.Header{"X-Tok": {own(g, i)}, "Content-Type": {"application/json"}}}
			return pp.Process(resp, nil)
		}
	case "postbody":
		pj := scenimport.NewVarJsonpathPostprocessor(httppost.Config{Mapping: map[string]string{"token": "$.auth_key", "items": "$.items"}})
		px := scenimport.NewVarXpathPostprocessor(httppost.Config{Mapping: map[string]string{"title": "//title", "links": "//a/@href"}})
		return func(g, i int) (any, error) {
			resp := &http.Response{StatusCode: 200, Header: http.Header{"Content-Type": {"application/json"}}}
			a, err := pj.Process(resp, strings.NewReader(`{"auth_key":"`+own(g, i)+`","items":[`+strconv.Itoa(g)+`,`+strconv.Itoa(i)+`]}`))
			if err != nil {
				return nil, err
			}
			b, err := px.Process(resp, strings.NewReader("<html><head><title>"+own(g, i)+"</title></head><body><a href=\"/"+own(g, i)+"\">a</a></body></html>"))
			return []any{a, b}, err
		}
	}
	return nil
}

func runRetain(kv map[string]string) string {
	n, _ := strconv.Atoi(kv["n"])
	k, _ := strconv.Atoi(kv["calls"])
	if n < 1 {
		n = 1
	}
	body := retainBody(kv["obj"])
	if body == nil {
		return "ENV unknown object"
	}
	var kept []any
	var was []string
	var drift []string
	gone := map[int]bool{}
	for i := 0; i < k; i++ {
		res, err := body(i%n, i)
		if err != nil {
			return "err=" + c11lib.Enc(c11lib.Trunc(err.Error(), 120))
		}
		// everything the instances still hold, after this call
		for j := range kept {
			if !gone[j] && deepStr(reflect.ValueOf(kept[j]), 0) != was[j] {
				gone[j] = true
				drift = append(drift, fmt.Sprintf("%d@%d", j, i))
			}
		}
		kept = append(kept, res)
		was = append(was, deepStr(reflect.ValueOf(res), 0))
	}
	return fmt.Sprintf("calls=%d drift=%s", len(kept), orDash(strings.Join(drift, ",")))
}
