package main

// C10, sixth round: BETWEEN THE SCHEDULE AND THE GUN. `instance.Run` (core/engine/instance.go) decides for every ammo it
// holds whether the gun fires it or — `discard_overflow` on and the instance >= 2 s behind its schedule — the aggregator
// gets `netsample.DiscardedShootSample()` (tag `discarded`, net 777) instead. "Each fired request produces exactly one
// sample" passes through that decision, so the harness makes instances fall behind: some requests are answered late by
// the target (`dl=<ms>` in the query), the pool runs with `discard_overflow: true|false` (`ovf=1|0`) over a `once` or a
// `const` schedule (`sch=c<ops>`), with 1..3 instances, the recording or the real phout aggregator. The target logs which
// requests it saw (`hits=q1:1,q2:0,…`): that is the ground truth of "fired".

import (
	"fmt"
	"math/rand"
	"regexp"
	"strings"

	"verifharness/shot"
)

// r6NoteRequests makes the target log every request of the case under the name q<i>; the returned function renders the log.
func r6NoteRequests(reqs []shot.HTTPReq, watch string) (func() string, *r3Note) {
	tok, note := r3NewNote(watch)
	note.watchSeen = true
	names := make([]string, len(reqs))
	for i := range reqs {
		names[i] = fmt.Sprintf("q%d", i+1)
		sep := "?"
		if strings.Contains(reqs[i].URI, "?") {
			sep = "&"
		}
		reqs[i].URI += sep + "nt=" + tok + "." + names[i]
	}
	return func() string {
		defer r3Notes.Delete(tok)
		return note.hitList(names)
	}, note
}

// r6Overflow sets the pool's `discard_overflow` and, for `sch=c<ops>`, replaces the `once` schedule by a constant rate of
// <ops> tokens per second that lasts long enough for every request.
func r6Overflow(conf string, m map[string]string, n int) string {
	on := m["ovf"] == "1"
	conf2 := strings.Replace(conf, "    result: {type: discard}\n", fmt.Sprintf("    result: {type: discard}\n    discard_overflow: %v\n", on), 1)
	if conf2 == conf {
		return "pools: [] # no result key to attach discard_overflow to"
	}
	conf = conf2
	if sch := m["sch"]; strings.HasPrefix(sch, "c") {
		ops := atoi(sch[1:], 10)
		dur := (n + ops - 1) / ops
		once := fmt.Sprintf("rps: [{type: once, times: %d}]", n)
		if !strings.Contains(conf, once) {
			return "pools: [] # no once schedule to replace"
		}
		conf = strings.Replace(conf, once, fmt.Sprintf("rps: [{type: const, ops: %d, duration: %ds}]", ops, dur), 1)
	}
	return conf
}

var r6AutoTagRe = regexp.MustCompile(`auto-tag: \{enabled: (true|false), uri-elements: (\d+), no-tag-only: (true|false)\}`)

// r6WrittenAutoTag rewrites the gun's `auto-tag` section so that only the keys named in keys are written (e enabled,
// u uri-elements, n no-tag-only; "-": the section is left out): the others are left to the gun's DEFAULTS.
func r6WrittenAutoTag(conf, keys string) string {
	m := r6AutoTagRe.FindStringSubmatch(conf)
	if m == nil {
		return "pools: [] # no complete auto-tag section to thin out"
	}
	var kept []string
	if strings.Contains(keys, "e") {
		kept = append(kept, "enabled: "+m[1])
	}
	if strings.Contains(keys, "u") {
		kept = append(kept, "uri-elements: "+m[2])
	}
	if strings.Contains(keys, "n") {
		kept = append(kept, "no-tag-only: "+m[3])
	}
	repl := "auto-tag: {" + strings.Join(kept, ", ") + "}"
	if len(kept) == 0 {
		return strings.Replace(conf, ", "+m[0], "", 1)
	}
	return strings.Replace(conf, m[0], repl, 1)
}

// r6Slow: how late the slow requests are answered. coreutil.MaxOverdueDuration is 2 s; a pause never ends early, so every
// token that was due before the slow request was sent is at least this overdue when the instance comes back.
const r6Slow = 2300

// genRound6: cases of the overflow dimension. A request token is tag,urihex,pathhex,script,truth as for every k=http case;
// a slow request carries dl=<ms> in its query.
func genRound6(r *rand.Rand, thorough bool) []string {
	pick := func(q, t int) int {
		if thorough {
			return t
		}
		return q
	}
	var out []string
	scripts := []string{"s200.bx3", "s404", "s503.bx10", "s201.bx1", "s200.bx10.c100", "actclose", "s302.hLocation~2f6e657874", "s500.bx2"}
	mk := func(i int, unique bool, slow bool, multi bool) string {
		tag := tagPool[r.Intn(len(tagPool))]
		if unique {
			tag = fmt.Sprintf("r%d", i+1)
		}
		uri, path := randURI(r)
		if !strings.HasPrefix(uri, "/") {
			uri, path = "/ovf/"+randSeg(r)+"/x", ""
			path = strings.SplitN(uri, "?", 2)[0]
		}
		if slow {
			sep := "?"
			if strings.Contains(uri, "?") {
				sep = "&"
			}
			uri += sep + fmt.Sprintf("dl=%d", r6Slow)
		}
		sc := scripts[r.Intn(len(scripts))]
		if multi && sc == "actclose" {
			sc = "s204"
		}
		return httpReqTok(tag, uri, path, sc)
	}
	b := func(v bool) int {
		if v {
			return 1
		}
		return 0
	}
	cases := pick(5, 40)
	for c := 0; c < cases; c++ {
		gun := []string{"http", "connect", "http", "http2"}[c%4]
		tgt := "r3"
		if gun == "http2" {
			tgt = "r3tls2"
		}
		inst := []int{1, 1, 2, 1, 3}[c%5]
		n := 5 + r.Intn(5)
		// which requests are slow: one per instance near the start, so that every instance falls behind
		slowAt := map[int]bool{}
		first := r.Intn(2)
		for j := 0; j < inst; j++ {
			slowAt[first+j] = true
		}
		extra := "ovf=1"
		switch c % 5 {
		case 1:
			extra += " sch=c10" // a constant rate: the instance discards what is overdue and then catches up
			n = 10
		case 3:
			extra += " agg=phout"
		}
		if inst > 1 {
			extra += fmt.Sprintf(" inst=%d", inst)
		}
		var reqs []string
		for i := 0; i < n; i++ {
			reqs = append(reqs, mk(i, inst > 1, slowAt[i], inst > 1))
		}
		auto := r.Intn(2) == 0
		out = append(out, fmt.Sprintf("k=http gun=%s tgt=%s auto=%d el=%d nto=%d %s reqs=%s", gun, tgt, b(auto), 1+r.Intn(2), b(r.Intn(2) == 0), extra,
			strings.Join(reqs, ";")))
	}
	// OPTION DEFAULTS: the auto-tag section written only in part; the other keys are the gun's defaults (documented:
	// uri-elements 2, no-tag-only true, disabled)
	for c, keys := range []string{"e", "eu", "en", "un", "-", "e", "eu"}[:pick(5, 7)] {
		gun := []string{"http", "connect", "http2", "http", "http"}[c%5]
		tgt := "live"
		if gun == "http2" {
			tgt = "tls2"
		}
		var reqs []string
		for i := 0; i < 6; i++ {
			uri, path := randURI(r)
			if i == 0 {
				uri, path = "/my/very/deep/page?id=23&param=33", "/my/very/deep/page"
			}
			if gun == "http2" && !strings.HasPrefix(uri, "/") {
				uri, path = "/h2/"+randSeg(r)+"/y/z/w", ""
				path = uri // (an HTTP/2 client refuses to send a :path without a leading slash)
			}
			tag := []string{"", "T", "", "t1"}[i%4]
			reqs = append(reqs, httpReqTok(tag, uri, path, []string{"s200.bx3", "s404", "s503.bx1"}[i%3]))
		}
		// the values of the keys that are NOT written differ from the defaults, so that a default taken from the input shows
		out = append(out, httpCase(gun, tgt, true, []int{1, 3, 3, 1, 3, 3, 1}[c], c%2 == 0, "atd="+keys, reqs))
	}
	// CANCELLED WHILE A REQUEST IS IN FLIGHT (`cxf=<i>`): the run's context — the instance's and the gun's — is cancelled 300 ms
	// after the target has SEEN request i, which it answers 1.5 s late. The exchange goes on to its end (the guns build their
	// requests without the instance's context), its sample is faithful, and the instance stops: later requests are not fired.
	for c := 0; c < pick(2, 10); c++ {
		n := 4 + r.Intn(3)
		at := 1 + r.Intn(2)
		var reqs []string
		for i := 0; i < n; i++ {
			tag := tagPool[r.Intn(len(tagPool))]
			p := fmt.Sprintf("/cxf/%d/%s", i, randSeg(r))
			uri := p
			if i == at {
				uri += "?dl=1500"
			}
			reqs = append(reqs, httpReqTok(tag, uri, p, []string{"s200.bx3", "s404", "s503.bx10", "s201.bx1"}[(i+c)%4]))
		}
		out = append(out, fmt.Sprintf("k=http gun=%s tgt=r3 auto=%d el=2 nto=0 ovf=0 cxf=%d reqs=%s", []string{"http", "connect"}[c%2], b(c%2 == 0), at+1,
			strings.Join(reqs, ";")))
	}
	// gRPC scenario calls WITHOUT a tag (valid: the key is optional): the sample carries `scenario.` + the empty tag
	for c := 0; c < pick(2, 10); c++ {
		calls := []string{"c0,,ok,0,-", fmt.Sprintf("c1,tg1,code,%d,-", []int{5, 7, 13}[c%3]), "c2,,ok,0,-"}
		if c%2 == 1 {
			calls = []string{"c0,tg0,ok,0,-", fmt.Sprintf("c1,,code,%d,-", []int{3, 16}[c%2]), "c2,tg2,ok,0,-"}
		}
		out = append(out, fmt.Sprintf("k=grpcscn scn=ge%d n=%d calls=%s", c, 1+c%3, strings.Join(calls, ";")))
	}
	// the same slow targets with discard_overflow OFF (every request is fired, however late), and discard_overflow on
	// with a target that keeps up (nothing is discarded)
	for c := 0; c < pick(2, 12); c++ {
		var reqs []string
		n := 4 + r.Intn(4)
		for i := 0; i < n; i++ {
			reqs = append(reqs, mk(i, false, c%2 == 0 && i == 1, false))
		}
		out = append(out, fmt.Sprintf("k=http gun=%s tgt=r3 auto=%d el=1 nto=0 ovf=%d reqs=%s", []string{"http", "connect"}[c%2], b(c%3 == 0), c%2,
			strings.Join(reqs, ";")))
	}
	return out
}
