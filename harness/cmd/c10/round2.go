package main

// C10, second round: (1) the REAL phout aggregator in the loop (`agg=phout`): samples are handed to netsample's phout
// aggregator, which writes its line and RELEASES the sample to netsample's pool, so that later Acquire calls of the
// same case get recycled samples; the observation is read back from the phout file. (2) a gRPC target that goes away
// in the middle of a run (`gone` requests): client-side call statuses.

import (
	"context"
	"errors"
	"fmt"
	"io"
	"log/slog"
	"net"
	"net/http"
	"runtime"
	"sort"
	"strconv"
	"strings"
	"sync"
	"sync/atomic"
	"time"

	"verifharness/shot"

	"github.com/spf13/afero"
	"github.com/yandex/pandora/cli"
	phttp "github.com/yandex/pandora/components/guns/http"
	pbase "github.com/yandex/pandora/components/providers/base"
	httpammo "github.com/yandex/pandora/components/providers/http/ammo"
	"github.com/yandex/pandora/core"
	"github.com/yandex/pandora/core/config"
	"github.com/yandex/pandora/core/engine"
	"github.com/yandex/pandora/examples/grpc/server"
	"github.com/yandex/pandora/lib/monitoring"
	"go.uber.org/zap"
	"go.uber.org/zap/zapcore"
	"google.golang.org/grpc"
	"google.golang.org/grpc/codes"
	"google.golang.org/grpc/metadata"
	"google.golang.org/grpc/reflection"
	"google.golang.org/grpc/status"
	"gopkg.in/yaml.v2"
)

// ---------------------------------------------------------------- engine runs with the real phout aggregator

// poolGate: netsample's sample pool is one per process. A case that runs with the phout aggregator (which releases
// samples into that pool) runs ALONE and empties the pool afterwards, so that what a recycled sample carried can only
// show in the case that recycled it (a replay of that one case shows it again).
var poolGate sync.RWMutex

// gated runs one case under the gate: alone when it feeds the sample pool, shared otherwise.
func gated(m map[string]string, f func() string) string {
	if m["agg"] == "phout" {
		poolGate.Lock()
		defer func() {
			runtime.GC() // twice: the first collection moves the pool's contents to its victim cache
			runtime.GC()
			poolGate.Unlock()
		}()
	} else {
		poolGate.RLock()
		defer poolGate.RUnlock()
	}
	return f()
}

var phoutSeq atomic.Int64

var (
	dbgOnce    sync.Once
	dbgMetrics engine.Metrics
)

// teeAgg records every sample at the moment it is reported (error-chain shape, arrival order) and then hands it to the
// real aggregator, in the same critical section: the order of the phout lines is the order of the records.
type teeAgg struct {
	mu    sync.Mutex
	rec   *shot.Rec
	inner core.Aggregator
}

func (t *teeAgg) Run(ctx context.Context, deps core.AggregatorDeps) error {
	return t.inner.Run(ctx, deps)
}
func (t *teeAgg) Report(s core.Sample) {
	t.mu.Lock()
	defer t.mu.Unlock()
	t.rec.Report(s)
	t.inner.Report(s)
}

type engOpts struct {
	dbg   bool
	phout bool
	// round 3: cancel the run's context cancelDelay after cancelOn is closed; wait extraWait longer for the instances
	cancelOn    <-chan struct{}
	cancelDelay time.Duration
	extraWait   time.Duration
	// round 4: called once the config is decoded (providers, gun factories and aggregators exist), before the engine
	// starts; a non-empty result ends the case with that class
	afterDecode func(pools []engine.InstancePoolConfig) string
}

func optsOf(m map[string]string) engOpts {
	return engOpts{dbg: m["dbg"] == "1", phout: m["agg"] == "phout"}
}

// parsePhout reads the lines the phout aggregator wrote (`id: true`): ts \t tags#id \t 8 timing/size fields \t errno \t proto
func parsePhout(data string) ([]shot.Snap, error) {
	var out []shot.Snap
	for _, l := range strings.Split(data, "\n") {
		if l == "" {
			continue
		}
		f := strings.Split(l, "\t")
		if len(f) != 12 {
			return nil, fmt.Errorf("phout line with %d fields", len(f))
		}
		i := strings.LastIndexByte(f[1], '#')
		if i < 0 {
			return nil, fmt.Errorf("phout line without #id")
		}
		id, err := strconv.ParseUint(f[1][i+1:], 10, 64)
		if err != nil {
			return nil, fmt.Errorf("phout id %q", f[1][i+1:])
		}
		netc, err1 := strconv.Atoi(f[10])
		proto, err2 := strconv.Atoi(f[11])
		if err1 != nil || err2 != nil {
			return nil, fmt.Errorf("phout codes %q %q", f[10], f[11])
		}
		out = append(out, shot.Snap{Tags: f[1][:i], ID: id, Proto: proto, Net: netc, Seq: len(out)})
	}
	return out, nil
}

// runEngineOpt runs the pool config through core/engine.
//
//	dbg:   the engine (and so every gun, through GunDeps.Log) gets a logger that accepts debug messages (written to
//	       nowhere), which switches the guns' DebugLog paths on;
//	phout: the pool's aggregator is the registered `phout` plugin writing to a file of the in-memory FS; the samples of the
//	       result are the LINES of that file (tags, id, net code, proto code), each with the error-chain shape recorded
//	       when the sample was reported.
//
// Without either option: shot.RunEngine (nop logger, recording aggregator).
func runEngineOpt(conf string, o engOpts, timeout time.Duration) shot.Result {
	if !o.dbg && !o.phout && o.cancelOn == nil && o.afterDecode == nil {
		return shot.RunEngine(conf, timeout)
	}
	shot.Init()
	dbgOnce.Do(func() {
		dbgMetrics = engine.Metrics{
			Request:        monitoring.NewCounter("verif_c10_Requests"),
			Response:       monitoring.NewCounter("verif_c10_Responses"),
			InstanceStart:  monitoring.NewCounter("verif_c10_UsersStarted"),
			InstanceFinish: monitoring.NewCounter("verif_c10_UsersFinished"),
		}
	})
	phoutFile := ""
	if o.phout {
		phoutFile = fmt.Sprintf("/verif/c10-phout-%d.log", phoutSeq.Add(1))
		if !strings.Contains(conf, "result: {type: discard}") {
			return shot.Result{Class: "config:no-result-key"}
		}
		conf = strings.Replace(conf, "result: {type: discard}", fmt.Sprintf(`result: {type: phout, destination: "%s", id: true}`, phoutFile), 1)
		defer func() { _ = shot.FS.Remove(phoutFile) }()
	}
	mapCfg := map[string]any{}
	if err := yaml.Unmarshal([]byte(conf), &mapCfg); err != nil {
		return shot.Result{Class: "config:yaml"}
	}
	c := cli.DefaultConfig()
	if err := config.DecodeAndValidate(mapCfg, c); err != nil {
		return shot.Result{Class: "config:" + strings.Join(strings.Fields(err.Error()), "_")}
	}
	if o.afterDecode != nil {
		if cl := o.afterDecode(c.Engine.Pools); cl != "" {
			return shot.Result{Class: cl}
		}
	}
	rec := &shot.Rec{}
	for i := range c.Engine.Pools {
		if o.phout {
			c.Engine.Pools[i].Aggregator = &teeAgg{rec: rec, inner: c.Engine.Pools[i].Aggregator}
		} else {
			c.Engine.Pools[i].Aggregator = rec
		}
	}
	log := zap.NewNop()
	if o.dbg {
		log = zap.New(zapcore.NewCore(zapcore.NewJSONEncoder(zap.NewProductionEncoderConfig()), zapcore.AddSync(io.Discard), zapcore.DebugLevel))
	}
	eng := engine.New(log, dbgMetrics, c.Engine)
	ctx, cancel := context.WithCancel(context.Background())
	defer cancel()
	done := make(chan error, 1)
	go func() { done <- eng.Run(ctx) }()
	class := "ok"
	trig := o.cancelOn
	cancelled := false
	var deadline <-chan time.Time = time.After(timeout)
wait:
	select {
	case <-trig:
		// the target has answered the watched step: the gun is (about to be) inside that step's pause
		trig = nil
		time.Sleep(o.cancelDelay)
		cancel()
		cancelled = true
		goto wait
	case err := <-done:
		if err != nil && cancelled && errors.Is(err, context.Canceled) {
			err = nil
		}
		if err != nil {
			class = "err:" + strings.Join(strings.Fields(err.Error()), "_")
			if i := strings.Index(err.Error(), "shoot panic: "); i >= 0 {
				class = "panic:other"
				if strings.Contains(err.Error(), "Non HTTP/2 connection established") {
					class = "panic:not-http2"
				}
			}
			if len(class) > 100 {
				class = class[:100]
			}
		}
	case <-deadline:
		class = "hang"
	}
	cancel()
	w := make(chan struct{})
	go func() { eng.Wait(); close(w) }()
	waited := true
	select {
	case <-w:
	case <-time.After(2*time.Second + o.extraWait):
		waited = false
	}
	snaps := rec.Snapshot()
	if !o.phout {
		if !waited && o.cancelOn != nil && class == "ok" {
			class = "hang" // the cancelled shot has not come to its end: the samples may be incomplete
		}
		return shot.Result{Class: class, Samples: snaps}
	}
	if !waited && class == "ok" {
		class = "hang" // the aggregator may still be writing
	}
	data, err := afero.ReadFile(shot.FS, phoutFile)
	if err != nil {
		return shot.Result{Class: "err:phout-file-unreadable", Samples: snaps}
	}
	lines, err := parsePhout(string(data))
	if err != nil {
		return shot.Result{Class: "err:" + strings.Join(strings.Fields(err.Error()), "_"), Samples: snaps}
	}
	if len(lines) != len(snaps) && class == "ok" {
		class = fmt.Sprintf("err:%d_phout_lines_for_%d_reported_samples", len(lines), len(snaps))
	}
	for i := range lines {
		lines[i].Shape = "nil"
		if i < len(snaps) {
			lines[i].Shape = snaps[i].Shape
		}
	}
	return shot.Result{Class: class, Samples: lines}
}

// ---------------------------------------------------------------- a gRPC target that goes away mid-run

// cutListener keeps its port for the life of the case. After cut() every connection it ever accepted is closed and
// every further one is closed as soon as it is accepted: to the client the server is gone (EOF / connection error),
// and no other process of this busy machine can take the port and answer in its place.
type cutListener struct {
	net.Listener
	mu    sync.Mutex
	conns []net.Conn
	gone  bool
}

func (l *cutListener) Accept() (net.Conn, error) {
	for {
		c, err := l.Listener.Accept()
		if err != nil {
			return nil, err
		}
		l.mu.Lock()
		if l.gone {
			l.mu.Unlock()
			_ = c.Close()
			continue
		}
		l.conns = append(l.conns, c)
		l.mu.Unlock()
		return c, nil
	}
}

func (l *cutListener) cut() {
	l.mu.Lock()
	l.gone = true
	cs := l.conns
	l.conns = nil
	l.mu.Unlock()
	for _, c := range cs {
		_ = c.Close()
	}
}

// newGoneTarget serves the repo's examples/grpc/server service with reflection, like shot.NewGrpcTarget (metadata
// `x-code: N` answers status N). A call carrying `x-gone: 1` makes the target GO AWAY: all connections are cut while the
// call is in flight (it never gets an answer) and none is served afterwards.
func newGoneTarget() (addr string, stop func()) {
	l, err := net.Listen("tcp", "127.0.0.1:0")
	if err != nil {
		panic(err)
	}
	cl := &cutListener{Listener: l}
	gs := grpc.NewServer(grpc.UnaryInterceptor(func(ctx context.Context, req any, info *grpc.UnaryServerInfo, h grpc.UnaryHandler) (any, error) {
		if strings.HasPrefix(info.FullMethod, "/target.") {
			md, _ := metadata.FromIncomingContext(ctx)
			if v := md.Get("x-gone"); len(v) > 0 {
				cl.cut()
				select {
				case <-ctx.Done():
				case <-time.After(20 * time.Second):
				}
				return nil, status.Error(codes.Unavailable, "gone")
			}
			if v := md.Get("x-code"); len(v) > 0 {
				n, err := strconv.ParseUint(v[0], 10, 32)
				if err == nil && n != 0 {
					return nil, status.Error(codes.Code(n), "scripted")
				}
			}
		}
		return h(ctx, req)
	}))
	srv := server.NewServer(slog.New(slog.NewTextHandler(io.Discard, nil)), 1)
	server.RegisterTargetServiceServer(gs, srv)
	reflection.Register(gs)
	go func() { _ = gs.Serve(cl) }()
	return l.Addr().String(), func() { cl.cut(); gs.Stop() }
}

// grpcTargetFor: the shared gRPC target, or a private one that can go away when the case scripts a `gone` request.
func grpcTargetFor(script string) (addr string, stop func()) {
	if strings.Contains(script, ",gone,") {
		var a string
		var st func()
		var last any
		for try := 0; try < 20 && a == ""; try++ {
			func() {
				defer func() {
					if r := recover(); r != nil {
						last = r
					}
				}()
				a, st = newGoneTarget()
			}()
			if a == "" {
				time.Sleep(500 * time.Millisecond)
			}
		}
		if a == "" {
			panic(fmt.Sprint("no target: ", last))
		}
		return a, st
	}
	return sharedGrpc(), func() {}
}

// ---------------------------------------------------------------- k=shootstress : Shoot at CPU speed from many instances

// stubClient answers without a network: status 200 + (number after the last 'x' of the path) mod 300, a one-byte body.
type stubClient struct{}

func stubStatus(path string) int {
	i := strings.LastIndexByte(path, 'x')
	n, _ := strconv.Atoi(path[i+1:])
	return 200 + n%300
}

func (stubClient) Do(req *http.Request) (*http.Response, error) {
	return &http.Response{StatusCode: stubStatus(req.URL.Path), Proto: "HTTP/1.1", ProtoMajor: 1, ProtoMinor: 1,
		Header: http.Header{}, Body: io.NopCloser(strings.NewReader("x")), Request: req}, nil
}
func (stubClient) CloseIdleConnections() {}

func stressPath(k int) string { return fmt.Sprintf("/s%d/t%d/x%d", k%7, k%5, k) }
func stressTag(k int) string  { return []string{"", "T"}[k%2] }

// runShootStress: g instances, each with its OWN gun built by the public constructor (as core/engine gives every
// instance its own gun) and bound to its own aggregator, shoot n ammo each as fast as they can: the real
// ProviderBase.NextID hands out the ids, the real NewGunAmmo / GunAmmo.Request build the samples, BaseGun.Shoot fills
// them; only the network is replaced (Client stub). The requests cycle through `paths` paths, so that whatever the guns
// of a process share is hit by all instances at once, with the same and with different paths. The observation lists, for
// every path, the distinct (tag, proto, net) triples its samples carried.
func runShootStress(m map[string]string) string {
	g, n, paths := atoi(m["g"], 8), atoi(m["n"], 1000), atoi(m["paths"], 35)
	conf := phttp.DefaultHTTPGunConfig()
	conf.Target = "127.0.0.1:1"
	conf.TargetResolved = "127.0.0.1:1"
	conf.AutoTag.Enabled = m["auto"] == "1"
	conf.AutoTag.URIElements = atoi(m["el"], 2)
	conf.AutoTag.NoTagOnly = m["nto"] == "1"
	var pb pbase.ProviderBase
	recs := make([]*nsRec, g)
	start := make(chan struct{})
	var wg sync.WaitGroup
	bindErr := atomic.Bool{}
	for i := 0; i < g; i++ {
		recs[i] = &nsRec{}
		gun := phttp.NewHTTP1Gun(conf, zap.NewNop())
		if err := gun.Bind(recs[i], core.GunDeps{Ctx: context.Background(), Log: zap.NewNop()}); err != nil {
			bindErr.Store(true)
			continue
		}
		gun.Client = stubClient{}
		wg.Add(1)
		go func(i int) {
			defer wg.Done()
			<-start
			for j := 0; j < n; j++ {
				k := (i*7 + j) % paths
				req, err := http.NewRequest("GET", stressPath(k), nil)
				if err != nil {
					return
				}
				gun.Shoot(httpammo.NewGunAmmo(req, stressTag(k), pb.NextID()))
			}
		}(i)
	}
	if bindErr.Load() {
		return "bind-error"
	}
	close(start)
	wg.Wait()
	total := 0
	ids := map[uint64]bool{}
	seen := make([]map[string]bool, paths)
	stray := 0
	for _, r := range recs {
		for _, s := range r.got {
			total++
			ids[s.ID()] = true
			// the stub answers path k with status 200+k (paths <= 300): the sample is attributed to its path by its code
			k := s.ProtoCode() - 200
			if k < 0 || k >= paths {
				stray++
				continue
			}
			if seen[k] == nil {
				seen[k] = map[string]bool{}
			}
			seen[k][fmt.Sprintf("%s:%d:%d", hx(s.Tags()), s.ProtoCode(), netOf(s))] = true
		}
	}
	var parts []string
	for k := 0; k < paths; k++ {
		var vs []string
		for v := range seen[k] {
			vs = append(vs, v)
		}
		sort.Strings(vs)
		parts = append(parts, fmt.Sprintf("%d=%s", k, strings.Join(vs, "/")))
	}
	return fmt.Sprintf("res=ok count=%d distinct=%d stray=%d p=%s", total, len(ids), stray, strings.Join(parts, ";"))
}
